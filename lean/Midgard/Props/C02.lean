/-
C02 — Every time format represents the same instant and survives a round trip.

Property theorems only (exact over `Rat`/`Int`; floating-point error is measured by
harness/c02.py).  `inst j = jd1 + jd2`.

The six text formats are theorems about the `List Char` functions of `Model/TimeText.lean` that the
driver executes against CPython (`text_parse_render`, `isot_roundtrip`, `yds_roundtrip`,
`date_roundtrip`, `text_roundtrip`, `isot_short_year`; lemmas in `Proofs/TimeText.lean`, digit-level core
in `Proofs/Digits.lean`).
-/
import Midgard.Model.TimeText
import Midgard.Generated.TimeScaleTables
import Midgard.Proofs.Calendar
import Midgard.Proofs.TimeText
import Midgard.Proofs.TimeDecimalYear
import Midgard.Model.TimeFormats
import Midgard.Generated.TimeFormatDispatch
import Midgard.Generated.SourceExprsTimeFmt
import Mathlib.Tactic.Linarith
import Mathlib.Tactic.FieldSimp
import Mathlib.Tactic.Ring
import Mathlib.Algebra.Order.Field.Rat
import Mathlib.Algebra.Order.Floor.Ring
import Mathlib.Data.Rat.Floor
import Midgard.Generated.SourceExprsTime
import Mathlib.Tactic.NormNum

set_option linter.unusedSimpArgs false

namespace Midgard.Props.C02
open Midgard.TimeFormat Midgard.TimeArith

/-! ### Floor facts (core `Rat.floor`) -/

theorem floor_le_self (x : Rat) : (x.floor : Rat) ≤ x := Rat.floor_le x
theorem lt_floor_add_one_self (x : Rat) : x < (x.floor : Rat) + 1 := by
  have := Rat.lt_floor_add_one x; rwa [Rat.intCast_add] at this
theorem floor_int_add (n : Int) (x : Rat) : ((n : Rat) + x).floor = n + x.floor := by
  rw [add_comm, Rat.floor_add_intCast, add_comm]

theorem frac_range (x : Rat) : 0 ≤ x - (x.floor : Rat) ∧ x - (x.floor : Rat) < 1 := by
  have h1 := floor_le_self x; have h2 := lt_floor_add_one_self x
  constructor <;> linarith

theorem rhe_close (x : Rat) : |((roundHalfEven x : Int) : Rat) - x| ≤ 1 / 2 := by
  have h1 := floor_le_self x; have h2 := lt_floor_add_one_self x
  unfold roundHalfEven
  simp only
  split_ifs with a b c
  · rw [abs_le]; constructor <;> linarith
  · rw [abs_le]; push_cast; constructor <;> linarith
  · have : x - (x.floor : Rat) = 1 / 2 := le_antisymm (not_lt.mp b) (not_lt.mp a)
    rw [abs_le]; constructor <;> linarith
  · have : x - (x.floor : Rat) = 1 / 2 := le_antisymm (not_lt.mp b) (not_lt.mp a)
    rw [abs_le]; push_cast; constructor <;> linarith

theorem rhe_int (n : Int) : roundHalfEven (n : Rat) = n := by
  have h0 : ((n : Rat) - (n : Rat)) = 0 := sub_self _
  have h1 : (0 : Rat) < 1 / 2 := by norm_num
  simp [roundHalfEven, Rat.floor_intCast, h0, h1]

/-! ### jd and mjd (one- and two-part input) -/

/-- the constructor denotes exactly `val + val2` -/
theorem jd_inst (v v2 : Rat) : (jdToJds v v2).inst = v + v2 := by
  simp only [jdToJds, JD.inst]; ring

theorem mjd_inst (v v2 : Rat) : (mjdToJds v v2).inst = mjd0 + v + v2 := by
  simp only [mjdToJds, JD.inst]; ring

/-- … and normalises: `jd1` is a half-integer, `0 ≤ jd2 < 1` -/
theorem jd_normalised (v v2 : Rat) :
    (∃ k : Int, (jdToJds v v2).jd1 = (k : Rat) + 1 / 2) ∧ 0 ≤ (jdToJds v v2).jd2 ∧ (jdToJds v v2).jd2 < 1 := by
  have h := frac_range (v + v2 - 1 / 2)
  refine ⟨⟨(v + v2 - 1 / 2).floor, by simp only [jdToJds]; ring⟩, ?_, ?_⟩ <;>
    simp only [jdToJds] <;> linarith [h.1, h.2]

/-- for mjd the day part is `2400000.5 + half-integer`, i.e. an integer, and `0 ≤ jd2 < 1` -/
theorem mjd_normalised (v v2 : Rat) :
    (∃ k : Int, (mjdToJds v v2).jd1 = (k : Rat)) ∧ 0 ≤ (mjdToJds v v2).jd2 ∧ (mjdToJds v v2).jd2 < 1 := by
  have h := frac_range (v + v2 - 1 / 2)
  refine ⟨⟨2400001 + (v + v2 - 1 / 2).floor, by simp only [mjdToJds, mjd0]; push_cast; ring⟩, ?_, ?_⟩ <;>
    simp only [mjdToJds] <;> linarith [h.1, h.2]

/-- round trip through the single-number forms is exact -/
theorem jd_roundtrip (j : JD) : (jdToJds (jdFromJds j) 0).inst = j.inst := by
  rw [jd_inst]; simp [jdFromJds, JD.inst]

theorem mjd_roundtrip (j : JD) : (mjdToJds (mjdFromJds j) 0).inst = j.inst := by
  rw [mjd_inst]; simp only [mjdFromJds, JD.inst]; ring

/-! ### jd_int / jd_frac: for **every** `(jd1, jd2)`, normalised or not -/

theorem jd_int_frac (j : JD) :
    jdInt j + jdFrac j = j.inst ∧ (∃ k : Int, jdInt j = (k : Rat) + 1 / 2) ∧ 0 ≤ jdFrac j ∧ jdFrac j < 1 := by
  have h := frac_range ((j.jd1 - 1 / 2 - ((j.jd1 - 1 / 2).floor : Rat)) + j.jd2)
  refine ⟨by simp only [jdInt, jdFrac, JD.inst]; ring, ?_, ?_, ?_⟩
  · refine ⟨(j.jd1 - 1 / 2).floor + ((j.jd1 - 1 / 2 - ((j.jd1 - 1 / 2).floor : Rat)) + j.jd2).floor, ?_⟩
    simp only [jdInt, jdDelta]; push_cast; ring
  · simp only [jdFrac, jdDelta]; linarith [h.1]
  · simp only [jdFrac, jdDelta]; linarith [h.2]

/-! ### datetime -/

/-- building a Time from a `datetime` denotes exactly that many microseconds after 2000-01-01 -/
theorem dt_inst (dt : DateTime) : (dtToJds dt).inst = jd2000dt + (dt : Rat) / (usPerDay : Rat) := by
  simp only [dtToJds, JD.inst, usPerDay]
  push_cast
  field_simp
  ring

theorem dt_normalised (dt : DateTime) :
    (∃ k : Int, (dtToJds dt).jd1 = (k : Rat) + 1 / 2) ∧ 0 ≤ (dtToJds dt).jd2 ∧ (dtToJds dt).jd2 < 1 := by
  have hpos : (0 : Int) < usPerDay := by decide
  have h1 : 0 ≤ dt - (dt / usPerDay) * usPerDay := by
    have := Int.emod_nonneg dt (ne_of_gt hpos)
    have e := Int.emod_def dt usPerDay
    linarith [Int.mul_comm (dt / usPerDay) usPerDay]
  have h2 : dt - (dt / usPerDay) * usPerDay < usPerDay := by
    have := Int.emod_lt_of_pos dt hpos
    have e := Int.emod_def dt usPerDay
    linarith [Int.mul_comm (dt / usPerDay) usPerDay]
  refine ⟨⟨2451544 + (dt / usPerDay), by simp only [dtToJds, jd2000dt]; push_cast; ring⟩, ?_, ?_⟩
  · simp only [dtToJds]
    apply div_nonneg
    · exact_mod_cast h1
    · norm_num [usPerDay]
  · simp only [dtToJds]
    rw [div_lt_one (by norm_num [usPerDay])]
    exact_mod_cast h2

/-- reading a datetime back from the Time built from it returns it exactly (whole days and the
sub-day microseconds are each integers, so neither `timedelta` rounds) -/
theorem dt_readback (dt : DateTime) : dtFromJds (dtToJds dt) = dt := by
  simp only [dtFromJds, dtToJds, jd2000dt]
  have e1 : ((4903089 / 2 : Rat) + (((dt / usPerDay) : Int) : Rat) - 4903089 / 2) * (usPerDay : Rat)
      = (((dt / usPerDay) * usPerDay : Int) : Rat) := by push_cast; ring
  have e2 : (((dt - (dt / usPerDay) * usPerDay : Int) : Rat) / (usPerDay : Rat)) * (usPerDay : Rat)
      = ((dt - (dt / usPerDay) * usPerDay : Int) : Rat) := by
    have : ((usPerDay : Int) : Rat) ≠ 0 := by norm_num [usPerDay]
    field_simp
  rw [e1, e2, rhe_int, rhe_int]; ring

/-- reading any Time as datetime and constructing again changes the instant by at most
1 µs (two half-microsecond roundings) -/
theorem dt_roundtrip (j : JD) : |(dtToJds (dtFromJds j)).inst - j.inst| ≤ 1 / (usPerDay : Rat) := by
  rw [dt_inst]
  have a := rhe_close ((j.jd1 - jd2000dt) * (usPerDay : Rat))
  have b := rhe_close (j.jd2 * (usPerDay : Rat))
  have hU : (0 : Rat) < (usPerDay : Rat) := by norm_num [usPerDay]
  simp only [dtFromJds, JD.inst]
  rw [abs_le] at a b ⊢
  push_cast
  constructor
  · rw [← sub_nonneg]
    have : jd2000dt + ((roundHalfEven ((j.jd1 - jd2000dt) * (usPerDay : Rat)) : Rat) + (roundHalfEven (j.jd2 * (usPerDay : Rat)) : Rat)) / (usPerDay : Rat)
        - (j.jd1 + j.jd2) - -(1 / (usPerDay : Rat))
        = (((roundHalfEven ((j.jd1 - jd2000dt) * (usPerDay : Rat)) : Rat) - (j.jd1 - jd2000dt) * (usPerDay : Rat))
          + ((roundHalfEven (j.jd2 * (usPerDay : Rat)) : Rat) - j.jd2 * (usPerDay : Rat)) + 1) / (usPerDay : Rat) := by
      field_simp; ring
    rw [this]; apply div_nonneg _ (le_of_lt hU); linarith [a.1, b.1]
  · rw [← sub_nonneg]
    have : 1 / (usPerDay : Rat) - (jd2000dt + ((roundHalfEven ((j.jd1 - jd2000dt) * (usPerDay : Rat)) : Rat) + (roundHalfEven (j.jd2 * (usPerDay : Rat)) : Rat)) / (usPerDay : Rat)
        - (j.jd1 + j.jd2))
        = (1 - (((roundHalfEven ((j.jd1 - jd2000dt) * (usPerDay : Rat)) : Rat) - (j.jd1 - jd2000dt) * (usPerDay : Rat))
          + ((roundHalfEven (j.jd2 * (usPerDay : Rat)) : Rat) - j.jd2 * (usPerDay : Rat)))) / (usPerDay : Rat) := by
      field_simp; ring
    rw [this]; apply div_nonneg _ (le_of_lt hU); linarith [a.2, b.2]

/-! ### GPS week/seconds and GPS seconds -/

/-- week and seconds denote `1980-01-06 + 7·week days + seconds`: linear in the week, no modulo
anywhere, so weeks 1023/1024, 2047/2048 are not special -/
theorem ws_inst (week sec : Rat) : (wsToJds week sec).inst = jdGps0 + week * 7 + sec / 86400 := by
  simp only [wsToJds, JD.inst]; ring

theorem ws_normalised (week sec : Rat) : 0 ≤ (wsToJds week sec).jd2 ∧ (wsToJds week sec).jd2 < 1 := by
  have h := frac_range ((sec + 43200) / 86400)
  simp only [wsToJds]
  constructor
  · apply div_nonneg _ (by norm_num); linarith [h.1]
  · rw [div_lt_one (by norm_num)]; linarith [h.2]

/-- reading week/seconds/day from any GPS-scale Time on or after 1980-01-06 and constructing
again gives exactly the same instant; the day number is in 0..6 and week·7 + day counts the days
since 1980-01-06 -/
theorem ws_roundtrip (j : JD) (w : WeekSec) (h : wsFromJds j = some w) :
    (wsToJds w.week w.seconds).inst = j.inst ∧ 0 ≤ w.day ∧ w.day < 7 := by
  unfold wsFromJds at h
  split_ifs at h with hg
  simp only [Option.some.injEq] at h
  subst h
  -- the day part is an integer plus one half
  obtain ⟨n, hn⟩ : ∃ n : Int, j.jd1 - jdDelta j = (n : Rat) + 1 / 2 := by
    have := (jd_int_frac j).2.1
    simpa only [jdInt] using this
  set jdI := j.jd1 - jdDelta j with hjdI
  have hw := frac_range ((jdI - jdGps0) / 7)
  set W : Rat := (((jdI - jdGps0) / 7).floor : Rat) with hW
  have hd := frac_range (jdI - jdGps0 - W * 7)
  refine ⟨?_, ?_, ?_⟩
  · rw [ws_inst]; simp only [JD.inst]
    have hint : (((jdI - jdGps0 - W * 7).floor : Int) : Rat) = jdI - jdGps0 - W * 7 := by
      have : jdI - jdGps0 - W * 7
          = ((n - 2444244 - ((jdI - jdGps0) / 7).floor * 7 : Int) : Rat) := by
        rw [hW]; simp only [jdGps0]; push_cast; linarith [hn]
      rw [this, Rat.floor_intCast]
    rw [hint]; simp only [hjdI]; ring
  · have : (0 : Rat) ≤ jdI - jdGps0 - W * 7 := by linarith [hw.1]
    have h0 : ((0 : Int) : Rat) ≤ jdI - jdGps0 - W * 7 := by simpa using this
    have := Rat.floor_monotone h0
    rw [Rat.floor_intCast] at this
    show (0 : Rat) ≤ (((jdI - jdGps0 - W * 7).floor : Int) : Rat)
    exact_mod_cast this
  · have hlt : jdI - jdGps0 - W * 7 < 7 := by linarith [hw.2]
    have := floor_le_self (jdI - jdGps0 - W * 7)
    show (((jdI - jdGps0 - W * 7).floor : Int) : Rat) < 7
    linarith
theorem gs_inst (v : Rat) : (gsToJds v).inst = jdGps0 + v / 86400 := by
  simp only [gsToJds, JD.inst]; ring

theorem gs_roundtrip (j : JD) (x : Rat) (h : gsFromJds j = some x) : (gsToJds x).inst = j.inst := by
  unfold gsFromJds at h
  split_ifs at h
  simp only [Option.some.injEq] at h
  subst h
  rw [gs_inst]; simp only [JD.inst]; ring

/-- the guard: before 1980-01-06 both GPS formats are refused, from then on they are defined -/
theorem gps_guard (j : JD) : ((wsFromJds j).isSome ↔ jdGps0 ≤ j.inst) ∧ ((gsFromJds j).isSome ↔ jdGps0 ≤ j.inst) := by
  simp only [wsFromJds, gsFromJds, JD.inst]
  constructor <;> split_ifs with h <;> simp <;> linarith

/-! ### Julian year -/

theorem jy_inst (v : Rat) : (jyToJds v).inst = jd2000noon + (v - 2000) * julianYear := by
  simp only [jyToJds, JD.inst]; ring

theorem jy_roundtrip (j : JD) : (jyToJds (jyFromJds j)).inst = j.inst := by
  rw [jy_inst]; simp only [jyFromJds, JD.inst, julianYear]; field_simp; ring

theorem jy_normalised (v : Rat) : 0 ≤ (jyToJds v).jd2 ∧ (jyToJds v).jd2 < 1 := by
  have h := frac_range ((v - 2000) * julianYear)
  simpa only [jyToJds] using h


/-! ### Decimal year (variable year length; in UTC the leap seconds are part of the year) -/

section DecimalYear
open Midgard.TimeScale
open Midgard.Generated.TimeScale (taiutc consts)

/-- **Year length, every scale but UTC**: the calendar length, 366 days in leap years (every 4th year except the
centuries not divisible by 400), otherwise 365 — for every year (the code's special case 9999 ↦ 365 agrees). -/
theorem year2days_calendar (tbl : List Row) (tol : Rat) (y : Int) (s : Scale) (hs : s ≠ .utc) :
    year2days tbl tol y s = (yearLen y : Rat) ∧ yearLen y = if isLeap y then 366 else 365 := by
  refine ⟨?_, yearLen_eq y⟩
  unfold year2days
  split_ifs with h9
  · subst h9; rw [yearLen_eq]; decide +kernel
  · cases s <;> first | exact absurd rfl hs | (simp only [yearStart_succ]; ring)

/-- **Year length in UTC**: the calendar length plus the growth of TAI−UTC over the year (the leap seconds) -/
theorem year2days_utc (tbl : List Row) (tol : Rat) (y : Int) (h9 : y ≠ 9999) :
    year2days tbl tol y .utc = (yearLen y : Rat)
      + (deltaUtc tbl tol ⟨yearStartJd1 (y + 1), 0⟩ - deltaUtc tbl tol ⟨yearStartJd1 y, 0⟩) := by
  unfold year2days
  simp only [h9, if_false, utc2tai, yearStart_succ]
  ring

/-- what a decimal year `v ≥ 0` denotes: start of year `⌊v⌋` plus the fraction of that year's length -/
theorem dy_inst (tbl : List Row) (tol : Rat) (s : Scale) (v : Rat) (hv : 0 ≤ v) :
    (dyToJds tbl tol s v).inst = yearStartJd1 v.floor + (v - (v.floor : Rat)) * year2days tbl tol v.floor s := by
  simp only [dyToJds, JD.inst, truncRat_nonneg v hv]; ring

theorem dyFromJds_eq (tbl : List Row) (tol : Rat) (s : Scale) (j : JD) :
    dyFromJds tbl tol s j = (dyYear j : Rat) + (j.inst - yearStartJd1 (dyYear j)) / year2days tbl tol (dyYear j) s := by
  simp only [dyFromJds, dyYear, JD.inst]; ring

/-- **Round trip of the decimal year, exact**: for every scale and every epoch that lies in the year it is counted in
(`0 ≤ days < year length`, year ≥ 0), reading `.decimalyear` and constructing again gives exactly the same instant. -/
theorem dy_roundtrip (tbl : List Row) (tol : Rat) (s : Scale) (j : JD)
    (hY : 0 ≤ dyYear j) (h0 : yearStartJd1 (dyYear j) ≤ j.inst)
    (h1 : j.inst < yearStartJd1 (dyYear j) + year2days tbl tol (dyYear j) s) :
    (dyToJds tbl tol s (dyFromJds tbl tol s j)).inst = j.inst := by
  set Y := dyYear j with hYd
  set L := year2days tbl tol Y s with hL
  have hLpos : 0 < L := by linarith
  set x := (j.inst - yearStartJd1 Y) / L with hx
  have hx0 : 0 ≤ x := div_nonneg (by linarith) (le_of_lt hLpos)
  have hx1 : x < 1 := by rw [hx, div_lt_one hLpos]; linarith
  have hv : dyFromJds tbl tol s j = (Y : Rat) + x := dyFromJds_eq tbl tol s j
  have hYr : (0 : Rat) ≤ (Y : Rat) := by exact_mod_cast hY
  have hfl : ((Y : Rat) + x).floor = Y := floor_add_frac Y x hx0 hx1
  rw [hv, dy_inst tbl tol s _ (by linarith), hfl, ← hL]
  have : x * L = j.inst - yearStartJd1 Y := by rw [hx]; field_simp
  linarith

/-- a datetime lies in its calendar year -/
theorem dt_year_window (dt : DateTime) :
    yearStartJd1 (fieldsOf dt).year ≤ (dtToJds dt).inst ∧ (dtToJds dt).inst < yearStartJd1 ((fieldsOf dt).year + 1) := by
  have hw := year_window (dt / usPerDay)
  have e0 := Int.emod_def dt usPerDay
  have r0 := Int.emod_nonneg dt (show usPerDay ≠ 0 by decide)
  have r1 := Int.emod_lt_of_pos dt (show (0 : Int) < usPerDay by decide)
  have hy : (fieldsOf dt).year = (civilFromDays (dt / usPerDay)).1 := rfl
  rw [hy, dt_inst]
  simp only [yearStartJd1]
  set n := dt / usPerDay with hn
  have hU : (0 : Rat) < (usPerDay : Rat) := by norm_num [usPerDay]
  have a : (n : Rat) ≤ (dt : Rat) / (usPerDay : Rat) := by
    rw [le_div_iff₀ hU]; exact_mod_cast (by nlinarith [Int.mul_comm usPerDay n] : n * usPerDay ≤ dt)
  have b : (dt : Rat) / (usPerDay : Rat) < (n : Rat) + 1 := by
    rw [div_lt_iff₀ hU]; exact_mod_cast (by nlinarith [Int.mul_comm usPerDay n] : dt < (n + 1) * usPerDay)
  have c1 : ((daysFromCivil (civilFromDays n).1 1 1 : Int) : Rat) ≤ (n : Rat) := by exact_mod_cast hw.1
  have c2 : (n : Rat) + 1 ≤ ((daysFromCivil ((civilFromDays n).1 + 1) 1 1 : Int) : Rat) := by exact_mod_cast hw.2
  constructor <;> linarith

/-- every epoch is within 1 µs of the year `.decimalyear` counts it in (the two datetime roundings) -/
theorem dy_window (j : JD) :
    yearStartJd1 (dyYear j) - 1 / (usPerDay : Rat) ≤ j.inst ∧
    j.inst < yearStartJd1 (dyYear j) + (yearLen (dyYear j) : Rat) + 1 / (usPerDay : Rat) := by
  have h := dt_year_window (dtFromJds j)
  have r := dt_roundtrip j
  rw [abs_le] at r
  rw [yearStart_succ] at h
  simp only [dyYear]
  constructor <;> linarith [h.1, h.2, r.1, r.2]

/-- an epoch that *is* a datetime (built from one) is counted in its own year: the window of `dy_roundtrip` holds -/
theorem dy_window_dt (dt : DateTime) :
    dyYear (dtToJds dt) = (fieldsOf dt).year ∧ yearStartJd1 (fieldsOf dt).year ≤ (dtToJds dt).inst ∧
    (dtToJds dt).inst < yearStartJd1 (fieldsOf dt).year + (yearLen (fieldsOf dt).year : Rat) := by
  have h := dt_year_window dt
  rw [yearStart_succ] at h
  refine ⟨by simp only [dyYear, dt_readback], h.1, h.2⟩

/-- **Round trip of the decimal year for every epoch** (scales other than UTC, year ≥ 1): reading `.decimalyear` from any
`(jd1, jd2)` and constructing again moves the instant by at most 1/365 µs — and by nothing unless the microsecond
rounding of the datetime that supplies the year crossed a year boundary (`dy_roundtrip`).  The single-float value of
the format quantises to ≈ 40 µs·(year/2000); that is floating point, measured by the check. -/
theorem dy_roundtrip_any (tbl : List Row) (tol : Rat) (s : Scale) (hs : s ≠ .utc) (j : JD) (hY : 1 ≤ dyYear j) :
    |(dyToJds tbl tol s (dyFromJds tbl tol s j)).inst - j.inst| ≤ 1 / (usPerDay : Rat) / 365 := by
  have hw := dy_window j
  set Y := dyYear j with hYd
  have hu : (1 : Rat) / (usPerDay : Rat) = 1 / 86400000000 := by norm_num [usPerDay]
  rw [hu] at hw ⊢
  have hL := (year2days_calendar tbl tol Y s hs).1
  have hYr : (1 : Rat) ≤ (Y : Rat) := by exact_mod_cast hY
  by_cases hlo : yearStartJd1 Y ≤ j.inst
  · by_cases hhi : j.inst < yearStartJd1 Y + (yearLen Y : Rat)
    · -- inside the year: exact
      rw [dy_roundtrip tbl tol s j (by omega) hlo (by rw [← hYd, hL]; exact hhi)]
      simp only [sub_self, abs_zero]; norm_num
    · -- rounded down across the end of the year
      rw [not_lt] at hhi
      have hL1 := (year2days_calendar tbl tol (Y + 1) s hs).1
      set d := j.inst - yearStartJd1 Y with hd
      have hv : dyFromJds tbl tol s j = ((Y + 1 : Int) : Rat) + (d - (yearLen Y : Rat)) / (yearLen Y : Rat) := by
        rw [dyFromJds_eq, ← hYd, hL]
        rcases yearLen_cases Y with h | h <;> rw [h] <;> push_cast <;> field_simp <;> ring
      have hx0 : 0 ≤ (d - (yearLen Y : Rat)) / (yearLen Y : Rat) := by
        rcases yearLen_cases Y with h | h <;> rw [h] at hhi ⊢ <;> apply div_nonneg <;> linarith
      have hx1 : (d - (yearLen Y : Rat)) / (yearLen Y : Rat) < 1 := by
        rcases yearLen_cases Y with h | h <;> rw [h] at hw ⊢ <;> rw [div_lt_one (by norm_num)] <;> linarith [hw.2]
      have hfl := floor_add_frac (Y + 1) _ hx0 hx1
      rw [hv, dy_inst tbl tol s _ (by push_cast; linarith), hfl, hL1, yearStart_succ]
      rw [abs_le]
      rcases yearLen_cases Y with h | h <;> rcases yearLen_cases (Y + 1) with h' | h' <;>
        rw [h] at hhi hw ⊢ <;> rw [h'] <;> constructor <;> linarith [hw.2]
  · -- rounded up across the start of the year
    rw [not_le] at hlo
    have hL1 := (year2days_calendar tbl tol (Y - 1) s hs).1
    have hys : yearStartJd1 Y = yearStartJd1 (Y - 1) + (yearLen (Y - 1) : Rat) := by
      rw [← yearStart_succ]; congr 1; omega
    set d := j.inst - yearStartJd1 Y with hd
    have hv : dyFromJds tbl tol s j = ((Y - 1 : Int) : Rat) + (1 + d / (yearLen Y : Rat)) := by
      rw [dyFromJds_eq, ← hYd, hL]; push_cast; ring
    have hx0 : 0 ≤ 1 + d / (yearLen Y : Rat) := by
      have : -1 ≤ d / (yearLen Y : Rat) := by
        rcases yearLen_cases Y with h | h <;> rw [h] <;> rw [le_div_iff₀ (by norm_num)] <;> linarith [hw.1]
      linarith
    have hx1 : 1 + d / (yearLen Y : Rat) < 1 := by
      have : d / (yearLen Y : Rat) < 0 := by
        rcases yearLen_cases Y with h | h <;> rw [h] <;> apply div_neg_of_neg_of_pos <;> linarith
      linarith
    have hfl := floor_add_frac (Y - 1) _ hx0 hx1
    rw [hv, dy_inst tbl tol s _ (by push_cast; linarith), hfl, hL1]
    rw [abs_le]
    rcases yearLen_cases Y with h | h <;> rcases yearLen_cases (Y - 1) with h' | h' <;>
      rw [h'] at hys ⊢ <;> rw [h] <;> constructor <;> linarith [hw.1]

theorem yearStart_mono_late (y : Int) (h : 2017 ≤ y) : yearStartJd1 2017 ≤ yearStartJd1 y := by
  have : daysFromCivil 2017 1 1 ≤ daysFromCivil y 1 1 := by
    simp only [daysFromCivil, dfc_eq, yearBase]; norm_num; omega
  simp only [yearStartJd1]
  have : ((daysFromCivil 2017 1 1 : Int) : Rat) ≤ ((daysFromCivil y 1 1 : Int) : Rat) := by exact_mod_cast this
  linarith

theorem yearStart_mono_early (y : Int) (h : y ≤ 1961) : yearStartJd1 y ≤ yearStartJd1 1961 := by
  have : daysFromCivil y 1 1 ≤ daysFromCivil 1961 1 1 := by
    simp only [daysFromCivil, dfc_eq, yearBase]; norm_num; omega
  simp only [yearStartJd1]
  have : ((daysFromCivil y 1 1 : Int) : Rat) ≤ ((daysFromCivil 1961 1 1 : Int) : Rat) := by exact_mod_cast this
  linarith

/-- from the start of the last table row on, TAI−UTC is that row's constant -/
theorem deltaUtc_late (j : JD) (h : yearStartJd1 2017 ≤ j.inst) :
    deltaUtc taiutc consts.tol j = deltaUtc taiutc consts.tol ⟨yearStartJd1 2017, 0⟩ := by
  have hall : ∀ r ∈ taiutc, r.start ≤ yearStartJd1 2017 ∧ 0 ≤ consts.tol := by decide +kernel
  have cnt : ∀ k : JD, yearStartJd1 2017 ≤ k.inst → startedUtc taiutc consts.tol k = taiutc.length := by
    intro k hk
    unfold startedUtc
    rw [List.countP_eq_length]
    intro r hr
    have := hall r hr
    simp only [decide_eq_true_eq, JD.inst] at hk ⊢
    linarith [this.1, this.2]
  unfold deltaUtc
  rw [cnt j h, cnt ⟨yearStartJd1 2017, 0⟩ (by simp [JD.inst])]
  have hr : (rowAt taiutc taiutc.length).rate = 0 := by decide +kernel
  simp only [Row.deltaAt, hr, mul_zero]

/-- up to the start of the first table row, TAI−UTC is extrapolated along the first row -/
theorem deltaUtc_early (j : JD) (h : j.inst ≤ yearStartJd1 1961) :
    rowAt taiutc (startedUtc taiutc consts.tol j) = taiutc.headD default := by
  have hall : ∀ r ∈ taiutc.tail, yearStartJd1 1961 + consts.tol < r.start := by decide +kernel
  have cnt : startedUtc taiutc consts.tol j ≤ 1 := by
    unfold startedUtc
    have e : taiutc = taiutc.headD default :: taiutc.tail := by decide +kernel
    rw [e, List.countP_cons]
    have : taiutc.tail.countP (fun r => decide (0 ≤ (j.jd1 - r.start) + j.jd2 + consts.tol)) = 0 := by
      rw [List.countP_eq_zero]
      intro r hr
      have := hall r hr
      simp only [decide_eq_true_eq, JD.inst, not_le] at h ⊢
      linarith
    rw [this]; split_ifs <;> omega
  have : startedUtc taiutc consts.tol j = 0 ∨ startedUtc taiutc consts.tol j = 1 := by omega
  rcases this with h0 | h0 <;> rw [h0] <;> decide +kernel

/-- **Year length in UTC is never shorter than the calendar year** (table of the tree under test): the leap seconds and
the pre-1972 drift only lengthen a year — so every epoch of a calendar year has its decimal year inside that year. -/
theorem year2days_utc_ge (y : Int) : (yearLen y : Rat) ≤ year2days taiutc consts.tol y .utc := by
  by_cases h9 : y = 9999
  · subst h9; unfold year2days; simp only [if_true]; rw [yearLen_eq]; decide +kernel
  rw [year2days_utc _ _ y h9]
  suffices 0 ≤ deltaUtc taiutc consts.tol ⟨yearStartJd1 (y + 1), 0⟩ - deltaUtc taiutc consts.tol ⟨yearStartJd1 y, 0⟩ by linarith
  by_cases hl : 2017 ≤ y
  · rw [deltaUtc_late ⟨yearStartJd1 (y + 1), 0⟩ (by simpa [JD.inst] using yearStart_mono_late (y + 1) (by omega)),
      deltaUtc_late ⟨yearStartJd1 y, 0⟩ (by simpa [JD.inst] using yearStart_mono_late y hl)]
    linarith
  by_cases he : y ≤ 1960
  · unfold deltaUtc
    rw [deltaUtc_early ⟨yearStartJd1 (y + 1), 0⟩ (by simpa [JD.inst] using yearStart_mono_early (y + 1) (by omega)),
      deltaUtc_early ⟨yearStartJd1 y, 0⟩ (by simpa [JD.inst] using yearStart_mono_early y (by omega))]
    have hr : (0 : Rat) ≤ (taiutc.headD default).rate := by decide +kernel
    have hL := yearLen_cases y
    simp only [Row.deltaAt, mjdOf, yearStart_succ, secPerDay]
    have : (0 : Rat) ≤ (yearLen y : Rat) := by rcases hL with h | h <;> rw [h] <;> norm_num
    have key : ((taiutc.headD default).offset + (yearStartJd1 y + (yearLen y : Rat) - TimeScale.mjd0 + 0 - (taiutc.headD default).refMjd) * (taiutc.headD default).rate) / 86400
        - ((taiutc.headD default).offset + (yearStartJd1 y - TimeScale.mjd0 + 0 - (taiutc.headD default).refMjd) * (taiutc.headD default).rate) / 86400
        = (yearLen y : Rat) * (taiutc.headD default).rate / 86400 := by ring
    rw [key]; positivity
  · -- the years of the table: 1961 … 2016, evaluated
    have hfin : ∀ k ∈ List.range 56, 0 ≤ deltaUtc taiutc consts.tol ⟨yearStartJd1 ((1961 + k : Nat) + 1), 0⟩
        - deltaUtc taiutc consts.tol ⟨yearStartJd1 (1961 + k : Nat), 0⟩ := by decide +kernel
    obtain ⟨k, hk, rfl⟩ : ∃ k : Nat, k < 56 ∧ y = ((1961 + k : Nat) : Int) := ⟨(y - 1961).toNat, by omega, by omega⟩
    exact hfin k (List.mem_range.mpr hk)


/-- **Round trip of the decimal year in every scale, UTC with its leap seconds included** (TAI−UTC table of the tree under
test): an epoch inside the calendar year it is counted in comes back exactly. -/
theorem dy_roundtrip_table (s : Scale) (j : JD) (hY : 0 ≤ dyYear j) (h0 : yearStartJd1 (dyYear j) ≤ j.inst)
    (h1 : j.inst < yearStartJd1 (dyYear j) + (yearLen (dyYear j) : Rat)) :
    (dyToJds taiutc consts.tol s (dyFromJds taiutc consts.tol s j)).inst = j.inst := by
  apply dy_roundtrip _ _ s j hY h0
  by_cases hs : s = .utc
  · subst hs; linarith [year2days_utc_ge (dyYear j)]
  · rw [(year2days_calendar _ _ _ s hs).1]; exact h1

/-- … in particular every epoch that is a datetime (years 0 …), in every scale -/
theorem dy_roundtrip_dt (s : Scale) (dt : DateTime) (hY : 0 ≤ (fieldsOf dt).year) :
    (dyToJds taiutc consts.tol s (dyFromJds taiutc consts.tol s (dtToJds dt))).inst = (dtToJds dt).inst := by
  obtain ⟨e, a, b⟩ := dy_window_dt dt
  exact dy_roundtrip_table s _ (by rw [e]; exact hY) (by rw [e]; exact a) (by rw [e]; exact b)

/-- the constructor normalises: for a decimal year `v ≥ 0` the day part is a whole number (not a half-integer: `int(jd)`)
and `0 ≤ jd2 < 1` -/
theorem dy_normalised (tbl : List Row) (tol : Rat) (s : Scale) (v : Rat)
    (h : 0 ≤ yearStartJd1 (truncRat v) + (v - (truncRat v : Rat)) * year2days tbl tol (truncRat v) s) :
    (∃ k : Int, (dyToJds tbl tol s v).jd1 = (k : Rat)) ∧ 0 ≤ (dyToJds tbl tol s v).jd2 ∧ (dyToJds tbl tol s v).jd2 < 1 := by
  simp only [dyToJds]
  set jd := yearStartJd1 (truncRat v) + (v - (truncRat v : Rat)) * year2days tbl tol (truncRat v) s with hjd
  rw [truncRat_nonneg jd h]
  have r := frac_range jd
  exact ⟨⟨jd.floor, rfl⟩, r.1, r.2⟩

-- non-vacuity: 2000-01-01 is counted in 2000, inside its year; leap-second years are a second longer in UTC
example : dyYear (dtToJds 0) = 2000 ∧ yearStartJd1 2000 ≤ (dtToJds 0).inst ∧
    (dtToJds 0).inst < yearStartJd1 2000 + (yearLen 2000 : Rat) := by decide +kernel
example : year2days taiutc consts.tol 2016 .utc = 366 + 1 / 86400 ∧ year2days taiutc consts.tol 1972 .utc = 366 + 2 / 86400 ∧
    year2days taiutc consts.tol 2017 .utc = 365 ∧ year2days taiutc consts.tol 2016 .tai = 366 ∧
    year2days taiutc consts.tol 1900 .tt = 365 ∧ year2days taiutc consts.tol 2000 .gps = 366 := by decide +kernel
example : dyToJdsG taiutc consts.tol .utc (1 / 2) = none ∧ dyToJdsG taiutc consts.tol .utc (20001 / 2) = none ∧
    (dyToJdsG taiutc consts.tol .utc (4001 / 2)).isSome := by decide +kernel

end DecimalYear

/-! ### Text formats: what is printed is what is parsed -/

/-- Constructing from a datetime truncated to the resolution a pattern prints moves the instant
back by less than that resolution: 0 for the microsecond patterns, < 1 s for `:sssss`,
< 1 day for `date`. -/
theorem trunc_error (f : TextFmt) (dt : DateTime) :
    0 ≤ (dtToJds dt).inst - (dtToJds (truncTo f dt)).inst ∧
    (dtToJds dt).inst - (dtToJds (truncTo f dt)).inst <
      match f with
      | .isot | .iso | .yday => 1 / (usPerDay : Rat)
      | .date => 1
      | .yyddd | .yyyyddd => 1 / 86400 := by
  have key : ∀ n : Int, 0 < n → 0 ≤ dt - (dt / n) * n ∧ dt - (dt / n) * n < n := by
    intro n hn
    have e := Int.emod_def dt n
    have a := Int.emod_nonneg dt (ne_of_gt hn)
    have b := Int.emod_lt_of_pos dt hn
    constructor <;> linarith [Int.mul_comm (dt / n) n]
  have hU : (0 : Rat) < (usPerDay : Rat) := by norm_num [usPerDay]
  rw [dt_inst, dt_inst]
  have hd : ∀ t : DateTime, jd2000dt + (dt : Rat) / (usPerDay : Rat) - (jd2000dt + (t : Rat) / (usPerDay : Rat))
      = ((dt - t : Int) : Rat) / (usPerDay : Rat) := by intro t; push_cast; field_simp; ring
  cases f <;> simp only [truncTo, hd]
  all_goals first
    | (simp only [sub_self, Int.cast_zero, zero_div]; exact ⟨le_refl _, by positivity⟩)
    | (obtain ⟨a, b⟩ := key usPerDay (by decide)
       refine ⟨div_nonneg (by exact_mod_cast a) (le_of_lt hU), ?_⟩
       rw [div_lt_one hU]; exact_mod_cast b)
    | (obtain ⟨a, b⟩ := key usPerSec (by decide)
       refine ⟨div_nonneg (by exact_mod_cast a) (le_of_lt hU), ?_⟩
       rw [div_lt_iff₀ hU]
       have : ((dt - (dt / usPerSec) * usPerSec : Int) : Rat) < (usPerSec : Rat) := by exact_mod_cast b
       have e : (1 : Rat) / 86400 * (usPerDay : Rat) = (usPerSec : Rat) := by norm_num [usPerDay, usPerSec]
       rw [e]; exact this)


/-! ### Calendar: the civil date printed by the text formats determines the day (all years) -/

/-- converting a day number to a civil date and back is the identity, for every day number, and
the month and day are valid -/
theorem calendar_roundtrip (n : Int) :
    daysFromCivil (civilFromDays n).1 (civilFromDays n).2.1 (civilFromDays n).2.2 = n ∧
    1 ≤ (civilFromDays n).2.1 ∧ (civilFromDays n).2.1 ≤ 12 ∧ 1 ≤ (civilFromDays n).2.2 ∧ (civilFromDays n).2.2 ≤ 31 := by
  refine ⟨daysFromCivil_civilFromDays n, ?_⟩
  have := days_civil (n + epoch2000)
  simpa only [civilFromDays] using this.2

/-- the calendar/clock fields the text formats print determine the datetime exactly: reading the
fields back gives the same microsecond count -/
theorem fields_roundtrip (dt : Int) : ofFields (fieldsOf dt) = dt := by
  have hd := daysFromCivil_civilFromDays (dt / 86400000000)
  have e0 := Int.emod_def dt 86400000000
  have r0 := Int.emod_nonneg dt (show (86400000000 : Int) ≠ 0 by decide)
  have r1 := Int.emod_lt_of_pos dt (show (0 : Int) < 86400000000 by decide)
  simp only [fieldsOf, ofFields, usPerDay, usPerSec]
  rw [hd]
  generalize hrem : dt - dt / 86400000000 * 86400000000 = rem
  have h0 : 0 ≤ rem := by omega
  generalize hsecs : rem / 1000000 = secs
  have s0 : 0 ≤ secs := by omega
  have key : (secs / 3600 * 60 + secs / 60 % 60) * 60 + secs % 60 = secs := by omega
  rw [key, ← hrem]
  ring

/-- clock fields are in range -/
theorem fields_range (dt : Int) :
    0 ≤ (fieldsOf dt).hour ∧ (fieldsOf dt).hour < 24 ∧ 0 ≤ (fieldsOf dt).minute ∧ (fieldsOf dt).minute < 60 ∧
    0 ≤ (fieldsOf dt).second ∧ (fieldsOf dt).second < 60 ∧ 0 ≤ (fieldsOf dt).micro ∧ (fieldsOf dt).micro < 1000000 := by
  have e0 := Int.emod_def dt 86400000000
  have r0 := Int.emod_nonneg dt (show (86400000000 : Int) ≠ 0 by decide)
  have r1 := Int.emod_lt_of_pos dt (show (0 : Int) < 86400000000 by decide)
  simp only [fieldsOf, usPerDay, usPerSec]
  generalize hrem : dt - dt / 86400000000 * 86400000000 = rem
  have h0 : 0 ≤ rem := by omega
  have h1 : rem < 86400000000 := by omega
  generalize hsecs : rem / 1000000 = secs
  have s0 : 0 ≤ secs := by omega
  have s1 : secs < 86400 := by omega
  refine ⟨by omega, by omega, by omega, by omega, by omega, by omega, by omega, by omega⟩

/-! ### Text formats: `strptime (strftime t) = t` on `List Char`, for every epoch of the format's domain -/

/-- The epochs a text pattern can carry through `strftime` → `strptime`: the four-digit-year patterns
need a year that *prints* with four digits (glibc's `%Y` does not pad: 1000 … 9999), the two-digit-year
form can only denote 1969 … 2068 (`%y` pivot). -/
def InDomain (f : TextFmt) (dt : DateTime) : Prop :=
  match f with
  | .yyddd => 1969 ≤ (fieldsOf dt).year ∧ (fieldsOf dt).year ≤ 2068
  | _ => 1000 ≤ (fieldsOf dt).year ∧ (fieldsOf dt).year ≤ 9999

/-- **Parsing what was rendered returns the datetime truncated to the printed resolution**, for all six
text formats and every datetime of the format's domain (digits ↔ numbers by induction on the digits,
the civil date by the calendar bijection for all dates, `_str2dt`'s fraction normalisation through the
exact `float`/`format` model). -/
theorem text_parse_render (f : TextFmt) (dt : DateTime) (h : InDomain f dt) :
    parse? f (render f dt) = some (truncTo f dt) := by
  cases f <;> simp only [InDomain] at h <;> simp only [truncTo]
  · exact parse_render_isot dt h
  · exact parse_render_iso dt h
  · exact parse_render_yday dt h
  · exact parse_render_date dt h
  · exact parse_render_yyddd dt h
  · exact parse_render_yyyyddd dt h

/-- `isot` (and `iso`, `yday`): the text carries the datetime exactly — the instant of the Time built from
the parsed text is the instant of the Time built from the datetime -/
theorem isot_roundtrip (f : TextFmt) (hf : f = .isot ∨ f = .iso ∨ f = .yday) (dt : DateTime) (h : InDomain f dt) :
    ∃ j', textToJds f (render f dt) = some j' ∧ j'.inst = (dtToJds dt).inst := by
  refine ⟨dtToJds dt, ?_, rfl⟩
  unfold textToJds
  rw [text_parse_render f dt h]
  rcases hf with rfl | rfl | rfl <;> rfl

/-- `yy:ddd:sssss` / `yyyy:ddd:sssss`: the parsed text is the start of the printed second — less than one
second before the datetime, never after -/
theorem yds_roundtrip (f : TextFmt) (hf : f = .yyddd ∨ f = .yyyyddd) (dt : DateTime) (h : InDomain f dt) :
    ∃ j', textToJds f (render f dt) = some j' ∧
      0 ≤ (dtToJds dt).inst - j'.inst ∧ (dtToJds dt).inst - j'.inst < 1 / 86400 := by
  refine ⟨dtToJds (truncTo f dt), ?_, ?_⟩
  · unfold textToJds; rw [text_parse_render f dt h]; rfl
  · have := trunc_error f dt
    rcases hf with rfl | rfl <;> exact this

/-- `date`: the parsed text is midnight of the printed day — less than one day before the datetime -/
theorem date_roundtrip (dt : DateTime) (h : InDomain .date dt) :
    ∃ j', textToJds .date (render .date dt) = some j' ∧
      0 ≤ (dtToJds dt).inst - j'.inst ∧ (dtToJds dt).inst - j'.inst < 1 := by
  refine ⟨dtToJds (truncTo .date dt), ?_, trunc_error .date dt⟩
  unfold textToJds; rw [text_parse_render .date dt h]; rfl

/-- resolution of a text pattern in days -/
def textRes : TextFmt → Rat
  | .isot | .iso | .yday => 0
  | .date => 1
  | .yyddd | .yyyyddd => 1 / 86400

/-- **Round trip through the text of any Time**: reading a text format from `(jd1, jd2)` and constructing
again moves the instant by at most the pattern's resolution plus the 1 µs of the datetime rounding. -/
theorem text_roundtrip (f : TextFmt) (j : JD) (h : InDomain f (dtFromJds j)) :
    ∃ j', textToJds f (textFromJds f j) = some j' ∧ |j'.inst - j.inst| ≤ textRes f + 1 / (usPerDay : Rat) := by
  refine ⟨dtToJds (truncTo f (dtFromJds j)), ?_, ?_⟩
  · unfold textToJds textFromJds; rw [text_parse_render f _ h]; rfl
  · have a := dt_roundtrip j
    have b := trunc_error f (dtFromJds j)
    rw [abs_le] at a ⊢
    have hU : (0 : Rat) < 1 / (usPerDay : Rat) := by norm_num [usPerDay]
    cases f <;> simp only [textRes, truncTo] at b ⊢ <;> constructor <;> linarith [a.1, a.2, b.1, b.2]

/-- the domain is sharp at its lower end: below year 1000 glibc prints the year with fewer than four
digits and `strptime`'s `%Y` refuses the text (midgard then raises `ValueError`) -/
theorem isot_short_year (dt : DateTime) (h : (fieldsOf dt).year < 1000) : parse? .isot (render .isot dt) = none :=
  parse_render_isot_short_year dt h

section AllFormats
open Midgard.TimeScale
open Midgard.Generated.TimeScale (taiutc consts)
set_option linter.unnecessarySeqFocus false

/-! ### All formats at once: one round-trip theorem, and `same_instant` for every pair of formats -/

/-- resolution of a format in days, over ℚ (the float rounding of the single-float forms comes on top and is measured) -/
def res : Fmt → Rat
  | .jd | .mjd | .gps_ws | .gps_seconds | .jyear => 0
  | .datetime => 1 / (usPerDay : Rat)
  | .decimalyear => 1 / (usPerDay : Rat) / 365
  | .text f => textRes f + 1 / (usPerDay : Rat)

/-- the epochs a format is valid for in a scale: the GPS formats need the gps scale and an epoch on or after 1980-01-06, a
text format a year its pattern can carry (`InDomain`), the decimal year a year 2 … 9998 — and in UTC, where a year that
ends in a leap second is longer than its calendar days, an epoch inside the calendar year it is counted in (all epochs
but those whose microsecond rounding crosses a year boundary) -/
def Valid (F : Fmt) (s : Scale) (j : JD) : Prop :=
  match F with
  | .gps_ws | .gps_seconds => s = .gps ∧ jdGps0 ≤ j.inst
  | .decimalyear => 2 ≤ dyYear j ∧ dyYear j ≤ 9998 ∧
      (s = .utc → yearStartJd1 (dyYear j) ≤ j.inst ∧ j.inst < yearStartJd1 (dyYear j) + (yearLen (dyYear j) : Rat))
  | .text f => InDomain f (dtFromJds j)
  | _ => True

theorem year2days_ge (s : Scale) (y : Int) : (yearLen y : Rat) ≤ year2days taiutc consts.tol y s := by
  by_cases hs : s = .utc
  · subst hs; exact year2days_utc_ge y
  · rw [(year2days_calendar _ _ y s hs).1]

/-- the decimal year of an epoch is within its year, give or take the microsecond rounding -/
theorem dy_value_range (s : Scale) (j : JD) :
    (dyYear j : Rat) - 1 < dyFromJds taiutc consts.tol s j ∧ dyFromJds taiutc consts.tol s j < (dyYear j : Rat) + 2 := by
  have hw := dy_window j
  have hu : (1 : Rat) / (usPerDay : Rat) = 1 / 86400000000 := by norm_num [usPerDay]
  rw [hu] at hw
  have hge := year2days_ge s (dyYear j)
  have hL : (365 : Rat) ≤ (yearLen (dyYear j) : Rat) := by
    rcases yearLen_cases (dyYear j) with h | h <;> rw [h] <;> norm_num
  rw [dyFromJds_eq]
  set L := year2days taiutc consts.tol (dyYear j) s
  set d := j.inst - yearStartJd1 (dyYear j) with hd
  have hLpos : 0 < L := by linarith
  have a : -1 < d / L := by rw [lt_div_iff₀ hLpos]; linarith [hw.1]
  have b : d / L < 2 := by rw [div_lt_iff₀ hLpos]; linarith [hw.2]
  constructor <;> linarith

/-- **Round trip of every format**: reading format `F` from any epoch valid for it and constructing a Time from the value
succeeds and moves the instant by at most the resolution of `F` (0 for jd, mjd, gps_ws, gps_seconds, jyear; 1 µs for
datetime and the microsecond texts; 1 s + 1 µs for `:sssss`; 1 day + 1 µs for date; 1/365 µs for decimalyear). -/
theorem roundtrip_all (F : Fmt) (s : Scale) (j : JD) (h : Valid F s j) :
    ∃ j', denote taiutc consts.tol F s j = some j' ∧ |j'.inst - j.inst| ≤ res F := by
  cases F with
  | jd => exact ⟨_, rfl, by rw [jd_roundtrip]; simp [res]⟩
  | mjd => exact ⟨_, rfl, by rw [mjd_roundtrip]; simp [res]⟩
  | jyear => exact ⟨_, rfl, by rw [jy_roundtrip]; simp [res]⟩
  | datetime => exact ⟨_, rfl, dt_roundtrip j⟩
  | gps_ws =>
    obtain ⟨hs, hg⟩ := h
    obtain ⟨w, hw⟩ := Option.isSome_iff_exists.mp ((gps_guard j).1.mpr hg)
    refine ⟨wsToJds w.week w.seconds, by simp [denote, fromJdsF, toJdsF, hs, hw], ?_⟩
    rw [(ws_roundtrip j w hw).1]; simp [res]
  | gps_seconds =>
    obtain ⟨hs, hg⟩ := h
    obtain ⟨x, hx⟩ := Option.isSome_iff_exists.mp ((gps_guard j).2.mpr hg)
    refine ⟨gsToJds x, by simp [denote, fromJdsF, toJdsF, hs, hx], ?_⟩
    rw [gs_roundtrip j x hx]; simp [res]
  | decimalyear =>
    obtain ⟨h2, h9, hu⟩ := h
    have hr := dy_value_range s j
    have h2r : (2 : Rat) ≤ (dyYear j : Rat) := by exact_mod_cast h2
    have h9r : (dyYear j : Rat) ≤ 9998 := by exact_mod_cast h9
    have hv0 : 0 ≤ dyFromJds taiutc consts.tol s j := by linarith [hr.1]
    have g1 : 1 ≤ truncRat (dyFromJds taiutc consts.tol s j) := by
      rw [truncRat_nonneg _ hv0]; exact Rat.le_floor_iff.mpr (by push_cast; linarith [hr.1])
    have g2 : truncRat (dyFromJds taiutc consts.tol s j) ≤ 9999 := by
      rw [truncRat_nonneg _ hv0]
      have : (dyFromJds taiutc consts.tol s j).floor < 10000 := Rat.floor_lt_iff.mpr (by push_cast; linarith [hr.2])
      omega
    refine ⟨dyToJds taiutc consts.tol s (dyFromJds taiutc consts.tol s j), by simp [denote, fromJdsF, toJdsF, dyToJdsG, g1, g2], ?_⟩
    by_cases hs : s = .utc
    · obtain ⟨a, b⟩ := hu hs
      rw [dy_roundtrip_table s j (by omega) a b]; simp only [sub_self, abs_zero, res]; norm_num [usPerDay]
    · exact dy_roundtrip_any _ _ s hs j (by omega)
  | text f =>
    obtain ⟨j', e, hb⟩ := text_roundtrip f j h
    exact ⟨j', by simpa [denote, fromJdsF, toJdsF, textToJds] using e, hb⟩

/-- **All formats of one Time denote one and the same instant**: for every pair of formats valid for the scale and the
epoch, the Times constructed from the two values differ by at most the sum of the two resolutions. -/
theorem same_instant (F G : Fmt) (s : Scale) (j : JD) (hF : Valid F s j) (hG : Valid G s j) :
    ∃ a b, denote taiutc consts.tol F s j = some a ∧ denote taiutc consts.tol G s j = some b ∧
      |a.inst - b.inst| ≤ res F + res G := by
  obtain ⟨a, ea, ha⟩ := roundtrip_all F s j hF
  obtain ⟨b, eb, hb⟩ := roundtrip_all G s j hG
  refine ⟨a, b, ea, eb, ?_⟩
  rw [abs_le] at ha hb ⊢
  constructor <;> linarith [ha.1, ha.2, hb.1, hb.2]

-- every format has valid epochs: 2000-01-01 12:00 in the gps scale is valid for all thirteen
example : ∀ F ∈ allFmts, Valid F .gps (dtToJds 43200000000) := by
  have hy : dyYear (dtToJds 43200000000) = 2000 := by decide +kernel
  have hd : dtFromJds (dtToJds 43200000000) = 43200000000 := dt_readback _
  intro F hF
  simp only [allFmts, List.mem_cons, List.mem_nil_iff, or_false] at hF
  rcases hF with rfl | rfl | rfl | rfl | rfl | rfl | rfl | rfl | rfl | rfl | rfl | rfl | rfl <;>
    simp only [Valid, InDomain, hy, hd] <;> first | trivial | decide +kernel
/-! ### Scalar, length-1 and length-n inputs behave identically element by element -/

theorem allSome_eq_some {β : Type} (l : List (Option β)) (r : List β) : allSome l = some r ↔ l = r.map some := by
  induction l generalizing r with
  | nil => cases r <;> simp [allSome]
  | cons a t ih =>
    cases a with
    | none => cases r <;> simp [allSome]
    | some x =>
      cases r with
      | nil => simp [allSome]
      | cons y r' =>
        simp only [allSome, Option.map_eq_some_iff, List.map_cons, List.cons.injEq, Option.some.injEq]
        constructor
        · rintro ⟨r'', h1, rfl, rfl⟩; exact ⟨rfl, (ih r'').mp h1⟩
        · rintro ⟨rfl, h2⟩; exact ⟨r', (ih r').mpr h2, rfl, rfl⟩

/-- **`scalar_eq_array`**: constructing from a list (or an ndarray) of `n` values succeeds with the epochs `js` exactly when
there are `n` of them and the `i`-th is what the *scalar* constructor makes of the `i`-th value — for every format, every
scale, every `n` (in particular `n = 1`: a length-1 input is the scalar input in brackets); list and ndarray inputs are
treated alike.  (Stated for the per-element functions the three dispatch idioms of `_to_jds` reach, see
`source_dispatch`.) -/
theorem scalar_eq_array (F : Fmt) (s : Scale) (xs : List Val) (js : List JD) :
    (toJdsShaped taiutc consts.tol F s (.list xs) = toJdsShaped taiutc consts.tol F s (.ndarray xs)) ∧
    (toJdsShaped taiutc consts.tol F s (.list xs) = some (.many js) ↔
      xs.length = js.length ∧ ∀ (i : Nat) (h1 : i < xs.length) (h2 : i < js.length),
        toJdsShaped taiutc consts.tol F s (.scalar xs[i]) = some (.one js[i])) := by
  refine ⟨rfl, ?_⟩
  simp only [toJdsShaped, applyShape, Option.map_eq_some_iff, JdsOut.many.injEq, JdsOut.one.injEq, exists_eq_right]
  rw [allSome_eq_some]
  constructor
  · intro h
    have hl : xs.length = js.length := by simpa using congrArg List.length h
    refine ⟨hl, fun i h1 h2 => ?_⟩
    have := congrArg (fun l => l[i]?) h
    simpa [h1, h2] using this
  · rintro ⟨hl, h⟩
    apply List.ext_getElem (by simpa using hl)
    intro i h1 h2
    simp only [List.length_map] at h1 h2
    simpa using h i h1 h2

/-- a sequence is refused exactly when one of its elements is refused as a scalar -/
theorem array_refused_iff (F : Fmt) (s : Scale) (xs : List Val) :
    toJdsShaped taiutc consts.tol F s (.list xs) = none ↔ ∃ x ∈ xs, toJdsShaped taiutc consts.tol F s (.scalar x) = none := by
  simp only [toJdsShaped, applyShape, Option.map_eq_none_iff]
  induction xs with
  | nil => simp [allSome]
  | cons a t ih =>
    cases h : toJdsF taiutc consts.tol F s a with
    | none => simp [allSome, h]
    | some y => simp [allSome, h, ih]

/-- **gps_ws, every input layout gives the same epochs**: the two-part input of any length `n` (also `n = 3`) is taken
element by element; an `(n, 3)` array of stored rows (`n ≥ 1`) gives what the two-part input of its first two columns
gives; one stored row `(3,)` gives what the scalar two-part input gives. -/
theorem ws_layouts (ws : List (Rat × Rat)) (d w sec : Rat) :
    wsToJdsIn .gps (.pair (.ndarray ws)) = some (.many (ws.map fun p => wsToJds p.1 p.2)) ∧
    (ws ≠ [] → wsToJdsIn .gps (.arr2 3 (ws.map fun p => [p.1, p.2, d])) = wsToJdsIn .gps (.pair (.ndarray ws))) ∧
    wsToJdsIn .gps (.arr1 [w, sec, d]) = wsToJdsIn .gps (.pair (.scalar (w, sec))) ∧
    wsToJdsIn .gps (.pair (.scalar (w, sec))) = some (.one (wsToJds w sec)) := by
  have key : ∀ l : List (Rat × Rat), allSome (l.map fun p => some (wsToJds p.1 p.2)) = some (l.map fun p => wsToJds p.1 p.2) := by
    intro l; rw [allSome_eq_some]; simp
  refine ⟨?_, ?_, ?_, ?_⟩
  · simp [wsToJdsIn, wsSelect, applyShape, key]
  · intro hne
    have hl : ws.length ≠ 0 := by simpa using hne
    simp [wsToJdsIn, wsSelect, hl, Function.comp_def]
  · simp [wsToJdsIn, wsSelect]
  · simp [wsToJdsIn, wsSelect, applyShape]

/-! ### The dispatch and the decimal year are the source -/

open Midgard.Generated in
/-- the idiom by which every `_to_jds` / `_from_jds` reaches its per-element code, and the branch chain of
`TimeGPSWeekSec._to_jds`, as read off the source on this run, are the ones the model mirrors -/
theorem source_dispatch : TimeFormatDispatch.dispatchTable = expectedDispatch ∧ TimeFormatDispatch.wsChain = expectedWsChain := by
  decide +kernel

theorem trunc_src (q : Rat) : Midgard.Generated.SrcTimeFmt.HasTrunc.trunc q = (truncRat q : Rat) := by
  simp only [Midgard.Generated.SrcTimeFmt.HasTrunc.trunc, truncRat]; split_ifs <;> rfl

open Midgard.Generated in
/-- `TimeDecimalYear._dy2jd` / `_jd2dy`, statement by statement, given the start of the year and its length -/
theorem source_decimalyear (tbl : List Row) (tol : Rat) (s : Scale) (v : Rat) (j : JD) :
    (let r := dyToJds tbl tol s v
     SrcTimeFmt.dy2jdSrc v (yearStartJd1 (truncRat v)) (year2days tbl tol (truncRat v) s) = ((truncRat v : Rat), (r.jd1, r.jd2))) ∧
    SrcTimeFmt.jd2dySrc (dyYear j : Rat) (yearStartJd1 (dyYear j)) (year2days tbl tol (dyYear j) s) j.jd1 j.jd2
      = dyFromJds tbl tol s j := by
  refine ⟨?_, ?_⟩
  · simp only [SrcTimeFmt.dy2jdSrc, dyToJds, trunc_src]
  · simp only [SrcTimeFmt.jd2dySrc, dyFromJds, dyYear]



/-! ### Leap seconds and the text formats (what the code does)

`datetime` has no second 60: a text `…23:59:60` is refused by every text pattern in every scale (`mkDateTime` below is the
`datetime(...)` call every `strptime` branch of the model ends in; the yday branch has the same test inline); no text
that is printed shows a second 60 (`fields_range`: the second of a datetime is 0…59); `:sssss` = 86400 is accepted and is
00:00:00 of the next day.  The UTC day that ends in a leap second therefore has no text for its last second: the UTC
label of a TAI epoch inside the leap second is the first second of the next day, printed a second time one second
later (examples below, compared with the real code by the check on every leap-second day since 1972). -/

/-- second 60 (or more) never makes a datetime; a second-of-day of exactly 86400 is the next midnight -/
theorem leap_second_text (y m d h mi us sec day : Int) (hs : 60 ≤ sec) :
    mkDateTime y m d h mi sec us = none ∧
    day * usPerDay + roundHalfEven ((86400 : Rat) * (usPerSec : Rat)) = (day + 1) * usPerDay := by
  constructor
  · unfold mkDateTime
    rw [if_neg]; omega
  · have : ((86400 : Rat) * (usPerSec : Rat)) = ((86400000000 : Int) : Rat) := by norm_num [usPerSec]
    rw [this, rhe_int]; simp only [usPerDay]; ring

example : parse? .isot "2016-12-31T23:59:60".toList = none ∧ parse? .iso "2016-12-31 23:59:60.5".toList = none ∧
    parse? .yday "2016:366:23:59:60".toList = none ∧
    parse? .yyyyddd "2016:366:86400".toList = some (ofFields ⟨2017, 1, 1, 0, 0, 0, 0⟩) ∧
    parse? .yyddd "16:366:86400".toList = parse? .yyddd "17:001:00000".toList := by decide +kernel
-- TAI 2017-01-01 00:00:36.5 is inside the leap second (UTC 2016-12-31 23:59:60.5); its UTC label is 00:00:00.5 of
-- 2017-01-01, and so is the label of the TAI epoch one second later
example : textFromJds .isot (tai2utc taiutc consts.tol ⟨2457754 + 1 / 2, (73 / 2) / 86400⟩) = "2017-01-01T00:00:00.500000".toList ∧
    textFromJds .isot (tai2utc taiutc consts.tol ⟨2457754 + 1 / 2, (75 / 2) / 86400⟩) = "2017-01-01T00:00:00.500000".toList ∧
    textFromJds .isot (tai2utc taiutc consts.tol ⟨2457754 + 1 / 2, (71 / 2) / 86400⟩) = "2016-12-31T23:59:59.500000".toList := by
  decide +kernel

/-! ### `_year2days` is the source; the domain of the decimal-year constructor -/

/-- the Time built from `datetime(y, 1, 1)` — what `_year2days` and `_dy2jd` call `TimeArray.create(datetime(y, 1, 1), …)` — is
`(yearStartJd1 y, 0)` -/
theorem newYear_jds (y : Int) : dtToJds (ofFields ⟨y, 1, 1, 0, 0, 0, 0⟩) = ⟨yearStartJd1 y, 0⟩ := by
  have h : (daysFromCivil y 1 1 * usPerDay + ((0 * 60 + 0) * 60 + 0) * usPerSec + 0) / usPerDay = daysFromCivil y 1 1 := by
    have : (0 : Int) < usPerDay := by decide
    rw [show daysFromCivil y 1 1 * usPerDay + ((0 * 60 + 0) * 60 + 0) * usPerSec + 0 = daysFromCivil y 1 1 * usPerDay by ring]
    exact Int.mul_ediv_cancel _ (ne_of_gt this)
  simp only [dtToJds, ofFields, h, yearStartJd1, JD.mk.injEq, true_and]
  have : ((daysFromCivil y 1 1 * usPerDay + ((0 * 60 + 0) * 60 + 0) * usPerSec + 0 - daysFromCivil y 1 1 * usPerDay : Int) : Rat) = 0 := by
    push_cast; ring
  rw [this, zero_div]

open Midgard.Generated in
/-- **`TimeDecimalYear._year2days`, statement by statement** (the guard for `datetime.max.year` = 9999, the two Times at New
Year, in UTC their TAI images by `_utc2tai`, `TimeArray.__sub__` and the `days` format as regenerated for C03): the model's
`year2days` is that function, with the New-Year Time of `newYear_jds` and C01's `utc2tai`. -/
theorem source_year2days (tbl : List Row) (tol : Rat) (y : Int) (s : Scale) :
    year2days tbl tol y .utc = SrcTimeFmt.year2daysUtcSrc 9999 y (fun n => (yearStartJd1 n, 0))
      (fun p => ((utc2tai tbl tol ⟨p.1, p.2⟩).jd1, (utc2tai tbl tol ⟨p.1, p.2⟩).jd2)) ∧
    (s ≠ .utc → year2days tbl tol y s = SrcTimeFmt.year2daysOtherSrc 9999 y (fun n => (yearStartJd1 n, 0))) := by
  constructor
  · simp only [year2days, SrcTimeFmt.year2daysUtcSrc, SrcTime.timeSubTimeSrc, SrcTime.deltaDayFromJdsSrc]
  · intro hs
    cases s <;>
      (first | exact absurd rfl hs | simp only [year2days, SrcTimeFmt.year2daysOtherSrc, SrcTime.timeSubTimeSrc, SrcTime.deltaDayFromJdsSrc])

/-- whenever the constructor succeeds it stores what the format interface `toJdsF` gives -/
theorem dyConstruct_ok (tbl : List Row) (tol : Rat) (s : Scale) (v : Rat) (j : JD) (h : dyConstruct tbl tol s v = .ok j) :
    toJdsF tbl tol .decimalyear s (.num v) = some j := by
  unfold dyConstruct at h
  simp only at h
  split_ifs at h with h1 h2 h3 h4
  simp only [DyOutcome.ok.injEq] at h
  simp [toJdsF, dyToJdsG, h1, h]

theorem yearStart_mono_2 (y : Int) (h : 2 ≤ y) : yearStartJd1 2 ≤ yearStartJd1 y := by
  have : daysFromCivil 2 1 1 ≤ daysFromCivil y 1 1 := by
    simp only [daysFromCivil, dfc_eq, yearBase]; norm_num; omega
  simp only [yearStartJd1]
  have : ((daysFromCivil 2 1 1 : Int) : Rat) ≤ ((daysFromCivil y 1 1 : Int) : Rat) := by exact_mod_cast this
  linarith

theorem yearStart_mono_9999 (y : Int) (h : y ≤ 9999) : yearStartJd1 y ≤ yearStartJd1 9999 := by
  have : daysFromCivil y 1 1 ≤ daysFromCivil 9999 1 1 := by
    simp only [daysFromCivil, dfc_eq, yearBase]; norm_num; omega
  simp only [yearStartJd1]
  have : ((daysFromCivil y 1 1 : Int) : Rat) ≤ ((daysFromCivil 9999 1 1 : Int) : Rat) := by exact_mod_cast this
  linarith

/-- **The constructor's domain contains every decimal year from 2.0 up to (not including) 9999.0** in every scale but UTC
(`dyAccepts` is the decidable domain; its edges — year 1, the first twelve hours of it, year 1 in UTC, the values next to
10000 — are compared with the real code by the check) -/
theorem dy_accepts_range (tbl : List Row) (tol : Rat) (s : Scale) (hs : s ≠ .utc) (v : Rat) (h2 : 2 ≤ v) (h9 : v < 9999) :
    dyAccepts tbl tol s v = true := by
  have hv0 : 0 ≤ v := by linarith
  have hy : truncRat v = v.floor := truncRat_nonneg v hv0
  have hf1 : (2 : Int) ≤ v.floor := Rat.le_floor_iff.mpr (by push_cast; linarith)
  have hf2 : v.floor < 9999 := Rat.floor_lt_iff.mpr (by push_cast; linarith)
  have hfr := frac_range v
  have hL := (year2days_calendar tbl tol v.floor s hs).1
  have hLc := yearLen_cases v.floor
  have hinst := dy_inst tbl tol s v hv0
  have hlo := yearStart_mono_2 v.floor hf1
  have hhi := yearStart_mono_9999 (v.floor + 1) (by omega)
  rw [yearStart_succ] at hhi
  have e2 : yearStartJd1 2 = 3443581 / 2 := by simp only [yearStartJd1, jd2000dt]; norm_num [daysFromCivil, daysFromCivil1970, doeOfCivil, epoch2000]
  have e9 : yearStartJd1 9999 = 10746239 / 2 := by simp only [yearStartJd1, jd2000dt]; norm_num [daysFromCivil, daysFromCivil1970, doeOfCivil, epoch2000]
  -- the Julian date of v
  set j := dyToJds tbl tol s v with hj
  have hjlo : yearStartJd1 2 ≤ j.inst := by
    rw [hinst, hL]; rcases hLc with h | h <;> rw [h] <;> nlinarith [hfr.1]
  have hjhi : j.inst < yearStartJd1 9999 := by
    rw [hinst, hL]; rcases hLc with h | h <;> rw [h] at hhi ⊢ <;> nlinarith [hfr.2]
  obtain ⟨⟨k, hk⟩, hn0, hn1⟩ := dy_normalised tbl tol s v (by rw [← hy] at hinst; rw [← hinst]; linarith [e2])
  have hj1 : (1721426 : Rat) ≤ j.jd1 := by
    have : (1721789 : Rat) < (k : Rat) := by
      have := hjlo; simp only [JD.inst] at this; rw [e2, hk] at this; linarith
    have : (1721789 : Int) < k := by exact_mod_cast this
    rw [hk]; exact_mod_cast (by omega : (1721426 : Int) ≤ k)
  have hdt : ¬ dtMax < dtFromJds j := by
    have a := rhe_close ((j.jd1 - jd2000dt) * (usPerDay : Rat))
    have b := rhe_close (j.jd2 * (usPerDay : Rat))
    rw [abs_le] at a b
    have hmax : (dtMax : Rat) = (10746239 / 2 + 365 - 4903089 / 2) * 86400000000 - 1 := by
      have : dtMax = 252455615999999999 := by decide +kernel
      rw [this]; norm_num
    have : ((dtFromJds j : Int) : Rat) ≤ (dtMax : Rat) := by
      have hU : ((usPerDay : Int) : Rat) = 86400000000 := by norm_num [usPerDay]
      simp only [dtFromJds]; push_cast
      rw [hmax]
      simp only [hU, jd2000dt] at a b ⊢
      simp only [JD.inst] at hjhi; rw [e9] at hjhi
      linarith [a.2, b.2, hjhi]
    exact not_lt.mpr (by exact_mod_cast this)
  have c1 : ¬ ¬ (1 ≤ v.floor ∧ v.floor ≤ 9999) := not_not.mpr ⟨by omega, by omega⟩
  have c2 : ¬ (s = .utc ∧ v.floor ≠ 9999 ∧ dtFromJds (utc2tai tbl tol ⟨yearStartJd1 v.floor, 0⟩) < dtMin) := fun h => hs h.1
  have c3 : ¬ j.jd1 < 1721426 := not_lt.mpr hj1
  simp only [dyAccepts, dyConstruct, hy, if_neg c1, if_neg c2, ← hj, if_neg c3, if_neg hdt]

-- the domain at its edges, evaluated: year 1 in UTC and the first twelve hours of year 1 are refused, the rest of year 1,
-- years 2 and 9999 are accepted, year 10000 is not
example : dyAccepts taiutc consts.tol .utc (3 / 2) = false ∧ dyAccepts taiutc consts.tol .tt 1 = false ∧
    dyAccepts taiutc consts.tol .tt (3 / 2) = true ∧ dyAccepts taiutc consts.tol .utc 2 = true ∧
    dyAccepts taiutc consts.tol .utc (19999 / 2) = true ∧ dyAccepts taiutc consts.tol .gps 10000 = false ∧
    dyConstruct taiutc consts.tol .utc (3 / 2) = .overflow ∧ dyConstruct taiutc consts.tol .tai (1 / 2) = .valueError := by
  decide +kernel

end AllFormats

/-! ### Constants of the format classes -/

theorem constants : jd2000dt = 2451544 + 1 / 2 ∧ mjd0 = 2400000 + 1 / 2 ∧ jdGps0 = 2444244 + 1 / 2 ∧
    Generated.TimeScale.unit_julian_year2day = julianYear ∧ Generated.TimeScale.unit_week2days = 7 ∧
    Generated.TimeScale.unit_day2seconds = 86400 := by decide +kernel

/-! ### Non-vacuity and calendar spot checks (tests, not theorems about all dates) -/

example : civilFromDays 0 = (2000, 1, 1) ∧ civilFromDays 59 = (2000, 2, 29) ∧ civilFromDays (-36524) = (1900, 1, 1)
    ∧ daysFromCivil 2100 1 1 = 36525 := by decide +kernel
example : wsFromJds ⟨2451544 + 1 / 2, 1 / 4⟩ = some ⟨1042, 540000, 6⟩ := by decide +kernel
example : dtFromJds ⟨2451544 + 1 / 2, 1 / 3⟩ = 28800000000 := by decide +kernel
-- the domains are inhabited: 2000-01-01 (dt = 0), 1000-01-01 and 9999-12-31 23:59:59.999999
example : InDomain .isot 0 ∧ InDomain .yyddd 0 ∧ InDomain .date (-31556908800000000) ∧
    InDomain .yyyyddd 252455615999999999 ∧ ¬ InDomain .isot (-31556908800000001) := by
  simp only [InDomain]; decide +kernel
-- the text functions run in the kernel (they are `List Char` functions): spot checks of the model itself
example : render .isot 0 = "2000-01-01T00:00:00.000000".toList ∧
    render .date (-31583088000000000) = "999-03-04".toList ∧
    parse? .yyddd "99:365:86399".toList = some (-1000000) ∧
    parse? .isot "2000-02-30T00:00:00".toList = none ∧
    parse? .iso "2000-01-01  12:00:00.5".toList = some 43200500000 ∧
    parse? .yyyyddd "2001:366:00000".toList = some 63158400000000 ∧
    parse? .date "999-03-04".toList = none := by decide +kernel


/-! ### The model is the source (regenerated on every run)

`Generated/SourceExprsTime.lean` is written by `translator/extract_exprs.py` from the Python `ast` of `_time.py` in the
tree under test: `_to_jds` / `_from_jds` of the numeric formats jd, mjd, gps_ws, gps_seconds, jyear (guards resolved to
the accepting branch) and `_jd_delta` / `jd_int` / `jd_frac`, statement by statement.  The theorems of this section say
that the model definitions the other theorems of this file are about are *equal* (over ℚ) to those regenerated
definitions, with the unit factors the code reads from `Unit` given their defining values.  `_dy2jd` / `_jd2dy` of decimalyear and the
input-shape dispatch (idiom per class, branch chain of `TimeGPSWeekSec._to_jds`) come from `translator/extract_timefmt.py`
(`source_decimalyear`, `source_dispatch` above).  Hand-modelled and tied by the correspondence only: datetime, the text
formats (CPython's datetime, strftime/strptime), the guards that raise (`_year2days` is tied by `source_year2days`: the
Time at New Year is `newYear_jds`, the conversion C01's `utc2tai`, subtraction and `.days` the definitions regenerated for C03). -/
section Source
open Midgard.Generated
set_option linter.unusedTactic false
set_option linter.unreachableTactic false
set_option linter.unnecessarySeqFocus false
set_option linter.unusedSimpArgs false

open Lean.Parser.Tactic in
macro "src_tie_t" "[" ds:simpLemma,* "]" : tactic =>
  `(tactic| first
    | rfl
    | (simp only [$ds,*, SrcTime.HasFloor.floor, Prod.mk.injEq, JD.mk.injEq, WeekSec.mk.injEq, Option.some.injEq]
       <;> (repeat' constructor)
       <;> ((try norm_num1) <;> (first | rfl | ring_nf))))

/-- jd and mjd: `_to_jds` / `_from_jds` -/
theorem source_jd_mjd (v v2 : Rat) (j : JD) :
    (let r := jdToJds v v2; SrcTime.jdToJdsSrc v v2 = (r.jd1, r.jd2)) ∧
    SrcTime.jdFromJdsSrc j.jd1 j.jd2 = jdFromJds j ∧
    (let r := mjdToJds v v2; SrcTime.mjdToJdsSrc v v2 mjd0 = (r.jd1, r.jd2)) ∧
    SrcTime.mjdFromJdsSrc j.jd1 j.jd2 mjd0 = mjdFromJds j := by
  refine ⟨?_, ?_, ?_, ?_⟩ <;>
    src_tie_t [jdToJds, jdFromJds, mjdToJds, mjdFromJds, SrcTime.jdToJdsSrc, SrcTime.jdFromJdsSrc, SrcTime.mjdToJdsSrc, SrcTime.mjdFromJdsSrc]

/-- `jd_int`, `jd_frac` and the helper they share -/
theorem source_jd_int_frac (j : JD) :
    SrcTime.jdDeltaSrc j.jd1 j.jd2 = jdDelta j ∧
    SrcTime.jdIntSrc j.jd1 (SrcTime.jdDeltaSrc j.jd1 j.jd2) = jdInt j ∧
    SrcTime.jdFracSrc j.jd2 (SrcTime.jdDeltaSrc j.jd1 j.jd2) = jdFrac j := by
  refine ⟨?_, ?_, ?_⟩ <;> src_tie_t [jdDelta, jdInt, jdFrac, SrcTime.jdDeltaSrc, SrcTime.jdIntSrc, SrcTime.jdFracSrc]

/-- GPS week/seconds and GPS seconds (day2seconds = 86400, week2days = 7, second2day = 1/86400), on and after 1980-01-06 -/
theorem source_gps_formats (week sec v : Rat) (j : JD) (h : ¬ j.jd1 + j.jd2 < jdGps0) :
    (let r := wsToJds week sec; SrcTime.wsToJdsSrc week sec 86400 7 jdGps0 = (r.jd1, r.jd2)) ∧
    (wsFromJds j = (let t := SrcTime.wsFromJdsSrc j.jd1 j.jd2 86400 7 jdGps0; some ⟨t.1, t.2.1, t.2.2⟩)) ∧
    (let r := gsToJds v; SrcTime.gsToJdsSrc v (1 / 86400) jdGps0 = (r.jd1, r.jd2)) ∧
    gsFromJds j = some (SrcTime.gsFromJdsSrc j.jd1 j.jd2 86400 jdGps0) := by
  refine ⟨?_, ?_, ?_, ?_⟩
  · src_tie_t [wsToJds, SrcTime.wsToJdsSrc]
  · simp only [wsFromJds, h, if_false]; src_tie_t [SrcTime.wsFromJdsSrc, jdDelta]
  · src_tie_t [gsToJds, SrcTime.gsToJdsSrc]
  · simp only [gsFromJds, h, if_false]; src_tie_t [SrcTime.gsFromJdsSrc]

/-- Julian year (julian_year2day = 365.25, day2julian_year = 1/365.25) -/
theorem source_jyear (v : Rat) (j : JD) :
    (let r := jyToJds v; SrcTime.jyToJdsSrc v 2000 jd2000noon julianYear = (r.jd1, r.jd2)) ∧
    SrcTime.jyFromJdsSrc j.jd1 j.jd2 2000 jd2000noon (1 / julianYear) = jyFromJds j := by
  refine ⟨?_, ?_⟩ <;> src_tie_t [jyToJds, jyFromJds, SrcTime.jyToJdsSrc, SrcTime.jyFromJdsSrc, julianYear]

end Source

end Midgard.Props.C02

#print axioms Midgard.Props.C02.floor_le_self
#print axioms Midgard.Props.C02.lt_floor_add_one_self
#print axioms Midgard.Props.C02.floor_int_add
#print axioms Midgard.Props.C02.frac_range
#print axioms Midgard.Props.C02.rhe_close
#print axioms Midgard.Props.C02.rhe_int
#print axioms Midgard.Props.C02.jd_inst
#print axioms Midgard.Props.C02.mjd_inst
#print axioms Midgard.Props.C02.jd_normalised
#print axioms Midgard.Props.C02.mjd_normalised
#print axioms Midgard.Props.C02.jd_roundtrip
#print axioms Midgard.Props.C02.mjd_roundtrip
#print axioms Midgard.Props.C02.jd_int_frac
#print axioms Midgard.Props.C02.dt_inst
#print axioms Midgard.Props.C02.dt_normalised
#print axioms Midgard.Props.C02.dt_readback
#print axioms Midgard.Props.C02.dt_roundtrip
#print axioms Midgard.Props.C02.ws_inst
#print axioms Midgard.Props.C02.ws_normalised
#print axioms Midgard.Props.C02.ws_roundtrip
#print axioms Midgard.Props.C02.gs_inst
#print axioms Midgard.Props.C02.gs_roundtrip
#print axioms Midgard.Props.C02.gps_guard
#print axioms Midgard.Props.C02.jy_inst
#print axioms Midgard.Props.C02.jy_roundtrip
#print axioms Midgard.Props.C02.jy_normalised
#print axioms Midgard.Props.C02.trunc_error
#print axioms Midgard.Props.C02.calendar_roundtrip
#print axioms Midgard.Props.C02.fields_roundtrip
#print axioms Midgard.Props.C02.fields_range
#print axioms Midgard.Props.C02.text_parse_render
#print axioms Midgard.Props.C02.isot_roundtrip
#print axioms Midgard.Props.C02.yds_roundtrip
#print axioms Midgard.Props.C02.date_roundtrip
#print axioms Midgard.Props.C02.text_roundtrip
#print axioms Midgard.Props.C02.isot_short_year
#print axioms Midgard.Props.C02.constants
#print axioms Midgard.Props.C02.source_jd_mjd
#print axioms Midgard.Props.C02.source_jd_int_frac
#print axioms Midgard.Props.C02.source_gps_formats
#print axioms Midgard.Props.C02.source_jyear
#print axioms Midgard.Props.C02.year2days_calendar
#print axioms Midgard.Props.C02.year2days_utc
#print axioms Midgard.Props.C02.dy_inst
#print axioms Midgard.Props.C02.dyFromJds_eq
#print axioms Midgard.Props.C02.dy_roundtrip
#print axioms Midgard.Props.C02.dt_year_window
#print axioms Midgard.Props.C02.dy_window
#print axioms Midgard.Props.C02.dy_window_dt
#print axioms Midgard.Props.C02.dy_roundtrip_any
#print axioms Midgard.Props.C02.yearStart_mono_late
#print axioms Midgard.Props.C02.yearStart_mono_early
#print axioms Midgard.Props.C02.deltaUtc_late
#print axioms Midgard.Props.C02.deltaUtc_early
#print axioms Midgard.Props.C02.year2days_utc_ge
#print axioms Midgard.Props.C02.dy_roundtrip_table
#print axioms Midgard.Props.C02.dy_roundtrip_dt
#print axioms Midgard.Props.C02.dy_normalised
#print axioms Midgard.Props.C02.year2days_ge
#print axioms Midgard.Props.C02.dy_value_range
#print axioms Midgard.Props.C02.roundtrip_all
#print axioms Midgard.Props.C02.same_instant
#print axioms Midgard.Props.C02.allSome_eq_some
#print axioms Midgard.Props.C02.scalar_eq_array
#print axioms Midgard.Props.C02.array_refused_iff
#print axioms Midgard.Props.C02.ws_layouts
#print axioms Midgard.Props.C02.source_dispatch
#print axioms Midgard.Props.C02.trunc_src
#print axioms Midgard.Props.C02.source_decimalyear
#print axioms Midgard.Props.C02.leap_second_text
#print axioms Midgard.Props.C02.newYear_jds
#print axioms Midgard.Props.C02.source_year2days
#print axioms Midgard.Props.C02.dyConstruct_ok
#print axioms Midgard.Props.C02.yearStart_mono_2
#print axioms Midgard.Props.C02.yearStart_mono_9999
#print axioms Midgard.Props.C02.dy_accepts_range
