/-
C02 — Every time format represents the same instant and survives a round trip.

Property theorems only (exact over `Rat`/`Int`; floating-point error is measured by
harness/c02.py).  `inst j = jd1 + jd2`.

The six text formats are theorems about the `List Char` functions of `Model/TimeText.lean` that the
driver executes against CPython (`text_parse_render`, `isot_roundtrip`, `yds_roundtrip`,
`date_roundtrip`, `text_roundtrip`, `isot_short_year`; lemmas in `Proofs/TimeText.lean`, digit-level core
in `Proofs/Digits.lean`).
-/
import Midgard.Model.TimeText
import Midgard.Generated.TimeScaleTables
import Midgard.Proofs.Calendar
import Midgard.Proofs.TimeText
import Mathlib.Tactic.Linarith
import Mathlib.Tactic.FieldSimp
import Mathlib.Tactic.Ring
import Mathlib.Algebra.Order.Field.Rat
import Mathlib.Algebra.Order.Floor.Ring
import Mathlib.Data.Rat.Floor
import Midgard.Generated.SourceExprsTime
import Mathlib.Tactic.NormNum

set_option linter.unusedSimpArgs false

namespace Midgard.Props.C02
open Midgard.TimeFormat Midgard.TimeArith

/-! ### Floor facts (core `Rat.floor`) -/

theorem floor_le_self (x : Rat) : (x.floor : Rat) ≤ x := Rat.floor_le x
theorem lt_floor_add_one_self (x : Rat) : x < (x.floor : Rat) + 1 := by
  have := Rat.lt_floor_add_one x; rwa [Rat.intCast_add] at this
theorem floor_int_add (n : Int) (x : Rat) : ((n : Rat) + x).floor = n + x.floor := by
  rw [add_comm, Rat.floor_add_intCast, add_comm]

theorem frac_range (x : Rat) : 0 ≤ x - (x.floor : Rat) ∧ x - (x.floor : Rat) < 1 := by
  have h1 := floor_le_self x; have h2 := lt_floor_add_one_self x
  constructor <;> linarith

theorem rhe_close (x : Rat) : |((roundHalfEven x : Int) : Rat) - x| ≤ 1 / 2 := by
  have h1 := floor_le_self x; have h2 := lt_floor_add_one_self x
  unfold roundHalfEven
  simp only
  split_ifs with a b c
  · rw [abs_le]; constructor <;> linarith
  · rw [abs_le]; push_cast; constructor <;> linarith
  · have : x - (x.floor : Rat) = 1 / 2 := le_antisymm (not_lt.mp b) (not_lt.mp a)
    rw [abs_le]; constructor <;> linarith
  · have : x - (x.floor : Rat) = 1 / 2 := le_antisymm (not_lt.mp b) (not_lt.mp a)
    rw [abs_le]; push_cast; constructor <;> linarith

theorem rhe_int (n : Int) : roundHalfEven (n : Rat) = n := by
  have h0 : ((n : Rat) - (n : Rat)) = 0 := sub_self _
  have h1 : (0 : Rat) < 1 / 2 := by norm_num
  simp [roundHalfEven, Rat.floor_intCast, h0, h1]

/-! ### jd and mjd (one- and two-part input) -/

/-- the constructor denotes exactly `val + val2` -/
theorem jd_inst (v v2 : Rat) : (jdToJds v v2).inst = v + v2 := by
  simp only [jdToJds, JD.inst]; ring

theorem mjd_inst (v v2 : Rat) : (mjdToJds v v2).inst = mjd0 + v + v2 := by
  simp only [mjdToJds, JD.inst]; ring

/-- … and normalises: `jd1` is a half-integer, `0 ≤ jd2 < 1` -/
theorem jd_normalised (v v2 : Rat) :
    (∃ k : Int, (jdToJds v v2).jd1 = (k : Rat) + 1 / 2) ∧ 0 ≤ (jdToJds v v2).jd2 ∧ (jdToJds v v2).jd2 < 1 := by
  have h := frac_range (v + v2 - 1 / 2)
  refine ⟨⟨(v + v2 - 1 / 2).floor, by simp only [jdToJds]; ring⟩, ?_, ?_⟩ <;>
    simp only [jdToJds] <;> linarith [h.1, h.2]

/-- for mjd the day part is `2400000.5 + half-integer`, i.e. an integer, and `0 ≤ jd2 < 1` -/
theorem mjd_normalised (v v2 : Rat) :
    (∃ k : Int, (mjdToJds v v2).jd1 = (k : Rat)) ∧ 0 ≤ (mjdToJds v v2).jd2 ∧ (mjdToJds v v2).jd2 < 1 := by
  have h := frac_range (v + v2 - 1 / 2)
  refine ⟨⟨2400001 + (v + v2 - 1 / 2).floor, by simp only [mjdToJds, mjd0]; push_cast; ring⟩, ?_, ?_⟩ <;>
    simp only [mjdToJds] <;> linarith [h.1, h.2]

/-- round trip through the single-number forms is exact -/
theorem jd_roundtrip (j : JD) : (jdToJds (jdFromJds j) 0).inst = j.inst := by
  rw [jd_inst]; simp [jdFromJds, JD.inst]

theorem mjd_roundtrip (j : JD) : (mjdToJds (mjdFromJds j) 0).inst = j.inst := by
  rw [mjd_inst]; simp only [mjdFromJds, JD.inst]; ring

/-! ### jd_int / jd_frac: for **every** `(jd1, jd2)`, normalised or not -/

theorem jd_int_frac (j : JD) :
    jdInt j + jdFrac j = j.inst ∧ (∃ k : Int, jdInt j = (k : Rat) + 1 / 2) ∧ 0 ≤ jdFrac j ∧ jdFrac j < 1 := by
  have h := frac_range ((j.jd1 - 1 / 2 - ((j.jd1 - 1 / 2).floor : Rat)) + j.jd2)
  refine ⟨by simp only [jdInt, jdFrac, JD.inst]; ring, ?_, ?_, ?_⟩
  · refine ⟨(j.jd1 - 1 / 2).floor + ((j.jd1 - 1 / 2 - ((j.jd1 - 1 / 2).floor : Rat)) + j.jd2).floor, ?_⟩
    simp only [jdInt, jdDelta]; push_cast; ring
  · simp only [jdFrac, jdDelta]; linarith [h.1]
  · simp only [jdFrac, jdDelta]; linarith [h.2]

/-! ### datetime -/

/-- building a Time from a `datetime` denotes exactly that many microseconds after 2000-01-01 -/
theorem dt_inst (dt : DateTime) : (dtToJds dt).inst = jd2000dt + (dt : Rat) / (usPerDay : Rat) := by
  simp only [dtToJds, JD.inst, usPerDay]
  push_cast
  field_simp
  ring

theorem dt_normalised (dt : DateTime) :
    (∃ k : Int, (dtToJds dt).jd1 = (k : Rat) + 1 / 2) ∧ 0 ≤ (dtToJds dt).jd2 ∧ (dtToJds dt).jd2 < 1 := by
  have hpos : (0 : Int) < usPerDay := by decide
  have h1 : 0 ≤ dt - (dt / usPerDay) * usPerDay := by
    have := Int.emod_nonneg dt (ne_of_gt hpos)
    have e := Int.emod_def dt usPerDay
    linarith [Int.mul_comm (dt / usPerDay) usPerDay]
  have h2 : dt - (dt / usPerDay) * usPerDay < usPerDay := by
    have := Int.emod_lt_of_pos dt hpos
    have e := Int.emod_def dt usPerDay
    linarith [Int.mul_comm (dt / usPerDay) usPerDay]
  refine ⟨⟨2451544 + (dt / usPerDay), by simp only [dtToJds, jd2000dt]; push_cast; ring⟩, ?_, ?_⟩
  · simp only [dtToJds]
    apply div_nonneg
    · exact_mod_cast h1
    · norm_num [usPerDay]
  · simp only [dtToJds]
    rw [div_lt_one (by norm_num [usPerDay])]
    exact_mod_cast h2

/-- reading a datetime back from the Time built from it returns it exactly (whole days and the
sub-day microseconds are each integers, so neither `timedelta` rounds) -/
theorem dt_readback (dt : DateTime) : dtFromJds (dtToJds dt) = dt := by
  simp only [dtFromJds, dtToJds, jd2000dt]
  have e1 : ((4903089 / 2 : Rat) + (((dt / usPerDay) : Int) : Rat) - 4903089 / 2) * (usPerDay : Rat)
      = (((dt / usPerDay) * usPerDay : Int) : Rat) := by push_cast; ring
  have e2 : (((dt - (dt / usPerDay) * usPerDay : Int) : Rat) / (usPerDay : Rat)) * (usPerDay : Rat)
      = ((dt - (dt / usPerDay) * usPerDay : Int) : Rat) := by
    have : ((usPerDay : Int) : Rat) ≠ 0 := by norm_num [usPerDay]
    field_simp
  rw [e1, e2, rhe_int, rhe_int]; ring

/-- reading any Time as datetime and constructing again changes the instant by at most
1 µs (two half-microsecond roundings) -/
theorem dt_roundtrip (j : JD) : |(dtToJds (dtFromJds j)).inst - j.inst| ≤ 1 / (usPerDay : Rat) := by
  rw [dt_inst]
  have a := rhe_close ((j.jd1 - jd2000dt) * (usPerDay : Rat))
  have b := rhe_close (j.jd2 * (usPerDay : Rat))
  have hU : (0 : Rat) < (usPerDay : Rat) := by norm_num [usPerDay]
  simp only [dtFromJds, JD.inst]
  rw [abs_le] at a b ⊢
  push_cast
  constructor
  · rw [← sub_nonneg]
    have : jd2000dt + ((roundHalfEven ((j.jd1 - jd2000dt) * (usPerDay : Rat)) : Rat) + (roundHalfEven (j.jd2 * (usPerDay : Rat)) : Rat)) / (usPerDay : Rat)
        - (j.jd1 + j.jd2) - -(1 / (usPerDay : Rat))
        = (((roundHalfEven ((j.jd1 - jd2000dt) * (usPerDay : Rat)) : Rat) - (j.jd1 - jd2000dt) * (usPerDay : Rat))
          + ((roundHalfEven (j.jd2 * (usPerDay : Rat)) : Rat) - j.jd2 * (usPerDay : Rat)) + 1) / (usPerDay : Rat) := by
      field_simp; ring
    rw [this]; apply div_nonneg _ (le_of_lt hU); linarith [a.1, b.1]
  · rw [← sub_nonneg]
    have : 1 / (usPerDay : Rat) - (jd2000dt + ((roundHalfEven ((j.jd1 - jd2000dt) * (usPerDay : Rat)) : Rat) + (roundHalfEven (j.jd2 * (usPerDay : Rat)) : Rat)) / (usPerDay : Rat)
        - (j.jd1 + j.jd2))
        = (1 - (((roundHalfEven ((j.jd1 - jd2000dt) * (usPerDay : Rat)) : Rat) - (j.jd1 - jd2000dt) * (usPerDay : Rat))
          + ((roundHalfEven (j.jd2 * (usPerDay : Rat)) : Rat) - j.jd2 * (usPerDay : Rat)))) / (usPerDay : Rat) := by
      field_simp; ring
    rw [this]; apply div_nonneg _ (le_of_lt hU); linarith [a.2, b.2]

/-! ### GPS week/seconds and GPS seconds -/

/-- week and seconds denote `1980-01-06 + 7·week days + seconds`: linear in the week, no modulo
anywhere, so weeks 1023/1024, 2047/2048 are not special -/
theorem ws_inst (week sec : Rat) : (wsToJds week sec).inst = jdGps0 + week * 7 + sec / 86400 := by
  simp only [wsToJds, JD.inst]; ring

theorem ws_normalised (week sec : Rat) : 0 ≤ (wsToJds week sec).jd2 ∧ (wsToJds week sec).jd2 < 1 := by
  have h := frac_range ((sec + 43200) / 86400)
  simp only [wsToJds]
  constructor
  · apply div_nonneg _ (by norm_num); linarith [h.1]
  · rw [div_lt_one (by norm_num)]; linarith [h.2]

/-- reading week/seconds/day from any GPS-scale Time on or after 1980-01-06 and constructing
again gives exactly the same instant; the day number is in 0..6 and week·7 + day counts the days
since 1980-01-06 -/
theorem ws_roundtrip (j : JD) (w : WeekSec) (h : wsFromJds j = some w) :
    (wsToJds w.week w.seconds).inst = j.inst ∧ 0 ≤ w.day ∧ w.day < 7 := by
  unfold wsFromJds at h
  split_ifs at h with hg
  simp only [Option.some.injEq] at h
  subst h
  have hw := frac_range ((j.jd1 - (j.jd1 - (((j.jd1 + j.jd2 - 1 / 2).floor : Rat) + 1 / 2)) - jdGps0) / 7)
  set jdI := j.jd1 - (j.jd1 - (((j.jd1 + j.jd2 - 1 / 2).floor : Rat) + 1 / 2)) with hjdI
  set W : Rat := (((jdI - jdGps0) / 7).floor : Rat) with hW
  have hd := frac_range (jdI - jdGps0 - W * 7)
  refine ⟨?_, ?_, ?_⟩
  · rw [ws_inst]; simp only [JD.inst]
    -- jdI - gps0 - 7W is an integer: its floor is itself
    have hint : (((jdI - jdGps0 - W * 7).floor : Int) : Rat) = jdI - jdGps0 - W * 7 := by
      have : jdI - jdGps0 - W * 7
          = (((j.jd1 + j.jd2 - 1 / 2).floor - 2444244 - ((jdI - jdGps0) / 7).floor * 7 : Int) : Rat) := by
        simp only [hjdI, hW, jdGps0]; push_cast; ring
      rw [this, Rat.floor_intCast]
    rw [hint]; simp only [hjdI]; ring
  · have : (0 : Rat) ≤ jdI - jdGps0 - W * 7 := by linarith [hw.1]
    have h0 : ((0 : Int) : Rat) ≤ jdI - jdGps0 - W * 7 := by simpa using this
    have := Rat.floor_monotone h0
    rw [Rat.floor_intCast] at this
    show (0 : Rat) ≤ (((jdI - jdGps0 - W * 7).floor : Int) : Rat)
    exact_mod_cast this
  · have hlt : jdI - jdGps0 - W * 7 < 7 := by linarith [hw.2]
    have := floor_le_self (jdI - jdGps0 - W * 7)
    show (((jdI - jdGps0 - W * 7).floor : Int) : Rat) < 7
    linarith

theorem gs_inst (v : Rat) : (gsToJds v).inst = jdGps0 + v / 86400 := by
  simp only [gsToJds, JD.inst]; ring

theorem gs_roundtrip (j : JD) (x : Rat) (h : gsFromJds j = some x) : (gsToJds x).inst = j.inst := by
  unfold gsFromJds at h
  split_ifs at h
  simp only [Option.some.injEq] at h
  subst h
  rw [gs_inst]; simp only [JD.inst]; ring

/-- the guard: before 1980-01-06 both GPS formats are refused, from then on they are defined -/
theorem gps_guard (j : JD) : ((wsFromJds j).isSome ↔ jdGps0 ≤ j.inst) ∧ ((gsFromJds j).isSome ↔ jdGps0 ≤ j.inst) := by
  simp only [wsFromJds, gsFromJds, JD.inst]
  constructor <;> split_ifs with h <;> simp <;> linarith

/-! ### Julian year -/

theorem jy_inst (v : Rat) : (jyToJds v).inst = jd2000noon + (v - 2000) * julianYear := by
  simp only [jyToJds, JD.inst]; ring

theorem jy_roundtrip (j : JD) : (jyToJds (jyFromJds j)).inst = j.inst := by
  rw [jy_inst]; simp only [jyFromJds, JD.inst, julianYear]; field_simp; ring

theorem jy_normalised (v : Rat) : 0 ≤ (jyToJds v).jd2 ∧ (jyToJds v).jd2 < 1 := by
  have h := frac_range ((v - 2000) * julianYear)
  simpa only [jyToJds] using h

/-! ### Text formats: what is printed is what is parsed -/

/-- Constructing from a datetime truncated to the resolution a pattern prints moves the instant
back by less than that resolution: 0 for the microsecond patterns, < 1 s for `:sssss`,
< 1 day for `date`. -/
theorem trunc_error (f : TextFmt) (dt : DateTime) :
    0 ≤ (dtToJds dt).inst - (dtToJds (truncTo f dt)).inst ∧
    (dtToJds dt).inst - (dtToJds (truncTo f dt)).inst <
      match f with
      | .isot | .iso | .yday => 1 / (usPerDay : Rat)
      | .date => 1
      | .yyddd | .yyyyddd => 1 / 86400 := by
  have key : ∀ n : Int, 0 < n → 0 ≤ dt - (dt / n) * n ∧ dt - (dt / n) * n < n := by
    intro n hn
    have e := Int.emod_def dt n
    have a := Int.emod_nonneg dt (ne_of_gt hn)
    have b := Int.emod_lt_of_pos dt hn
    constructor <;> linarith [Int.mul_comm (dt / n) n]
  have hU : (0 : Rat) < (usPerDay : Rat) := by norm_num [usPerDay]
  rw [dt_inst, dt_inst]
  have hd : ∀ t : DateTime, jd2000dt + (dt : Rat) / (usPerDay : Rat) - (jd2000dt + (t : Rat) / (usPerDay : Rat))
      = ((dt - t : Int) : Rat) / (usPerDay : Rat) := by intro t; push_cast; field_simp; ring
  cases f <;> simp only [truncTo, hd]
  all_goals first
    | (simp only [sub_self, Int.cast_zero, zero_div]; exact ⟨le_refl _, by positivity⟩)
    | (obtain ⟨a, b⟩ := key usPerDay (by decide)
       refine ⟨div_nonneg (by exact_mod_cast a) (le_of_lt hU), ?_⟩
       rw [div_lt_one hU]; exact_mod_cast b)
    | (obtain ⟨a, b⟩ := key usPerSec (by decide)
       refine ⟨div_nonneg (by exact_mod_cast a) (le_of_lt hU), ?_⟩
       rw [div_lt_iff₀ hU]
       have : ((dt - (dt / usPerSec) * usPerSec : Int) : Rat) < (usPerSec : Rat) := by exact_mod_cast b
       have e : (1 : Rat) / 86400 * (usPerDay : Rat) = (usPerSec : Rat) := by norm_num [usPerDay, usPerSec]
       rw [e]; exact this)


/-! ### Calendar: the civil date printed by the text formats determines the day (all years) -/

/-- converting a day number to a civil date and back is the identity, for every day number, and
the month and day are valid -/
theorem calendar_roundtrip (n : Int) :
    daysFromCivil (civilFromDays n).1 (civilFromDays n).2.1 (civilFromDays n).2.2 = n ∧
    1 ≤ (civilFromDays n).2.1 ∧ (civilFromDays n).2.1 ≤ 12 ∧ 1 ≤ (civilFromDays n).2.2 ∧ (civilFromDays n).2.2 ≤ 31 := by
  refine ⟨daysFromCivil_civilFromDays n, ?_⟩
  have := days_civil (n + epoch2000)
  simpa only [civilFromDays] using this.2

/-- the calendar/clock fields the text formats print determine the datetime exactly: reading the
fields back gives the same microsecond count -/
theorem fields_roundtrip (dt : Int) : ofFields (fieldsOf dt) = dt := by
  have hd := daysFromCivil_civilFromDays (dt / 86400000000)
  have e0 := Int.emod_def dt 86400000000
  have r0 := Int.emod_nonneg dt (show (86400000000 : Int) ≠ 0 by decide)
  have r1 := Int.emod_lt_of_pos dt (show (0 : Int) < 86400000000 by decide)
  simp only [fieldsOf, ofFields, usPerDay, usPerSec]
  rw [hd]
  generalize hrem : dt - dt / 86400000000 * 86400000000 = rem
  have h0 : 0 ≤ rem := by omega
  generalize hsecs : rem / 1000000 = secs
  have s0 : 0 ≤ secs := by omega
  have key : (secs / 3600 * 60 + secs / 60 % 60) * 60 + secs % 60 = secs := by omega
  rw [key, ← hrem]
  ring

/-- clock fields are in range -/
theorem fields_range (dt : Int) :
    0 ≤ (fieldsOf dt).hour ∧ (fieldsOf dt).hour < 24 ∧ 0 ≤ (fieldsOf dt).minute ∧ (fieldsOf dt).minute < 60 ∧
    0 ≤ (fieldsOf dt).second ∧ (fieldsOf dt).second < 60 ∧ 0 ≤ (fieldsOf dt).micro ∧ (fieldsOf dt).micro < 1000000 := by
  have e0 := Int.emod_def dt 86400000000
  have r0 := Int.emod_nonneg dt (show (86400000000 : Int) ≠ 0 by decide)
  have r1 := Int.emod_lt_of_pos dt (show (0 : Int) < 86400000000 by decide)
  simp only [fieldsOf, usPerDay, usPerSec]
  generalize hrem : dt - dt / 86400000000 * 86400000000 = rem
  have h0 : 0 ≤ rem := by omega
  have h1 : rem < 86400000000 := by omega
  generalize hsecs : rem / 1000000 = secs
  have s0 : 0 ≤ secs := by omega
  have s1 : secs < 86400 := by omega
  refine ⟨by omega, by omega, by omega, by omega, by omega, by omega, by omega, by omega⟩

/-! ### Text formats: `strptime (strftime t) = t` on `List Char`, for every epoch of the format's domain -/

/-- The epochs a text pattern can carry through `strftime` → `strptime`: the four-digit-year patterns
need a year that *prints* with four digits (glibc's `%Y` does not pad: 1000 … 9999), the two-digit-year
form can only denote 1969 … 2068 (`%y` pivot). -/
def InDomain (f : TextFmt) (dt : DateTime) : Prop :=
  match f with
  | .yyddd => 1969 ≤ (fieldsOf dt).year ∧ (fieldsOf dt).year ≤ 2068
  | _ => 1000 ≤ (fieldsOf dt).year ∧ (fieldsOf dt).year ≤ 9999

/-- **Parsing what was rendered returns the datetime truncated to the printed resolution**, for all six
text formats and every datetime of the format's domain (digits ↔ numbers by induction on the digits,
the civil date by the calendar bijection for all dates, `_str2dt`'s fraction normalisation through the
exact `float`/`format` model). -/
theorem text_parse_render (f : TextFmt) (dt : DateTime) (h : InDomain f dt) :
    parse? f (render f dt) = some (truncTo f dt) := by
  cases f <;> simp only [InDomain] at h <;> simp only [truncTo]
  · exact parse_render_isot dt h
  · exact parse_render_iso dt h
  · exact parse_render_yday dt h
  · exact parse_render_date dt h
  · exact parse_render_yyddd dt h
  · exact parse_render_yyyyddd dt h

/-- `isot` (and `iso`, `yday`): the text carries the datetime exactly — the instant of the Time built from
the parsed text is the instant of the Time built from the datetime -/
theorem isot_roundtrip (f : TextFmt) (hf : f = .isot ∨ f = .iso ∨ f = .yday) (dt : DateTime) (h : InDomain f dt) :
    ∃ j', textToJds f (render f dt) = some j' ∧ j'.inst = (dtToJds dt).inst := by
  refine ⟨dtToJds dt, ?_, rfl⟩
  unfold textToJds
  rw [text_parse_render f dt h]
  rcases hf with rfl | rfl | rfl <;> rfl

/-- `yy:ddd:sssss` / `yyyy:ddd:sssss`: the parsed text is the start of the printed second — less than one
second before the datetime, never after -/
theorem yds_roundtrip (f : TextFmt) (hf : f = .yyddd ∨ f = .yyyyddd) (dt : DateTime) (h : InDomain f dt) :
    ∃ j', textToJds f (render f dt) = some j' ∧
      0 ≤ (dtToJds dt).inst - j'.inst ∧ (dtToJds dt).inst - j'.inst < 1 / 86400 := by
  refine ⟨dtToJds (truncTo f dt), ?_, ?_⟩
  · unfold textToJds; rw [text_parse_render f dt h]; rfl
  · have := trunc_error f dt
    rcases hf with rfl | rfl <;> exact this

/-- `date`: the parsed text is midnight of the printed day — less than one day before the datetime -/
theorem date_roundtrip (dt : DateTime) (h : InDomain .date dt) :
    ∃ j', textToJds .date (render .date dt) = some j' ∧
      0 ≤ (dtToJds dt).inst - j'.inst ∧ (dtToJds dt).inst - j'.inst < 1 := by
  refine ⟨dtToJds (truncTo .date dt), ?_, trunc_error .date dt⟩
  unfold textToJds; rw [text_parse_render .date dt h]; rfl

/-- resolution of a text pattern in days -/
def textRes : TextFmt → Rat
  | .isot | .iso | .yday => 0
  | .date => 1
  | .yyddd | .yyyyddd => 1 / 86400

/-- **Round trip through the text of any Time**: reading a text format from `(jd1, jd2)` and constructing
again moves the instant by at most the pattern's resolution plus the 1 µs of the datetime rounding. -/
theorem text_roundtrip (f : TextFmt) (j : JD) (h : InDomain f (dtFromJds j)) :
    ∃ j', textToJds f (textFromJds f j) = some j' ∧ |j'.inst - j.inst| ≤ textRes f + 1 / (usPerDay : Rat) := by
  refine ⟨dtToJds (truncTo f (dtFromJds j)), ?_, ?_⟩
  · unfold textToJds textFromJds; rw [text_parse_render f _ h]; rfl
  · have a := dt_roundtrip j
    have b := trunc_error f (dtFromJds j)
    rw [abs_le] at a ⊢
    have hU : (0 : Rat) < 1 / (usPerDay : Rat) := by norm_num [usPerDay]
    cases f <;> simp only [textRes, truncTo] at b ⊢ <;> constructor <;> linarith [a.1, a.2, b.1, b.2]

/-- the domain is sharp at its lower end: below year 1000 glibc prints the year with fewer than four
digits and `strptime`'s `%Y` refuses the text (midgard then raises `ValueError`) -/
theorem isot_short_year (dt : DateTime) (h : (fieldsOf dt).year < 1000) : parse? .isot (render .isot dt) = none :=
  parse_render_isot_short_year dt h

/-! ### Constants of the format classes -/

theorem constants : jd2000dt = 2451544 + 1 / 2 ∧ mjd0 = 2400000 + 1 / 2 ∧ jdGps0 = 2444244 + 1 / 2 ∧
    Generated.TimeScale.unit_julian_year2day = julianYear ∧ Generated.TimeScale.unit_week2days = 7 ∧
    Generated.TimeScale.unit_day2seconds = 86400 := by decide +kernel

/-! ### Non-vacuity and calendar spot checks (tests, not theorems about all dates) -/

example : civilFromDays 0 = (2000, 1, 1) ∧ civilFromDays 59 = (2000, 2, 29) ∧ civilFromDays (-36524) = (1900, 1, 1)
    ∧ daysFromCivil 2100 1 1 = 36525 := by decide +kernel
example : wsFromJds ⟨2451544 + 1 / 2, 1 / 4⟩ = some ⟨1042, 540000, 6⟩ := by decide +kernel
example : dtFromJds ⟨2451544 + 1 / 2, 1 / 3⟩ = 28800000000 := by decide +kernel
-- the domains are inhabited: 2000-01-01 (dt = 0), 1000-01-01 and 9999-12-31 23:59:59.999999
example : InDomain .isot 0 ∧ InDomain .yyddd 0 ∧ InDomain .date (-31556908800000000) ∧
    InDomain .yyyyddd 252455615999999999 ∧ ¬ InDomain .isot (-31556908800000001) := by
  simp only [InDomain]; decide +kernel
-- the text functions run in the kernel (they are `List Char` functions): spot checks of the model itself
example : render .isot 0 = "2000-01-01T00:00:00.000000".toList ∧
    render .date (-31583088000000000) = "999-03-04".toList ∧
    parse? .yyddd "99:365:86399".toList = some (-1000000) ∧
    parse? .isot "2000-02-30T00:00:00".toList = none ∧
    parse? .iso "2000-01-01  12:00:00.5".toList = some 43200500000 ∧
    parse? .yyyyddd "2001:366:00000".toList = some 63158400000000 ∧
    parse? .date "999-03-04".toList = none := by decide +kernel


/-! ### The model is the source (regenerated on every run)

`Generated/SourceExprsTime.lean` is written by `translator/extract_exprs.py` from the Python `ast` of `_time.py` in the
tree under test: `_to_jds` / `_from_jds` of the numeric formats jd, mjd, gps_ws, gps_seconds, jyear (guards resolved to
the accepting branch) and `_jd_delta` / `jd_int` / `jd_frac`, statement by statement.  The theorems of this section say
that the model definitions the other theorems of this file are about are *equal* (over ℚ) to those regenerated
definitions, with the unit factors the code reads from `Unit` given their defining values.  Hand-modelled and tied by
the correspondence only: datetime / decimalyear / the text formats (CPython's datetime, strftime/strptime), the
input-shape dispatch of `TimeGPSWeekSec._to_jds`, and the guards that raise. -/
section Source
open Midgard.Generated
set_option linter.unusedTactic false
set_option linter.unreachableTactic false
set_option linter.unnecessarySeqFocus false
set_option linter.unusedSimpArgs false

open Lean.Parser.Tactic in
macro "src_tie_t" "[" ds:simpLemma,* "]" : tactic =>
  `(tactic| first
    | rfl
    | (simp only [$ds,*, SrcTime.HasFloor.floor, Prod.mk.injEq, JD.mk.injEq, WeekSec.mk.injEq, Option.some.injEq]
       <;> (repeat' constructor)
       <;> ((try norm_num1) <;> (first | rfl | ring_nf))))

/-- jd and mjd: `_to_jds` / `_from_jds` -/
theorem source_jd_mjd (v v2 : Rat) (j : JD) :
    (let r := jdToJds v v2; SrcTime.jdToJdsSrc v v2 = (r.jd1, r.jd2)) ∧
    SrcTime.jdFromJdsSrc j.jd1 j.jd2 = jdFromJds j ∧
    (let r := mjdToJds v v2; SrcTime.mjdToJdsSrc v v2 mjd0 = (r.jd1, r.jd2)) ∧
    SrcTime.mjdFromJdsSrc j.jd1 j.jd2 mjd0 = mjdFromJds j := by
  refine ⟨?_, ?_, ?_, ?_⟩ <;>
    src_tie_t [jdToJds, jdFromJds, mjdToJds, mjdFromJds, SrcTime.jdToJdsSrc, SrcTime.jdFromJdsSrc, SrcTime.mjdToJdsSrc, SrcTime.mjdFromJdsSrc]

/-- `jd_int`, `jd_frac` and the helper they share -/
theorem source_jd_int_frac (j : JD) :
    SrcTime.jdDeltaSrc j.jd1 j.jd2 = jdDelta j ∧
    SrcTime.jdIntSrc j.jd1 (SrcTime.jdDeltaSrc j.jd1 j.jd2) = jdInt j ∧
    SrcTime.jdFracSrc j.jd2 (SrcTime.jdDeltaSrc j.jd1 j.jd2) = jdFrac j := by
  refine ⟨?_, ?_, ?_⟩ <;> src_tie_t [jdDelta, jdInt, jdFrac, SrcTime.jdDeltaSrc, SrcTime.jdIntSrc, SrcTime.jdFracSrc]

/-- GPS week/seconds and GPS seconds (day2seconds = 86400, week2days = 7, second2day = 1/86400), on and after 1980-01-06 -/
theorem source_gps_formats (week sec v : Rat) (j : JD) (h : ¬ j.jd1 + j.jd2 < jdGps0) :
    (let r := wsToJds week sec; SrcTime.wsToJdsSrc week sec 86400 7 jdGps0 = (r.jd1, r.jd2)) ∧
    (wsFromJds j = (let t := SrcTime.wsFromJdsSrc j.jd1 j.jd2 86400 7 jdGps0; some ⟨t.1, t.2.1, t.2.2⟩)) ∧
    (let r := gsToJds v; SrcTime.gsToJdsSrc v (1 / 86400) jdGps0 = (r.jd1, r.jd2)) ∧
    gsFromJds j = some (SrcTime.gsFromJdsSrc j.jd1 j.jd2 86400 jdGps0) := by
  refine ⟨?_, ?_, ?_, ?_⟩
  · src_tie_t [wsToJds, SrcTime.wsToJdsSrc]
  · simp only [wsFromJds, h, if_false]; src_tie_t [SrcTime.wsFromJdsSrc]
  · src_tie_t [gsToJds, SrcTime.gsToJdsSrc]
  · simp only [gsFromJds, h, if_false]; src_tie_t [SrcTime.gsFromJdsSrc]

/-- Julian year (julian_year2day = 365.25, day2julian_year = 1/365.25) -/
theorem source_jyear (v : Rat) (j : JD) :
    (let r := jyToJds v; SrcTime.jyToJdsSrc v 2000 jd2000noon julianYear = (r.jd1, r.jd2)) ∧
    SrcTime.jyFromJdsSrc j.jd1 j.jd2 2000 jd2000noon (1 / julianYear) = jyFromJds j := by
  refine ⟨?_, ?_⟩ <;> src_tie_t [jyToJds, jyFromJds, SrcTime.jyToJdsSrc, SrcTime.jyFromJdsSrc, julianYear]

end Source

end Midgard.Props.C02

#print axioms Midgard.Props.C02.floor_le_self
#print axioms Midgard.Props.C02.lt_floor_add_one_self
#print axioms Midgard.Props.C02.floor_int_add
#print axioms Midgard.Props.C02.frac_range
#print axioms Midgard.Props.C02.rhe_close
#print axioms Midgard.Props.C02.rhe_int
#print axioms Midgard.Props.C02.jd_inst
#print axioms Midgard.Props.C02.mjd_inst
#print axioms Midgard.Props.C02.jd_normalised
#print axioms Midgard.Props.C02.mjd_normalised
#print axioms Midgard.Props.C02.jd_roundtrip
#print axioms Midgard.Props.C02.mjd_roundtrip
#print axioms Midgard.Props.C02.jd_int_frac
#print axioms Midgard.Props.C02.dt_inst
#print axioms Midgard.Props.C02.dt_normalised
#print axioms Midgard.Props.C02.dt_readback
#print axioms Midgard.Props.C02.dt_roundtrip
#print axioms Midgard.Props.C02.ws_inst
#print axioms Midgard.Props.C02.ws_normalised
#print axioms Midgard.Props.C02.ws_roundtrip
#print axioms Midgard.Props.C02.gs_inst
#print axioms Midgard.Props.C02.gs_roundtrip
#print axioms Midgard.Props.C02.gps_guard
#print axioms Midgard.Props.C02.jy_inst
#print axioms Midgard.Props.C02.jy_roundtrip
#print axioms Midgard.Props.C02.jy_normalised
#print axioms Midgard.Props.C02.trunc_error
#print axioms Midgard.Props.C02.calendar_roundtrip
#print axioms Midgard.Props.C02.fields_roundtrip
#print axioms Midgard.Props.C02.fields_range
#print axioms Midgard.Props.C02.text_parse_render
#print axioms Midgard.Props.C02.isot_roundtrip
#print axioms Midgard.Props.C02.yds_roundtrip
#print axioms Midgard.Props.C02.date_roundtrip
#print axioms Midgard.Props.C02.text_roundtrip
#print axioms Midgard.Props.C02.isot_short_year
#print axioms Midgard.Props.C02.constants
#print axioms Midgard.Props.C02.source_jd_mjd
#print axioms Midgard.Props.C02.source_jd_int_frac
#print axioms Midgard.Props.C02.source_gps_formats
#print axioms Midgard.Props.C02.source_jyear
