/-
C12 — RINEX navigation files are parsed into exactly the ephemerides they contain.

Property theorems about `Model/RinexNav.lean` at the tables regenerated from rinex3_nav / rinex2_nav /
rinex212_nav (`Generated/RinexNavCols.lean`), compared with `Spec/RinexNav.lean` (RINEX 3.04 / 2.11).
-/
import Midgard.Model.RinexNav
import Midgard.Generated.RinexNavCols
import Midgard.Spec.RinexNav
import Midgard.Proofs.FixedCol
import Midgard.Proofs.Decimal

namespace Midgard.Props.C12
open Midgard.RinexNav Midgard.Generated.RinexNav Midgard.FixedCol Midgard.Text Midgard.Decimal

/-! ## 1. Table obligations -/

/-- every record line of the three parsers has a sorted, non-overlapping layout -/
theorem layouts_sorted : ((v3Lines ++ v2Lines ++ v212Lines).all fun l => Sorted l.fields) = true := by
  decide +kernel

/-- a standard field lies inside the code's columns of the same name -/
def fieldCovers (f sf : Field) : Bool := (f.name == sf.name) && decide (f.start ≤ sf.start) && decide (sf.stop ≤ f.stop)

def layoutCovers : Layout → Layout → Bool
  | [], [] => true
  | f :: fs, sf :: sfs => fieldCovers f sf && layoutCovers fs sfs
  | _, _ => false

def recordCovers (code : List LineDef) (spec : List (Nat × Layout)) : Bool :=
  decide (code.length = spec.length) &&
    spec.all fun (n, sl) => match code.find? (fun (l : LineDef) => l.num = n) with
      | some l => layoutCovers l.fields sl
      | Option.none => false

/-- **columns = standard**: line n of a record is cut, field by field and under the same name, at
columns that contain the standard's 19-character column (and, sorted by `layouts_sorted`, nothing of
the neighbouring field): RINEX 3.04 for rinex3_nav, RINEX 2.11 for rinex2_nav and rinex212_nav -/
theorem cols_cover_spec :
    recordCovers v3Lines Midgard.Spec.RinexNav.v3Record = true ∧
    recordCovers v2Lines Midgard.Spec.RinexNav.v2Record = true ∧
    recordCovers v212Lines Midgard.Spec.RinexNav.v2Record = true := by
  decide +kernel

/-- the satellite-system letter of the header is read from column 40 -/
theorem header_sat_sys : v3VersionType.find? (·.name = "sat_sys") = some ⟨"sat_sys", 40, 41⟩ := by
  decide +kernel

def nodupS : List String → Bool
  | [] => true
  | a :: rest => !rest.contains a && nodupS rest

def fieldNames (ls : List LineDef) : List String := ls.flatMap fun l => l.fields.map (·.name)

/-- **rename is total and unambiguous**: the 35 + 3 field names of a record are distinct, each general
field has at most one specific name per system, and no specific name collides with a fixed field -/
theorem rename_total :
    nodupS (fieldNames v3Lines) = true ∧ nodupS (fieldNames v2Lines) = true ∧ nodupS (fieldNames v212Lines) = true ∧
    ([v3, v2, v212].all fun T =>
      (T.sysnames.all fun (field, per) =>
        (fieldNames T.lines).contains field && nodupS (per.map (·.1)) &&
        per.all fun (_, n) => !((fieldNames T.lines).contains n) &&
          (T.sysnames.all fun (field', per') => field' == field || !((per'.map (·.2)).contains n)))) = true := by
  decide +kernel

/-- **BeiDou**: 14 s and 1356 weeks, every other supported system 0 -/
theorem bds_shift : ([v3, v2, v212].all fun T =>
    lookupI T.secOffset "C" == 14 && lookupI T.weekOffset "C" == 1356 &&
    (["G", "E", "J", "I"].all fun s => lookupI T.secOffset s == 0 && lookupI T.weekOffset s == 0)) = true := by
  decide +kernel

/-! ## 2. One record line -/

/-- **nav_record**: whatever clean 19-character (or shorter) texts are printed in the columns of line
`n` come back under the line's field names — also when the line lost its trailing blanks, and with no
separator between the columns (a sign may abut the previous field) -/
theorem nav_record (ld : LineDef) (cells : List (Align × Str))
    (hs : Sorted ld.fields = true) (hf : Fits ld.fields cells = true) :
    (lineValues ld (renderA ld.fields cells)).map (·.2) = cells.map (·.2) ∧
    (lineValues ld (renderA ld.fields cells)).map (·.1) = ld.fields.map (·.name) := by
  constructor
  · unfold lineValues
    have := slice_renderA_rstrip ld.fields cells hs hf
    simpa [sliceAll, List.map_map, Function.comp_def] using this
  · simp [lineValues, sliceAll, List.map_map, Function.comp_def]

/-- the value stored for a field is `_float` of exactly that text -/
theorem float_blank (t : Str) (h : isBlank t = true) : floatField t = some 0 := by
  simp [floatField, h]

theorem isBlank_replaceChar (a b : Char) (ha : isSpace a = false) (hb : isSpace b = false) (t : Str) :
    isBlank (replaceChar a b t) = isBlank t := by
  induction t with
  | nil => rfl
  | cons c r ih =>
    simp only [replaceChar, List.map_cons, isBlank, List.all_cons] at ih ⊢
    rw [ih]
    by_cases h : c = a
    · subst h; simp [ha, hb]
    · simp [h]

theorem isEmpty_replaceChar (a b : Char) (t : Str) : (replaceChar a b t).isEmpty = t.isEmpty := by
  cases t <;> rfl

/-- **D, d, E, e exponents denote the same number**: writing the exponent letter `e` of a text as
`D` or `d` does not change `_float` -/
theorem exponent_letters (t : Str) :
    floatField (replaceChar 'e' 'D' t) = floatField t ∧ floatField (replaceChar 'e' 'd' t) = floatField t := by
  have key : ∀ x : Char, x = 'D' ∨ x = 'd' →
      replaceChar 'd' 'e' (replaceChar 'D' 'e' (replaceChar 'e' x t)) = replaceChar 'd' 'e' (replaceChar 'D' 'e' t) := by
    intro x hx
    simp only [replaceChar, List.map_map]
    apply List.map_congr_left
    intro c _
    rcases hx with rfl | rfl
    · by_cases h : c = 'e'
      · subst h; decide
      · simp [Function.comp, h]
    · by_cases h : c = 'e'
      · subst h; decide
      · simp [Function.comp, h]
  constructor
  · unfold floatField
    rw [isEmpty_replaceChar, isBlank_replaceChar _ _ (by decide) (by decide), key 'D' (Or.inl rfl)]
  · unfold floatField
    rw [isEmpty_replaceChar, isBlank_replaceChar _ _ (by decide) (by decide), key 'd' (Or.inr rfl)]

example : floatField "-.292934515480D+01".toList = some (-2.92934515480) ∧
    floatField "0.130985863507d-04".toList = floatField "0.130985863507E-04".toList ∧
    floatField "".toList = some 0 := by decide +kernel

/-! ## 3. GLONASS / SBAS records are skipped without shifting anything -/

/-- **skip_glo_sbas**: a record whose first line carries system `R` or `S` leaves the columns (and the
epoch list) exactly as they were, however many lines it has -/
theorem skip_glo_sbas (T : Tables) (st : St) (l1 : Str) (rest : List Str) (ld1 : LineDef)
    (hld : T.lines.find? (fun (l : LineDef) => l.num = 1) = some ld1)
    (hnoalpha : ((get (lineValues ld1 l1) "sat_clock_drift").getLast?.map isAlpha).getD false = false)
    (hsys : get (lineValues ld1 l1) "system" = ['R'] ∨ get (lineValues ld1 l1) "system" = ['S']) :
    addRecord T Option.none st (l1 :: rest) = some st := by
  unfold addRecord
  simp only [hld]
  have : head3 (lineValues ld1 l1) = some .skipSystem := by
    unfold head3
    rw [hnoalpha]
    rcases hsys with h | h <;> simp [h]
  simp [headOf, this]

/-! ## 4. Week cross-over -/

theorem roundHalfEven_close (x : Rat) : x - 1 / 2 ≤ (roundHalfEven x : Rat) ∧ (roundHalfEven x : Rat) ≤ x + 1 / 2 := by
  have h1 := Rat.floor_le x
  have h2 := Rat.lt_floor_add_one x
  unfold roundHalfEven
  simp only
  split
  · constructor <;> grind
  · split
    · rw [Rat.intCast_add]; constructor <;> grind
    · split
      · constructor <;> grind
      · rw [Rat.intCast_add]; constructor <;> grind

/-- **crossover**: the resolved instant differs from the printed one by whole weeks and lies within
half a week of the record epoch — for every record separately, in both directions -/
theorem crossover (toc t : Rat) :
    (∃ k : Int, towards toc t = t - (k : Rat) * 604800) ∧
    towards toc t - toc ≤ 302400 ∧ toc - towards toc t ≤ 302400 := by
  refine ⟨⟨roundHalfEven ((t - toc) / week), rfl⟩, ?_⟩
  have h := roundHalfEven_close ((t - toc) / week)
  unfold towards
  have hw : week = 604800 := rfl
  rw [hw] at h ⊢
  constructor <;> grind

/-- a value already within half a week is left alone -/
theorem crossover_id (toc t : Rat) (h1 : t - toc < 302400) (h2 : toc - t < 302400) : towards toc t = t := by
  have h := roundHalfEven_close ((t - toc) / week)
  have hw : week = 604800 := rfl
  rw [hw] at h
  have a1 : (t - toc) / 604800 < 1 / 2 := by grind
  have a2 : -(1 / 2 : Rat) < (t - toc) / 604800 := by grind
  have hk1 : ((roundHalfEven ((t - toc) / 604800) : Int) : Rat) < 1 := by grind
  have hk2 : (-1 : Rat) < ((roundHalfEven ((t - toc) / 604800) : Int) : Rat) := by grind
  have a : ((roundHalfEven ((t - toc) / 604800) : Int) : Rat) < ((1 : Int) : Rat) := by simpa using hk1
  have b : ((-1 : Int) : Rat) < ((roundHalfEven ((t - toc) / 604800) : Int) : Rat) := by simpa using hk2
  have a' := Rat.intCast_lt_intCast.mp a
  have b' := Rat.intCast_lt_intCast.mp b
  have hz : roundHalfEven ((t - toc) / 604800) = 0 := by omega
  unfold towards
  rw [hw, hz]
  simp only [Rat.intCast_zero, Rat.zero_mul]
  grind

end Midgard.Props.C12

#print axioms Midgard.Props.C12.layouts_sorted
#print axioms Midgard.Props.C12.cols_cover_spec
#print axioms Midgard.Props.C12.header_sat_sys
#print axioms Midgard.Props.C12.rename_total
#print axioms Midgard.Props.C12.bds_shift
#print axioms Midgard.Props.C12.nav_record
#print axioms Midgard.Props.C12.float_blank
#print axioms Midgard.Props.C12.isBlank_replaceChar
#print axioms Midgard.Props.C12.isEmpty_replaceChar
#print axioms Midgard.Props.C12.exponent_letters
#print axioms Midgard.Props.C12.skip_glo_sbas
#print axioms Midgard.Props.C12.roundHalfEven_close
#print axioms Midgard.Props.C12.crossover
#print axioms Midgard.Props.C12.crossover_id
