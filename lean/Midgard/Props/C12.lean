/-
C12 — RINEX navigation files are parsed into exactly the ephemerides they contain.

Property theorems about `Model/RinexNav.lean` at the tables regenerated from rinex3_nav / rinex2_nav /
rinex212_nav (`Generated/RinexNavCols.lean`), compared with `Spec/RinexNav.lean` (RINEX 3.04 / 2.11).
-/
import Midgard.Model.RinexNav
import Midgard.Generated.RinexNavCols
import Midgard.Spec.RinexNav
import Midgard.Proofs.FixedCol
import Midgard.Proofs.Decimal

namespace Midgard.Props.C12
open Midgard.RinexNav Midgard.Generated.RinexNav Midgard.FixedCol Midgard.Text Midgard.Decimal

/-! ## 1. Table obligations -/

/-- every record line of the three parsers has a sorted, non-overlapping layout -/
theorem layouts_sorted : ((v3Lines ++ v2Lines ++ v212Lines).all fun l => Sorted l.fields) = true := by
  decide +kernel

/-- a standard field lies inside the code's columns of the same name -/
def fieldCovers (f sf : Field) : Bool := (f.name == sf.name) && decide (f.start ≤ sf.start) && decide (sf.stop ≤ f.stop)

def layoutCovers : Layout → Layout → Bool
  | [], [] => true
  | f :: fs, sf :: sfs => fieldCovers f sf && layoutCovers fs sfs
  | _, _ => false

def recordCovers (code : List LineDef) (spec : List (Nat × Layout)) : Bool :=
  decide (code.length = spec.length) &&
    spec.all fun (n, sl) => match code.find? (fun (l : LineDef) => l.num = n) with
      | some l => layoutCovers l.fields sl
      | Option.none => false

/-- **columns = standard**: line n of a record is cut, field by field and under the same name, at
columns that contain the standard's 19-character column (and, sorted by `layouts_sorted`, nothing of
the neighbouring field): RINEX 3.04 for rinex3_nav, RINEX 2.11 for rinex2_nav and rinex212_nav -/
theorem cols_cover_spec :
    recordCovers v3Lines Midgard.Spec.RinexNav.v3Record = true ∧
    recordCovers v2Lines Midgard.Spec.RinexNav.v2Record = true ∧
    recordCovers v212Lines Midgard.Spec.RinexNav.v2Record = true := by
  decide +kernel

/-- the satellite-system letter of the header is read from column 40 -/
theorem header_sat_sys : v3VersionType.find? (·.name = "sat_sys") = some ⟨"sat_sys", 40, 41⟩ := by
  decide +kernel

def nodupS : List String → Bool
  | [] => true
  | a :: rest => !rest.contains a && nodupS rest

def fieldNames (ls : List LineDef) : List String := ls.flatMap fun l => l.fields.map (·.name)

/-- **rename is total and unambiguous**: the 35 + 3 field names of a record are distinct, each general
field has at most one specific name per system, and no specific name collides with a fixed field -/
theorem rename_total :
    nodupS (fieldNames v3Lines) = true ∧ nodupS (fieldNames v2Lines) = true ∧ nodupS (fieldNames v212Lines) = true ∧
    ([v3, v2, v212].all fun T =>
      (T.sysnames.all fun (field, per) =>
        (fieldNames T.lines).contains field && nodupS (per.map (·.1)) &&
        per.all fun (_, n) => !((fieldNames T.lines).contains n) &&
          (T.sysnames.all fun (field', per') => field' == field || !((per'.map (·.2)).contains n)))) = true := by
  decide +kernel

/-- **BeiDou**: 14 s and 1356 weeks, every other supported system 0 -/
theorem bds_shift : ([v3, v2, v212].all fun T =>
    lookupI T.secOffset "C" == 14 && lookupI T.weekOffset "C" == 1356 &&
    (["G", "E", "J", "I"].all fun s => lookupI T.secOffset s == 0 && lookupI T.weekOffset s == 0)) = true := by
  decide +kernel

/-! ## 2. One record line -/

/-- **nav_record**: whatever clean 19-character (or shorter) texts are printed in the columns of line
`n` come back under the line's field names — also when the line lost its trailing blanks, and with no
separator between the columns (a sign may abut the previous field) -/
theorem nav_record (ld : LineDef) (cells : List (Align × Str))
    (hs : Sorted ld.fields = true) (hf : Fits ld.fields cells = true) :
    (lineValues ld (renderA ld.fields cells)).map (·.2) = cells.map (·.2) ∧
    (lineValues ld (renderA ld.fields cells)).map (·.1) = ld.fields.map (·.name) := by
  constructor
  · unfold lineValues
    have := slice_renderA_rstrip ld.fields cells hs hf
    simpa [sliceAll, List.map_map, Function.comp_def] using this
  · simp [lineValues, sliceAll, List.map_map, Function.comp_def]

/-- the value stored for a field is `_float` of exactly that text -/
theorem float_blank (t : Str) (h : isBlank t = true) : floatField t = some 0 := by
  simp [floatField, h]

theorem isBlank_replaceChar (a b : Char) (ha : isSpace a = false) (hb : isSpace b = false) (t : Str) :
    isBlank (replaceChar a b t) = isBlank t := by
  induction t with
  | nil => rfl
  | cons c r ih =>
    simp only [replaceChar, List.map_cons, isBlank, List.all_cons] at ih ⊢
    rw [ih]
    by_cases h : c = a
    · subst h; simp [ha, hb]
    · simp [h]

theorem isEmpty_replaceChar (a b : Char) (t : Str) : (replaceChar a b t).isEmpty = t.isEmpty := by
  cases t <;> rfl

/-- **D, d, E, e exponents denote the same number**: writing the exponent letter `e` of a text as
`D` or `d` does not change `_float` -/
theorem exponent_letters (t : Str) :
    floatField (replaceChar 'e' 'D' t) = floatField t ∧ floatField (replaceChar 'e' 'd' t) = floatField t := by
  have key : ∀ x : Char, x = 'D' ∨ x = 'd' →
      replaceChar 'd' 'e' (replaceChar 'D' 'e' (replaceChar 'e' x t)) = replaceChar 'd' 'e' (replaceChar 'D' 'e' t) := by
    intro x hx
    simp only [replaceChar, List.map_map]
    apply List.map_congr_left
    intro c _
    rcases hx with rfl | rfl
    · by_cases h : c = 'e'
      · subst h; decide
      · simp [Function.comp, h]
    · by_cases h : c = 'e'
      · subst h; decide
      · simp [Function.comp, h]
  constructor
  · unfold floatField
    rw [isEmpty_replaceChar, isBlank_replaceChar _ _ (by decide) (by decide), key 'D' (Or.inl rfl)]
  · unfold floatField
    rw [isEmpty_replaceChar, isBlank_replaceChar _ _ (by decide) (by decide), key 'd' (Or.inr rfl)]

example : floatField "-.292934515480D+01".toList = some (-2.92934515480) ∧
    floatField "0.130985863507d-04".toList = floatField "0.130985863507E-04".toList ∧
    floatField "".toList = some 0 := by decide +kernel

/-! ## 3. GLONASS / SBAS records are skipped without shifting anything -/

/-- **skip_glo_sbas**: a record whose first line carries system `R` or `S` leaves the columns (and the
epoch list) exactly as they were, however many lines it has -/
theorem skip_glo_sbas (T : Tables) (st : St) (l1 : Str) (rest : List Str) (ld1 : LineDef)
    (hld : T.lines.find? (fun (l : LineDef) => l.num = 1) = some ld1)
    (hnoalpha : ((get (lineValues ld1 l1) "sat_clock_drift").getLast?.map isAlpha).getD false = false)
    (hsys : get (lineValues ld1 l1) "system" = ['R'] ∨ get (lineValues ld1 l1) "system" = ['S']) :
    addRecord T Option.none st (l1 :: rest) = some st := by
  unfold addRecord
  simp only [hld]
  have : head3 (lineValues ld1 l1) = some .skipSystem := by
    unfold head3
    rw [hnoalpha]
    rcases hsys with h | h <;> simp [h]
  simp [headOf, this]

/-! ## 4. Week cross-over -/

theorem roundHalfEven_close (x : Rat) : x - 1 / 2 ≤ (roundHalfEven x : Rat) ∧ (roundHalfEven x : Rat) ≤ x + 1 / 2 := by
  have h1 := Rat.floor_le x
  have h2 := Rat.lt_floor_add_one x
  unfold roundHalfEven
  simp only
  split
  · constructor <;> grind
  · split
    · rw [Rat.intCast_add]; constructor <;> grind
    · split
      · constructor <;> grind
      · rw [Rat.intCast_add]; constructor <;> grind

/-- **crossover**: the resolved instant differs from the printed one by whole weeks and lies within
half a week of the record epoch — for every record separately, in both directions -/
theorem crossover (toc t : Rat) :
    (∃ k : Int, towards toc t = t - (k : Rat) * 604800) ∧
    towards toc t - toc ≤ 302400 ∧ toc - towards toc t ≤ 302400 := by
  refine ⟨⟨roundHalfEven ((t - toc) / week), rfl⟩, ?_⟩
  have h := roundHalfEven_close ((t - toc) / week)
  unfold towards
  have hw : week = 604800 := rfl
  rw [hw] at h ⊢
  constructor <;> grind

/-- a value already within half a week is left alone -/
theorem crossover_id (toc t : Rat) (h1 : t - toc < 302400) (h2 : toc - t < 302400) : towards toc t = t := by
  have h := roundHalfEven_close ((t - toc) / week)
  have hw : week = 604800 := rfl
  rw [hw] at h
  have a1 : (t - toc) / 604800 < 1 / 2 := by grind
  have a2 : -(1 / 2 : Rat) < (t - toc) / 604800 := by grind
  have hk1 : ((roundHalfEven ((t - toc) / 604800) : Int) : Rat) < 1 := by grind
  have hk2 : (-1 : Rat) < ((roundHalfEven ((t - toc) / 604800) : Int) : Rat) := by grind
  have a : ((roundHalfEven ((t - toc) / 604800) : Int) : Rat) < ((1 : Int) : Rat) := by simpa using hk1
  have b : ((-1 : Int) : Rat) < ((roundHalfEven ((t - toc) / 604800) : Int) : Rat) := by simpa using hk2
  have a' := Rat.intCast_lt_intCast.mp a
  have b' := Rat.intCast_lt_intCast.mp b
  have hz : roundHalfEven ((t - toc) / 604800) = 0 := by omega
  unfold towards
  rw [hw, hz]
  simp only [Rat.intCast_zero, Rat.zero_mul]
  grind

/-! ## 5. All columns have equal length -/

/-- length of column `k` (0 when the column does not exist yet) -/
def len (d : Cols) (k : String) : Nat := ((col d k).map List.length).getD 0

theorem len_append (d : Cols) (k : String) (v : Cell) (k' : String) :
    len (append d k v) k' = len d k' + (if k' = k then 1 else 0) := by
  unfold len
  induction d with
  | nil =>
    by_cases h : k = k'
    · subst h; simp [append, col]
    · have h' : ¬ k' = k := fun e => h e.symm
      simp [append, col, h, h']
  | cons p rest ih =>
    obtain ⟨kk, vs⟩ := p
    by_cases hk : kk = k
    · subst hk
      by_cases h : kk = k'
      · subst h; simp [append, col]
      · have h' : ¬ k' = kk := fun e => h e.symm
        simp [append, col, h, h']
    · by_cases h : kk = k'
      · subst h
        have h' : ¬ kk = k := hk
        simp [append, col, hk]
      · simp only [append, hk, if_false, col, h]
        exact ih

/-- appending a run of (key, value) pairs: every column grows by the number of times its key occurs -/
theorem len_foldl_append (kvs : List (String × Cell)) : ∀ (d : Cols) (k' : String),
    len (kvs.foldl (fun d kv => append d kv.1 kv.2) d) k' = len d k' + (kvs.map (·.1)).count k' := by
  induction kvs with
  | nil => intro d k'; simp
  | cons kv rest ih =>
    intro d k'
    simp only [List.foldl_cons, List.map_cons]
    rw [ih, len_append, List.count_cons]
    by_cases h : k' = kv.1
    · subst h; simp; omega
    · have h' : ¬ (kv.1 == k') = true := by simpa using fun e => h e.symm
      simp [h, h']

/-- the fields of one orbit line, appended through `_float`: if it succeeds, every column grows by the
number of times its name occurs in the line's layout -/
theorem len_addLine (ld : LineDef) (line : Str) : ∀ (d d' : Cols), addLine ld d line = some d' →
    ∀ k', len d' k' = len d k' + (ld.fields.map (·.name)).count k' := by
  have hnames : (lineValues ld line).map (·.1) = ld.fields.map (·.name) := by
    simp [lineValues, sliceAll, List.map_map, Function.comp_def]
  unfold addLine
  rw [← hnames]
  generalize lineValues ld line = vs
  induction vs with
  | nil => intro d d' h k'; simp only [List.foldlM_nil, Option.pure_def, Option.some.injEq] at h; subst h; simp
  | cons kt rest ih =>
    intro d d' h k'
    simp only [List.foldlM_cons, Option.bind_eq_bind] at h
    cases hq : floatField kt.2 with
    | none => simp [hq] at h
    | some q =>
      simp only [hq, Option.map_some, Option.bind_some] at h
      rw [ih _ _ h k', len_append, List.map_cons, List.count_cons]
      by_cases hk : k' = kt.1
      · subst hk; simp; omega
      · have h' : ¬ (kt.1 == k') = true := by simpa using fun e => hk e.symm
        simp [hk, h']

/-- names appended by the orbit lines `(i, line)` (record line number `i + 2`) -/
def keysOfLines (T : Tables) (nl : List (Nat × Str)) : List String :=
  nl.flatMap fun il => match T.lines.find? (fun (l : LineDef) => l.num = il.1 + 2) with
    | some ld => ld.fields.map (·.name)
    | Option.none => []

theorem len_addLines (T : Tables) (nl : List (Nat × Str)) : ∀ (d d' : Cols), addLines T d nl = some d' →
    ∀ k', len d' k' = len d k' + (keysOfLines T nl).count k' := by
  unfold addLines
  induction nl with
  | nil => intro d d' h k'; simp only [List.foldlM_nil, Option.pure_def, Option.some.injEq] at h; subst h; simp [keysOfLines]
  | cons il rest ih =>
    intro d d' h k'
    simp only [List.foldlM_cons, Option.bind_eq_bind] at h
    cases hfind : T.lines.find? (fun (l : LineDef) => l.num = il.1 + 2) with
    | none =>
      simp only [hfind, Option.bind_some] at h
      rw [ih _ _ h k']
      simp [keysOfLines, hfind]
    | some ld =>
      simp only [hfind] at h
      cases hline : addLine ld d il.2 with
      | none => simp [hline] at h
      | some d1 =>
        simp only [hline, Option.bind_some] at h
        rw [ih _ _ h k', len_addLine ld il.2 d d1 hline k']
        simp only [keysOfLines, List.flatMap_cons, hfind, List.count_append]
        omega

theorem len_addEpoch (d : Cols) (e : Epoch) (clock : List (String × Rat)) (k' : String) :
    len (addEpoch d e clock) k' = len d k' + (["system", "satellite"] ++ clock.map (·.1)).count k' := by
  unfold addEpoch
  have := len_foldl_append (clock.map fun nq => (nq.1, Cell.num nq.2))
    (append (append d "system" (.str e.system)) "satellite" (.str e.sat)) k'
  simp only [List.foldl_map, List.map_map, Function.comp_def] at this
  rw [this, len_append, len_append]
  have e1 : (["system", "satellite"] ++ clock.map (·.1)).count k' =
      (clock.map (·.1)).count k' + (if k' = "satellite" then 1 else 0) + (if k' = "system" then 1 else 0) := by
    simp only [List.cons_append, List.nil_append, List.count_cons, beq_iff_eq]
    have a1 : ("system" = k') = (k' = "system") := propext ⟨Eq.symm, Eq.symm⟩
    have a2 : ("satellite" = k') = (k' = "satellite") := propext ⟨Eq.symm, Eq.symm⟩
    simp only [a1, a2]
  rw [e1]
  omega

/-- every name a kept record appends: the epoch line's columns, then the orbit lines' -/
def recordKeys (T : Tables) (clock : List String) (nl : List (Nat × Str)) : List String :=
  ["system", "satellite"] ++ clock ++ keysOfLines T nl

/-- **one record, one value per column**: a record either leaves the columns untouched (GLONASS/SBAS,
stray header line) or makes every column grow by the number of times its name occurs among the
record's field names -/
theorem record_appends (T : Tables) (v2 : Option Str) (st st' : St) (l1 : Str) (rest : List Str)
    (h : addRecord T v2 st (l1 :: rest) = some st') :
    st' = st ∨ ∃ clock : List String, ∀ k', len st'.data k' = len st.data k' +
      (recordKeys T clock ((List.range rest.length).zip rest)).count k' := by
  unfold addRecord at h
  cases hfind : T.lines.find? (fun (l : LineDef) => l.num = 1) with
  | none => simp only [hfind, Option.some.injEq] at h; exact Or.inl h.symm
  | some ld1 =>
    simp only [hfind] at h
    cases hhead : headOf v2 (lineValues ld1 l1) with
    | none => simp [hhead] at h
    | some hd =>
      simp only [hhead] at h
      cases hd with
      | skipHeaderLine => simp only [Option.some.injEq] at h; exact Or.inl h.symm
      | skipSystem => simp only [Option.some.injEq] at h; exact Or.inl h.symm
      | ok e clock =>
        right
        simp only at h
        obtain ⟨d, hd, hst⟩ := Option.map_eq_some_iff.mp h
        subst hst
        refine ⟨clock.map (·.1), fun k' => ?_⟩
        have hl := len_addLines T ((List.range rest.length).zip rest) _ d hd k'
        simp only
        rw [hl, len_addEpoch]
        simp only [recordKeys, List.count_append]
        omega

/-- the names of orbit lines `2 … n+1` of the table -/
def keysOfIdx (T : Tables) (n : Nat) : List String :=
  (List.range n).flatMap fun i => match T.lines.find? (fun (l : LineDef) => l.num = i + 2) with
    | some ld => ld.fields.map (·.name)
    | Option.none => []

theorem keysOfLines_eq (T : Tables) (nl : List (Nat × Str)) :
    keysOfLines T nl = (nl.map (·.1)).flatMap fun i => match T.lines.find? (fun (l : LineDef) => l.num = i + 2) with
      | some ld => ld.fields.map (·.name)
      | Option.none => [] := by
  simp [keysOfLines, List.flatMap_map]

theorem keysOfLines_zip (T : Tables) (rest : List Str) :
    keysOfLines T ((List.range rest.length).zip rest) = keysOfIdx T rest.length := by
  rw [keysOfLines_eq, List.map_fst_zip (by simp)]
  rfl

/-- all 38 column names one record feeds, as the table gives them -/
def recordNames (T : Tables) : List String := ["system", "satellite"] ++ clockNames ++ keysOfIdx T 7

def nodupL : List String → Bool
  | [] => true
  | a :: rest => !rest.contains a && nodupL rest

theorem count_of_nodupL (l : List String) (h : nodupL l = true) (k : String) :
    l.count k = if k ∈ l then 1 else 0 := by
  induction l with
  | nil => simp
  | cons a rest ih =>
    simp only [nodupL, Bool.and_eq_true, Bool.not_eq_eq_eq_not, Bool.not_true] at h
    have hna : a ∉ rest := by simpa using h.1
    rw [List.count_cons, ih h.2]
    by_cases hk : k = a
    · subst hk; simp [hna]
    · have h' : ¬ (a == k) = true := by simpa using fun e => hk e.symm
      simp [hk, h']

/-- the record's names are pairwise distinct in each of the three parsers' tables -/
theorem record_names_distinct :
    nodupL (recordNames v3) = true ∧ nodupL (recordNames v2) = true ∧ nodupL (recordNames v212) = true := by
  decide +kernel

theorem mapM_names (f : String → Option Rat) (names : List String) (r : List (String × Rat))
    (h : names.mapM (fun n => (f n).map fun q => (n, q)) = some r) : r.map (·.1) = names := by
  induction names generalizing r with
  | nil => simp at h; subst h; rfl
  | cons n ns ih =>
    simp only [List.mapM_cons, Option.bind_eq_bind, Option.pure_def] at h
    cases hf : f n with
    | none => simp [hf] at h
    | some q =>
      simp only [hf, Option.map_some, Option.bind_some] at h
      cases hr : ns.mapM (fun n => (f n).map fun q => (n, q)) with
      | none => simp [hr] at h
      | some r' =>
        simp only [hr, Option.bind_some, Option.some.injEq] at h
        subst h
        simp [ih r' hr]

/-- the clock columns a kept epoch line feeds are exactly `clockNames` -/
theorem head_clock_names (v2 : Option Str) (vs : List (String × Str)) (e : Epoch) (clock : List (String × Rat))
    (h : headOf v2 vs = some (.ok e clock)) : clock.map (·.1) = clockNames := by
  have key : ∀ (oe : Option Epoch), (oe.bind fun e' => (clockOf vs).map fun cl => Head.ok e' cl) = some (.ok e clock) →
      clock.map (·.1) = clockNames := by
    intro oe hb
    obtain ⟨e', _, h2⟩ := Option.bind_eq_some_iff.mp hb
    obtain ⟨cl, hcl, h3⟩ := Option.map_eq_some_iff.mp h2
    have : cl = clock := by injection h3
    subst this
    exact mapM_names _ _ _ hcl
  cases v2 with
  | none =>
    simp only [headOf, head3] at h
    split at h
    · simp at h
    · split at h
      · simp at h
      · exact key _ h
  | some s =>
    simp only [headOf, head2] at h
    split at h
    · simp at h
    · exact key _ h

/-- **all columns have equal length**: a supported record with its seven orbit lines adds exactly one
value to each of the record's 38 columns and none to any other; a skipped record (GLONASS, SBAS) adds
nothing — so columns that were equally long stay equally long, in each of the three parsers -/
theorem columns_equal_length (T : Tables) (hT : nodupL (recordNames T) = true)
    (v2 : Option Str) (st st' : St) (l1 : Str) (rest : List Str) (hrest : rest.length = 7)
    (h : addRecord T v2 st (l1 :: rest) = some st') :
    st' = st ∨ ∀ k, len st'.data k = len st.data k + (if k ∈ recordNames T then 1 else 0) := by
  unfold addRecord at h
  cases hfind : T.lines.find? (fun (l : LineDef) => l.num = 1) with
  | none => simp only [hfind, Option.some.injEq] at h; exact Or.inl h.symm
  | some ld1 =>
    simp only [hfind] at h
    cases hhead : headOf v2 (lineValues ld1 l1) with
    | none => simp [hhead] at h
    | some hd =>
      simp only [hhead] at h
      cases hd with
      | skipHeaderLine => simp only [Option.some.injEq] at h; exact Or.inl h.symm
      | skipSystem => simp only [Option.some.injEq] at h; exact Or.inl h.symm
      | ok e clock =>
        right
        simp only at h
        obtain ⟨d, hd, hst⟩ := Option.map_eq_some_iff.mp h
        subst hst
        intro k
        have hl := len_addLines T ((List.range rest.length).zip rest) _ d hd k
        have hc := head_clock_names v2 _ e clock hhead
        simp only
        rw [hl, len_addEpoch, keysOfLines_zip, hrest, hc, ← count_of_nodupL _ hT k]
        simp only [recordNames, List.count_append]
        omega

end Midgard.Props.C12

#print axioms Midgard.Props.C12.layouts_sorted
#print axioms Midgard.Props.C12.cols_cover_spec
#print axioms Midgard.Props.C12.header_sat_sys
#print axioms Midgard.Props.C12.rename_total
#print axioms Midgard.Props.C12.bds_shift
#print axioms Midgard.Props.C12.nav_record
#print axioms Midgard.Props.C12.float_blank
#print axioms Midgard.Props.C12.isBlank_replaceChar
#print axioms Midgard.Props.C12.isEmpty_replaceChar
#print axioms Midgard.Props.C12.exponent_letters
#print axioms Midgard.Props.C12.skip_glo_sbas
#print axioms Midgard.Props.C12.roundHalfEven_close
#print axioms Midgard.Props.C12.crossover
#print axioms Midgard.Props.C12.crossover_id
#print axioms Midgard.Props.C12.len_append
#print axioms Midgard.Props.C12.len_foldl_append
#print axioms Midgard.Props.C12.len_addLine
#print axioms Midgard.Props.C12.len_addLines
#print axioms Midgard.Props.C12.len_addEpoch
#print axioms Midgard.Props.C12.record_appends
#print axioms Midgard.Props.C12.keysOfLines_eq
#print axioms Midgard.Props.C12.keysOfLines_zip
#print axioms Midgard.Props.C12.count_of_nodupL
#print axioms Midgard.Props.C12.record_names_distinct
#print axioms Midgard.Props.C12.mapM_names
#print axioms Midgard.Props.C12.head_clock_names
#print axioms Midgard.Props.C12.columns_equal_length
