/-
C12 — RINEX navigation files are parsed into exactly the ephemerides they contain.

Property theorems about `Model/RinexNav.lean` at the tables regenerated from rinex3_nav / rinex2_nav /
rinex212_nav (`Generated/RinexNavCols.lean`), compared with `Spec/RinexNav.lean` (RINEX 3.04 / 2.11).
-/
import Midgard.Model.RinexNav
import Midgard.Generated.RinexNavCols
import Midgard.Spec.RinexNav
import Midgard.Proofs.FixedCol
import Midgard.Proofs.Decimal
import Midgard.Proofs.RinexNavFile
import Midgard.Proofs.RinexNavDispatch
import Midgard.Proofs.RinexNavNoCR
import Midgard.Spec.RinexNavPost

namespace Midgard.Props.C12
open Midgard.RinexNav Midgard.Generated.RinexNav Midgard.FixedCol Midgard.Text Midgard.Decimal

/-! ## 1. Table obligations -/

/-- every record line of the three parsers has a sorted, non-overlapping layout -/
theorem layouts_sorted : ((v3Lines ++ v2Lines ++ v212Lines).all fun l => Sorted l.fields) = true := by
  decide +kernel

/-- a standard field lies inside the code's columns of the same name -/
def fieldCovers (f sf : Field) : Bool := (f.name == sf.name) && decide (f.start ≤ sf.start) && decide (sf.stop ≤ f.stop)

def layoutCovers : Layout → Layout → Bool
  | [], [] => true
  | f :: fs, sf :: sfs => fieldCovers f sf && layoutCovers fs sfs
  | _, _ => false

def recordCovers (code : List LineDef) (spec : List (Nat × Layout)) : Bool :=
  decide (code.length = spec.length) &&
    spec.all fun (n, sl) => match code.find? (fun (l : LineDef) => l.num = n) with
      | some l => layoutCovers l.fields sl
      | Option.none => false

/-- **columns = standard**: line n of a record is cut, field by field and under the same name, at
columns that contain the standard's 19-character column (and, sorted by `layouts_sorted`, nothing of
the neighbouring field): RINEX 3.04 for rinex3_nav, RINEX 2.11 for rinex2_nav and rinex212_nav -/
theorem cols_cover_spec :
    recordCovers v3Lines Midgard.Spec.RinexNav.v3Record = true ∧
    recordCovers v2Lines Midgard.Spec.RinexNav.v2Record = true ∧
    recordCovers v212Lines Midgard.Spec.RinexNav.v2Record = true := by
  decide +kernel

/-- the satellite-system letter of the header is read from column 40 -/
theorem header_sat_sys : v3VersionType.find? (·.name = "sat_sys") = some ⟨"sat_sys", 40, 41⟩ := by
  decide +kernel

def nodupS : List String → Bool
  | [] => true
  | a :: rest => !rest.contains a && nodupS rest

def fieldNames (ls : List LineDef) : List String := ls.flatMap fun l => l.fields.map (·.name)

/-- **rename is total and unambiguous**: the 35 + 3 field names of a record are distinct, each general
field has at most one specific name per system, and no specific name collides with a fixed field -/
theorem rename_total :
    nodupS (fieldNames v3Lines) = true ∧ nodupS (fieldNames v2Lines) = true ∧ nodupS (fieldNames v212Lines) = true ∧
    ([v3, v2, v212].all fun T =>
      (T.sysnames.all fun (field, per) =>
        (fieldNames T.lines).contains field && nodupS (per.map (·.1)) &&
        per.all fun (_, n) => !((fieldNames T.lines).contains n) &&
          (T.sysnames.all fun (field', per') => field' == field || !((per'.map (·.2)).contains n)))) = true := by
  decide +kernel

/-- **BeiDou**: 14 s and 1356 weeks, every other supported system 0 -/
theorem bds_shift : ([v3, v2, v212].all fun T =>
    lookupI T.secOffset "C" == 14 && lookupI T.weekOffset "C" == 1356 &&
    (["G", "E", "J", "I"].all fun s => lookupI T.secOffset s == 0 && lookupI T.weekOffset s == 0)) = true := by
  decide +kernel

/-! ## 2. One record line -/

/-- **nav_record**: whatever clean 19-character (or shorter) texts are printed in the columns of line
`n` come back under the line's field names — also when the line lost its trailing blanks, and with no
separator between the columns (a sign may abut the previous field) -/
theorem nav_record (ld : LineDef) (cells : List (Align × Str))
    (hs : Sorted ld.fields = true) (hf : Fits ld.fields cells = true) :
    (lineValues ld (renderA ld.fields cells)).map (·.2) = cells.map (·.2) ∧
    (lineValues ld (renderA ld.fields cells)).map (·.1) = ld.fields.map (·.name) := by
  constructor
  · unfold lineValues
    have := slice_renderA_rstrip ld.fields cells hs hf
    simpa [sliceAll, List.map_map, Function.comp_def] using this
  · simp [lineValues, sliceAll, List.map_map, Function.comp_def]

/-- the value stored for a field is `_float` of exactly that text -/
theorem float_blank (t : Str) (h : isBlank t = true) : floatField t = some 0 := by
  simp [floatField, h]

theorem isBlank_replaceChar (a b : Char) (ha : isSpace a = false) (hb : isSpace b = false) (t : Str) :
    isBlank (replaceChar a b t) = isBlank t := by
  induction t with
  | nil => rfl
  | cons c r ih =>
    simp only [replaceChar, List.map_cons, isBlank, List.all_cons] at ih ⊢
    rw [ih]
    by_cases h : c = a
    · subst h; simp [ha, hb]
    · simp [h]

theorem isEmpty_replaceChar (a b : Char) (t : Str) : (replaceChar a b t).isEmpty = t.isEmpty := by
  cases t <;> rfl

/-- **D, d, E, e exponents denote the same number**: writing the exponent letter `e` of a text as
`D` or `d` does not change `_float` -/
theorem exponent_letters (t : Str) :
    floatField (replaceChar 'e' 'D' t) = floatField t ∧ floatField (replaceChar 'e' 'd' t) = floatField t := by
  have key : ∀ x : Char, x = 'D' ∨ x = 'd' →
      replaceChar 'd' 'e' (replaceChar 'D' 'e' (replaceChar 'e' x t)) = replaceChar 'd' 'e' (replaceChar 'D' 'e' t) := by
    intro x hx
    simp only [replaceChar, List.map_map]
    apply List.map_congr_left
    intro c _
    rcases hx with rfl | rfl
    · by_cases h : c = 'e'
      · subst h; decide
      · simp [Function.comp, h]
    · by_cases h : c = 'e'
      · subst h; decide
      · simp [Function.comp, h]
  constructor
  · unfold floatField
    rw [isEmpty_replaceChar, isBlank_replaceChar _ _ (by decide) (by decide), key 'D' (Or.inl rfl)]
  · unfold floatField
    rw [isEmpty_replaceChar, isBlank_replaceChar _ _ (by decide) (by decide), key 'd' (Or.inr rfl)]

example : floatField "-.292934515480D+01".toList = some (-2.92934515480) ∧
    floatField "0.130985863507d-04".toList = floatField "0.130985863507E-04".toList ∧
    floatField "".toList = some 0 := by decide +kernel

/-! ## 3. GLONASS / SBAS records are skipped without shifting anything -/

/-- **skip_glo_sbas**: a record whose first line carries system `R` or `S` leaves the columns (and the
epoch list) exactly as they were, however many lines it has -/
theorem skip_glo_sbas (T : Tables) (st : St) (l1 : Str) (rest : List Str) (ld1 : LineDef)
    (hld : T.lines.find? (fun (l : LineDef) => l.num = 1) = some ld1)
    (hnoalpha : ((get (lineValues ld1 l1) "sat_clock_drift").getLast?.map isAlpha).getD false = false)
    (hsys : get (lineValues ld1 l1) "system" = ['R'] ∨ get (lineValues ld1 l1) "system" = ['S']) :
    addRecord T Option.none st (l1 :: rest) = some st := by
  unfold addRecord
  simp only [hld]
  have : head3 (lineValues ld1 l1) = some .skipSystem := by
    unfold head3
    rw [hnoalpha]
    rcases hsys with h | h <;> simp [h]
  simp [headOf, this]

/-! ## 4. Week cross-over -/

theorem roundHalfEven_close (x : Rat) : x - 1 / 2 ≤ (roundHalfEven x : Rat) ∧ (roundHalfEven x : Rat) ≤ x + 1 / 2 := by
  have h1 := Rat.floor_le x
  have h2 := Rat.lt_floor_add_one x
  unfold roundHalfEven
  simp only
  split
  · constructor <;> grind
  · split
    · rw [Rat.intCast_add]; constructor <;> grind
    · split
      · constructor <;> grind
      · rw [Rat.intCast_add]; constructor <;> grind

/-- **crossover**: the resolved instant differs from the printed one by whole weeks and lies within
half a week of the record epoch — for every record separately, in both directions -/
theorem crossover (toc t : Rat) :
    (∃ k : Int, towards toc t = t - (k : Rat) * 604800) ∧
    towards toc t - toc ≤ 302400 ∧ toc - towards toc t ≤ 302400 := by
  refine ⟨⟨roundHalfEven ((t - toc) / week), rfl⟩, ?_⟩
  have h := roundHalfEven_close ((t - toc) / week)
  unfold towards
  have hw : week = 604800 := rfl
  rw [hw] at h ⊢
  constructor <;> grind

/-- a value already within half a week is left alone -/
theorem crossover_id (toc t : Rat) (h1 : t - toc < 302400) (h2 : toc - t < 302400) : towards toc t = t := by
  have h := roundHalfEven_close ((t - toc) / week)
  have hw : week = 604800 := rfl
  rw [hw] at h
  have a1 : (t - toc) / 604800 < 1 / 2 := by grind
  have a2 : -(1 / 2 : Rat) < (t - toc) / 604800 := by grind
  have hk1 : ((roundHalfEven ((t - toc) / 604800) : Int) : Rat) < 1 := by grind
  have hk2 : (-1 : Rat) < ((roundHalfEven ((t - toc) / 604800) : Int) : Rat) := by grind
  have a : ((roundHalfEven ((t - toc) / 604800) : Int) : Rat) < ((1 : Int) : Rat) := by simpa using hk1
  have b : ((-1 : Int) : Rat) < ((roundHalfEven ((t - toc) / 604800) : Int) : Rat) := by simpa using hk2
  have a' := Rat.intCast_lt_intCast.mp a
  have b' := Rat.intCast_lt_intCast.mp b
  have hz : roundHalfEven ((t - toc) / 604800) = 0 := by omega
  unfold towards
  rw [hw, hz]
  simp only [Rat.intCast_zero, Rat.zero_mul]
  grind

/-! ## 5. All columns have equal length -/

/-- length of column `k` (0 when the column does not exist yet) -/
def len (d : Cols) (k : String) : Nat := ((col d k).map List.length).getD 0

theorem len_append (d : Cols) (k : String) (v : Cell) (k' : String) :
    len (append d k v) k' = len d k' + (if k' = k then 1 else 0) := by
  unfold len
  induction d with
  | nil =>
    by_cases h : k = k'
    · subst h; simp [append, col]
    · have h' : ¬ k' = k := fun e => h e.symm
      simp [append, col, h, h']
  | cons p rest ih =>
    obtain ⟨kk, vs⟩ := p
    by_cases hk : kk = k
    · subst hk
      by_cases h : kk = k'
      · subst h; simp [append, col]
      · have h' : ¬ k' = kk := fun e => h e.symm
        simp [append, col, h, h']
    · by_cases h : kk = k'
      · subst h
        have h' : ¬ kk = k := hk
        simp [append, col, hk]
      · simp only [append, hk, if_false, col, h]
        exact ih

/-- appending a run of (key, value) pairs: every column grows by the number of times its key occurs -/
theorem len_foldl_append (kvs : List (String × Cell)) : ∀ (d : Cols) (k' : String),
    len (kvs.foldl (fun d kv => append d kv.1 kv.2) d) k' = len d k' + (kvs.map (·.1)).count k' := by
  induction kvs with
  | nil => intro d k'; simp
  | cons kv rest ih =>
    intro d k'
    simp only [List.foldl_cons, List.map_cons]
    rw [ih, len_append, List.count_cons]
    by_cases h : k' = kv.1
    · subst h; simp; omega
    · have h' : ¬ (kv.1 == k') = true := by simpa using fun e => h e.symm
      simp [h, h']

/-- the fields of one orbit line, appended through `_float`: if it succeeds, every column grows by the
number of times its name occurs in the line's layout -/
theorem len_addLine (ld : LineDef) (line : Str) : ∀ (d d' : Cols), addLine ld d line = some d' →
    ∀ k', len d' k' = len d k' + (ld.fields.map (·.name)).count k' := by
  have hnames : (lineValues ld line).map (·.1) = ld.fields.map (·.name) := by
    simp [lineValues, sliceAll, List.map_map, Function.comp_def]
  unfold addLine
  rw [← hnames]
  generalize lineValues ld line = vs
  induction vs with
  | nil => intro d d' h k'; simp only [List.foldlM_nil, Option.pure_def, Option.some.injEq] at h; subst h; simp
  | cons kt rest ih =>
    intro d d' h k'
    simp only [List.foldlM_cons, Option.bind_eq_bind] at h
    cases hq : floatField kt.2 with
    | none => simp [hq] at h
    | some q =>
      simp only [hq, Option.map_some, Option.bind_some] at h
      rw [ih _ _ h k', len_append, List.map_cons, List.count_cons]
      by_cases hk : k' = kt.1
      · subst hk; simp; omega
      · have h' : ¬ (kt.1 == k') = true := by simpa using fun e => hk e.symm
        simp [hk, h']

/-- names appended by the orbit lines `(i, line)` (record line number `i + 2`) -/
def keysOfLines (T : Tables) (nl : List (Nat × Str)) : List String :=
  nl.flatMap fun il => match T.lines.find? (fun (l : LineDef) => l.num = il.1 + 2) with
    | some ld => ld.fields.map (·.name)
    | Option.none => []

theorem len_addLines (T : Tables) (nl : List (Nat × Str)) : ∀ (d d' : Cols), addLines T d nl = some d' →
    ∀ k', len d' k' = len d k' + (keysOfLines T nl).count k' := by
  unfold addLines
  induction nl with
  | nil => intro d d' h k'; simp only [List.foldlM_nil, Option.pure_def, Option.some.injEq] at h; subst h; simp [keysOfLines]
  | cons il rest ih =>
    intro d d' h k'
    simp only [List.foldlM_cons, Option.bind_eq_bind] at h
    cases hfind : T.lines.find? (fun (l : LineDef) => l.num = il.1 + 2) with
    | none =>
      simp only [hfind, Option.bind_some] at h
      rw [ih _ _ h k']
      simp [keysOfLines, hfind]
    | some ld =>
      simp only [hfind] at h
      cases hline : addLine ld d il.2 with
      | none => simp [hline] at h
      | some d1 =>
        simp only [hline, Option.bind_some] at h
        rw [ih _ _ h k', len_addLine ld il.2 d d1 hline k']
        simp only [keysOfLines, List.flatMap_cons, hfind, List.count_append]
        omega

theorem len_addEpoch (d : Cols) (e : Epoch) (clock : List (String × Rat)) (k' : String) :
    len (addEpoch d e clock) k' = len d k' + (["system", "satellite"] ++ clock.map (·.1)).count k' := by
  unfold addEpoch
  have := len_foldl_append (clock.map fun nq => (nq.1, Cell.num nq.2))
    (append (append d "system" (.str e.system)) "satellite" (.str e.sat)) k'
  simp only [List.foldl_map, List.map_map, Function.comp_def] at this
  rw [this, len_append, len_append]
  have e1 : (["system", "satellite"] ++ clock.map (·.1)).count k' =
      (clock.map (·.1)).count k' + (if k' = "satellite" then 1 else 0) + (if k' = "system" then 1 else 0) := by
    simp only [List.cons_append, List.nil_append, List.count_cons, beq_iff_eq]
    have a1 : ("system" = k') = (k' = "system") := propext ⟨Eq.symm, Eq.symm⟩
    have a2 : ("satellite" = k') = (k' = "satellite") := propext ⟨Eq.symm, Eq.symm⟩
    simp only [a1, a2]
  rw [e1]
  omega

/-- every name a kept record appends: the epoch line's columns, then the orbit lines' -/
def recordKeys (T : Tables) (clock : List String) (nl : List (Nat × Str)) : List String :=
  ["system", "satellite"] ++ clock ++ keysOfLines T nl

/-- **one record, one value per column**: a record either leaves the columns untouched (GLONASS/SBAS,
stray header line) or makes every column grow by the number of times its name occurs among the
record's field names -/
theorem record_appends (T : Tables) (v2 : Option Str) (st st' : St) (l1 : Str) (rest : List Str)
    (h : addRecord T v2 st (l1 :: rest) = some st') :
    st' = st ∨ ∃ clock : List String, ∀ k', len st'.data k' = len st.data k' +
      (recordKeys T clock ((List.range rest.length).zip rest)).count k' := by
  unfold addRecord at h
  cases hfind : T.lines.find? (fun (l : LineDef) => l.num = 1) with
  | none => simp only [hfind, Option.some.injEq] at h; exact Or.inl h.symm
  | some ld1 =>
    simp only [hfind] at h
    cases hhead : headOf v2 (lineValues ld1 l1) with
    | none => simp [hhead] at h
    | some hd =>
      simp only [hhead] at h
      cases hd with
      | skipHeaderLine => simp only [Option.some.injEq] at h; exact Or.inl h.symm
      | skipSystem => simp only [Option.some.injEq] at h; exact Or.inl h.symm
      | ok e clock =>
        right
        simp only at h
        obtain ⟨d, hd, hst⟩ := Option.map_eq_some_iff.mp h
        subst hst
        refine ⟨clock.map (·.1), fun k' => ?_⟩
        have hl := len_addLines T ((List.range rest.length).zip rest) _ d hd k'
        simp only
        rw [hl, len_addEpoch]
        simp only [recordKeys, List.count_append]
        omega

theorem keysOfLines_eq (T : Tables) (nl : List (Nat × Str)) :
    keysOfLines T nl = (nl.map (·.1)).flatMap fun i => match T.lines.find? (fun (l : LineDef) => l.num = i + 2) with
      | some ld => ld.fields.map (·.name)
      | Option.none => [] := by
  simp [keysOfLines, List.flatMap_map]

theorem keysOfLines_zip (T : Tables) (rest : List Str) :
    keysOfLines T ((List.range rest.length).zip rest) = keysOfIdx T rest.length := by
  rw [keysOfLines_eq, List.map_fst_zip (by simp)]
  rfl

def nodupL : List String → Bool
  | [] => true
  | a :: rest => !rest.contains a && nodupL rest

theorem count_of_nodupL (l : List String) (h : nodupL l = true) (k : String) :
    l.count k = if k ∈ l then 1 else 0 := by
  induction l with
  | nil => simp
  | cons a rest ih =>
    simp only [nodupL, Bool.and_eq_true, Bool.not_eq_eq_eq_not, Bool.not_true] at h
    have hna : a ∉ rest := by simpa using h.1
    rw [List.count_cons, ih h.2]
    by_cases hk : k = a
    · subst hk; simp [hna]
    · have h' : ¬ (a == k) = true := by simpa using fun e => hk e.symm
      simp [hk, h']

/-- the record's names are pairwise distinct in each of the three parsers' tables -/
theorem record_names_distinct :
    nodupL (recordNames v3) = true ∧ nodupL (recordNames v2) = true ∧ nodupL (recordNames v212) = true := by
  decide +kernel

theorem mapM_names (f : String → Option Rat) (names : List String) (r : List (String × Rat))
    (h : names.mapM (fun n => (f n).map fun q => (n, q)) = some r) : r.map (·.1) = names := by
  induction names generalizing r with
  | nil => simp at h; subst h; rfl
  | cons n ns ih =>
    simp only [List.mapM_cons, Option.bind_eq_bind, Option.pure_def] at h
    cases hf : f n with
    | none => simp [hf] at h
    | some q =>
      simp only [hf, Option.map_some, Option.bind_some] at h
      cases hr : ns.mapM (fun n => (f n).map fun q => (n, q)) with
      | none => simp [hr] at h
      | some r' =>
        simp only [hr, Option.bind_some, Option.some.injEq] at h
        subst h
        simp [ih r' hr]

/-- the clock columns a kept epoch line feeds are exactly `clockNames` -/
theorem head_clock_names (v2 : Option Str) (vs : List (String × Str)) (e : Epoch) (clock : List (String × Rat))
    (h : headOf v2 vs = some (.ok e clock)) : clock.map (·.1) = clockNames := by
  have key : ∀ (oe : Option Epoch), (oe.bind fun e' => (clockOf vs).map fun cl => Head.ok e' cl) = some (.ok e clock) →
      clock.map (·.1) = clockNames := by
    intro oe hb
    obtain ⟨e', _, h2⟩ := Option.bind_eq_some_iff.mp hb
    obtain ⟨cl, hcl, h3⟩ := Option.map_eq_some_iff.mp h2
    have : cl = clock := by injection h3
    subst this
    exact mapM_names _ _ _ hcl
  cases v2 with
  | none =>
    simp only [headOf, head3] at h
    split at h
    · simp at h
    · split at h
      · simp at h
      · exact key _ h
  | some s =>
    simp only [headOf, head2] at h
    split at h
    · simp at h
    · split at h
      · simp at h
      · exact key _ h

/-- **all columns have equal length**: a supported record with its seven orbit lines adds exactly one
value to each of the record's 38 columns and none to any other; a skipped record (GLONASS, SBAS) adds
nothing — so columns that were equally long stay equally long, in each of the three parsers -/
theorem columns_equal_length (T : Tables) (hT : nodupL (recordNames T) = true)
    (v2 : Option Str) (st st' : St) (l1 : Str) (rest : List Str) (hrest : rest.length = 7)
    (h : addRecord T v2 st (l1 :: rest) = some st') :
    st' = st ∨ ∀ k, len st'.data k = len st.data k + (if k ∈ recordNames T then 1 else 0) := by
  unfold addRecord at h
  cases hfind : T.lines.find? (fun (l : LineDef) => l.num = 1) with
  | none => simp only [hfind, Option.some.injEq] at h; exact Or.inl h.symm
  | some ld1 =>
    simp only [hfind] at h
    cases hhead : headOf v2 (lineValues ld1 l1) with
    | none => simp [hhead] at h
    | some hd =>
      simp only [hhead] at h
      cases hd with
      | skipHeaderLine => simp only [Option.some.injEq] at h; exact Or.inl h.symm
      | skipSystem => simp only [Option.some.injEq] at h; exact Or.inl h.symm
      | ok e clock =>
        right
        simp only at h
        obtain ⟨d, hd, hst⟩ := Option.map_eq_some_iff.mp h
        subst hst
        intro k
        have hl := len_addLines T ((List.range rest.length).zip rest) _ d hd k
        have hc := head_clock_names v2 _ e clock hhead
        simp only
        rw [hl, len_addEpoch, keysOfLines_zip, hrest, hc, ← count_of_nodupL _ hT k]
        simp only [recordNames, List.count_append]
        omega


/-! ## 6. Whole files: record splitting and accumulation (RINEX 3) -/

section File
open Midgard.Spec.RinexNavFile

/-- **file_records_v3**: for every abstract RINEX 3 navigation file `f` — header lines, then any sequence of
navigation records of G / E / C / J / I (eight lines each, values in any of the `D d E e` spellings, blank
fields, lines cut after the last value, spare columns on the last line) and GLONASS / SBAS records with
*any* number of orbit lines in between, at the start or at the end — whose values fit their columns
(`f.wf`), reading the rendered text (`accumV3`: line splitting, header / data split, record splitting,
`addRecord` per record) delivers the header's satellite-system letter, and columns to which every supported
record, in file order, has appended exactly its 31 values (`kvOf`: system, satellite, three clock values,
26 orbit values under the standard's slot names, each the number printed in its column), together with
the record epochs; the skipped records contribute nothing. -/
theorem file_records_v3 (f : NavFile) (hwf : f.wf = true) :
    accumV3 v3 (render3 f) = some ([f.satSys], expectedState f.items) := by
  have hitems : ∀ it ∈ f.items, it.wf = true := by
    simp only [NavFile.wf, Bool.and_eq_true, List.all_eq_true] at hwf
    exact hwf.2
  have hnonl : ∀ l ∈ fileLines3 f, Midgard.Spec.Sp3File.NoNl l := by
    intro l hl
    simp only [fileLines3, List.mem_append, List.mem_flatten, List.mem_map] at hl
    rcases hl with hl | ⟨g, ⟨it, hit, rfl⟩, hl⟩
    · exact nonl_headerLines f hwf l hl
    · exact nonl_itemLines3 it (hitems it hit) l hl
  obtain ⟨hnoend, hend⟩ := header_isEnd f hwf
  unfold accumV3 render3
  rw [textLines_joinLines _ hnonl]
  have hsplit : splitHeader (fileLines3 f) =
      (((firstPre f ++ versionLabel) :: f.hlines.map hline) ++ [blanks 60 ++ endLabel], (f.items.map itemLines3).flatten) := by
    unfold fileLines3
    rw [headerLines_eq, List.append_assoc]
    exact splitHeader_eq _ _ _ hnoend hend
  rw [hsplit]
  simp only
  rw [splitV3_groups _ (by
    intro g hg
    simp only [List.mem_map] at hg
    obtain ⟨it, hit, rfl⟩ := hg
    exact item_group it (hitems it hit))]
  rw [supported_fold f.items hitems]
  simp only [Option.bind_eq_bind, Option.bind_some, Option.pure_def, List.cons_append, satSys_header f hwf]
  rfl

/-- the whole parser on a rendered file: the post-processing applied to exactly the per-record columns -/
theorem parse_v3_of_records (f : NavFile) (hwf : f.wf = true) :
    parseV3 v3 (render3 f) = postV3 v3 [f.satSys] (expectedState f.items) := by
  unfold parseV3
  rw [file_records_v3 f hwf]
  rfl


/-- **file_records_v2**: the same for RINEX 2 GPS navigation files (both 2.x parsers' tables): header, then
GPS records of eight lines each (`I2,1X,I2.2,…,F5.1,3D19.12` / `3X,4D19.12`, two-digit years 80–99 ↦ 19yy,
00–79 ↦ 20yy) — reading the rendered text appends, record after record in file order, exactly the
record's 31 values, with the four-digit year in the record epoch -/
theorem file_records_v2 (T : Tables) (hT : T = v2 ∨ T = v212) (f : NavFile) (hwf : f.wf2 = true) :
    accumV2 T "G" (render2 f) = some (expectedState f.items) := by
  have hlines : T.lines = ⟨1, epochLayout2⟩ :: orbitLines 3 := by
    rcases hT with rfl | rfl
    · exact v2_lines.1
    · exact v2_lines.2
  have hwf1 : f.wf = true := by
    simp only [NavFile.wf2, Bool.and_eq_true] at hwf
    exact hwf.1
  have hsup := wf2_supported f hwf
  have hnonl : ∀ l ∈ fileLines2 f, Midgard.Spec.Sp3File.NoNl l := by
    intro l hl
    simp only [fileLines2, List.mem_append, List.mem_flatten, List.mem_map] at hl
    rcases hl with hl | ⟨g, ⟨r, hr, rfl⟩, hl⟩
    · exact nonl_headerLines2 f hwf1 l hl
    · exact nonl_navLines2 r (hsup r hr).1 l hl
  obtain ⟨hnoend, hend⟩ := header2_isEnd f hwf1
  unfold accumV2 render2
  rw [textLines_joinLines _ hnonl]
  have hsplit : splitHeader (fileLines2 f) =
      (((firstPre2 f ++ versionLabel) :: f.hlines.map hline) ++ [blanks 60 ++ endLabel],
        ((supported f.items).map navLines2).flatten) := by
    unfold fileLines2
    rw [headerLines2_eq, List.append_assoc]
    exact splitHeader_eq _ _ _ hnoend hend
  rw [hsplit]
  have h8 : ∀ g ∈ (supported f.items).map navLines2, g.length = 8 := by
    intro g hg
    simp only [List.mem_map] at hg
    obtain ⟨r, _, rfl⟩ := hg
    rfl
  simp only
  rw [splitV2_groups _ h8 _ (length_flatten_ge _ h8)]
  have hG : ("G" : String).toList = ['G'] := by decide
  rw [hG, nav_fold2 T hlines (supported f.items) hsup]
  rfl

def navOnly (items : List Item) : List Item := (supported items).map Item.nav

theorem supported_navOnly (items : List Item) : supported (navOnly items) = supported items := by
  unfold navOnly
  induction supported items with
  | nil => rfl
  | cons r rs ih => simp [supported, ih]

theorem navOnly_wf (f : NavFile) (hwf : f.wf = true) : ({ f with items := navOnly f.items } : NavFile).wf = true := by
  simp only [NavFile.wf, Bool.and_eq_true, List.all_eq_true] at hwf ⊢
  refine ⟨hwf.1, ?_⟩
  intro it hit
  simp only [navOnly, List.mem_map] at hit
  obtain ⟨r, hr, rfl⟩ := hit
  have : ∀ (items : List Item), (∀ x ∈ items, x.wf = true) → ∀ r ∈ supported items, (Item.nav r).wf = true := by
    intro items
    induction items with
    | nil => intro _ r hr; simp [supported] at hr
    | cons x xs ih =>
      intro hx r hr
      cases x with
      | nav r' =>
        simp only [supported, List.mem_cons] at hr
        rcases hr with rfl | hr
        · exact hx _ (by simp)
        · exact ih (fun y hy => hx y (by simp [hy])) r hr
      | skip s' =>
        simp only [supported] at hr
        exact ih (fun y hy => hx y (by simp [hy])) r hr
  exact this f.items hwf.2 r hr

/-- **skipped records are invisible (file level)**: deleting every GLONASS / SBAS record from a well-formed
file — wherever it stands and however many lines it has — does not change what the reader returns; in
particular the record that follows a skipped one is read from its own first line -/
theorem skipped_invisible (f : NavFile) (hwf : f.wf = true) :
    accumV3 v3 (render3 f) = accumV3 v3 (render3 { f with items := navOnly f.items }) := by
  rw [file_records_v3 f hwf, file_records_v3 _ (navOnly_wf f hwf)]
  simp [expectedState, expectedData, supported_navOnly]

/-! ### the columns of `expectedData`, by name -/

theorem col_append (d : Cols) (k : String) (v : Cell) (k' : String) :
    col (append d k v) k' = if k' = k then some ((col d k').getD [] ++ [v]) else col d k' := by
  induction d with
  | nil =>
    by_cases h : k = k'
    · subst h; simp [append, col]
    · have h' : ¬ k' = k := fun e => h e.symm
      simp [append, col, h, h']
  | cons p rest ih =>
    obtain ⟨kk, vs⟩ := p
    by_cases hk : kk = k
    · subst hk
      by_cases h : kk = k'
      · subst h; simp [append, col]
      · have h' : ¬ k' = kk := fun e => h e.symm
        simp [append, col, h, h']
    · by_cases h : kk = k'
      · subst h
        simp [append, col, hk]
      · simp only [append, hk, if_false, col, h]
        exact ih

theorem kvOf_keys (r : NavRec) : (kvOf r).map (·.1) = recordNames v3 := by
  rw [kvOf_eq]
  simp [orbitKv, recordNames, keysOfIdx, clockNames]
  decide +kernel

theorem col_pushRow (kv : List (String × Cell)) (hnd : nodupL (kv.map (·.1)) = true) (k : String) : ∀ (d : Cols),
    col (pushRow d kv) k = match (kv.find? (·.1 = k)).map (·.2) with
      | some v => some ((col d k).getD [] ++ [v])
      | Option.none => col d k := by
  induction kv with
  | nil => intro d; rfl
  | cons x kv ih =>
    intro d
    simp only [List.map_cons, nodupL, Bool.and_eq_true, Bool.not_eq_eq_eq_not, Bool.not_true] at hnd
    have hx : x.1 ∉ kv.map (·.1) := by simpa using hnd.1
    show col (pushRow (append d x.1 x.2) kv) k = _
    rw [ih hnd.2, col_append]
    by_cases hk : x.1 = k
    · subst hk
      have hnone : (kv.find? (fun y => decide (y.1 = x.1))) = Option.none := by
        rw [List.find?_eq_none]
        intro y hy
        simp only [decide_eq_true_eq]
        intro e
        exact hx (by rw [← e]; exact List.mem_map_of_mem hy)
      simp [hnone]
    · have hk' : ¬ k = x.1 := fun e => hk e.symm
      simp [hk, hk']

/-- **one entry per supported record, in file order, in every column**: column `k` of the columns read
from a file holds, for each supported record in file order, the value that record prints for `k` -/
theorem expectedData_col (items : List Item) (k : String) (hk : k ∈ recordNames v3) :
    col (expectedData items) k = if supported items = [] then Option.none
      else some ((supported items).filterMap fun r => valOf r k) := by
  unfold expectedData
  have key : ∀ (rs : List NavRec) (d : Cols),
      col (rs.foldl (fun d r => pushRow d (kvOf r)) d) k =
        if rs = [] then col d k else some ((col d k).getD [] ++ rs.filterMap fun r => valOf r k) := by
    intro rs
    induction rs with
    | nil => intro d; simp
    | cons r rs ih =>
      intro d
      have hnd : nodupL ((kvOf r).map (·.1)) = true := by rw [kvOf_keys]; exact record_names_distinct.1
      have hmem : k ∈ (kvOf r).map (·.1) := by rw [kvOf_keys]; exact hk
      obtain ⟨v, hv⟩ : ∃ v, valOf r k = some v := by
        simp only [List.mem_map] at hmem
        obtain ⟨x, hx, rfl⟩ := hmem
        unfold valOf
        cases hf : (kvOf r).find? (fun y => decide (y.1 = x.1)) with
        | none =>
          rw [List.find?_eq_none] at hf
          exact absurd (decide_eq_true (rfl : x.1 = x.1)) (hf x hx)
        | some y => exact ⟨y.2, rfl⟩
      have hstep := col_pushRow (kvOf r) hnd k d
      unfold valOf at hv
      rw [hv] at hstep
      simp only [List.foldl_cons, ih, List.filterMap_cons]
      have hv' : valOf r k = some v := hv
      rw [hv', hstep]
      by_cases hrs : rs = []
      · subst hrs; simp
      · simp [hrs]
  rw [key]
  simp [col]


/-! ### the hypotheses are satisfiable -/

def demoRow (k : Nat) : Row4 :=
  ⟨.sci 'D' true false (1000000000000 + k) 0, .sci 'E' false true 250000000000 1, .blank, .sci 'e' true false 0 0, k % 2 == 0⟩

def demoRec (sys : Char) (prn : Nat) : NavRec :=
  ⟨sys, prn, prn % 2 == 0, 2021, 3, 10, 12, 0, 0, .sci 'D' true true 1234567890123 (-4), .blank, .sci 'd' true false 0 0,
   demoRow 1, demoRow 2, demoRow 3, demoRow 4, demoRow 5, demoRow 6,
   ⟨.sci 'D' true false 3024000000000 5, .sci 'D' true false 4000000000000 0, [.blank], true⟩⟩

def demoSkip (sys : Char) (n : Nat) : SkipRec :=
  ⟨sys, 7, 2021, 3, 10, 11, 45, 0, .sci 'D' true false 1000000000000 (-5), .sci 'D' true false 0 0, .sci 'D' true false 5000000000000 4,
   (List.range n).map fun k => ([Num19.sci 'D' true (k % 2 == 1) 7100000000000 3, .blank, .sci 'E' false false 5 (-2)], k % 2 == 0)⟩

/-- a mixed RINEX 3 file: GLONASS record (3 orbit lines) first, GPS, SBAS (1 line), BeiDou with the same
printed epoch as the GPS record, Galileo, GLONASS (4 lines) last -/
def demoNav : NavFile :=
  { version := "     3.04".toList, ftype := "N: GNSS NAV DATA".toList, satSys := 'M', sysText := ": MIXED".toList,
    hlines := [⟨"verif".toList, "PGM / RUN BY / DATE".toList⟩, ⟨"    18".toList, "LEAP SECONDS".toList⟩],
    items := [.skip (demoSkip 'R' 3), .nav (demoRec 'G' 5), .skip (demoSkip 'S' 1), .nav (demoRec 'C' 12),
              .nav (demoRec 'E' 1), .skip (demoSkip 'R' 4)] }

example : demoNav.wf = true := by decide +kernel

example : (accumV3 v3 (render3 demoNav)).map (fun x => (x.1, x.2.epochs.map (·.sat), col x.2.data "crs", col x.2.data "delta_n")) =
    some (['M'], ["G05".toList, "C12".toList, "E01".toList], some [.num (-2.5), .num (-2.5), .num (-2.5)],
      some [.num 0, .num 0, .num 0]) := by
  decide +kernel

def demoRec99 : NavRec := { demoRec 'G' 5 with year := 1999 }

/-- a RINEX 2 GPS file with a 1999 and a 2021 record -/
def demoNav2 : NavFile :=
  { version := "     2.11".toList, ftype := "N: GPS NAV DATA".toList, satSys := 'x', sysText := [],
    hlines := [⟨"verif".toList, "PGM / RUN BY / DATE".toList⟩],
    items := [Item.nav demoRec99, Item.nav (demoRec 'G' 31)] }

example : demoNav2.wf2 = true := by decide +kernel

example : (accumV2 v2 "G" (render2 demoNav2)).map (fun st => st.epochs.map (fun e => (e.sat, e.year))) =
    some [("G05".toList, 1999), ("G31".toList, 2021)] := by
  decide +kernel

end File

/-! ## 7. The dispatcher `rinex_nav`: the parser is chosen by the text that is in the file -/

section Dispatch
open Midgard.Spec.RinexNavFile

/-- **dispatch_render3**: the dispatcher's choice for a rendered RINEX 3 file is decided by the version token
printed in columns 1–20 of its first line — by the text that is in the file, and by nothing else -/
theorem dispatch_render3 (f : NavFile) (hwf : f.wf = true) (k : Nat) (v : Str)
    (hver : f.version = blanks k ++ v) (hv : Token v = true) (hlen : k + v.length < 20) :
    dispatch (render3 f) = classify v := by
  unfold dispatch render3
  have hnl := nonl_fileLines3 f hwf
  have hfl : fileLines3 f = (blanks k ++ v ++ ' ' :: (blanks (19 - (k + v.length)) ++
      (ljust 20 f.ftype ++ f.satSys :: ljust 19 f.sysText ++ versionLabel))) ::
      (f.hlines.map hline ++ [blanks 60 ++ endLabel] ++ (f.items.map itemLines3).flatten) := by
    simp only [fileLines3, headerLines, hver, ljust_version k v hlen]
    simp [List.append_assoc]
  rw [hfl] at hnl ⊢
  rw [rinexVersion_first _ _ hnl k v _ rfl hv]
  rfl

theorem dispatch_render2 (f : NavFile) (hwf : f.wf2 = true) (k : Nat) (v : Str)
    (hver : f.version = blanks k ++ v) (hv : Token v = true) (hlen : k + v.length < 20) :
    dispatch (render2 f) = classify v := by
  unfold dispatch render2
  have hnl := nonl_fileLines2 f hwf
  have hfl : fileLines2 f = (blanks k ++ v ++ ' ' :: (blanks (19 - (k + v.length)) ++
      (ljust 40 f.ftype ++ versionLabel))) ::
      (f.hlines.map hline ++ [blanks 60 ++ endLabel] ++ ((supported f.items).map navLines2).flatten) := by
    simp only [fileLines2, headerLines2, hver, ljust_version k v hlen]
    simp [List.append_assoc]
  rw [hfl] at hnl ⊢
  rw [rinexVersion_first _ _ hnl k v _ rfl hv]
  rfl

/-- **parseNav_render3**: `parsers.parse_file("rinex_nav", path)` on a rendered RINEX 3.x file — whatever the
file is called, whatever was parsed before (the model has no state) — is the RINEX 3 post-processing of exactly
the records of the file -/
theorem parseNav_render3 (f : NavFile) (hwf : f.wf = true) (k : Nat) (v : Str)
    (hver : f.version = blanks k ++ v) (hv : Token v = true) (hlen : k + v.length < 20) (h3 : v.head? = some '3')
    (ext2 ext212 : List (String × String)) (name : Str) :
    parseNav v3 v2 v212 ext2 ext212 name (render3 f) =
      (postV3 v3 [f.satSys] (expectedState f.items)).map fun d => (NavParser.rinex3, d) := by
  unfold parseNav
  rw [dispatch_render3 f hwf k v hver hv hlen]
  have hc : classify v = some .rinex3 := by
    unfold classify
    simp [h3]
  rw [hc, parse_v3_of_records f hwf]

/-- **parseNav_render2**: a rendered RINEX 2.x GPS file under a name that stands for GPS is read by `rinex212_nav`
exactly when its version token is `2.12`, else by `rinex2_nav`, and yields the RINEX 2 post-processing of exactly
the records of the file -/
theorem parseNav_render2 (f : NavFile) (hwf : f.wf2 = true) (k : Nat) (v : Str)
    (hver : f.version = blanks k ++ v) (hv : Token v = true) (hlen : k + v.length < 20) (h2 : v.head? = some '2')
    (name : Str) (hn2 : systemOfName2 v2SysExt name = some "G") (hn212 : systemOfName212 v212SysExt name = some "G") :
    parseNav v3 v2 v212 v2SysExt v212SysExt name (render2 f) =
      if v = "2.12".toList then (postV2 v212 "G" (expectedState f.items)).map fun d => (NavParser.rinex212, d)
      else (postV2 v2 "G" (expectedState f.items)).map fun d => (NavParser.rinex2, d) := by
  unfold parseNav
  rw [dispatch_render2 f hwf k v hver hv hlen]
  unfold classify
  by_cases h : v = "2.12".toList
  · simp only [if_true, h, hn212, Option.bind_some, parseV2, file_records_v2 v212 (Or.inr rfl) f hwf]
    rfl
  · simp only [h2, if_true, h, if_false, hn2, Option.bind_some, parseV2, file_records_v2 v2 (Or.inl rfl) f hwf]
    rfl

example : demoNav.version = blanks 5 ++ "3.04".toList ∧ Token "3.04".toList = true ∧ 5 + "3.04".toList.length < 20 ∧
    "3.04".toList.head? = some '3' := by decide
example : demoNav2.version = blanks 5 ++ "2.11".toList ∧ Token "2.11".toList = true ∧ "2.11".toList.head? = some '2' := by decide
example : systemOfName2 v2SysExt "brdc1660.21n".toList = some "G" ∧ systemOfName212 v212SysExt "brdc1660.21n".toList = some "G" ∧
    systemOfName212 v212SysExt "VRF100NOR_R_20190010000_01D_GN.rnx".toList = some "G" ∧
    systemOfName2 v2SysExt "VRF100NOR_R_20190010000_01D_GN.rnx".toList = Option.none := by decide +kernel

/-- text mode changes nothing in a text without carriage returns -/
theorem universalNewlines_id (t : Str) (h : ∀ c ∈ t, c ≠ '\r') : universalNewlines t = t := by
  unfold universalNewlines
  induction t with
  | nil => rfl
  | cons c rest ih =>
    have hc : c ≠ '\r' := h c (by simp)
    simp only [unlAux, hc, if_false, Bool.false_eq_true, and_false]
    rw [ih (fun d hd => h d (by simp [hd]))]

/-- **unsupported, stated**: a RINEX 2.x navigation file whose name stands for a system outside C E G I J (GLONASS
`.yyg`, any other letter of a long name) is refused whatever it contains: the post-processing never returns columns -/
theorem v2_other_system_refused (T : Tables) (system : String) (hs : ¬ system ∈ ["C", "E", "G", "I", "J", "M"]) (st : St) :
    postV2 T system st = Option.none := by
  unfold postV2
  by_cases he : st.data.isEmpty = true
  · simp [he]
  · have hc : (["C", "E", "G", "I", "J", "M"].contains system) = false := by
      simpa using hs
    have htc : ∀ (d : Cols), timeCorrection T system st.epochs d = Option.none := by
      intro d
      unfold timeCorrection
      simp only [hc, Bool.not_false, if_true]
      rfl
    simp only [he, Bool.false_eq_true, if_false, htc]
    rfl

theorem glonass_v2_refused (T : Tables) (text : Str) : parseV2 T "R" text = Option.none := by
  unfold parseV2
  cases accumV2 T "R" text with
  | none => rfl
  | some st => exact v2_other_system_refused T "R" (by decide) st

/-- on a file without carriage returns the driver's text-mode entry point is `parseNav` itself -/
theorem parseNavText_eq (T3 T2 T212 : Tables) (e2 e212 : List (String × String)) (name t : Str) (h : ∀ c ∈ t, c ≠ '\r') :
    parseNavText T3 T2 T212 e2 e212 name t = parseNav T3 T2 T212 e2 e212 name t := by
  unfold parseNavText
  rw [universalNewlines_id t h]

/-- **the BeiDou shift is applied to exactly the records of system C**: for EVERY system text `s` (not only the five
supported letters) the second / week offsets the time correction adds to a record of system `s` are 14 s / 1356 weeks
when `s = "C"` and 0 otherwise, in all three parsers' tables -/
theorem offsets_only_beidou (T : Tables) (hT : T = v3 ∨ T = v2 ∨ T = v212) (s : String) :
    lookupI T.secOffset s = (if s = "C" then 14 else 0) ∧ lookupI T.weekOffset s = (if s = "C" then 1356 else 0) := by
  rcases hT with rfl | rfl | rfl <;>
  · constructor <;>
    · simp only [lookupI, v3, v2, v212, List.find?_cons, List.find?_nil]
      by_cases hC : "C" = s
      · subst hC; simp
      · have hC' : ¬ s = "C" := fun e => hC e.symm
        simp only [hC, hC', decide_false, if_false]
        repeat' split
        all_goals simp_all

end Dispatch

end Midgard.Props.C12

namespace Midgard.Props.C12
open Midgard.Text Midgard.RinexNav Midgard.Generated.RinexNav Midgard.Spec.RinexNavFile

/-! ## 8. The post-processing, record by record -/

theorem col_none_of_not_any (d : Cols) (k : String) (h : d.any (fun x => decide (x.1 = k)) = false) : col d k = Option.none := by
  induction d with
  | nil => rfl
  | cons p rest ih =>
    obtain ⟨k0, vs0⟩ := p
    simp only [List.any_cons, Bool.or_eq_false_iff, decide_eq_false_iff_not] at h
    simp only [col, h.1, if_false]
    exact ih h.2

theorem col_map_set (k : String) (vs : List Cell) (k' : String) : ∀ (d : Cols),
    col (d.map fun (x : String × List Cell) => if x.1 = k then (x.1, vs) else (x.1, x.2)) k' =
      if k' = k then (if d.any (fun x => decide (x.1 = k)) then some vs else Option.none) else col d k' := by
  intro d
  induction d with
  | nil => by_cases h : k' = k <;> simp [col, h]
  | cons p rest ih =>
    obtain ⟨k0, vs0⟩ := p
    by_cases h0 : k0 = k'
    · subst h0
      by_cases hk : k0 = k
      · subst hk; simp [col]
      · simp [col, hk]
    · by_cases hk : k' = k
      · subst hk
        have h0' : ¬ k0 = k' := h0
        simp only [List.map_cons, h0', if_false, col, List.any_cons, decide_false, Bool.false_or, if_true]
        have := ih
        simp only [if_true] at this
        exact this
      · by_cases hkk : k0 = k
        · subst hkk
          simp only [List.map_cons, if_true, col, h0, if_false, hk]
          have := ih
          simp only [hk, if_false] at this
          exact this
        · simp only [List.map_cons, hkk, if_false, col, h0, hk]
          have := ih
          simp only [hk, if_false] at this
          exact this

theorem col_append_one (d : Cols) (k : String) (vs : List Cell) (k' : String) :
    col (d ++ [(k, vs)]) k' = match col d k' with
      | some x => some x
      | Option.none => if k' = k then some vs else Option.none := by
  induction d with
  | nil => by_cases h : k = k' <;> simp [col, h, eq_comm]
  | cons p rest ih =>
    obtain ⟨k0, vs0⟩ := p
    by_cases h0 : k0 = k'
    · simp [col, h0]
    · simp only [List.cons_append, col, h0, if_false]
      exact ih

theorem col_setCol (d : Cols) (k : String) (vs : List Cell) (k' : String) :
    col (setCol d k vs) k' = if k' = k then some vs else col d k' := by
  unfold setCol
  by_cases hany : d.any (fun x => decide (x.1 = k)) = true
  · simp only [hany, if_true]
    have := col_map_set k vs k' d
    simp only [hany, if_true] at this
    exact this
  · have hany' : d.any (fun x => decide (x.1 = k)) = false := Bool.eq_false_iff.mpr hany
    simp only [hany', Bool.false_eq_true, if_false]
    rw [col_append_one]
    by_cases hk : k' = k
    · subst hk
      rw [col_none_of_not_any d k' hany']
    · simp only [hk, if_false]
      cases col d k' <;> rfl

theorem col_delCol (d : Cols) (k k' : String) : col (delCol d k) k' = if k' = k then Option.none else col d k' := by
  unfold delCol
  induction d with
  | nil => by_cases h : k' = k <;> simp [col, h]
  | cons p rest ih =>
    obtain ⟨k0, vs0⟩ := p
    by_cases h0 : k0 = k
    · subst h0
      simp only [List.filter_cons, ne_eq, not_true_eq_false, decide_false, Bool.false_eq_true, if_false]
      rw [ih]
      by_cases hk : k' = k0
      · simp [hk]
      · have : ¬ k0 = k' := fun e => hk e.symm
        simp [hk, col, this]
    · simp only [List.filter_cons, ne_eq, h0, not_false_eq_true, decide_true, if_true, col]
      by_cases h1 : k0 = k'
      · subst h1
        have : ¬ k0 = k := h0
        simp [this]
      · simp only [h1, if_false]
        exact ih

/-! ### `rename3`, one general field at a time -/

/-- the values of the specific column `n`: the record's value for the systems that use the name `n`, `None` elsewhere -/
def maskCol (per : List (String × String)) (n : String) (sys vals : List Cell) : List Cell :=
  (sys.zip vals).map fun (s, v) => if ((per.filter (·.2 = n)).map (·.1)).contains (asString (cellStr s)) then v else .none

/-- the specific names of a general field, in order of first appearance -/
def newNames (per : List (String × String)) : List String :=
  per.foldl (fun acc (_, n) => if acc.contains n then acc else acc ++ [n]) []

/-- one round of `_rename_fields_based_on_system` -/
def renStep (d : Cols) (field : String) (per : List (String × String)) : Option Cols :=
  (col d "system").bind fun sys => (col d field).bind fun vals =>
    some (delCol ((newNames per).foldl (fun d n => setCol d n (maskCol per n sys vals)) d) field)

theorem rename3_cons (field : String) (per : List (String × String)) (rest : SysNames) (d : Cols) :
    rename3 ((field, per) :: rest) d = (renStep d field per).bind (rename3 rest) := by
  rfl

theorem rename3_nil (d : Cols) : rename3 [] d = some d := rfl

theorem mem_newNames (per : List (String × String)) (n : String) : n ∈ newNames per ↔ n ∈ per.map (·.2) := by
  unfold newNames
  have key : ∀ (per : List (String × String)) (acc : List String),
      n ∈ per.foldl (fun acc (x : String × String) => if acc.contains x.2 then acc else acc ++ [x.2]) acc ↔
        n ∈ acc ∨ n ∈ per.map (·.2) := by
    intro per
    induction per with
    | nil => intro acc; simp
    | cons x per ih =>
      intro acc
      simp only [List.foldl_cons, List.map_cons, List.mem_cons]
      rw [ih]
      by_cases hc : acc.contains x.2 = true
      · simp only [hc, if_true]
        have : x.2 ∈ acc := List.contains_iff_mem.mp hc
        constructor
        · rintro (h | h)
          · exact Or.inl h
          · exact Or.inr (Or.inr h)
        · rintro (h | h | h)
          · exact Or.inl h
          · exact Or.inl (h ▸ this)
          · exact Or.inr h
      · simp only [hc, Bool.false_eq_true, if_false, List.mem_append, List.mem_singleton]
        constructor
        · rintro ((h | h) | h)
          · exact Or.inl h
          · exact Or.inr (Or.inl h)
          · exact Or.inr (Or.inr h)
        · rintro (h | h | h)
          · exact Or.inl (Or.inl h)
          · exact Or.inl (Or.inr h)
          · exact Or.inr h
  have := key per []
  simpa using this

theorem col_foldl_setCol (g : String → List Cell) (ns : List String) : ∀ (d : Cols) (k : String),
    col (ns.foldl (fun d n => setCol d n (g n)) d) k = if k ∈ ns then some (g k) else col d k := by
  induction ns with
  | nil => intro d k; simp
  | cons n ns ih =>
    intro d k
    simp only [List.foldl_cons, ih, col_setCol, List.mem_cons]
    by_cases h1 : k ∈ ns
    · simp [h1]
    · by_cases h2 : k = n
      · subst h2; simp [h1]
      · simp [h1, h2]

/-- columns whose rows are functions of the records `rs`, one row per record -/
def Rows (rs : List NavRec) (d : Cols) (sem : String → Option (NavRec → Cell)) : Prop :=
  ∀ k, col d k = (sem k).map fun f => rs.map f

theorem maskCol_map (per : List (String × String)) (n : String) (rs : List NavRec) (sf vf : NavRec → Cell) :
    maskCol per n (rs.map sf) (rs.map vf) =
      rs.map fun r => if ((per.filter (·.2 = n)).map (·.1)).contains (asString (cellStr (sf r))) then vf r else .none := by
  unfold maskCol
  rw [List.zip_map', List.map_map]
  rfl

theorem renStep_rows (rs : List NavRec) (d : Cols) (sem : String → Option (NavRec → Cell)) (field : String)
    (per : List (String × String)) (h : Rows rs d sem) (hs : (sem "system").isSome = true) (hf : (sem field).isSome = true) :
    ∃ d', renStep d field per = some d' ∧ Rows rs d' (semStep sem field per) := by
  obtain ⟨sf, hsf⟩ := Option.isSome_iff_exists.mp hs
  obtain ⟨vf, hvf⟩ := Option.isSome_iff_exists.mp hf
  have c1 : col d "system" = some (rs.map sf) := by rw [h "system", hsf]; rfl
  have c2 : col d field = some (rs.map vf) := by rw [h field, hvf]; rfl
  have hr : renStep d field per = some (delCol ((newNames per).foldl
      (fun d n => setCol d n (maskCol per n (rs.map sf) (rs.map vf))) d) field) := by
    simp only [renStep, c1, c2, Option.bind_some]
  refine ⟨_, hr, ?_⟩
  intro k
  rw [col_delCol, col_foldl_setCol (fun n => maskCol per n (rs.map sf) (rs.map vf))]
  unfold semStep
  by_cases hk : k = field
  · simp [hk]
  · simp only [hk, if_false]
    by_cases hm : k ∈ per.map (·.2)
    · rw [if_pos ((mem_newNames per k).mpr hm), if_pos hm]
      simp only [hsf, hvf, Option.map_some, maskCol_map]
    · rw [if_neg (fun hc => hm ((mem_newNames per k).mp hc)), if_neg hm]
      exact h k

/-- the columns every round reads are there -/
def okRen (sem : String → Option (NavRec → Cell)) : SysNames → Bool
  | [] => true
  | (f, p) :: rest => (sem "system").isSome && (sem f).isSome && okRen (semStep sem f p) rest

theorem rename3_rows (rs : List NavRec) : ∀ (names : SysNames) (d : Cols) (sem : String → Option (NavRec → Cell)),
    Rows rs d sem → okRen sem names = true → ∃ d', rename3 names d = some d' ∧ Rows rs d' (semRename sem names) := by
  intro names
  induction names with
  | nil => intro d sem h _; exact ⟨d, rfl, h⟩
  | cons fp rest ih =>
    obtain ⟨f, p⟩ := fp
    intro d sem h hok
    simp only [okRen, Bool.and_eq_true] at hok
    obtain ⟨d1, hd1, hr1⟩ := renStep_rows rs d sem f p h hok.1.1 hok.1.2
    obtain ⟨d2, hd2, hr2⟩ := ih d1 (semStep sem f p) hr1 hok.2
    exact ⟨d2, by rw [rename3_cons, hd1]; exact hd2, hr2⟩

/-! ### `_time_system_correction`, record by record -/

theorem mapM_eq_some_map {α β : Type} (f : α → Option β) (g : α → β) : ∀ (l : List α),
    (∀ x ∈ l, f x = some (g x)) → l.mapM f = some (l.map g) := by
  intro l
  induction l with
  | nil => intro _; rfl
  | cons a l ih =>
    intro h
    simp only [List.mapM_cons, h a (by simp), ih (fun x hx => h x (by simp [hx])), Option.bind_eq_bind, Option.bind_some,
      Option.pure_def, List.map_cons]

theorem zip_rows {β γ : Type} (rs : List NavRec) (f : NavRec → β) (g : NavRec → γ) :
    (rs.map f).zip (rs.map g) = rs.map fun r => (f r, g r) := List.zip_map'

theorem timeCorrection_rows (T : Tables) (fileSys : String) (rs : List NavRec) (d : Cols)
    (sem : String → Option (NavRec → Cell)) (sf : NavRec → Cell) (toeQ ttxQ wkQ : NavRec → Rat)
    (h : Rows rs d sem) (hfs : ["C", "E", "G", "I", "J", "M"].contains fileSys = true)
    (hsys : sem "system" = some sf) (htoe : sem "toe" = some fun r => Cell.num (toeQ r))
    (httx : sem "transmission_time" = some fun r => Cell.num (ttxQ r))
    (hwk : sem "gnss_week" = some fun r => Cell.num (wkQ r)) :
    ∃ d', timeCorrection T fileSys (rs.map epochOf) d = some d' ∧
      Rows rs d' (semTime T fileSys sem sf toeQ ttxQ wkQ) := by
  have c1 : col d "system" = some (rs.map sf) := by rw [h "system", hsys]; rfl
  have c2 : col d "toe" = some (rs.map fun r => Cell.num (toeQ r)) := by rw [h "toe", htoe]; rfl
  have c3 : col d "transmission_time" = some (rs.map fun r => Cell.num (ttxQ r)) := by rw [h "transmission_time", httx]; rfl
  have c4 : col d "gnss_week" = some (rs.map fun r => Cell.num (wkQ r)) := by rw [h "gnss_week", hwk]; rfl
  unfold timeCorrection
  simp only [hfs, Bool.not_true, Bool.false_eq_true, if_false, c1, c2, c3, c4, Option.bind_eq_bind, Option.bind_some,
    Option.pure_def, List.length_map, and_self, decide_true, zip_rows]
  have hm : ∀ (off : Cell → Int) (q : NavRec → Rat),
      List.mapM (fun (x : Cell × Cell) => Option.map (fun y => y + ((off x.fst : Int) : Rat)) (cellNum x.snd))
        (rs.map fun r => (sf r, Cell.num (q r))) = some (rs.map fun r => q r + ((off (sf r) : Int) : Rat)) := by
    intro off q
    rw [mapM_eq_some_map _ (fun x => (cellNum x.2).getD 0 + ((off x.1 : Int) : Rat))]
    · simp [List.map_map, cellNum, Function.comp_def]
    · intro x hx
      simp only [List.mem_map] at hx
      obtain ⟨r, _, rfl⟩ := hx
      simp [cellNum]
  have hToe := hm (fun s => if fileSys = "M" ∨ fileSys = "C" then lookupI T.secOffset (asString (cellStr s)) else 0) toeQ
  have hTtx := hm (fun s => if fileSys = "M" ∨ fileSys = "C" then lookupI T.secOffset (asString (cellStr s)) else 0) ttxQ
  have hWk := hm (fun s => if fileSys = "M" ∨ fileSys = "C" then lookupI T.weekOffset (asString (cellStr s)) else 0) wkQ
  simp only [hToe, hTtx, hWk, Option.bind_some]
  refine ⟨_, rfl, ?_⟩
  intro k
  simp only [col_setCol, zip_rows, List.map_map, Function.comp_def]
  unfold semTime
  by_cases k1 : k = "transmission_time"
  · simp [k1]
  · by_cases k2 : k = "toe"
    · simp [k2]
    · by_cases k3 : k = "gnss_week"
      · simp [k3]
      · by_cases k4 : k = "time"
        · simp [k4]
        · simp only [k1, k2, k3, k4, if_false]
          exact h k

/-! ### the columns after reading, as rows -/

theorem valOf_isSome (r : NavRec) (k : String) (hk : k ∈ recordNames v3) : ∃ v, valOf r k = some v := by
  have hmem : k ∈ (kvOf r).map (·.1) := by rw [kvOf_keys]; exact hk
  simp only [List.mem_map] at hmem
  obtain ⟨x, hx, rfl⟩ := hmem
  unfold valOf
  cases hf : (kvOf r).find? (fun y => decide (y.1 = x.1)) with
  | none =>
    rw [List.find?_eq_none] at hf
    exact absurd (decide_eq_true (rfl : x.1 = x.1)) (hf x hx)
  | some y => exact ⟨y.2, rfl⟩

theorem valOf_none (r : NavRec) (k : String) (hk : ¬ k ∈ recordNames v3) : (kvOf r).find? (fun y => decide (y.1 = k)) = Option.none := by
  rw [List.find?_eq_none]
  intro y hy
  simp only [decide_eq_true_eq]
  intro e
  apply hk
  rw [← kvOf_keys r, ← e]
  exact List.mem_map_of_mem hy

theorem rows_expected (items : List Item) (hne : supported items ≠ []) :
    Rows (supported items) (expectedData items) sem0 := by
  intro k
  unfold sem0
  by_cases hk : k ∈ recordNames v3
  · rw [expectedData_col items k hk]
    simp only [hne, if_false, hk, if_true, Option.map_some]
    congr 1
    induction supported items with
    | nil => rfl
    | cons r rs ih =>
      obtain ⟨v, hv⟩ := valOf_isSome r k hk
      simp [hv, valD, ih]
  · simp only [hk, if_false, Option.map_none]
    unfold expectedData
    have key : ∀ (rs : List NavRec) (d : Cols), col d k = Option.none →
        col (rs.foldl (fun d r => pushRow d (kvOf r)) d) k = Option.none := by
      intro rs
      induction rs with
      | nil => intro d h; exact h
      | cons r rs ih =>
        intro d h
        apply ih
        have hnd : nodupL ((kvOf r).map (·.1)) = true := by rw [kvOf_keys]; exact record_names_distinct.1
        rw [col_pushRow (kvOf r) hnd k d, valOf_none r k hk]
        exact h
    exact key _ [] rfl

/-! ### `_determine_message_type` and the whole post-processing -/

theorem lnavOk_rows (rs : List NavRec) (d : Cols) (sem : String → Option (NavRec → Cell)) (sf iodeF : NavRec → Cell)
    (h : Rows rs d sem) (hs : sem "system" = some sf) (hi : sem "iode" = some iodeF) :
    lnavOk d = rs.all (lnavRow sf iodeF) := by
  have c1 : col d "system" = some (rs.map sf) := by rw [h "system", hs]; rfl
  have c2 : col d "iode" = some (rs.map iodeF) := by rw [h "iode", hi]; rfl
  unfold lnavOk
  simp only [c1, c2, zip_rows, List.all_map]
  rfl

theorem okRen_v3 : okRen sem0 v3.sysnames = true := by decide +kernel

theorem sem_system : semRename sem0 v3.sysnames "system" = some (fun r => Cell.str [r.sys]) := by rfl
theorem sem_toe : semRename sem0 v3.sysnames "toe" = some (fun r => Cell.num r.o3.a.val) := by rfl
theorem sem_ttx : semRename sem0 v3.sysnames "transmission_time" = some (fun r => Cell.num r.o7.a.val) := by rfl
theorem sem_week : semRename sem0 v3.sysnames "gnss_week" = some (fun r => Cell.num r.o5.c.val) := by rfl
theorem sem_iode (fs : String) : postSem fs "iode" = some (fun r => Cell.num r.o1.a.val) := by rfl

theorem sem_system_post (fs : String) : postSem fs "system" = some (fun r => Cell.str [r.sys]) := by rfl

/-- **post_record**: for every RINEX 3 file content (any supported records, at least one) and every admissible
satellite-system letter of the header, the post-processing (`_rename_fields_based_on_system`,
`_time_system_correction`, `_determine_message_type`) returns columns whose row `i` is a function of record `i`
alone: column `k` is `rs.map (f k)` with `f = postSem fileSys` — or it refuses the file, exactly when some GPS / QZSS
record has a non-integral IODE. -/
theorem post_record (items : List Item) (fileSys : Str) (hne : supported items ≠ [])
    (hfs : ["C", "E", "G", "I", "J", "M"].contains (asString fileSys) = true) :
    ∃ d, Rows (supported items) d (postSem (asString fileSys)) ∧
      postV3 v3 fileSys (expectedState items) =
        if (supported items).all (lnavRow (fun r => Cell.str [r.sys]) (fun r => Cell.num r.o1.a.val)) then some d
        else Option.none := by
  have h0 := rows_expected items hne
  obtain ⟨d1, hd1, hr1⟩ := rename3_rows (supported items) v3.sysnames (expectedData items) sem0 h0 okRen_v3
  obtain ⟨d2, hd2, hr2⟩ := timeCorrection_rows v3 (asString fileSys) (supported items) d1 (semRename sem0 v3.sysnames)
    (fun r => Cell.str [r.sys]) (fun r => r.o3.a.val) (fun r => r.o7.a.val) (fun r => r.o5.c.val) hr1 hfs
    sem_system sem_toe sem_ttx sem_week
  refine ⟨d2, hr2, ?_⟩
  have hdata : (expectedData items).isEmpty = false := by
    have := h0 "system"
    cases hd : expectedData items with
    | nil => rw [hd] at this; simp [col, sem0, recordNames] at this
    | cons _ _ => rfl
  have hl := lnavOk_rows (supported items) d2 (postSem (asString fileSys)) _ _ hr2 (sem_system_post _) (sem_iode _)
  unfold postV3
  simp only [expectedState, hdata, Bool.false_eq_true, if_false, hd1, hd2, hl, Option.bind_eq_bind, Option.bind_some,
    Option.pure_def]

/-- **the BeiDou corrections are applied to exactly the BeiDou records**: in the rows of `post_record`, the record
epoch is the printed civil epoch plus 14 s and the week is the printed week plus 1356 for a record of system `C` in a
mixed or BeiDou file, and exactly the printed values for every other record (and in every single-system file of
another system) -/
theorem post_record_beidou (fs : String) :
    postSem fs "time" = some (fun r => Cell.time (epochSeconds (decide (fs = "M" ∨ fs = "C")) (epochOf r) +
      (((if decide (fs = "M" ∨ fs = "C") = true then (if asString [r.sys] = "C" then 14 else 0) else 0 : Int)) : Rat))) ∧
    postSem fs "gnss_week" = some (fun r => Cell.num (r.o5.c.val +
      (((if decide (fs = "M" ∨ fs = "C") = true then (if asString [r.sys] = "C" then 1356 else 0) else 0 : Int)) : Rat))) := by
  have hs := fun s => (offsets_only_beidou v3 (Or.inl rfl) s).1
  have hw := fun s => (offsets_only_beidou v3 (Or.inl rfl) s).2
  constructor
  · show some _ = some _
    congr 1
    funext r
    simp only [cellStr, hs]
  · show some _ = some _
    congr 1
    funext r
    simp only [cellStr, hw]

/-- what became of the general columns: gone; the system-specific ones carry the record's value for the systems that
use the name and `None` for the others (three of the eleven specific names, the others alike) -/
theorem post_record_renamed (fs : String) :
    postSem fs "gnss_tgd_bgd" = Option.none ∧
    postSem fs "tgd_b1_b3" = some (fun r => if ["C"].contains (asString [r.sys]) then Cell.num r.o6.c.val else Cell.none) ∧
    postSem fs "tgd" = some (fun r => if ["G", "J", "I"].contains (asString [r.sys]) then Cell.num r.o6.c.val else Cell.none) ∧
    postSem fs "crs" = some (fun r => Cell.num r.o1.b.val) := by
  refine ⟨rfl, rfl, rfl, rfl⟩

example : supported demoNav.items ≠ [] ∧ ["C", "E", "G", "I", "J", "M"].contains (asString [demoNav.satSys]) = true := by
  decide

end Midgard.Props.C12

namespace Midgard.Props.C12
open Midgard.Text Midgard.RinexNav Midgard.Generated.RinexNav Midgard.Spec.RinexNavFile

/-! ## 9. The RINEX 2.x post-processing, record by record -/

/-- one round of `_rename_fields_based_on_system` of rinex2_nav / rinex212_nav -/
def renStep2 (system : String) (d : Cols) (field : String) (per : List (String × String)) : Cols :=
  match col d field with
  | Option.none => d
  | some vals =>
    match per.find? (·.1 = system) with
    | Option.none => delCol d field
    | some (_, n) => if n = field then d else delCol (setCol d n vals) field

theorem rename2_cons (field : String) (per : List (String × String)) (rest : SysNames) (system : String) (d : Cols) :
    rename2 ((field, per) :: rest) system d = rename2 rest system (renStep2 system d field per) := by
  rfl

theorem renStep2_rows (rs : List NavRec) (d : Cols) (sem : String → Option (NavRec → Cell)) (system field : String)
    (per : List (String × String)) (h : Rows rs d sem) :
    Rows rs (renStep2 system d field per) (semStep2 sem system field per) := by
  have hc := h field
  unfold renStep2 semStep2
  cases hsem : sem field with
  | none =>
    rw [hsem] at hc
    simp only [Option.map_none] at hc
    simp only [hc]
    exact h
  | some vf =>
    rw [hsem] at hc
    simp only [Option.map_some] at hc
    simp only [hc]
    cases hfind : per.find? (fun x => decide (x.1 = system)) with
    | none =>
      intro k
      rw [col_delCol]
      by_cases hk : k = field
      · simp [hk]
      · simp only [hk, if_false]; exact h k
    | some sn =>
      obtain ⟨s', n⟩ := sn
      by_cases hn : n = field
      · simp only [hn, if_true]; exact h
      · simp only [hn, if_false]
        intro k
        rw [col_delCol, col_setCol]
        by_cases hk : k = field
        · simp [hk]
        · by_cases hk2 : k = n
          · subst hk2; simp [hk]
          · simp only [hk, hk2, if_false]; exact h k

theorem rename2_rows (rs : List NavRec) (system : String) : ∀ (names : SysNames) (d : Cols)
    (sem : String → Option (NavRec → Cell)), Rows rs d sem →
    Rows rs (rename2 names system d) (semRename2 sem system names) := by
  intro names
  induction names with
  | nil => intro d sem h; exact h
  | cons fp rest ih =>
    obtain ⟨f, p⟩ := fp
    intro d sem h
    rw [rename2_cons]
    exact ih _ _ (renStep2_rows rs d sem system f p h)

/-- the columns the time correction and the LNAV test read are, after `rename2`, still the record's own values -/
def Sem2Ok (T : Tables) (system : String) : Prop :=
  semRename2 sem0 system T.sysnames "system" = some (fun r => Cell.str [r.sys]) ∧
  semRename2 sem0 system T.sysnames "toe" = some (fun r => Cell.num r.o3.a.val) ∧
  semRename2 sem0 system T.sysnames "transmission_time" = some (fun r => Cell.num r.o7.a.val) ∧
  semRename2 sem0 system T.sysnames "gnss_week" = some (fun r => Cell.num r.o5.c.val) ∧
  postSem2 T system "system" = some (fun r => Cell.str [r.sys]) ∧
  postSem2 T system "iode" = some (fun r => Cell.num r.o1.a.val)

theorem sem2Ok_all (T : Tables) (hT : T = v2 ∨ T = v212) (s : String) (hs : s ∈ ["C", "E", "G", "I", "J"]) : Sem2Ok T s := by
  simp only [List.mem_cons, List.not_mem_nil, or_false] at hs
  rcases hT with rfl | rfl <;> rcases hs with rfl | rfl | rfl | rfl | rfl <;> exact ⟨rfl, rfl, rfl, rfl, rfl, rfl⟩

theorem post_record_v2_of (T : Tables) (system : String) (hok : Sem2Ok T system) (items : List Item)
    (hne : supported items ≠ []) (hfs : ["C", "E", "G", "I", "J", "M"].contains system = true) :
    ∃ d, Rows (supported items) d (postSem2 T system) ∧
      postV2 T system (expectedState items) =
        if (supported items).all (lnavRow (fun r => Cell.str [r.sys]) (fun r => Cell.num r.o1.a.val)) then some d
        else Option.none := by
  obtain ⟨h1, h2, h3, h4, h5, h6⟩ := hok
  have h0 := rows_expected items hne
  have hr1 := rename2_rows (supported items) system T.sysnames (expectedData items) sem0 h0
  obtain ⟨d2, hd2, hr2⟩ := timeCorrection_rows T system (supported items) _ (semRename2 sem0 system T.sysnames)
    (fun r => Cell.str [r.sys]) (fun r => r.o3.a.val) (fun r => r.o7.a.val) (fun r => r.o5.c.val) hr1 hfs h1 h2 h3 h4
  refine ⟨d2, hr2, ?_⟩
  have hdata : (expectedData items).isEmpty = false := by
    have := h0 "system"
    cases hd : expectedData items with
    | nil => rw [hd] at this; simp [col, sem0, recordNames] at this
    | cons _ _ => rfl
  have hl := lnavOk_rows (supported items) d2 (postSem2 T system) _ _ hr2 h5 h6
  unfold postV2
  simp only [expectedState, hdata, Bool.false_eq_true, if_false, hd2, hl, Option.bind_eq_bind, Option.bind_some,
    Option.pure_def]

/-- **post_record_v2**: the RINEX 2.x post-processing (`rename2` for the one system of the file, time-system correction,
LNAV test; both 2.x tables, every supported system) returns columns whose row `i` is `postSem2 T system k` of record `i`
alone — or refuses the file exactly when a GPS / QZSS record has a non-integral IODE -/
theorem post_record_v2 (T : Tables) (hT : T = v2 ∨ T = v212) (system : String) (hs : system ∈ ["C", "E", "G", "I", "J"])
    (items : List Item) (hne : supported items ≠ []) :
    ∃ d, Rows (supported items) d (postSem2 T system) ∧
      postV2 T system (expectedState items) =
        if (supported items).all (lnavRow (fun r => Cell.str [r.sys]) (fun r => Cell.num r.o1.a.val)) then some d
        else Option.none := by
  refine post_record_v2_of T system (sem2Ok_all T hT system hs) items hne ?_
  simp only [List.mem_cons, List.not_mem_nil, or_false] at hs
  rcases hs with rfl | rfl | rfl | rfl | rfl <;> decide

/-- RINEX 2.x GPS files: the general columns carry the GPS names (`tgd`, `iodc`, `codes_l2`, `l2p_flag`, `fit_interval`),
no other specific name appears, and nothing is shifted -/
theorem post_record_v2_gps (T : Tables) (hT : T = v2 ∨ T = v212) :
    postSem2 T "G" "gnss_tgd_bgd" = Option.none ∧
    postSem2 T "G" "tgd" = some (fun r => Cell.num r.o6.c.val) ∧
    postSem2 T "G" "bgd_e1_e5a" = Option.none ∧
    postSem2 T "G" "gnss_week" = some (fun r => Cell.num (r.o5.c.val + ((0 : Int) : Rat))) := by
  rcases hT with rfl | rfl <;> exact ⟨rfl, rfl, rfl, rfl⟩

/-- the executable form the driver evaluates (`postRows3` / `postRows2` → `semCols`) holds, under every name of its key
list, exactly the rows of `post_record` / `post_record_v2` -/
theorem col_semCols (sem : String → Option (NavRec → Cell)) (rs : List NavRec) (k : String) : ∀ (keys : List String),
    col (semCols keys sem rs) k = if k ∈ keys then (sem k).map (fun f => rs.map f) else Option.none := by
  intro keys
  induction keys with
  | nil => rfl
  | cons k0 ks ih =>
    unfold semCols at ih ⊢
    by_cases h0 : k0 = k
    · subst h0
      cases hs : sem k0 with
      | none =>
        simp only [List.filterMap_cons, hs, Option.map_none, ih, List.mem_cons, true_or, if_true]
        split <;> rfl
      | some f => simp [hs, col]
    · have h0' : ¬ k = k0 := fun e => h0 e.symm
      cases hs : sem k0 with
      | none => simp only [List.filterMap_cons, hs, Option.map_none, ih, List.mem_cons, h0', false_or]
      | some f => simp only [List.filterMap_cons, hs, Option.map_some, col, h0, if_false, ih, List.mem_cons, h0', false_or]

end Midgard.Props.C12

namespace Midgard.Props.C12
open Midgard.Text Midgard.RinexNav Midgard.Generated.RinexNav Midgard.Spec.RinexNavFile

theorem mem_dedupS (k : String) : ∀ (l : List String), k ∈ dedupS l ↔ k ∈ l := by
  intro l
  induction l with
  | nil => simp [dedupS]
  | cons a rest ih =>
    simp only [dedupS, List.mem_cons, List.mem_filter, ih, ne_eq, decide_not, Bool.not_eq_true', decide_eq_false_iff_not]
    constructor
    · rintro (h | ⟨h, _⟩)
      · exact Or.inl h
      · exact Or.inr h
    · rintro (h | h)
      · exact Or.inl h
      · by_cases e : k = a
        · exact Or.inl e
        · exact Or.inr ⟨h, e⟩

theorem semRename_other (k : String) : ∀ (names : SysNames) (sem : String → Option (NavRec → Cell)),
    (∀ fp ∈ names, k ≠ fp.1 ∧ k ∉ fp.2.map (·.2)) → semRename sem names k = sem k := by
  intro names
  induction names with
  | nil => intro sem _; rfl
  | cons fp rest ih =>
    obtain ⟨f, p⟩ := fp
    intro sem h
    have h1 := h (f, p) (by simp)
    show semRename (semStep sem f p) rest k = sem k
    rw [ih _ (fun fp' hfp => h fp' (by simp [hfp]))]
    unfold semStep
    simp only [h1.1, if_false, h1.2]

/-- **no stray column**: a name outside the key list the driver evaluates (`outKeys v3`: the record's 38 names, the
eleven system-specific names, `time`) is not a column of the post-processed data, whatever the records -/
theorem post_record_keys (fs k : String) (hk : ¬ k ∈ outKeys v3) : postSem fs k = Option.none := by
  unfold outKeys at hk
  rw [mem_dedupS] at hk
  simp only [List.mem_append, not_or] at hk
  obtain ⟨⟨hrec, hspec⟩, htime⟩ := hk
  have hfields : ∀ fp ∈ v3.sysnames, fp.1 ∈ recordNames v3 := by decide +kernel
  have h4 : "transmission_time" ∈ recordNames v3 ∧ "toe" ∈ recordNames v3 ∧ "gnss_week" ∈ recordNames v3 := by decide +kernel
  have k1 : ¬ k = "transmission_time" := fun e => hrec (e ▸ h4.1)
  have k2 : ¬ k = "toe" := fun e => hrec (e ▸ h4.2.1)
  have k3 : ¬ k = "gnss_week" := fun e => hrec (e ▸ h4.2.2)
  have k4 : ¬ k = "time" := by simpa using htime
  unfold postSem semTime
  simp only [k1, k2, k3, k4, if_false]
  rw [semRename_other k v3.sysnames sem0 (by
    intro fp hfp
    refine ⟨fun e => hrec (e ▸ hfields fp hfp), fun hm => hspec ?_⟩
    simp only [List.mem_flatMap]
    exact ⟨fp, hfp, hm⟩)]
  unfold sem0
  simp [hrec]

end Midgard.Props.C12

/-! ## Text mode without side hypothesis: a rendered file contains no carriage return -/

namespace Midgard.Props.C12
open Midgard.RinexNav Midgard.Generated.RinexNav Midgard.FixedCol Midgard.Text Midgard.Decimal
open Midgard.Spec.RinexNavFile

/-- **parseNavText_render3**: `parseNav_render3` for the text-mode entry point (universal newlines, then
`parseNav`) — no side hypothesis about carriage returns, `render3_noCR` discharges it. -/
theorem parseNavText_render3 (f : NavFile) (hwf : f.wf = true) (k : Nat) (v : Str)
    (hver : f.version = blanks k ++ v) (hv : Token v = true) (hlen : k + v.length < 20) (h3 : v.head? = some '3')
    (ext2 ext212 : List (String × String)) (name : Str) :
    parseNavText v3 v2 v212 ext2 ext212 name (render3 f) =
      (postV3 v3 [f.satSys] (expectedState f.items)).map fun d => (NavParser.rinex3, d) := by
  rw [parseNavText_eq _ _ _ _ _ _ _ (render3_noCR f hwf)]
  exact parseNav_render3 f hwf k v hver hv hlen h3 ext2 ext212 name

/-- **parseNavText_render2**: `parseNav_render2` for the text-mode entry point. -/
theorem parseNavText_render2 (f : NavFile) (hwf : f.wf2 = true) (k : Nat) (v : Str)
    (hver : f.version = blanks k ++ v) (hv : Token v = true) (hlen : k + v.length < 20) (h2 : v.head? = some '2')
    (name : Str) (hn2 : systemOfName2 v2SysExt name = some "G") (hn212 : systemOfName212 v212SysExt name = some "G") :
    parseNavText v3 v2 v212 v2SysExt v212SysExt name (render2 f) =
      if v = "2.12".toList then (postV2 v212 "G" (expectedState f.items)).map fun d => (NavParser.rinex212, d)
      else (postV2 v2 "G" (expectedState f.items)).map fun d => (NavParser.rinex2, d) := by
  rw [parseNavText_eq _ _ _ _ _ _ _ (render2_noCR f hwf)]
  exact parseNav_render2 f hwf k v hver hv hlen h2 name hn2 hn212

/-- the hypotheses are satisfiable: the demo files of `Props/C12.lean` -/
example : parseNavText v3 v2 v212 v2SysExt v212SysExt "x.rnx".toList (render3 demoNav) =
    (postV3 v3 [demoNav.satSys] (expectedState demoNav.items)).map fun d => (NavParser.rinex3, d) :=
  parseNavText_render3 demoNav (by decide +kernel) 5 "3.04".toList (by decide) (by decide) (by decide) (by decide) _ _ _

example : parseNavText v3 v2 v212 v2SysExt v212SysExt "brdc1660.21n".toList (render2 demoNav2) =
    (postV2 v2 "G" (expectedState demoNav2.items)).map fun d => (NavParser.rinex2, d) := by
  have := parseNavText_render2 demoNav2 (by decide +kernel) 5 "2.11".toList (by decide) (by decide) (by decide)
    (by decide) "brdc1660.21n".toList (by decide +kernel) (by decide +kernel)
  rw [this, if_neg (by decide)]

end Midgard.Props.C12

#print axioms Midgard.Props.C12.layouts_sorted
#print axioms Midgard.Props.C12.cols_cover_spec
#print axioms Midgard.Props.C12.header_sat_sys
#print axioms Midgard.Props.C12.rename_total
#print axioms Midgard.Props.C12.bds_shift
#print axioms Midgard.Props.C12.nav_record
#print axioms Midgard.Props.C12.float_blank
#print axioms Midgard.Props.C12.isBlank_replaceChar
#print axioms Midgard.Props.C12.isEmpty_replaceChar
#print axioms Midgard.Props.C12.exponent_letters
#print axioms Midgard.Props.C12.skip_glo_sbas
#print axioms Midgard.Props.C12.roundHalfEven_close
#print axioms Midgard.Props.C12.crossover
#print axioms Midgard.Props.C12.crossover_id
#print axioms Midgard.Props.C12.len_append
#print axioms Midgard.Props.C12.len_foldl_append
#print axioms Midgard.Props.C12.len_addLine
#print axioms Midgard.Props.C12.len_addLines
#print axioms Midgard.Props.C12.len_addEpoch
#print axioms Midgard.Props.C12.record_appends
#print axioms Midgard.Props.C12.keysOfLines_eq
#print axioms Midgard.Props.C12.keysOfLines_zip
#print axioms Midgard.Props.C12.count_of_nodupL
#print axioms Midgard.Props.C12.record_names_distinct
#print axioms Midgard.Props.C12.mapM_names
#print axioms Midgard.Props.C12.head_clock_names
#print axioms Midgard.Props.C12.columns_equal_length
#print axioms Midgard.Props.C12.file_records_v3
#print axioms Midgard.Props.C12.parse_v3_of_records
#print axioms Midgard.Props.C12.file_records_v2
#print axioms Midgard.Props.C12.supported_navOnly
#print axioms Midgard.Props.C12.navOnly_wf
#print axioms Midgard.Props.C12.skipped_invisible
#print axioms Midgard.Props.C12.col_append
#print axioms Midgard.Props.C12.kvOf_keys
#print axioms Midgard.Props.C12.col_pushRow
#print axioms Midgard.Props.C12.expectedData_col
#print axioms Midgard.Props.C12.dispatch_render3
#print axioms Midgard.Props.C12.dispatch_render2
#print axioms Midgard.Props.C12.parseNav_render3
#print axioms Midgard.Props.C12.parseNav_render2
#print axioms Midgard.Props.C12.universalNewlines_id
#print axioms Midgard.Props.C12.v2_other_system_refused
#print axioms Midgard.Props.C12.glonass_v2_refused
#print axioms Midgard.Props.C12.parseNavText_eq
#print axioms Midgard.Props.C12.offsets_only_beidou
#print axioms Midgard.Props.C12.parseNavText_render3
#print axioms Midgard.Props.C12.parseNavText_render2
#print axioms Midgard.Props.C12.col_none_of_not_any
#print axioms Midgard.Props.C12.col_map_set
#print axioms Midgard.Props.C12.col_append_one
#print axioms Midgard.Props.C12.col_setCol
#print axioms Midgard.Props.C12.col_delCol
#print axioms Midgard.Props.C12.rename3_cons
#print axioms Midgard.Props.C12.rename3_nil
#print axioms Midgard.Props.C12.mem_newNames
#print axioms Midgard.Props.C12.col_foldl_setCol
#print axioms Midgard.Props.C12.maskCol_map
#print axioms Midgard.Props.C12.renStep_rows
#print axioms Midgard.Props.C12.rename3_rows
#print axioms Midgard.Props.C12.mapM_eq_some_map
#print axioms Midgard.Props.C12.zip_rows
#print axioms Midgard.Props.C12.timeCorrection_rows
#print axioms Midgard.Props.C12.valOf_isSome
#print axioms Midgard.Props.C12.valOf_none
#print axioms Midgard.Props.C12.rows_expected
#print axioms Midgard.Props.C12.lnavOk_rows
#print axioms Midgard.Props.C12.okRen_v3
#print axioms Midgard.Props.C12.sem_system
#print axioms Midgard.Props.C12.sem_toe
#print axioms Midgard.Props.C12.sem_ttx
#print axioms Midgard.Props.C12.sem_week
#print axioms Midgard.Props.C12.sem_iode
#print axioms Midgard.Props.C12.sem_system_post
#print axioms Midgard.Props.C12.post_record
#print axioms Midgard.Props.C12.post_record_beidou
#print axioms Midgard.Props.C12.post_record_renamed
#print axioms Midgard.Props.C12.rename2_cons
#print axioms Midgard.Props.C12.renStep2_rows
#print axioms Midgard.Props.C12.rename2_rows
#print axioms Midgard.Props.C12.sem2Ok_all
#print axioms Midgard.Props.C12.post_record_v2_of
#print axioms Midgard.Props.C12.post_record_v2
#print axioms Midgard.Props.C12.post_record_v2_gps
#print axioms Midgard.Props.C12.col_semCols
#print axioms Midgard.Props.C12.mem_dedupS
#print axioms Midgard.Props.C12.semRename_other
#print axioms Midgard.Props.C12.post_record_keys
