/-
C06 — Local-frame conversions are proper rotations tied to the geodetic normal.

Property theorems only, about the definitions of `Model/Rotation.lean` (the same terms the
compiled driver runs at `Float` and `Rat`).

* Part A is pure algebra: it holds in every commutative ring `R` for every pair `(c, s)` with
  `c² + s² = 1` — in particular for the real cosine/sine of any angle (Part B), and, exactly, for
  the rational Pythagorean pairs the driver can be run on.
* Part B instantiates the model at `ℝ` (`Proofs/GeoReal.lean`) and adds what needs analysis:
  angle addition, `R(-a)`, derivatives, the ACR triad (square roots), azimuth/elevation.
* Part C is the object / array level of `Model/Frames.lean` (also run by the driver): the frame
  properties of `_position.py` and the `delta_*` conversions regenerated from the source equal the
  model (whose frame is used), rows of an array are converted independently and there-and-back is
  the identity on arrays, row selection commutes with converting, the ranges of the reported
  angles, and — composed with the C05 model of `trs2llh` — Up is the surface normal for an
  observer on its ellipsoid.

Not proved (measured by the correspondence, harness/c06.py): the `< 1e-9` relative bound of the
IEEE evaluation; the principal ranges libm's `atan2`/`asin` return.
-/
import Midgard.Proofs.GeoReal
import Midgard.Proofs.SourceTie
import Midgard.Model.Rotation
import Midgard.Generated.PositionSystems
import Midgard.Model.Frames
import Midgard.Generated.SourceFrames
import Midgard.Proofs.FramesReal

namespace Midgard.Props.C06
open Midgard.Geo

/-! ## Part A — algebra over any commutative ring -/

section Algebra
variable {R : Type} [CommRing R]

/-- a matrix is a proper rotation: `MᵀM = 1`, `MMᵀ = 1`, `det M = 1` -/
def IsRotation (m : M3 R) : Prop :=
  m.transpose.mul m = M3.one ∧ m.mul m.transpose = M3.one ∧ m.det = 1

/-! ### the elementary axis rotations -/

theorem R1_rotation (c s : R) (h : c ^ 2 + s ^ 2 = 1) : IsRotation (R1cs c s) := by
  refine ⟨?_, ?_, ?_⟩
  · apply M3.ext' <;> apply V3.ext' <;> simp only [R1cs, M3.transpose, M3.mul, M3.col1, M3.col2, M3.col3, V3.dot, M3.one] <;>
      first | ring1 | linear_combination h
  · apply M3.ext' <;> apply V3.ext' <;> simp only [R1cs, M3.transpose, M3.mul, M3.col1, M3.col2, M3.col3, V3.dot, M3.one] <;>
      first | ring1 | linear_combination h
  · simp only [R1cs, M3.det, V3.dot, V3.cross]; linear_combination h

theorem R2_rotation (c s : R) (h : c ^ 2 + s ^ 2 = 1) : IsRotation (R2cs c s) := by
  refine ⟨?_, ?_, ?_⟩
  · apply M3.ext' <;> apply V3.ext' <;> simp only [R2cs, M3.transpose, M3.mul, M3.col1, M3.col2, M3.col3, V3.dot, M3.one] <;>
      first | ring1 | linear_combination h
  · apply M3.ext' <;> apply V3.ext' <;> simp only [R2cs, M3.transpose, M3.mul, M3.col1, M3.col2, M3.col3, V3.dot, M3.one] <;>
      first | ring1 | linear_combination h
  · simp only [R2cs, M3.det, V3.dot, V3.cross]; linear_combination h

theorem R3_rotation (c s : R) (h : c ^ 2 + s ^ 2 = 1) : IsRotation (R3cs c s) := by
  refine ⟨?_, ?_, ?_⟩
  · apply M3.ext' <;> apply V3.ext' <;> simp only [R3cs, M3.transpose, M3.mul, M3.col1, M3.col2, M3.col3, V3.dot, M3.one] <;>
      first | ring1 | linear_combination h
  · apply M3.ext' <;> apply V3.ext' <;> simp only [R3cs, M3.transpose, M3.mul, M3.col1, M3.col2, M3.col3, V3.dot, M3.one] <;>
      first | ring1 | linear_combination h
  · simp only [R3cs, M3.det, V3.dot, V3.cross]; linear_combination h

/-- `R(-a) = R(a)ᵀ` in `(c, s)` form: negating the angle negates the sine -/
theorem R_neg_eq_transpose (c s : R) :
    R1cs c (-s) = (R1cs c s).transpose ∧ R2cs c (-s) = (R2cs c s).transpose ∧
      R3cs c (-s) = (R3cs c s).transpose := by
  refine ⟨?_, ?_, ?_⟩ <;> apply M3.ext' <;> apply V3.ext' <;>
    simp only [R1cs, R2cs, R3cs, M3.transpose, M3.col1, M3.col2, M3.col3, neg_neg]

/-- `R(a) R(b) = R(a + b)` in `(c, s)` form: the product is the rotation of the angle-addition
pair `(c₁c₂ − s₁s₂, s₁c₂ + c₁s₂)` -/
theorem R_mul (c₁ s₁ c₂ s₂ : R) :
    (R1cs c₁ s₁).mul (R1cs c₂ s₂) = R1cs (c₁ * c₂ - s₁ * s₂) (s₁ * c₂ + c₁ * s₂) ∧
    (R2cs c₁ s₁).mul (R2cs c₂ s₂) = R2cs (c₁ * c₂ - s₁ * s₂) (s₁ * c₂ + c₁ * s₂) ∧
    (R3cs c₁ s₁).mul (R3cs c₂ s₂) = R3cs (c₁ * c₂ - s₁ * s₂) (s₁ * c₂ + c₁ * s₂) := by
  refine ⟨?_, ?_, ?_⟩ <;> apply M3.ext' <;> apply V3.ext' <;>
    simp only [R1cs, R2cs, R3cs, M3.mul, M3.col1, M3.col2, M3.col3, V3.dot] <;> ring

/-- the published derivative matrices are the rotation by a quarter turn more, with the fixed
axis entry removed: `dR(c, s) = R(-s, c) − E_kk` (the `(cos, sin)` of `a + π/2` is `(-s, c)`) -/
theorem dR_eq_quarter_turn (c s : R) :
    dR1cs c s = ⟨⟨0, 0, 0⟩, (R1cs (-s) c).r2, (R1cs (-s) c).r3⟩ ∧
    dR2cs c s = ⟨(R2cs (-s) c).r1, ⟨0, 0, 0⟩, (R2cs (-s) c).r3⟩ ∧
    dR3cs c s = ⟨(R3cs (-s) c).r1, (R3cs (-s) c).r2, ⟨0, 0, 0⟩⟩ := by
  refine ⟨?_, ?_, ?_⟩ <;> simp only [dR1cs, dR2cs, dR3cs, R1cs, R2cs, R3cs]

/-! ### rotations preserve lengths and angles -/

/-- a matrix with `MᵀM = 1` preserves every dot product (hence lengths and angles) -/
theorem dot_preserved (m : M3 R) (h : m.transpose.mul m = M3.one) (u v : V3 R) :
    V3.dot (m.mulVec u) (m.mulVec v) = V3.dot u v := by
  have e := h
  simp only [M3.transpose, M3.mul, M3.col1, M3.col2, M3.col3, V3.dot, M3.one, M3.mk.injEq, V3.mk.injEq] at e
  obtain ⟨⟨e11, e12, e13⟩, ⟨e21, e22, e23⟩, e31, e32, e33⟩ := e
  simp only [M3.mulVec, V3.dot]
  linear_combination (u.x * v.x) * e11 + (u.x * v.y) * e12 + (u.x * v.z) * e13
    + (u.y * v.x) * e21 + (u.y * v.y) * e22 + (u.y * v.z) * e23
    + (u.z * v.x) * e31 + (u.z * v.y) * e32 + (u.z * v.z) * e33

theorem norm_preserved (m : M3 R) (h : m.transpose.mul m = M3.one) (u : V3 R) :
    (m.mulVec u).norm2 = u.norm2 := dot_preserved m h u u

/-- converting there and back is the identity -/
theorem mulVec_transpose_cancel (m : M3 R) (h : m.transpose.mul m = M3.one) (u : V3 R) :
    m.transpose.mulVec (m.mulVec u) = u := by
  have e := h
  simp only [M3.transpose, M3.mul, M3.col1, M3.col2, M3.col3, V3.dot, M3.one, M3.mk.injEq, V3.mk.injEq] at e
  obtain ⟨⟨e11, e12, e13⟩, ⟨e21, e22, e23⟩, e31, e32, e33⟩ := e
  apply V3.ext' <;> simp only [M3.mulVec, M3.transpose, M3.col1, M3.col2, M3.col3, V3.dot]
  · linear_combination u.x * e11 + u.y * e12 + u.z * e13
  · linear_combination u.x * e21 + u.y * e22 + u.z * e23
  · linear_combination u.x * e31 + u.y * e32 + u.z * e33

omit [CommRing R] in
theorem transpose_transpose (m : M3 R) : m.transpose.transpose = m := by
  apply M3.ext' <;> apply V3.ext' <;> simp only [M3.transpose, M3.col1, M3.col2, M3.col3]

theorem mulVec_cancel_transpose (m : M3 R) (h : m.mul m.transpose = M3.one) (u : V3 R) :
    m.mulVec (m.transpose.mulVec u) = u := by
  have := mulVec_transpose_cancel m.transpose (by rw [transpose_transpose]; exact h) u
  rwa [transpose_transpose] at this

/-! ### the East-North-Up frame -/

theorem enu2trs_rotation (cl sl co so : R) (hl : cl ^ 2 + sl ^ 2 = 1) (ho : co ^ 2 + so ^ 2 = 1) :
    IsRotation (enu2trsCS cl sl co so) := by
  refine ⟨?_, ?_, ?_⟩
  · apply M3.ext' <;> apply V3.ext' <;>
      simp only [enu2trsCS, M3.transpose, M3.mul, M3.col1, M3.col2, M3.col3, V3.dot, M3.one] <;>
      first
        | ring1
        | linear_combination ho
        | linear_combination (sl ^ 2) * ho + hl
        | linear_combination (cl ^ 2) * ho + hl
        | linear_combination (-(sl * cl)) * ho
  · apply M3.ext' <;> apply V3.ext' <;>
      simp only [enu2trsCS, M3.transpose, M3.mul, M3.col1, M3.col2, M3.col3, V3.dot, M3.one] <;>
      first
        | ring1
        | linear_combination hl
        | linear_combination (co ^ 2) * hl + ho
        | linear_combination (so ^ 2) * hl + ho
        | linear_combination (co * so) * hl
  · simp only [enu2trsCS, M3.det, V3.dot, V3.cross]
    linear_combination (so ^ 2 + co ^ 2) * hl + ho

/-- `rotation.trs2enu` is the transpose of `rotation.enu2trs` -/
theorem trs2enu_eq_transpose (cl sl co so : R) :
    trs2enuCS cl sl co so = (enu2trsCS cl sl co so).transpose := by
  apply M3.ext' <;> apply V3.ext' <;>
    simp only [trs2enuCS, enu2trsCS, M3.transpose, M3.col1, M3.col2, M3.col3] <;> ring

theorem trs2enu_rotation (cl sl co so : R) (hl : cl ^ 2 + sl ^ 2 = 1) (ho : co ^ 2 + so ^ 2 = 1) :
    IsRotation (trs2enuCS cl sl co so) := by
  obtain ⟨h1, h2, h3⟩ := enu2trs_rotation cl sl co so hl ho
  rw [trs2enu_eq_transpose]
  have tt : (enu2trsCS cl sl co so).transpose.transpose = enu2trsCS cl sl co so := by
    apply M3.ext' <;> apply V3.ext' <;> simp only [M3.transpose, M3.col1, M3.col2, M3.col3]
  refine ⟨by rw [tt]; exact h2, by rw [tt]; exact h1, ?_⟩
  rw [← h3]
  simp only [enu2trsCS, M3.transpose, M3.col1, M3.col2, M3.col3, M3.det, V3.dot, V3.cross]; ring

/-- the docstring's claim: `enu2trs(lat, lon) = R3(-(π/2 + lon)) @ R1(-(π/2 - lat))`, with
`(cos, sin)(-(π/2 + lon)) = (-so, -co)` and `(cos, sin)(-(π/2 - lat)) = (sl, -cl)` -/
theorem enu2trs_eq_R3_R1 (cl sl co so : R) :
    enu2trsCS cl sl co so = (R3cs (-so) (-co)).mul (R1cs sl (-cl)) := by
  apply M3.ext' <;> apply V3.ext' <;>
    simp only [enu2trsCS, R3cs, R1cs, M3.mul, M3.col1, M3.col2, M3.col3, V3.dot] <;> ring

/-- TRS → ENU → TRS and ENU → TRS → ENU are the identity on position differences -/
theorem delta_enu_roundtrip (cl sl co so : R) (hl : cl ^ 2 + sl ^ 2 = 1) (ho : co ^ 2 + so ^ 2 = 1)
    (d : V3 R) :
    deltaEnu2TrsCS cl sl co so (deltaTrs2EnuCS cl sl co so d) = d ∧
    deltaTrs2EnuCS cl sl co so (deltaEnu2TrsCS cl sl co so d) = d := by
  obtain ⟨h1, h2, _⟩ := enu2trs_rotation cl sl co so hl ho
  simp only [deltaEnu2TrsCS, deltaTrs2EnuCS, trs2enu_eq_transpose]
  exact ⟨mulVec_cancel_transpose _ h2 d, mulVec_transpose_cancel _ h1 d⟩

/-- lengths and angles of position differences are the same in TRS and ENU -/
theorem delta_enu_dot_preserved (cl sl co so : R) (hl : cl ^ 2 + sl ^ 2 = 1) (ho : co ^ 2 + so ^ 2 = 1)
    (u v : V3 R) :
    V3.dot (deltaTrs2EnuCS cl sl co so u) (deltaTrs2EnuCS cl sl co so v) = V3.dot u v :=
  dot_preserved _ (trs2enu_rotation cl sl co so hl ho).1 u v

/-! ### the triad: Up is the ellipsoid normal, East ⟂ axis and Up, North completes it -/

/-- `enu_up` is `n̂(lat, lon) = (cos lat cos lon, cos lat sin lon, sin lat)` — the direction along
which `llh2trs` moves when only the height changes (`Props/C05.lean`, `llh2trs_normal`), i.e. the
ellipsoid normal at the reference position -/
theorem up_is_normal (cl sl co so : R) : enuUpCS cl sl co so = normalCS cl sl co so := by
  apply V3.ext' <;> simp only [enuUpCS, enu2trsCS, M3.col3, normalCS] <;> ring

/-- East is perpendicular to the rotation axis `(0, 0, 1)` and to Up -/
theorem east_perp_axis_up (cl sl co so : R) :
    V3.dot (enuEastCS cl sl co so) ⟨0, 0, 1⟩ = 0 ∧
    V3.dot (enuEastCS cl sl co so) (enuUpCS cl sl co so) = 0 := by
  constructor <;> simp only [enuEastCS, enuUpCS, enu2trsCS, M3.col1, M3.col3, V3.dot] <;> ring

/-- North completes the right-handed triad: `North = Up × East`, `East × North = Up`,
`North × Up = East` -/
theorem north_completes_triad (cl sl co so : R) (hl : cl ^ 2 + sl ^ 2 = 1) (ho : co ^ 2 + so ^ 2 = 1) :
    enuNorthCS cl sl co so = V3.cross (enuUpCS cl sl co so) (enuEastCS cl sl co so) ∧
    V3.cross (enuEastCS cl sl co so) (enuNorthCS cl sl co so) = enuUpCS cl sl co so ∧
    V3.cross (enuNorthCS cl sl co so) (enuUpCS cl sl co so) = enuEastCS cl sl co so := by
  refine ⟨?_, ?_, ?_⟩ <;> apply V3.ext' <;>
    simp only [enuEastCS, enuNorthCS, enuUpCS, enu2trsCS, M3.col1, M3.col2, M3.col3, V3.cross] <;>
    first
      | ring1
      | linear_combination (-cl) * ho
      | linear_combination sl * ho
      | linear_combination (-so) * hl
      | linear_combination co * hl

/-- the ENU components of a vector are its projections on East, North, Up -/
theorem enu_components_are_projections (cl sl co so : R) (d : V3 R) :
    deltaTrs2EnuCS cl sl co so d =
      ⟨V3.dot d (enuEastCS cl sl co so), V3.dot d (enuNorthCS cl sl co so), V3.dot d (enuUpCS cl sl co so)⟩ := by
  apply V3.ext' <;>
    simp only [deltaTrs2EnuCS, trs2enuCS, enuEastCS, enuNorthCS, enuUpCS, enu2trsCS, M3.mulVec, M3.col1,
      M3.col2, M3.col3, V3.dot] <;> ring

/-! ### block-diagonal 6×6 variants (position | velocity) -/

/-- `np.block([[M, 0], [0, M]]) @ (p | v) = (M p | M v)` -/
theorem blockDiag_mulVec (m : M3 R) (w : V6 R) :
    (M6.blockDiag m).mulVec w = ⟨m.mulVec w.p, m.mulVec w.v⟩ := by
  apply V6.ext' <;> apply V3.ext' <;>
    simp only [M6.blockDiag, M6.mulVec, M3.mulVec, M3.zero, V3.zero, V3.add, V3.dot] <;> ring

/-- the block-diagonal matrix of a rotation is orthogonal: `Bᵀ B = 1` -/
theorem block6_orth (m : M3 R) (h : m.transpose.mul m = M3.one) :
    (M6.blockDiag m).transpose.mul (M6.blockDiag m) = M6.one := by
  have e := h
  simp only [M3.transpose, M3.mul, M3.col1, M3.col2, M3.col3, V3.dot, M3.one, M3.mk.injEq, V3.mk.injEq] at e
  obtain ⟨⟨e11, e12, e13⟩, ⟨e21, e22, e23⟩, e31, e32, e33⟩ := e
  simp only [M6.blockDiag, M6.transpose, M6.mul, M6.one, M3.transpose, M3.mul, M3.col1, M3.col2, M3.col3,
    M3.zero, V3.zero, V3.add, V3.dot, M3.one, M6.mk.injEq, M3.mk.injEq, V3.mk.injEq]
  refine ⟨⟨⟨?_, ?_, ?_⟩, ⟨?_, ?_, ?_⟩, ?_, ?_, ?_⟩, ⟨⟨?_, ?_, ?_⟩, ⟨?_, ?_, ?_⟩, ?_, ?_, ?_⟩,
    ⟨⟨?_, ?_, ?_⟩, ⟨?_, ?_, ?_⟩, ?_, ?_, ?_⟩, ⟨?_, ?_, ?_⟩, ⟨?_, ?_, ?_⟩, ?_, ?_, ?_⟩ <;>
    first
      | ring1
      | linear_combination e11 | linear_combination e12 | linear_combination e13
      | linear_combination e21 | linear_combination e22 | linear_combination e23
      | linear_combination e31 | linear_combination e32 | linear_combination e33

/-- position/velocity differences: TRS → ENU → TRS is the identity, lengths of both halves are kept -/
theorem delta_enu_posvel_roundtrip (cl sl co so : R) (hl : cl ^ 2 + sl ^ 2 = 1) (ho : co ^ 2 + so ^ 2 = 1)
    (w : V6 R) :
    deltaEnu2TrsPosVelCS cl sl co so (deltaTrs2EnuPosVelCS cl sl co so w) = w ∧
    (deltaTrs2EnuPosVelCS cl sl co so w).p.norm2 = w.p.norm2 ∧
    (deltaTrs2EnuPosVelCS cl sl co so w).v.norm2 = w.v.norm2 := by
  obtain ⟨h1, h2, _⟩ := enu2trs_rotation cl sl co so hl ho
  have ht := (trs2enu_rotation cl sl co so hl ho).1
  simp only [deltaEnu2TrsPosVelCS, deltaTrs2EnuPosVelCS, blockDiag_mulVec]
  refine ⟨?_, norm_preserved _ ht _, norm_preserved _ ht _⟩
  apply V6.ext' <;> simp only [trs2enu_eq_transpose] <;> exact mulVec_cancel_transpose _ h2 _

/-! ### an orthonormal right-handed triad is a proper rotation -/

/-- for unit, mutually perpendicular `c`, `r` the matrix with rows `(c × r, c, r)` is a proper
rotation (rows and columns orthonormal, determinant +1) -/
theorem triad_rotation (c r : V3 R) (hc : c.norm2 = 1) (hr : r.norm2 = 1) (hcr : V3.dot c r = 0) :
    IsRotation ⟨V3.cross c r, c, r⟩ := by
  simp only [V3.norm2, V3.dot] at hc hr hcr
  refine ⟨?_, ?_, ?_⟩
  · -- columns: (c × r)ᵢ(c × r)ⱼ + cᵢcⱼ + rᵢrⱼ = δᵢⱼ
    apply M3.ext' <;> apply V3.ext' <;>
      simp only [M3.transpose, M3.mul, M3.col1, M3.col2, M3.col3, V3.dot, V3.cross, M3.one]
    · linear_combination (r.x * r.x + r.y * r.y + r.z * r.z - r.x * r.x) * hc + (1 - c.x * c.x) * hr + (c.x * r.x + c.x * r.x - (c.x * r.x + c.y * r.y + c.z * r.z)) * hcr
    · linear_combination (-(r.x * r.y)) * hc + (-(c.x * c.y)) * hr + (c.x * r.y + c.y * r.x) * hcr
    · linear_combination (-(r.x * r.z)) * hc + (-(c.x * c.z)) * hr + (c.x * r.z + c.z * r.x) * hcr
    · linear_combination (-(r.y * r.x)) * hc + (-(c.y * c.x)) * hr + (c.y * r.x + c.x * r.y) * hcr
    · linear_combination (r.x * r.x + r.y * r.y + r.z * r.z - r.y * r.y) * hc + (1 - c.y * c.y) * hr + (c.y * r.y + c.y * r.y - (c.x * r.x + c.y * r.y + c.z * r.z)) * hcr
    · linear_combination (-(r.y * r.z)) * hc + (-(c.y * c.z)) * hr + (c.y * r.z + c.z * r.y) * hcr
    · linear_combination (-(r.z * r.x)) * hc + (-(c.z * c.x)) * hr + (c.z * r.x + c.x * r.z) * hcr
    · linear_combination (-(r.z * r.y)) * hc + (-(c.z * c.y)) * hr + (c.z * r.y + c.y * r.z) * hcr
    · linear_combination (r.x * r.x + r.y * r.y + r.z * r.z - r.z * r.z) * hc + (1 - c.z * c.z) * hr + (c.z * r.z + c.z * r.z - (c.x * r.x + c.y * r.y + c.z * r.z)) * hcr
  · -- rows
    apply M3.ext' <;> apply V3.ext' <;>
      simp only [M3.transpose, M3.mul, M3.col1, M3.col2, M3.col3, V3.dot, V3.cross, M3.one] <;>
      first
        | ring1
        | linear_combination hc
        | linear_combination hr
        | linear_combination hcr
        | linear_combination (r.x * r.x + r.y * r.y + r.z * r.z) * hc + hr + (-(c.x * r.x + c.y * r.y + c.z * r.z)) * hcr
  · simp only [M3.det, V3.dot, V3.cross]
    linear_combination (r.x * r.x + r.y * r.y + r.z * r.z) * hc + hr + (-(c.x * r.x + c.y * r.y + c.z * r.z)) * hcr

end Algebra

/-! ## Part B — the model at `ℝ` -/

section RealAngles

theorem cos_sq_add_sin_sq_real (a : ℝ) : Real.cos a ^ 2 + Real.sin a ^ 2 = 1 := Real.cos_sq_add_sin_sq a

/-- for every real angle the coded `R1`, `R2`, `R3` are proper rotations:
`RᵀR = RRᵀ = 1`, `det R = +1` -/
theorem R_rotation_real (a : ℝ) : IsRotation (R1 a) ∧ IsRotation (R2 a) ∧ IsRotation (R3 a) :=
  ⟨R1_rotation _ _ (cos_sq_add_sin_sq_real a), R2_rotation _ _ (cos_sq_add_sin_sq_real a),
   R3_rotation _ _ (cos_sq_add_sin_sq_real a)⟩

/-- `R(-a) = R(a)ᵀ` -/
theorem R_neg_real (a : ℝ) :
    R1 (-a) = (R1 a).transpose ∧ R2 (-a) = (R2 a).transpose ∧ R3 (-a) = (R3 a).transpose := by
  have h := R_neg_eq_transpose (Real.cos a) (Real.sin a)
  simp only [R1, R2, R3, trig_cos, trig_sin, Real.cos_neg, Real.sin_neg]
  exact h

/-- `R(a) R(b) = R(a + b)` -/
theorem R_add_real (a b : ℝ) :
    (R1 a).mul (R1 b) = R1 (a + b) ∧ (R2 a).mul (R2 b) = R2 (a + b) ∧ (R3 a).mul (R3 b) = R3 (a + b) := by
  have h := R_mul (Real.cos a) (Real.sin a) (Real.cos b) (Real.sin b)
  simp only [R1, R2, R3, trig_cos, trig_sin, Real.cos_add, Real.sin_add]
  exact h

/-- the published derivative matrices `dR1`, `dR2`, `dR3` are, entry by entry, the derivatives of
`R1`, `R2`, `R3` with respect to the angle -/
theorem dR_hasDerivAt (a : ℝ) (i j : Fin 3) :
    HasDerivAt (fun t : ℝ => (R1 t).entry i j) ((dR1 a).entry i j) a ∧
    HasDerivAt (fun t : ℝ => (R2 t).entry i j) ((dR2 a).entry i j) a ∧
    HasDerivAt (fun t : ℝ => (R3 t).entry i j) ((dR3 a).entry i j) a := by
  have hc := Real.hasDerivAt_cos a
  have hs := Real.hasDerivAt_sin a
  have hns := hs.neg
  have h0 := hasDerivAt_const a (0 : ℝ)
  have h1 := hasDerivAt_const a (1 : ℝ)
  refine ⟨?_, ?_, ?_⟩ <;> fin_cases i <;> fin_cases j <;>
    simp only [R1, R2, R3, dR1, dR2, dR3, R1cs, R2cs, R3cs, dR1cs, dR2cs, dR3cs, M3.entry, trig_cos, trig_sin] <;>
    first | exact h0 | exact hc | exact hs | exact hns | simpa using h1

/-- for every latitude and longitude `enu2trs` and `trs2enu` are proper rotations and each
other's transpose (inverse) -/
theorem enu_rotation_real (lat lon : ℝ) :
    IsRotation (enu2trs lat lon) ∧ IsRotation (trs2enu lat lon) ∧
      trs2enu lat lon = (enu2trs lat lon).transpose :=
  ⟨enu2trs_rotation _ _ _ _ (cos_sq_add_sin_sq_real lat) (cos_sq_add_sin_sq_real lon),
   trs2enu_rotation _ _ _ _ (cos_sq_add_sin_sq_real lat) (cos_sq_add_sin_sq_real lon),
   trs2enu_eq_transpose _ _ _ _⟩

/-- the docstring of `rotation.enu2trs`: `enu2trs(lat, lon) = R3(-(π/2 + lon)) @ R1(-(π/2 - lat))` -/
theorem enu2trs_eq_R3_R1_real (lat lon : ℝ) :
    enu2trs lat lon = (R3 (-(Real.pi / 2 + lon))).mul (R1 (-(Real.pi / 2 - lat))) := by
  have h := enu2trs_eq_R3_R1 (Real.cos lat) (Real.sin lat) (Real.cos lon) (Real.sin lon)
  simp only [enu2trs, R3, R1, trig_cos, trig_sin, Real.cos_neg, Real.sin_neg, Real.cos_pi_div_two_sub,
    Real.sin_pi_div_two_sub, Real.cos_add, Real.sin_add, Real.cos_pi_div_two, Real.sin_pi_div_two,
    zero_mul, one_mul, zero_sub, add_zero]
  exact h

end RealAngles

/-! ### the along / cross / radial frame -/

section Acr

/-- for every orbit state with non-parallel `r`, `v` the coded `trs2acr` matrix is a proper
rotation whose rows are an orthonormal right-handed triad: the third row is the radial unit
vector `r/‖r‖`, the second the unit vector along `r × v` (cross-track), the first
`cross-track × radial` (along-track); `acr2trs` is its transpose (inverse) -/
theorem acr_orthonormal_righthanded (r v : V3 ℝ) (h : (V3.cross r v).norm2 ≠ 0) :
    IsRotation (trs2acr r v) ∧
    (trs2acr r v).r3 = r.unit ∧
    (trs2acr r v).r2 = (V3.cross r.unit v.unit).unit ∧
    (trs2acr r v).r1 = V3.cross (trs2acr r v).r2 (trs2acr r v).r3 ∧
    acr2trs r v = (trs2acr r v).transpose := by
  have hr : r.norm2 ≠ 0 := by
    intro h0
    apply h
    rw [V3.norm2_eq_zero h0]
    simp [V3.cross, V3.norm2, V3.dot]
  have hv : v.norm2 ≠ 0 := by
    intro h0
    apply h
    rw [V3.norm2_eq_zero h0]
    simp [V3.cross, V3.norm2, V3.dot]
  have hru := V3.unit_norm2 hr
  have hnr := V3.norm_pos hr
  have hnv := V3.norm_pos hv
  -- r̂ × v̂ = (r × v)/(‖r‖‖v‖) is not zero
  have hw : (V3.cross r.unit v.unit).norm2 ≠ 0 := by
    have e : (V3.cross r.unit v.unit).norm2 = (V3.cross r v).norm2 / (r.norm * v.norm) ^ 2 := by
      simp only [V3.unit, V3.sdiv, V3.cross, V3.norm2, V3.dot]
      field_simp
    rw [e]
    exact div_ne_zero h (pow_ne_zero 2 (mul_pos hnr hnv).ne')
  have hcu := V3.unit_norm2 hw
  -- ĉ ⟂ r̂
  have hcr : V3.dot (V3.cross r.unit v.unit).unit r.unit = 0 := by
    have hdiv : ∀ w u : V3 ℝ, V3.dot w.unit u = V3.dot w u / w.norm := by
      intro w u; simp only [V3.unit, V3.sdiv, V3.dot]; ring
    have : V3.dot (V3.cross r.unit v.unit) r.unit = 0 := by
      simp only [V3.cross, V3.dot]; ring
    rw [hdiv, this, zero_div]
  -- ĉ × r̂ already has length 1
  have hau : (V3.cross (V3.cross r.unit v.unit).unit r.unit).norm2 = 1 := by
    have lag : ∀ c u : V3 ℝ, (V3.cross c u).norm2 = c.norm2 * u.norm2 - (V3.dot c u) ^ 2 := by
      intro c u; simp only [V3.cross, V3.norm2, V3.dot]; ring
    rw [lag, hcu, hru, hcr]; norm_num
  have hrows : trs2acr r v = ⟨V3.cross (V3.cross r.unit v.unit).unit r.unit, (V3.cross r.unit v.unit).unit, r.unit⟩ := by
    simp only [trs2acr, V3.unit_of_norm2_one hau]
  refine ⟨?_, ?_, ?_, ?_, rfl⟩
  · rw [hrows]; exact triad_rotation _ _ hcu hru hcr
  · rw [hrows]
  · rw [hrows]
  · rw [hrows]

/-- position/velocity differences: TRS → ACR → TRS is the identity and the lengths of both
halves are kept -/
theorem delta_acr_posvel_roundtrip (r v : V3 ℝ) (h : (V3.cross r v).norm2 ≠ 0) (w : V6 ℝ) :
    deltaAcr2TrsPosVel r v (deltaTrs2AcrPosVel r v w) = w ∧
    (deltaTrs2AcrPosVel r v w).p.norm2 = w.p.norm2 ∧ (deltaTrs2AcrPosVel r v w).v.norm2 = w.v.norm2 := by
  obtain ⟨⟨h1, _, _⟩, _, _, _, ht⟩ := acr_orthonormal_righthanded r v h
  simp only [deltaAcr2TrsPosVel, deltaTrs2AcrPosVel, blockDiag_mulVec, ht]
  refine ⟨?_, norm_preserved _ h1 _, norm_preserved _ h1 _⟩
  apply V6.ext' <;> exact mulVec_transpose_cancel _ h1 _

end Acr

/-! ### azimuth, elevation, zenith distance -/

section AzEl

/-- `(cos el · sin az, cos el · cos az, sin el)` reproduces a unit vector `(e, n, u)` when
`az = arctan2(e, n)` and `el = arcsin(u)`: azimuth and elevation are the angles of that vector -/
theorem angles_of_unit_vector (e n u : ℝ) (h : e ^ 2 + n ^ 2 + u ^ 2 = 1) :
    Real.cos (Real.arcsin u) * Real.sin (Complex.arg ⟨n, e⟩) = e ∧
    Real.cos (Real.arcsin u) * Real.cos (Complex.arg ⟨n, e⟩) = n ∧
    Real.sin (Real.arcsin u) = u := by
  have hu2 : u ^ 2 ≤ 1 := by nlinarith [sq_nonneg e, sq_nonneg n]
  have hu : -1 ≤ u ∧ u ≤ 1 := abs_le.mp (by
    have : |u| ^ 2 ≤ 1 ^ 2 := by rw [sq_abs]; linarith
    exact abs_le_of_sq_le_sq' this (by norm_num) |>.2 |> fun h => by
      have := abs_nonneg u
      nlinarith [sq_abs u])
  have hcos : Real.cos (Real.arcsin u) = Real.sqrt (n ^ 2 + e ^ 2) := by
    rw [Real.cos_arcsin]; congr 1; linarith
  refine ⟨?_, ?_, Real.sin_arcsin hu.1 hu.2⟩
  · by_cases hz : (⟨n, e⟩ : ℂ) = 0
    · have he : e = 0 := by simpa using congrArg Complex.im hz
      have hn : n = 0 := by simpa using congrArg Complex.re hz
      rw [hcos, he, hn]; simp
    · rw [Complex.sin_arg, Complex.norm_eq_sqrt_sq_add_sq, hcos]
      have hpos : 0 < Real.sqrt (n ^ 2 + e ^ 2) := by
        rw [← Complex.norm_eq_sqrt_sq_add_sq (⟨n, e⟩ : ℂ)]
        exact norm_pos_iff.mpr hz
      simp only []
      field_simp
  · by_cases hz : (⟨n, e⟩ : ℂ) = 0
    · have he : e = 0 := by simpa using congrArg Complex.im hz
      have hn : n = 0 := by simpa using congrArg Complex.re hz
      rw [hcos, he, hn]; simp
    · rw [Complex.cos_arg hz, Complex.norm_eq_sqrt_sq_add_sq, hcos]
      have hpos : 0 < Real.sqrt (n ^ 2 + e ^ 2) := by
        rw [← Complex.norm_eq_sqrt_sq_add_sq (⟨n, e⟩ : ℂ)]
        exact norm_pos_iff.mpr hz
      simp only []
      field_simp

/-- **azimuth and elevation are the angles of the target direction in the East/North/Up triad**:
for a unit direction `dir`, the reported `azimuth`, `elevation` satisfy
`(cos el sin az, cos el cos az, sin el) = (dir·East, dir·North, dir·Up)` — the ENU components
`trs2enu @ dir` — and `zenith distance = π/2 − elevation` -/
theorem az_el_are_angles_of_triad (cl sl co so : ℝ) (hl : cl ^ 2 + sl ^ 2 = 1) (ho : co ^ 2 + so ^ 2 = 1)
    (dir : V3 ℝ) (hd : dir.norm2 = 1) :
    let enu := deltaTrs2EnuCS cl sl co so dir
    let az := azimuthCS cl sl co so dir
    let el := elevationCS cl sl co so dir
    Real.cos el * Real.sin az = enu.x ∧ Real.cos el * Real.cos az = enu.y ∧ Real.sin el = enu.z ∧
    zenithDistanceCS cl sl co so dir = Real.pi / 2 - el := by
  intro enu az el
  have hproj := enu_components_are_projections cl sl co so dir
  have hn : enu.norm2 = 1 := by
    have := delta_enu_dot_preserved cl sl co so hl ho dir dir
    simp only [enu, V3.norm2]; rw [this]; exact hd
  have hx : enu.x = V3.dot dir (enuEastCS cl sl co so) := by simp only [enu, hproj]
  have hy : enu.y = V3.dot dir (enuNorthCS cl sl co so) := by simp only [enu, hproj]
  have hz : enu.z = V3.dot dir (enuUpCS cl sl co so) := by simp only [enu, hproj]
  have h1 : enu.x ^ 2 + enu.y ^ 2 + enu.z ^ 2 = 1 := by
    simp only [V3.norm2, V3.dot] at hn; linear_combination hn
  obtain ⟨a1, a2, a3⟩ := angles_of_unit_vector enu.x enu.y enu.z h1
  refine ⟨?_, ?_, ?_, ?_⟩
  · simp only [az, el, azimuthCS, elevationCS, trig_asin, trig_atan2, ← hx, ← hy, ← hz]; exact a1
  · simp only [az, el, azimuthCS, elevationCS, trig_asin, trig_atan2, ← hx, ← hy, ← hz]; exact a2
  · simp only [el, elevationCS, trig_asin, ← hz]; exact a3
  · simp only [zenithDistanceCS, el, trig_pi]; norm_num

end AzEl

/-! ### the registered conversion graph is the modelled one -/

/-- which model function stands for which registered converter -/
def modelledConversions : List (String × String × String × String) := [
  ("PosVelArray", "kepler", "trs", "kepler2trs"),
  ("PosVelArray", "trs", "kepler", "trs2kepler"),
  ("PosVelDeltaArray", "acr", "trs", "delta_acr2trs_posvel"),
  ("PosVelDeltaArray", "enu", "trs", "delta_enu2trs_posvel"),
  ("PosVelDeltaArray", "trs", "acr", "delta_trs2acr_posvel"),
  ("PosVelDeltaArray", "trs", "enu", "delta_trs2enu_posvel"),
  ("PositionArray", "llh", "trs", "llh2trs"),
  ("PositionArray", "trs", "llh", "trs2llh"),
  ("PositionDeltaArray", "enu", "trs", "delta_enu2trs"),
  ("PositionDeltaArray", "trs", "enu", "delta_trs2enu")]

/-- the conversion graph registered in `midgard/data/position.py` (regenerated from the source on
every run) is exactly the set of conversions the model covers, each wired to the function of
that name, and every conversion has its inverse registered -/
theorem registered_conversions :
    Midgard.Generated.PositionSystems.conversions = modelledConversions ∧
    ∀ c ∈ Midgard.Generated.PositionSystems.conversions,
      ∃ d ∈ Midgard.Generated.PositionSystems.conversions, d.1 = c.1 ∧ d.2.1 = c.2.2.1 ∧ d.2.2.1 = c.2.1 := by
  decide +kernel

/-! ### non-vacuity: exact Pythagorean pairs (the `Rat` runs of the driver) -/

example : IsRotation (R1cs (3 / 5 : ℚ) (4 / 5)) := R1_rotation _ _ (by norm_num)
example : IsRotation (enu2trsCS (3 / 5 : ℚ) (4 / 5) (5 / 13) (-12 / 13)) :=
  enu2trs_rotation _ _ _ _ (by norm_num) (by norm_num)
example : enuUpCS (3 / 5 : ℚ) (4 / 5) (5 / 13) (-12 / 13) = ⟨3 / 13, -36 / 65, 4 / 5⟩ := by
  simp only [enuUpCS, enu2trsCS, M3.col3]; norm_num


/-! ### The model is the source (regenerated on every run)

`Generated/SourceExprs.lean` is written by `translator/extract_exprs.py` from the Python `ast` of the tree under
test: the arithmetic of the functions named below, statement by statement.  The theorems of this section say that the
hand-written model definitions every other theorem of this file is about are, over the reals, *equal* to those
regenerated definitions (composed with the hand-modelled branch selection where the source has control flow).  A
change of the source arithmetic therefore breaks one of these (unless it is an algebraic identity over ℝ, which the
fallback of the `src_tie` tactic — unfold, compare component by component with `ring_nf` — accepts). -/
section Source
open Midgard.Generated
set_option linter.unusedTactic false
set_option linter.unreachableTactic false
set_option linter.unusedSimpArgs false
set_option linter.unnecessarySeqFocus false

theorem source_axis_rotations (c s : ℝ) :
    Src.R1src c s = R1cs c s ∧ Src.R2src c s = R2cs c s ∧ Src.R3src c s = R3cs c s ∧
    Src.dR1src c s = dR1cs c s ∧ Src.dR2src c s = dR2cs c s ∧ Src.dR3src c s = dR3cs c s := by
  refine ⟨?_, ?_, ?_, ?_, ?_, ?_⟩ <;>
    src_tie [Src.R1src, Src.R2src, Src.R3src, Src.dR1src, Src.dR2src, Src.dR3src, R1cs, R2cs, R3cs, dR1cs, dR2cs, dR3cs]
theorem source_enu_matrices (cl sl co so : ℝ) :
    Src.enu2trsSrc cl co sl so = enu2trsCS cl sl co so ∧ Src.trs2enuSrc cl co sl so = trs2enuCS cl sl co so := by
  refine ⟨?_, ?_⟩ <;> src_tie [Src.enu2trsSrc, Src.trs2enuSrc, enu2trsCS, trs2enuCS]

end Source

/-! ### The frame properties and the delta conversions are the source (regenerated on every run)

`Generated/SourceFrames.lean` is written by `translator/extract_frames.py` from the `ast` of `_position.py` and
`transformation.py`: the frame properties as functions of the position objects involved.  The theorems say that they are
the object-level model of `Model/Frames.lean` — in particular *whose* latitude / longitude enters (the observer's for
azimuth / elevation, `ref_pos`'s for a delta), which column of `enu2trs` is East / North / Up, and that the vector is
target minus observer. -/
section SourceFrames
open Midgard.Generated

theorem source_frame_triad (self : PosObj ℝ) :
    Frames.enu2trsSrc self = self.enu2trs ∧ Frames.trs2enuSrc self = self.trs2enu ∧
    Frames.enuEastSrc self = self.east ∧ Frames.enuNorthSrc self = self.north ∧ Frames.enuUpSrc self = self.up :=
  ⟨rfl, rfl, rfl, rfl, rfl⟩

theorem source_frame_angles (self other : PosObj ℝ) :
    Frames.vectorToSrc self other = self.vectorTo other ∧
    Frames.distanceToSrc self other = self.distanceTo other ∧
    Frames.directionToSrc self other = self.direction other ∧
    Frames.azimuthToSrc self other = self.azimuthTo other ∧
    Frames.elevationToSrc self other = self.elevationTo other ∧
    Frames.zenithDistanceToSrc self other = self.zenithDistanceTo other ∧
    Frames.azimuthSrc self other = self.azimuthTo other ∧
    Frames.elevationSrc self other = self.elevationTo other ∧
    Frames.zenithDistanceSrc self other = self.zenithDistanceTo other ∧
    Frames.vectorSrc self other = self.vectorTo other ∧
    Frames.distanceSrc self other = self.distanceTo other ∧
    Frames.directionSrc self other = self.direction other :=
  ⟨rfl, rfl, rfl, rfl, rfl, rfl, rfl, rfl, rfl, rfl, rfl, rfl⟩

theorem source_frame_acr (self : PosObj ℝ) :
    Frames.trs2acrSrc self = self.trs2acr ∧ Frames.acr2trsSrc self = self.acr2trs := ⟨rfl, rfl⟩

theorem source_delta_conversions (ref : PosObj ℝ) (d : V3 ℝ) (w : V6 ℝ) :
    Frames.deltaTrs2EnuSrc ref d = deltaTrs2Enu ref d ∧ Frames.deltaEnu2TrsSrc ref d = deltaEnu2Trs ref d ∧
    Frames.deltaTrs2EnuPosVelSrc ref w = deltaTrs2EnuPosVel ref w ∧
    Frames.deltaEnu2TrsPosVelSrc ref w = deltaEnu2TrsPosVel ref w ∧
    Frames.deltaTrs2AcrPosVelSrc ref w = deltaTrs2Acr ref w ∧ Frames.deltaAcr2TrsPosVelSrc ref w = deltaAcr2Trs ref w :=
  ⟨rfl, rfl, rfl, rfl, rfl, rfl⟩

/-- `vector` / `distance` / `direction` (and the `*_to` methods) of an observer given **in llh**: the code works in the
observer's own system, i.e. on (Δlat, Δlon, Δh) -/
theorem source_frame_vectors_llh (self other : PosObj ℝ) :
    Frames.vectorToLlhSrc self other = self.vectorToLlh other ∧
    Frames.distanceToLlhSrc self other = self.distanceToLlh other ∧
    Frames.directionToLlhSrc self other = self.directionLlh other ∧
    Frames.vectorLlhSrc self other = self.vectorToLlh other ∧
    Frames.distanceLlhSrc self other = self.distanceToLlh other ∧
    Frames.directionLlhSrc self other = self.directionLlh other :=
  ⟨rfl, rfl, rfl, rfl, rfl, rfl⟩

end SourceFrames

/-! ### arrays: every row in the frame of its own reference position -/
section Rows

/-- **row `i` of a converted array is the conversion of row `i` of the values in the frame of row `i` of the reference
positions** (whatever the other rows are: nearly equal reference positions do not share a frame), and the converted
array has the rows of the input -/
theorem rows_independent {β : Type} (f : PosObj ℝ → β → β) (refs : List (PosObj ℝ)) (ds : List β)
    (hl : refs.length = ds.length) :
    (rowsWith f refs ds).length = ds.length ∧
    ∀ i (hr : i < refs.length) (hd : i < ds.length), (rowsWith f refs ds)[i]? = some (f refs[i] ds[i]) := by
  refine ⟨by simp [rowsWith, hl], fun i hr hd => ?_⟩
  simp [rowsWith, List.getElem?_zipWith, List.getElem?_eq_getElem hr, List.getElem?_eq_getElem hd]

/-- **there and back is the identity on arrays**, `PositionDelta` `(n, 3)` and `PosVelDelta` `(n, 6)`, ENU, both
directions, every row with its own reference position -/
theorem rows_enu_roundtrip (refs : List (PosObj ℝ)) (ds : List (V3 ℝ)) (ws : List (V6 ℝ))
    (hd : refs.length = ds.length) (hw : refs.length = ws.length) :
    rowsEnu2Trs refs (rowsTrs2Enu refs ds) = ds ∧ rowsTrs2Enu refs (rowsEnu2Trs refs ds) = ds ∧
    rowsEnu2TrsPosVel refs (rowsTrs2EnuPosVel refs ws) = ws ∧ rowsTrs2EnuPosVel refs (rowsEnu2TrsPosVel refs ws) = ws := by
  have cs : ∀ a : ℝ, Real.cos a ^ 2 + Real.sin a ^ 2 = 1 := Real.cos_sq_add_sin_sq
  have back : ∀ (r : PosObj ℝ) (w : V6 ℝ), deltaTrs2EnuPosVel r (deltaEnu2TrsPosVel r w) = w := by
    intro r w
    obtain ⟨h1, _, _⟩ := enu2trs_rotation _ _ _ _ (cs r.lat) (cs r.lon)
    simp only [deltaTrs2EnuPosVel, deltaEnu2TrsPosVel, deltaEnu2TrsPosVelCS, deltaTrs2EnuPosVelCS, blockDiag_mulVec,
      trs2enu_eq_transpose]
    apply V6.ext' <;> exact mulVec_transpose_cancel _ h1 _
  refine ⟨?_, ?_, ?_, ?_⟩
  · exact rowsWith_cancel deltaTrs2Enu deltaEnu2Trs (fun _ => True)
      (fun r _ d => (delta_enu_roundtrip _ _ _ _ (cs r.lat) (cs r.lon) d).1) refs ds hd (fun _ _ => trivial)
  · exact rowsWith_cancel deltaEnu2Trs deltaTrs2Enu (fun _ => True)
      (fun r _ d => (delta_enu_roundtrip _ _ _ _ (cs r.lat) (cs r.lon) d).2) refs ds hd (fun _ _ => trivial)
  · exact rowsWith_cancel deltaTrs2EnuPosVel deltaEnu2TrsPosVel (fun _ => True)
      (fun r _ w => (delta_enu_posvel_roundtrip _ _ _ _ (cs r.lat) (cs r.lon) w).1) refs ws hw (fun _ _ => trivial)
  · exact rowsWith_cancel deltaEnu2TrsPosVel deltaTrs2EnuPosVel (fun _ => True) (fun r _ w => back r w) refs ws hw
      (fun _ _ => trivial)

/-- … and along/cross/radial, for orbit states with non-parallel `r`, `v` in every row -/
theorem rows_acr_roundtrip (refs : List (PosObj ℝ)) (ws : List (V6 ℝ)) (hw : refs.length = ws.length)
    (h : ∀ r ∈ refs, (V3.cross r.trs r.vel).norm2 ≠ 0) :
    rowsAcr2Trs refs (rowsTrs2Acr refs ws) = ws ∧ rowsTrs2Acr refs (rowsAcr2Trs refs ws) = ws := by
  have back : ∀ (r : PosObj ℝ), (V3.cross r.trs r.vel).norm2 ≠ 0 → ∀ w : V6 ℝ, deltaTrs2Acr r (deltaAcr2Trs r w) = w := by
    intro r hr w
    obtain ⟨⟨_, h2, _⟩, _, _, _, ht⟩ := acr_orthonormal_righthanded r.trs r.vel hr
    simp only [deltaTrs2Acr, deltaAcr2Trs, deltaAcr2TrsPosVel, deltaTrs2AcrPosVel, blockDiag_mulVec, ht]
    apply V6.ext' <;> exact mulVec_cancel_transpose _ h2 _
  refine ⟨?_, ?_⟩
  · exact rowsWith_cancel deltaTrs2Acr deltaAcr2Trs (fun r => (V3.cross r.trs r.vel).norm2 ≠ 0)
      (fun r hr w => (delta_acr_posvel_roundtrip r.trs r.vel hr w).1) refs ws hw h
  · exact rowsWith_cancel deltaAcr2Trs deltaTrs2Acr (fun r => (V3.cross r.trs r.vel).norm2 ≠ 0) back refs ws hw h

/-- **rows / slices / masks**: converting the selected rows (with the selected rows of the reference positions) gives
the selected rows of the converted array — `delta[idx].enu = delta.enu[idx]` for every conversion -/
theorem rows_selection_commutes {β : Type} (f : PosObj ℝ → β → β) (refs : List (PosObj ℝ)) (ds : List β)
    (hl : refs.length = ds.length) (idx : List Nat) :
    rowsWith f (takeRows refs idx) (takeRows ds idx) = takeRows (rowsWith f refs ds) idx :=
  (takeRows_rowsWith f refs ds hl idx).symm

example : rowsTrs2Enu [⟨⟨1, 0, 0⟩, ⟨0, 1, 0⟩, 0, 0, 0⟩] [(⟨1, 2, 3⟩ : V3 ℝ)] = [⟨2, 3, 1⟩] := by
  simp [rowsTrs2Enu, rowsWith, deltaTrs2Enu, deltaTrs2EnuCS, trs2enuCS, M3.mulVec, V3.dot]

/-- **the broadcasting the code accepts**: with as many reference positions as values the rows are paired; a single
reference position — given as `(k,)` or `(1, k)` — is the frame of every row; a single value row is converted in the
frame of every reference position; any other pair of lengths is refused -/
theorem broadcast_rows {β : Type} (f : PosObj ℝ → β → β) (refs : List (PosObj ℝ)) (ds : List β) :
    (refs.length = ds.length → rowsWithB f refs ds = some (rowsWith f refs ds)) ∧
    (∀ r, refs = [r] → rowsWithB f refs ds = some (ds.map (f r))) ∧
    (∀ d, ds = [d] → rowsWithB f refs ds = some (refs.map (fun r => f r d))) ∧
    (refs.length ≠ ds.length → refs.length ≠ 1 → ds.length ≠ 1 → rowsWithB f refs ds = none) := by
  refine ⟨?_, ?_, ?_, ?_⟩
  · intro h; simp [rowsWithB, broadcastRows, h]
  · rintro r rfl
    by_cases h : ds.length = 1
    · obtain ⟨d, rfl⟩ := List.length_eq_one_iff.1 h
      simp [rowsWithB, broadcastRows, rowsWith]
    · have h' : ¬ (1 = ds.length) := fun e => h e.symm
      simp [rowsWithB, broadcastRows, rowsWith, h', zipWith_replicate_l]
  · rintro d rfl
    by_cases h : refs.length = 1
    · obtain ⟨r, rfl⟩ := List.length_eq_one_iff.1 h
      simp [rowsWithB, broadcastRows, rowsWith]
    · simp only [rowsWithB, broadcastRows, List.length_singleton, h, if_false]
      cases refs with
      | nil => simp [rowsWith]
      | cons r rs =>
        cases rs with
        | nil => simp at h
        | cons r' rs' =>
          have := zipWith_replicate_r f d (r :: r' :: rs')
          simpa [rowsWith] using this
  · intro h h1 h2
    simp only [rowsWithB, broadcastRows, h, if_false]
    cases refs with
    | nil => cases ds with
      | nil => simp at h
      | cons d ds' => cases ds' with
        | nil => simp at h2
        | cons _ _ => rfl
    | cons r rs => cases rs with
      | nil => simp at h1
      | cons r' rs' => cases ds with
        | nil => rfl
        | cons d ds' => cases ds' with
          | nil => simp at h2
          | cons _ _ => rfl

/-- `rotation.enu2trs` / `trs2enu` take two scalars or two arrays of the same length, nothing else -/
theorem angle_shapes (m : ℝ → ℝ → M3 ℝ) (a b : ℝ) (as bs : List ℝ) :
    angleMatrices m (.scalar a) (.scalar b) = some [m a b] ∧
    (as.length = bs.length → angleMatrices m (.array as) (.array bs) = some (List.zipWith m as bs)) ∧
    (as.length ≠ bs.length → angleMatrices m (.array as) (.array bs) = none) ∧
    angleMatrices m (.scalar a) (.array bs) = none ∧ angleMatrices m (.array as) (.scalar b) = none := by
  refine ⟨rfl, fun h => by simp [angleMatrices, h], fun h => by simp [angleMatrices, h], rfl, rfl⟩


end Rows

/-! ### ranges of the reported angles -/
section Ranges

/-- **azimuth ∈ (−π, π], elevation ∈ [−π/2, π/2], zenith distance ∈ [0, π]** for every observer and every target
(whatever the vectors are — also for a target at the observer, where the code divides 0 by 0) -/
theorem angle_ranges (self other : PosObj ℝ) :
    (-Real.pi < self.azimuthTo other ∧ self.azimuthTo other ≤ Real.pi) ∧
    (-(Real.pi / 2) ≤ self.elevationTo other ∧ self.elevationTo other ≤ Real.pi / 2) ∧
    (0 ≤ self.zenithDistanceTo other ∧ self.zenithDistanceTo other ≤ Real.pi) := by
  have key : ∀ x : ℝ, 0 ≤ Real.pi / (1 + 1) - Real.arcsin x ∧ Real.pi / (1 + 1) - Real.arcsin x ≤ Real.pi := by
    intro x
    have h1 := Real.arcsin_le_pi_div_two x
    have h2 := Real.neg_pi_div_two_le_arcsin x
    have h3 : (1 + 1 : ℝ) = 2 := by norm_num
    rw [h3]; constructor <;> linarith
  refine ⟨⟨?_, ?_⟩, ⟨?_, ?_⟩, ?_, ?_⟩
  · simp only [PosObj.azimuthTo, azimuthCS, trig_atan2]; exact Complex.neg_pi_lt_arg _
  · simp only [PosObj.azimuthTo, azimuthCS, trig_atan2]; exact Complex.arg_le_pi _
  · simp only [PosObj.elevationTo, elevationCS, trig_asin]; exact Real.neg_pi_div_two_le_arcsin _
  · simp only [PosObj.elevationTo, elevationCS, trig_asin]; exact Real.arcsin_le_pi_div_two _
  · exact (key _).1
  · exact (key _).2

end Ranges


/-! ### Up is the surface normal (composition with the C05 model of `trs2llh`) -/
section SurfaceNormal

/-- **Up is the normal of the ellipsoid surface at the observer** (the clause "tied to the geodetic normal", composed
with the C05 model of `trs2llh`): for an observer `v` *on the surface* of its ellipsoid `x²/a² + y²/a² + z²/b² = 1`
(any `a > 0`, `f < 1`, off the pole branch), the `enu_up` of the frame taken at the geodetic coordinates
`trs2llh E v` the code computes is a unit vector parallel to the gradient `(x/a², y/a², z/b²)` of the ellipsoid
equation at `v`, pointing outwards — i.e. exactly the surface normal there; `enu_east` is tangent to the surface
and horizontal, `enu_north` tangent. -/
theorem up_is_surface_normal (E : Ellipsoid ℝ) (ha : 0 < E.a) (hf1 : E.f < 1) (v vel : V3 ℝ)
    (hon : (v.x * v.x + v.y * v.y) / (E.a * E.a) + (v.z * v.z) / (E.b * E.b) = 1)
    (hoff : ¬ v.x * v.x + v.y * v.y ≤ E.a * E.a * 1e-32) :
    let o : PosObj ℝ := ⟨v, vel, (trs2llh E v).lat, (trs2llh E v).lon, (trs2llh E v).h⟩
    let grad : V3 ℝ := ⟨v.x / E.a ^ 2, v.y / E.a ^ 2, v.z / E.b ^ 2⟩
    V3.cross grad o.up = V3.zero ∧ 0 < V3.dot grad o.up ∧ o.up.norm2 = 1 ∧
    V3.dot grad o.east = 0 ∧ V3.dot grad o.north = 0 ∧ o.east.z = 0 := by
  intro o grad
  have cs : ∀ a : ℝ, Real.cos a ^ 2 + Real.sin a ^ 2 = 1 := Real.cos_sq_add_sin_sq
  set g := trs2llh E v with hg
  have hv : llh2trsCS E (Real.cos g.lat) (Real.sin g.lat) (Real.cos g.lon) (Real.sin g.lon) 0 = v := by
    have h1 := Midgard.Props.C05.surface_roundtrip E ha hf1 v hon hoff
    have h0 := surface_height_zero E ha hf1 v hon hoff
    rw [← hg] at h1 h0
    simpa only [llh2trs, trig_cos, trig_sin, h0] using h1
  have hup : o.up = normalCS (Real.cos g.lat) (Real.sin g.lat) (Real.cos g.lon) (Real.sin g.lon) :=
    up_is_normal _ _ _ _
  have hpar := Midgard.Props.C05.normal_parallel_gradient E ha.ne' (ne_of_lt hf1) (Real.cos g.lat) (Real.sin g.lat)
    (Real.cos g.lon) (Real.sin g.lon)
  have hout := Midgard.Props.C05.normal_outward E ha (ne_of_lt hf1) (Real.cos g.lat) (Real.sin g.lat)
    (Real.cos g.lon) (Real.sin g.lon) (cs _) (cs _)
  simp only [hv] at hpar hout
  have hunit := Midgard.Props.C05.normal_unit (Real.cos g.lat) (Real.sin g.lat) (Real.cos g.lon) (Real.sin g.lon) (cs _) (cs _)
  have hperp := east_perp_axis_up (Real.cos g.lat) (Real.sin g.lat) (Real.cos g.lon) (Real.sin g.lon)
  have hnorth : V3.dot o.north o.up = 0 := by
    simp only [o, PosObj.north, PosObj.up, enuNorthCS, enuUpCS, enu2trsCS, M3.col2, M3.col3, V3.dot, trig_cos, trig_sin]
    linear_combination (-(Real.cos g.lat * Real.sin g.lat)) * cs g.lon
  refine ⟨by rw [hup]; exact hpar, by rw [hup]; exact hout, by rw [hup]; exact hunit, ?_, ?_, ?_⟩
  · exact dot_zero_of_parallel grad o.up o.east (by rw [hup]; exact hpar) (by rw [hup]; exact hunit) hperp.2
  · exact dot_zero_of_parallel grad o.up o.north (by rw [hup]; exact hpar) (by rw [hup]; exact hunit) hnorth
  · simp only [o, PosObj.east, enuEastCS, enu2trsCS, M3.col1]


example : ∃ (E : Ellipsoid ℝ) (v : V3 ℝ), 0 < E.a ∧ E.f < 1 ∧
    (v.x * v.x + v.y * v.y) / (E.a * E.a) + (v.z * v.z) / (E.b * E.b) = 1 ∧ ¬ v.x * v.x + v.y * v.y ≤ E.a * E.a * 1e-32 :=
  ⟨⟨1, none⟩, ⟨1, 0, 0⟩, by norm_num, by simp [Ellipsoid.f], by simp [Ellipsoid.b, Ellipsoid.f], by norm_num⟩

end SurfaceNormal

end Midgard.Props.C06

#print axioms Midgard.Props.C06.R1_rotation
#print axioms Midgard.Props.C06.R2_rotation
#print axioms Midgard.Props.C06.R3_rotation
#print axioms Midgard.Props.C06.R_neg_eq_transpose
#print axioms Midgard.Props.C06.R_mul
#print axioms Midgard.Props.C06.dR_eq_quarter_turn
#print axioms Midgard.Props.C06.dot_preserved
#print axioms Midgard.Props.C06.norm_preserved
#print axioms Midgard.Props.C06.mulVec_transpose_cancel
#print axioms Midgard.Props.C06.transpose_transpose
#print axioms Midgard.Props.C06.mulVec_cancel_transpose
#print axioms Midgard.Props.C06.enu2trs_rotation
#print axioms Midgard.Props.C06.trs2enu_eq_transpose
#print axioms Midgard.Props.C06.trs2enu_rotation
#print axioms Midgard.Props.C06.enu2trs_eq_R3_R1
#print axioms Midgard.Props.C06.delta_enu_roundtrip
#print axioms Midgard.Props.C06.delta_enu_dot_preserved
#print axioms Midgard.Props.C06.up_is_normal
#print axioms Midgard.Props.C06.east_perp_axis_up
#print axioms Midgard.Props.C06.north_completes_triad
#print axioms Midgard.Props.C06.enu_components_are_projections
#print axioms Midgard.Props.C06.blockDiag_mulVec
#print axioms Midgard.Props.C06.block6_orth
#print axioms Midgard.Props.C06.delta_enu_posvel_roundtrip
#print axioms Midgard.Props.C06.triad_rotation
#print axioms Midgard.Props.C06.cos_sq_add_sin_sq_real
#print axioms Midgard.Props.C06.R_rotation_real
#print axioms Midgard.Props.C06.R_neg_real
#print axioms Midgard.Props.C06.R_add_real
#print axioms Midgard.Props.C06.dR_hasDerivAt
#print axioms Midgard.Props.C06.enu_rotation_real
#print axioms Midgard.Props.C06.enu2trs_eq_R3_R1_real
#print axioms Midgard.Props.C06.acr_orthonormal_righthanded
#print axioms Midgard.Props.C06.delta_acr_posvel_roundtrip
#print axioms Midgard.Props.C06.angles_of_unit_vector
#print axioms Midgard.Props.C06.az_el_are_angles_of_triad
#print axioms Midgard.Props.C06.registered_conversions
#print axioms Midgard.Props.C06.source_axis_rotations
#print axioms Midgard.Props.C06.source_enu_matrices
#print axioms Midgard.Props.C06.source_frame_triad
#print axioms Midgard.Props.C06.source_frame_angles
#print axioms Midgard.Props.C06.source_frame_acr
#print axioms Midgard.Props.C06.source_delta_conversions
#print axioms Midgard.Props.C06.rows_independent
#print axioms Midgard.Props.C06.rows_enu_roundtrip
#print axioms Midgard.Props.C06.rows_acr_roundtrip
#print axioms Midgard.Props.C06.rows_selection_commutes
#print axioms Midgard.Props.C06.angle_ranges
#print axioms Midgard.Props.C06.up_is_surface_normal
#print axioms Midgard.Props.C06.source_frame_vectors_llh
#print axioms Midgard.Props.C06.broadcast_rows
#print axioms Midgard.Props.C06.angle_shapes
