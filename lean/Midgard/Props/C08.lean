/-
C08 — Caching is invisible: results depend on current values, not on call history.

Property theorems about `Model/CacheMachine.lean` (the process-wide function caches) with the
mechanism flags regenerated from the source (`Generated/CacheMech.lean`).
-/
import Midgard.Proofs.CacheMachine
import Midgard.Proofs.ObjCache
import Midgard.Proofs.PosCacheProofs
import Midgard.Generated.CacheMech

namespace Midgard.Props.C08
open Midgard.CacheMachine

/-! ### The refinement: for every operation sequence the cached machine is indistinguishable
from the machine without any cache -/

theorem refines_from {fl : Flags} (hg : fl.good) (ops : List Op) :
    ∀ {s : State} {r : RefState}, Sim fl s r →
      (run fl s ops).2.map Out.visible = (refRun fl.copyOut r ops).2.map Out.visible := by
  induction ops with
  | nil => intro s r _; rfl
  | cons op ops ih =>
    intro s r hs
    obtain ⟨h1, h2⟩ := sim_step hg hs op
    simp only [run, refRun, List.map_cons]
    rw [h2, ih h1]

/-- **Caching is invisible.**  With a mechanism that keys on shape and on everything else the
result depends on, never freezes its argument, and hands out copies (or read-only results), every
sequence of creating arrays, calling cached functions, writing into returned results and
changing argument arrays — of any length, with any cache capacity (so also across evictions) —
produces exactly the outputs of the cache-free reference. -/
theorem refines {fl : Flags} (hg : fl.good) (ops : List Op) :
    (run fl {} ops).2.map Out.visible = (refRun fl.copyOut {} ops).2.map Out.visible :=
  refines_from hg ops (sim_init fl)

/-- in the reference every call returns the term of the *current* argument, the argument stays
writable, and no mutation is ever refused: so the same holds for the cached machine -/
theorem ref_call_current (w : Bool) (r : RefState) (fn a : Nat) (arr : Arr) (h : r.arrs[a]? = some arr) :
    (refStep w r (.call fn a)).2 = .result (.app fn arr.val arr.shape arr.tag) arr.writable false := by
  simp [refStep, h]

theorem ref_never_freezes (w : Bool) (r : RefState) (op : Op) (hw : ∀ a ∈ r.arrs, a.writable = true) :
    ∀ a ∈ (refStep w r op).1.arrs, a.writable = true := by
  cases op with
  | create v sh tag =>
    intro a ha; simp only [refStep] at ha
    rcases List.mem_append.mp ha with ha | ha
    · exact hw a ha
    · simp at ha; subst ha; rfl
  | call fn a => simp only [refStep]; split <;> exact hw
  | write k j => simp only [refStep]; split <;> exact hw
  | mutate a v =>
    simp only [refStep]
    split
    · exact hw
    · rename_i arr harr
      intro x hx
      rcases List.mem_or_eq_of_mem_set hx with hx | hx
      · exact hw x hx
      · subst hx; simpa using hw arr (List.mem_of_getElem? harr)

/-! ### The source has that mechanism (regenerated on every run) -/

theorem mech_trs2llh : Generated.CacheMech.trs2llh.good := by decide
theorem mech_llh2trs : Generated.CacheMech.llh2trs.good := by decide
theorem mech_enu2trs : Generated.CacheMech.enu2trs.good := by decide
theorem mech_trs2enu : Generated.CacheMech.trs2enu.good := by decide
theorem mech_toScale : Generated.CacheMech.toScale.good := by decide

/-- the arrays handed out by the cached formats / properties of time objects (shared by all equal time objects) are made
read-only in place, member by member for tuple results (`gps_ws`) -/
theorem mech_time_results_frozen : Generated.CacheMech.timeResultsFrozenInPlace = true := by decide

/-- the process-wide caches under midgard/math and midgard/data are exactly the known ones: a new
`lru_cache` is a new obligation -/
theorem caches_known : Generated.CacheMech.cachedCallables =
    ["_time.TimeArray._jd_delta", "_time.TimeArray.day", "_time.TimeArray.doy", "_time.TimeArray.hour",
     "_time.TimeArray.jd_frac", "_time.TimeArray.jd_int", "_time.TimeArray.minute", "_time.TimeArray.mjd_frac", "_time.TimeArray.mjd_int",
     "_time.TimeArray.month", "_time.TimeArray.sec_of_day", "_time.TimeArray.second", "_time.TimeArray.year",
     "_time.TimeBase._to_scale", "_time.TimeBase.plot_fields", "_time.TimeBase.to_format",
     "_time.TimeDateTime._dt2jd", "_time.TimeDateTime._jd2dt", "_time.TimeDecimalYear._dy2jd",
     "_time.TimeDecimalYear._jd2dy", "_time.TimeDecimalYear._year2days", "_time.TimeDeltaArray.plot_fields",
     "_time.TimeStr._dt2str", "_time.TimeStr._str2dt", "_time.TimeYyDddSssss._jd2yds", "_time.TimeYyDddSssss._yds2jd",
     "_time.TimeYyyyDddSssss._jd2yds", "_time.TimeYyyyDddSssss._yds2jd", "rotation.enu2trs", "rotation.trs2enu",
     "transformation._llh2trs", "transformation._trs2llh"] := by decide

/-- of the self-keyed caches on the time classes, only these read the receiver's format without
keying it: the two `plot_fields` (lists of field names, no time values).  `min` / `max` / `mean` were among them
(their result carries the receiver's format: `t_jd.max` followed by an equal-epoch `t_datetime.max` returned a
jd-format time) and are no longer cached (843782a); `to_scale` must not be among them. -/
theorem fmt_dependent_known : Generated.CacheMech.fmtDependentSelfKeyed =
    ["TimeBase.plot_fields", "TimeDeltaArray.plot_fields"] := by
  decide

/-! ### Each mechanism flag is necessary: the defects that were repaired, as model witnesses -/

def goodCopy : Flags := ⟨true, true, true, false, false, 128⟩

/-- key without shape: a (3,) and a (1,3) array of equal bytes share an entry — the second call
returns the result computed for the first shape -/
theorem witness_key_without_shape :
    (run { goodCopy with keyShape := false } {} [.create 7 .s3 0, .create 7 .s13 0, .call 0 0, .call 0 1]).2.map Out.visible
      ≠ (refRun true {} [.create 7 .s3 0, .create 7 .s13 0, .call 0 0, .call 0 1]).2.map Out.visible := by
  decide +kernel

/-- key without tag (`to_scale` ignoring the receiver's format) -/
theorem witness_key_without_tag :
    (run { goodCopy with keyTag := false } {} [.create 7 .s3 1, .create 7 .s3 2, .call 0 0, .call 0 1]).2.map Out.visible
      ≠ (refRun true {} [.create 7 .s3 1, .create 7 .s3 2, .call 0 0, .call 0 1]).2.map Out.visible := by
  decide +kernel

/-- results handed out without copy and not frozen: writing into one corrupts the next call -/
theorem witness_result_aliased :
    (run { goodCopy with copyOut := false } {} [.create 7 .s3 0, .call 0 0, .write 0 99, .call 0 0]).2.map Out.visible
      ≠ (refRun false {} [.create 7 .s3 0, .call 0 0, .write 0 99, .call 0 0]).2.map Out.visible := by
  decide +kernel

/-- the caller's array made read-only by the call -/
theorem witness_argument_frozen :
    (run { goodCopy with freezeArg := true } {} [.create 7 .s3 0, .call 0 0, .mutate 0 8]).2.map Out.visible
      ≠ (refRun true {} [.create 7 .s3 0, .call 0 0, .mutate 0 8]).2.map Out.visible := by
  decide +kernel

/-! ### Non-vacuity: a history with hits, eviction (capacity 2), writes and mutations -/

example : (run ⟨true, true, true, false, false, 2⟩ {}
      [.create 1 .s3 0, .create 2 .s3 0, .create 3 .s3 0, .call 0 0, .call 0 0, .write 1 5, .call 0 1, .call 0 2,
       .call 0 0, .mutate 0 9, .call 0 0]).2
    = [.created, .created, .created, .result (.app 0 1 .s3 0) true false, .result (.app 0 1 .s3 0) true true, .wrote,
       .result (.app 0 2 .s3 0) true false, .result (.app 0 3 .s3 0) true false,
       .result (.app 0 1 .s3 0) true false, .mutated, .result (.app 0 9 .s3 0) true false] := by decide +kernel

end Midgard.Props.C08

/-! ## Second machine: the per-object caches of position arrays

`Model/ObjCache.lean`: memory blocks, row views sharing memory, attached `other`, cached
conversions / derived quantities, `_dependent_objs`, `__setitem__` / `__setattr__` invalidation.
-/

namespace Midgard.Props.C08.Obj
open Midgard.ObjCache

/-- the mechanism the repaired `_position.py` has: transitive clearing, row views linked to their parent -/
def good : Flags := ⟨true, true⟩

/-- **One step**: with the repaired mechanism every operation keeps the invariant (cached values
are snapshots of the current contents; objects sharing memory, and objects attached as `other`,
are connected through the dependency lists) and returns what recomputation from the current
contents returns. -/
theorem step_current {s : State} (hs : Inv s) (op : Op) :
    (step good s op).2 = (refStep s op).2 ∧ Inv (step good s op).1 := by
  cases op with
  | create vals => exact create_inv hs vals
  | view p rows => exact view_inv hs p rows
  | take p rows => exact take_inv hs p rows
  | setOther p q => exact setOther_inv hs p q
  | setItem p k v => exact setItem_inv hs p k v
  | readConv p => exact readConv_current hs p
  | readDer p => exact readDer_current hs p

/-- what recomputation from the current contents gives at every step of a history -/
def recomputed (s : State) : List Op → List Out
  | [] => []
  | op :: ops => (refStep s op).2 :: recomputed (step good s op).1 ops

/-- **Caching is invisible for every history**: after any sequence of creating arrays, taking row
views and copies, attaching / replacing `other`, item assignment (to an array, to a view of it, to
its `other` or a view of that) and reads, every read returns exactly the value recomputed from
the current contents. -/
theorem caching_invisible {s : State} (hs : Inv s) (ops : List Op) : (run good s ops).2 = recomputed s ops := by
  induction ops generalizing s with
  | nil => rfl
  | cons op ops ih =>
    obtain ⟨h1, h2⟩ := step_current hs op
    simp only [run, recomputed]
    rw [h1, ih h2]

theorem caching_invisible_from_start (ops : List Op) : (run good {} ops).2 = recomputed {} ops :=
  caching_invisible inv_empty ops

/-- the invariant holds in every reachable state -/
theorem inv_reachable (ops : List Op) : Inv (run good {} ops).1 := by
  have : ∀ (s : State), Inv s → Inv (run good s ops).1 := by
    induction ops with
    | nil => intro s hs; exact hs
    | cons op ops ih => intro s hs; simp only [run]; exact ih _ (step_current hs op).2
  exact this {} inv_empty

/-- the source has that mechanism (regenerated on every run) -/
theorem mech_objcache : Generated.CacheMech.objTransitive = true ∧ Generated.CacheMech.objViewsLinked = true ∧
    Generated.CacheMech.objRefPosRegistered = true ∧ Generated.CacheMech.objFinalizeLinked = true ∧
    Generated.CacheMech.objSetattrPropagates = true := by decide

/-! #### The tables of `_position.py` (regenerated from the `ast` on every run): who writes what -/

open Midgard.ObjCache.Table in
/-- **Every writer clears**: each method of `_position.py` that changes contents or attributes in place (`__setitem__`,
`__setattr__`, `__delitem__`, `__delattr__`, property setters — whatever the source has) drops the cache(s) as its first
statement.  A setter that does not is a failed obligation; its name is the row of `Generated.CacheMech.mutators` with `false`. -/
theorem every_writer_clears : ∀ m ∈ Generated.CacheMech.mutators, m.clearsFirst = true := by decide

open Midgard.ObjCache.Table in
/-- the two entry points of the object machine (`setItem`, `setOther`) are overridden in `PosBase` (not vacuous: without
the overrides NumPy's own `__setitem__` would change the contents and nothing would be cleared) -/
theorem entry_points_present :
    (⟨"PosBase", "__setitem__", true⟩ : Mutator) ∈ Generated.CacheMech.mutators ∧
    (⟨"PosBase", "__setattr__", true⟩ : Mutator) ∈ Generated.CacheMech.mutators := by decide

open Midgard.ObjCache.Table in
/-- the other in-place routes that can be intercepted are intercepted (5ae18f6): the ndarray methods `fill`, `sort`, `partition`,
`put`, `setfield`, `byteswap` are overridden on `PosBase` and `__array_wrap__` (called by NumPy on the `out=` array of a ufunc)
drops the caches when the array wrapped is the array itself, `__array_function__` (4d1546d) does so for the array a NumPy function wrote
into (`np.copyto`, `np.place`, `np.putmask`, `out=`) — each of them clears (`every_writer_clears`: for the two hooks, the written array) (`every_writer_clears`); removing one of
the overrides is a failed obligation here -/
theorem inplace_routes_intercepted :
    ∀ m ∈ ["__array_wrap__", "__array_function__", "fill", "sort", "partition", "put", "setfield", "byteswap"],
      (⟨"PosBase", m, true⟩ : Mutator) ∈ Generated.CacheMech.mutators := by decide

open Midgard.ObjCache.Table in
/-- **Cache entries are keyed by what they depend on**: every store into a per-object `_cache` happens in a method whose only
parameter besides `self` is (at most) the name of the target system — no entry is computed from another object handed in
as an argument (such an entry could not be invalidated: the argument does not know the object as a dependent). -/
theorem cache_entries_self_keyed : ∀ w ∈ Generated.CacheMech.cacheWrites, w.selfKeyed = true := by decide

open Midgard.ObjCache.Table in
/-- **No attribute is stored behind the back of `__setattr__`** (which clears the cache and registers the object as a
dependent of an attached `other` / `ref_pos`), except by `__setattr__` itself and by `clear_cache` resetting `_cache`. -/
theorem only_known_bypasses :
    Generated.CacheMech.attrWrites.filter AttrWrite.bypasses =
      [⟨"PosBase", "__setattr__", "key", "bypass"⟩, ⟨"PosBase", "clear_cache", "'_cache'", "bypass"⟩] := by decide

/-- replacing or removing an attachment drops, in the model as in the code (9efe2d6), the caches of everything that depends on
the object (here: the object itself, whatever it had cached) -/
theorem setOther_replacing_clears (s : State) (p : Nat) (q : Option Nat) (po : Obj) (t : Nat) (hp : s.objs[p]? = some po)
    (ht : po.other = some t) :
    (step good s (.setOther p q)).1 =
      (setOtherCore { s with objs := clearCaches s.objs (clearSet good s p) } p q).1 := by
  simp [step, hp, ht]

/-- the model's `setItem` / `setOther` do what `every_writer_clears` reads off the source: the caches of the changed object
are dropped by the step itself (whatever was cached before) -/
theorem setItem_clears_own (s : State) (p k : Nat) (v : Val) (po : Obj) (r : Nat) (hp : s.objs[p]? = some po)
    (hk : po.idx[k]? = some r) :
    ((step good s (.setItem p k v)).1.objs[p]?).map (fun o => (o.conv, o.der)) = some (none, none) := by
  have hlt : p < s.objs.length := (List.getElem?_eq_some_iff.mp hp).1
  have hmem : p ∈ clearSet good s p := (clearSet_closed s p hlt).1
  simp [step, hp, hk, clearCaches, hmem]

/-- without transitive clearing (the code before 37f48d7): writing through a view of a view leaves
the grandparent's cached conversion stale -/
theorem witness_not_transitive :
    (run ⟨false, true⟩ {} [.create [1, 2, 3, 4], .readConv 0, .view 0 [0, 1], .view 1 [0], .setItem 2 0 77, .readConv 0]).2
      ≠ recomputed {} [.create [1, 2, 3, 4], .readConv 0, .view 0 [0, 1], .view 1 [0], .setItem 2 0 77, .readConv 0] := by
  decide +kernel

/-- without linking row views to their parent: `s = p[0:2]; s[0] = x` leaves `p.llh` stale -/
theorem witness_views_unlinked :
    (run ⟨true, false⟩ {} [.create [1, 2, 3, 4], .readConv 0, .view 0 [0, 1], .setItem 1 0 77, .readConv 0]).2
      ≠ recomputed {} [.create [1, 2, 3, 4], .readConv 0, .view 0 [0, 1], .setItem 1 0 77, .readConv 0] := by
  decide +kernel

/-- non-vacuity: a history with `other`, views of both, writes through views and re-attachment -/
example : (run good {} [.create [1, 2, 3, 4], .create [9, 9, 9, 9], .setOther 0 (some 1), .readConv 0, .readDer 0,
      .view 0 [0, 1], .readDer 3, .setItem 2 0 5, .readDer 3, .readDer 0, .setItem 3 1 8, .readConv 0, .setOther 0 none,
      .readDer 0]).2
    = [.done, .done, .done, .conv [1, 2, 3, 4], .der [1, 2, 3, 4] [9, 9, 9, 9], .done, .der [1, 2] [9, 9], .done,
       .der [1, 2] [5, 9], .der [1, 2, 3, 4] [5, 9, 9, 9], .done, .conv [1, 8, 3, 4], .done, .bad] := by decide +kernel

/-- **Attachment chains of any depth** (the other of an other; the `ref_pos` of a delta and its own `other`): taking rows
of an object takes the same rows of every object along its chain; the invariant survives whatever the depth.
(`caching_invisible` above is stated for all histories of the machine whose `view` does this.) -/
theorem chain_view_keeps_invariant {s : State} (hs : Inv s) (rows : List Nat) (fuel p : Nat) (objs' : List Obj) (n : Nat)
    (h : pushChain good rows fuel s.objs p = some (objs', n)) : Inv { mems := s.mems, objs := objs' } ∧ n < objs'.length :=
  let r := pushChain_inv rows fuel s hs p objs' n h
  ⟨r.1, r.2.2⟩

/-- non-vacuity, depth 3 (a → b → c): one `view` makes three new objects (3: rows of c, 4: rows of b, 5: rows of a); a write
through the rows of c shows in what b, the rows of b and (nothing cached stale) the rows of a return -/
example : (run good {} [.create [1, 2, 3], .create [4, 5, 6], .create [7, 8, 9], .setOther 0 (some 1), .setOther 1 (some 2),
      .readDer 0, .readDer 1, .view 0 [0, 1], .readDer 5, .readDer 4, .setItem 3 0 77, .readDer 4, .readDer 1, .readDer 5,
      .setItem 4 1 55, .readDer 5, .readDer 0, .readConv 1]).2
    = [.done, .done, .done, .done, .done, .der [1, 2, 3] [4, 5, 6], .der [4, 5, 6] [7, 8, 9], .done, .der [1, 2] [4, 5],
       .der [4, 5] [7, 8], .done, .der [4, 5] [77, 8], .der [4, 5, 6] [77, 8, 9], .der [1, 2] [4, 5], .done,
       .der [1, 2] [4, 55], .der [1, 2, 3] [4, 55, 6], .conv [4, 55, 6]] := by decide +kernel

/-- a cyclic attachment has no finite chain: `view` is refused (the real `p[a:b]` ends in `RecursionError`), nothing changes -/
example : (run good {} [.create [1, 2], .create [3, 4], .setOther 0 (some 1), .setOther 1 (some 0), .view 0 [0], .readDer 0]).2
    = [.done, .done, .done, .done, .bad, .der [1, 2] [3, 4]] := by decide +kernel

end Midgard.Props.C08.Obj


/-! ## PosVel / Kepler-element objects: the `to_system` cache

The store of `Model/PosCache.lean` (property C07, validated against the real `PosVel(...).kepler / .trs` objects by
`./check C07`): objects with a system (`trs` | `kepler`), memory blocks, row views (`_share_memory_with` and the root
linking of `_link_shared_memory`), `_cache[<other system>]`, `convert_to` registering the source as a dependent of the
array it hands out, `__setitem__` with `_clear_dependent_caches`.  Its invariant `WF` holds in every history
(`wf_run`); here the C08 statement is drawn from it: what any history shows is what recomputation from the current
contents shows. -/

namespace Midgard.Props.C08.PosVel
open Midgard.Geo.PosCache

variable {A : Type} [Arr A]

/-- what a history shows: the values of the object every operation hands out (`None` for a write) -/
def observed (st : Store A) : List (Op A) → List (Option A)
  | [] => []
  | op :: ops => (step st op).2.map (contents (step st op).1) :: observed (step st op).1 ops

/-- the same read off the *current contents* only, without looking at any `_cache` -/
def recomputed (st : Store A) : List (Op A) → List (Option A)
  | [] => []
  | op :: ops =>
    (match op with
      | .new _ a => some a
      | .toSys o s => if o < st.n then some (if s = (st.obj o).sys then contents st o else Arr.conv s (contents st o)) else none
      | .view o k => if o < st.n then some (Arr.get k (contents st o)) else none
      | .take o k => if o < st.n then some (Arr.get k (contents st o)) else none
      | .set _ _ _ => none) :: recomputed (step st op).1 ops

theorem posvel_caching_invisible_from {st : Store A} (wf : WF st) (ops : List (Op A)) :
    observed st ops = recomputed st ops := by
  induction ops generalizing st with
  | nil => rfl
  | cons op ops ih =>
    simp only [observed, recomputed]
    rw [ih (wf_step wf op)]
    congr 1
    cases op with
    | new s a => simp [step, alloc_contents_new]
    | toSys o s =>
      by_cases ho : o < st.n
      · simp only [step, ho, if_true, Option.map_some]
        rw [(toSystem_spec wf ho s).1]
      · simp [step, ho]
    | view o k =>
      by_cases ho : o < st.n
      · simp only [step, ho, if_true, Option.map_some]
        rw [view_contents_new]
      · simp [step, ho]
    | take o k =>
      by_cases ho : o < st.n
      · simp [step, ho, take, alloc_contents_new]
      · simp [step, ho]
    | set o k v =>
      by_cases ho : o < st.n <;> simp [step, ho]

theorem posvel_caching_invisible (a : A) (ops : List (Op A)) : observed (empty a) ops = recomputed (empty a) ops :=
  posvel_caching_invisible_from (wf_empty a) ops


/-- non-vacuity (symbolic values): `orbit = PosVel(L0, 'trs'); k = orbit.kepler; r = orbit[a]; r[b] = L1` (a write through
a row view); `orbit.kepler` is then `trs2kepler` of the contents after the write, not the cached `k` -/
example : (observed (empty (Term.lit 9)) [Op.new .trs (.lit 0), .toSys 0 .kepler, .view 0 "a", .set 2 "b" (.lit 1), .toSys 0 .kepler]).map
      (Option.map Term.render)
    = [some "L0", some "C(k,L0)", some "G(a,L0)", none, some "C(k,P(a,P(b,L1,G(a,L0)),L0))"] := by decide +kernel

end Midgard.Props.C08.PosVel


#print axioms Midgard.Props.C08.refines_from
#print axioms Midgard.Props.C08.refines
#print axioms Midgard.Props.C08.ref_call_current
#print axioms Midgard.Props.C08.ref_never_freezes
#print axioms Midgard.Props.C08.mech_trs2llh
#print axioms Midgard.Props.C08.mech_llh2trs
#print axioms Midgard.Props.C08.mech_enu2trs
#print axioms Midgard.Props.C08.mech_trs2enu
#print axioms Midgard.Props.C08.mech_toScale
#print axioms Midgard.Props.C08.caches_known
#print axioms Midgard.Props.C08.fmt_dependent_known
#print axioms Midgard.Props.C08.witness_key_without_shape
#print axioms Midgard.Props.C08.witness_key_without_tag
#print axioms Midgard.Props.C08.witness_result_aliased
#print axioms Midgard.Props.C08.witness_argument_frozen
#print axioms Midgard.Props.C08.Obj.step_current
#print axioms Midgard.Props.C08.Obj.caching_invisible
#print axioms Midgard.Props.C08.Obj.caching_invisible_from_start
#print axioms Midgard.Props.C08.Obj.inv_reachable
#print axioms Midgard.Props.C08.Obj.mech_objcache
#print axioms Midgard.Props.C08.Obj.witness_not_transitive
#print axioms Midgard.Props.C08.Obj.witness_views_unlinked
#print axioms Midgard.Props.C08.Obj.every_writer_clears
#print axioms Midgard.Props.C08.Obj.entry_points_present
#print axioms Midgard.Props.C08.Obj.cache_entries_self_keyed
#print axioms Midgard.Props.C08.Obj.only_known_bypasses
#print axioms Midgard.Props.C08.Obj.setItem_clears_own
#print axioms Midgard.Props.C08.Obj.chain_view_keeps_invariant
#print axioms Midgard.Props.C08.PosVel.posvel_caching_invisible_from
#print axioms Midgard.Props.C08.PosVel.posvel_caching_invisible
#print axioms Midgard.Props.C08.mech_time_results_frozen
#print axioms Midgard.Props.C08.Obj.setOther_replacing_clears
#print axioms Midgard.Props.C08.Obj.inplace_routes_intercepted
