/-
C18 — Site-information history lookup returns the entry valid at the requested date.

Property theorems about the model in `Model/SiteInfo.lean` (Mathlib-free).  `Within k d` is the
property's "the validity interval [installed, removed) contains the date", with an end equal to
`datetime.max` read as plus infinity.
-/
import Midgard.Model.SiteInfo
import Midgard.Generated.SiteInfoTables

namespace Midgard.Props.C18
open Midgard.SiteInfo

/-- the date lies in the validity interval `[from, to)`; `to = datetime.max` is the open end -/
def Within (k : Interval) (d : Date) : Prop := k.1 ≤ d ∧ (d < k.2 ∨ k.2 = dmax)

theorem contains_iff (k : Interval) (d : Date) : contains k d = true ↔ Within k d := by
  simp [contains, Within]

/-! ### The interval search `SiteInfoHistoryBase.get(date)` -/

/-- what is returned is an entry of the history whose interval contains the date -/
theorem get_sound {ε} (h : History ε) (d : Date) (e : ε) :
    histGet h d = some e → ∃ k, (k, e) ∈ h ∧ Within k d := by
  induction h with
  | nil => simp [histGet]
  | cons p t ih =>
    obtain ⟨k, v⟩ := p
    simp only [histGet]
    by_cases hc : contains k d = true
    · simp only [hc, if_true, Option.some.injEq]
      intro hv; subst hv
      exact ⟨k, by simp, (contains_iff k d).1 hc⟩
    · simp only [hc]
      intro hv
      obtain ⟨k', hm, hw⟩ := ih hv
      exact ⟨k', by simp [hm], hw⟩

/-- if some interval contains the date, something is returned -/
theorem get_complete {ε} (h : History ε) (d : Date) :
    (∃ k e, (k, e) ∈ h ∧ Within k d) → (histGet h d).isSome = true := by
  induction h with
  | nil => simp
  | cons p t ih =>
    obtain ⟨k, v⟩ := p
    intro ⟨k', e', hm, hw⟩
    simp only [histGet]
    by_cases hc : contains k d = true
    · simp [hc]
    · simp only [hc]
      rcases List.mem_cons.1 hm with heq | hm'
      · cases heq; exact absurd ((contains_iff _ _).2 hw) hc
      · exact ih ⟨k', e', hm', hw⟩

/-- nothing is returned exactly when the date lies in no interval (a gap, before the first, after the last) -/
theorem get_none_iff {ε} (h : History ε) (d : Date) :
    histGet h d = none ↔ ∀ k e, (k, e) ∈ h → ¬ Within k d := by
  constructor
  · intro hn k e hm hw
    have := get_complete h d ⟨k, e, hm, hw⟩
    simp [hn] at this
  · intro hall
    cases hg : histGet h d with
    | none => rfl
    | some e =>
      obtain ⟨k, hm, hw⟩ := get_sound h d e hg
      exact absurd hw (hall k e hm)

/-- two intervals share no date -/
def Apart (a b : Interval) : Prop := ∀ d, ¬ (Within a d ∧ Within b d)

/-- with pairwise disjoint intervals the entry whose interval contains the date is *the* answer -/
theorem get_unique {ε} (h : History ε) (d : Date) (k : Interval) (e : ε)
    (hdis : h.Pairwise (fun a b => Apart a.1 b.1)) (hm : (k, e) ∈ h) (hw : Within k d) :
    histGet h d = some e := by
  induction h with
  | nil => simp at hm
  | cons p t ih =>
    obtain ⟨k0, v0⟩ := p
    rw [List.pairwise_cons] at hdis
    simp only [histGet]
    rcases List.mem_cons.1 hm with heq | hm'
    · cases heq
      simp [(contains_iff k d).2 hw]
    · have hne : ¬ contains k0 d = true := by
        intro hc
        exact hdis.1 (k, e) hm' d ⟨(contains_iff _ _).1 hc, hw⟩
      simp only [hne]
      exact ih hdis.2 hm'

/-! ### `_create_history`: from the records of the source to the history dict -/

theorem mem_dictSet {κ ν} [DecidableEq κ] (d : List (κ × ν)) (k : κ) (v : ν) (p : κ × ν) :
    p ∈ dictSet d k v → p = (k, v) ∨ p ∈ d := by
  induction d with
  | nil => simp [dictSet]
  | cons q t ih =>
    obtain ⟨k', v'⟩ := q
    simp only [dictSet]
    by_cases hk : k' = k
    · subst hk; simp only [if_true, List.mem_cons]
      rintro (h | h)
      · exact Or.inl h
      · exact Or.inr (Or.inr h)
    · simp only [hk, if_false, List.mem_cons]
      rintro (h | h)
      · exact Or.inr (Or.inl h)
      · rcases ih h with h | h
        · exact Or.inl h
        · exact Or.inr (Or.inr h)

theorem dictSet_has_key {κ ν} [DecidableEq κ] (d : List (κ × ν)) (k : κ) (v : ν) :
    ∃ v', (k, v') ∈ dictSet d k v := by
  induction d with
  | nil => exact ⟨v, by simp [dictSet]⟩
  | cons q t ih =>
    obtain ⟨k', v'⟩ := q
    simp only [dictSet]
    by_cases hk : k' = k
    · subst hk; exact ⟨v, by simp⟩
    · obtain ⟨w, hw⟩ := ih
      exact ⟨w, by simp [hk, hw]⟩

theorem dictSet_keeps_keys {κ ν} [DecidableEq κ] (d : List (κ × ν)) (k k0 : κ) (v v0 : ν) :
    (k0, v0) ∈ d → ∃ v', (k0, v') ∈ dictSet d k v := by
  induction d with
  | nil => simp
  | cons q t ih =>
    obtain ⟨k', v'⟩ := q
    intro hm
    simp only [dictSet]
    by_cases hk : k' = k
    · subst hk
      rcases List.mem_cons.1 hm with h | h
      · cases h; exact ⟨v, by simp⟩
      · exact ⟨v0, by simp [h]⟩
    · simp only [hk, if_false]
      rcases List.mem_cons.1 hm with h | h
      · cases h; exact ⟨v0, by simp⟩
      · obtain ⟨w, hw⟩ := ih h
        exact ⟨w, by simp [hw]⟩

/-- every pair of the built history is a record of the source under its own interval -/
theorem createHistory_mem {ρ} (key : ρ → Interval) (rs : List ρ) (h0 : History ρ)
    (hinv : ∀ p ∈ h0, p.1 = key p.2) (p : Interval × ρ) :
    p ∈ createHistory key rs h0 → (p.2 ∈ rs ∨ p ∈ h0) ∧ p.1 = key p.2 := by
  induction rs generalizing h0 with
  | nil => intro hm; exact ⟨Or.inr hm, hinv p hm⟩
  | cons r t ih =>
    intro hm
    simp only [createHistory] at hm
    have hinv' : ∀ q ∈ dictSet h0 (key r) r, q.1 = key q.2 := by
      intro q hq
      rcases mem_dictSet _ _ _ _ hq with h | h
      · subst h; rfl
      · exact hinv q h
    obtain ⟨hor, hk⟩ := ih (dictSet h0 (key r) r) hinv' hm
    refine ⟨?_, hk⟩
    rcases hor with h | h
    · exact Or.inl (by simp [h])
    · rcases mem_dictSet _ _ _ _ h with h | h
      · subst h; exact Or.inl (by simp)
      · exact Or.inr h

/-- the interval of every record of the source is a key of the built history -/
theorem createHistory_keys {ρ} (key : ρ → Interval) (rs : List ρ) (h0 : History ρ) :
    (∀ r ∈ rs, ∃ r', (key r, r') ∈ createHistory key rs h0) ∧
    (∀ p ∈ h0, ∃ r', (p.1, r') ∈ createHistory key rs h0) := by
  induction rs generalizing h0 with
  | nil => exact ⟨by simp, fun p hp => ⟨p.2, hp⟩⟩
  | cons r t ih =>
    simp only [createHistory]
    obtain ⟨h1, h2⟩ := ih (dictSet h0 (key r) r)
    constructor
    · intro x hx
      rcases List.mem_cons.1 hx with h | h
      · subst h
        obtain ⟨w, hw⟩ := dictSet_has_key h0 (key x) x
        exact h2 (key x, w) hw
      · exact h1 x h
    · intro p hp
      obtain ⟨w, hw⟩ := dictSet_keeps_keys h0 (key r) p.1 r p.2 hp
      exact h2 (p.1, w) hw

/-- **lookup, sound**: the record returned for a date is a record of the source and the date lies
in its validity interval -/
theorem lookup_sound {ρ} (key : ρ → Interval) (rs : List ρ) (d : Date) (r : ρ) :
    histGet (createHistory key rs []) d = some r → r ∈ rs ∧ Within (key r) d := by
  intro hg
  obtain ⟨k, hm, hw⟩ := get_sound _ d r hg
  obtain ⟨hor, hk⟩ := createHistory_mem key rs [] (by simp) (k, r) hm
  simp only at hk hor
  subst hk
  rcases hor with h | h
  · exact ⟨h, hw⟩
  · simp at h

/-- **lookup, complete**: if the date lies in the interval of some record, a record is returned -/
theorem lookup_complete {ρ} (key : ρ → Interval) (rs : List ρ) (d : Date) (r : ρ)
    (hr : r ∈ rs) (hw : Within (key r) d) :
    (histGet (createHistory key rs []) d).isSome = true := by
  obtain ⟨r', hm⟩ := (createHistory_keys key rs []).1 r hr
  exact get_complete _ d ⟨key r, r', hm, hw⟩

/-- **lookup, gap**: nothing is returned when no record's interval contains the date -/
theorem lookup_none {ρ} (key : ρ → Interval) (rs : List ρ) (d : Date)
    (hgap : ∀ r ∈ rs, ¬ Within (key r) d) :
    histGet (createHistory key rs []) d = none := by
  cases hg : histGet (createHistory key rs []) d with
  | none => rfl
  | some r =>
    obtain ⟨hm, hw⟩ := lookup_sound key rs d r hg
    exact absurd hw (hgap r hm)

theorem pairwise_mem_cases {α} (R : α → α → Prop) (l : List α) (hp : l.Pairwise R) (a b : α)
    (ha : a ∈ l) (hb : b ∈ l) : a = b ∨ R a b ∨ R b a := by
  induction l with
  | nil => simp at ha
  | cons x t ih =>
    rw [List.pairwise_cons] at hp
    rcases List.mem_cons.1 ha with ha1 | ha2
    · rcases List.mem_cons.1 hb with hb1 | hb2
      · exact Or.inl (ha1.trans hb1.symm)
      · rw [ha1]; exact Or.inr (Or.inl (hp.1 b hb2))
    · rcases List.mem_cons.1 hb with hb1 | hb2
      · rw [hb1]; exact Or.inr (Or.inr (hp.1 a ha2))
      · exact ih hp.2 ha2 hb2

/-- **lookup, unique**: when the records' validity intervals are pairwise disjoint, the lookup returns
exactly the record whose interval contains the date -/
theorem lookup_unique {ρ} (key : ρ → Interval) (rs : List ρ) (d : Date) (r : ρ)
    (hdis : rs.Pairwise (fun a b => Apart (key a) (key b)))
    (hr : r ∈ rs) (hw : Within (key r) d) :
    histGet (createHistory key rs []) d = some r := by
  have hsome := lookup_complete key rs d r hr hw
  cases hg : histGet (createHistory key rs []) d with
  | none => simp [hg] at hsome
  | some r' =>
    obtain ⟨hm', hw'⟩ := lookup_sound key rs d r' hg
    rcases pairwise_mem_cases _ rs hdis r' r hm' hr with h | h | h
    · rw [h]
    · exact absurd ⟨hw', hw⟩ (h d)
    · exact absurd ⟨hw, hw'⟩ (h d)

/-! ### `'last'` -/

theorem keyLe_total (a b : Interval) : keyLe a b = true ∨ keyLe b a = true := by
  simp only [keyLe, Bool.or_eq_true, Bool.and_eq_true, decide_eq_true_eq]; omega

theorem keyLe_trans (a b c : Interval) : keyLe a b = true → keyLe b c = true → keyLe a c = true := by
  simp only [keyLe, Bool.or_eq_true, Bool.and_eq_true, decide_eq_true_eq]; omega

theorem keyLe_refl (a : Interval) : keyLe a a = true := by
  simp [keyLe]

/-- `'last'` returns an entry of the history, and its `(start, end)` is the greatest -/
theorem last_is_max {ε} (h : History ε) (k : Interval) (e : ε) :
    histLast h = some (k, e) → (k, e) ∈ h ∧ ∀ p ∈ h, keyLe p.1 k = true := by
  induction h generalizing k e with
  | nil => simp [histLast]
  | cons p t ih =>
    obtain ⟨k0, v0⟩ := p
    simp only [histLast]
    cases hl : histLast t with
    | none =>
      simp only [Option.some.injEq, Prod.mk.injEq]
      rintro ⟨rfl, rfl⟩
      have ht : t = [] := by
        cases t with
        | nil => rfl
        | cons q t' =>
          obtain ⟨kq, vq⟩ := q
          simp only [histLast] at hl
          cases hq : histLast t' with
          | none => simp [hq] at hl
          | some r => obtain ⟨kr, vr⟩ := r; simp only [hq] at hl; split at hl <;> simp at hl
      subst ht
      exact ⟨by simp, by intro p hp; simp at hp; subst hp; exact keyLe_refl _⟩
    | some r =>
      obtain ⟨k', e'⟩ := r
      obtain ⟨hm', hmax'⟩ := ih k' e' hl
      simp only
      by_cases hle : keyLe k' k0 = true
      · simp only [hle, if_true, Option.some.injEq, Prod.mk.injEq]
        rintro ⟨rfl, rfl⟩
        refine ⟨by simp, ?_⟩
        intro p hp
        rcases List.mem_cons.1 hp with h | h
        · subst h; exact keyLe_refl _
        · exact keyLe_trans _ _ _ (hmax' p h) hle
      · simp only [hle]
        intro heq
        cases heq
        refine ⟨by simp [hm'], ?_⟩
        intro p hp
        rcases List.mem_cons.1 hp with h | h
        · subst h
          rcases keyLe_total k0 k with h | h
          · exact h
          · exact absurd h hle
        · exact hmax' p h

/-- `'last'` is the entry with the latest start -/
theorem last_latest_start {ε} (h : History ε) (k : Interval) (e : ε)
    (hl : histLast h = some (k, e)) : ∀ p ∈ h, p.1.1 ≤ k.1 := by
  intro p hp
  have := (last_is_max h k e hl).2 p hp
  simp only [keyLe, Bool.or_eq_true, Bool.and_eq_true, decide_eq_true_eq] at this
  omega

/-- a non-empty history has a last entry; the empty history has none (and does not fail) -/
theorem last_none_iff {ε} (h : History ε) : histLast h = none ↔ h = [] := by
  cases h with
  | nil => simp [histLast]
  | cons p t =>
    obtain ⟨k, e⟩ := p
    simp only [histLast]
    cases histLast t with
    | none => simp
    | some r => obtain ⟨k', e'⟩ := r; simp only; split <;> simp

/-! ### Open-ended starts and ends are ∓∞ -/

/-- For every date `d` not before `datetime.min` (so for every representable one): a record with no start
contains `d` iff `d` is before its end; a record with no end (or the literal `datetime.max`) contains
`d` iff `d` is not before its start. -/
theorem open_ended (r : Raw) (d : Date) (hlo : dmin ≤ d)
    (hs : ∀ s, r.start = some s → dmin ≤ s) (he : ∀ e, r.stop = some e → e ≤ dmax) :
    contains r.key d = true ↔
      (r.start = none ∨ ∃ s, r.start = some s ∧ s ≤ d) ∧
      (r.stop = none ∨ r.stop = some dmax ∨ ∃ e, r.stop = some e ∧ d < e) := by
  obtain ⟨s, e, t⟩ := r
  simp only [contains_iff, Within, Raw.key, openFrom, openTo]
  cases s <;> cases e <;> simp_all <;> omega

/-! ### Stations: any letter case, list or comma separated text -/

theorem lowerC_upperC (n : Nat) : lowerC (upperC n) = lowerC n := by
  simp only [lowerC, upperC]; repeat' split
  all_goals omega

theorem lowerC_idem (n : Nat) : lowerC (lowerC n) = lowerC n := by
  simp only [lowerC]; repeat' split
  all_goals omega

theorem lower_idem (s : Str) : lower (lower s) = lower s := by
  simp [lower, List.map_map, Function.comp_def, lowerC_idem]

/-- any re-casing `f` of the names (one that `lower` undoes) gives the same normalised stations -/
theorem list_case_insensitive (f : Str → Str) (hf : ∀ s, lower (f s) = lower s) (l : List Str) :
    normStations (.list (l.map f)) = normStations (.list l) := by
  simp [normStations, List.map_map, Function.comp_def, hf]

theorem lower_upper (s : Str) : lower (upper s) = lower s := by
  simp [lower, upper, List.map_map, Function.comp_def, lowerC_upperC]

/-! ### The combined query returns exactly what the individual modules return -/

theorem dictGet_mem {κ ν} [DecidableEq κ] (d : List (κ × ν)) (k : κ) (v : ν) :
    dictGet? d k = some v → (k, v) ∈ d := by
  induction d with
  | nil => simp [dictGet?]
  | cons q t ih =>
    obtain ⟨k', v'⟩ := q
    simp only [dictGet?]
    by_cases hk : k' = k
    · subst hk; simp only [if_true, Option.some.injEq]; intro h; subst h; simp
    · simp only [hk, if_false]; intro h; exact List.mem_cons_of_mem _ (ih h)

theorem dictGet_isSome {κ ν} [DecidableEq κ] (d : List (κ × ν)) (k : κ) (v : ν) :
    (k, v) ∈ d → ∃ v', dictGet? d k = some v' := by
  induction d with
  | nil => simp
  | cons q t ih =>
    obtain ⟨k', v'⟩ := q
    intro hm
    simp only [dictGet?]
    by_cases hk : k' = k
    · exact ⟨v', by simp [hk]⟩
    · simp only [hk, if_false]
      rcases List.mem_cons.1 hm with h | h
      · cases h; exact absurd rfl hk
      · exact ih h

/-- a dict all of whose values are `g key` answers `g k` for every key it has -/
theorem dictGet_of_functional {κ ν} [DecidableEq κ] (d : List (κ × ν)) (g : κ → ν → Prop)
    (hfun : ∀ k v w, g k v → g k w → v = w)
    (hinv : ∀ p ∈ d, g p.1 p.2) (k : κ) (v : ν) (hm : (k, v) ∈ d) : dictGet? d k = some v := by
  obtain ⟨v', hv'⟩ := dictGet_isSome d k v hm
  have h1 := hinv (k, v') (dictGet_mem d k v' hv')
  have h2 := hinv (k, v) hm
  rw [hv', hfun k v' v h1 h2]

/-- the loop over stations of `ModuleBase.get`: every stored value is the per-station answer and
every station asked for has one -/
theorem collect_spec (f : Str → Except Err Val) (l : List Str) (acc res : List (Str × Val))
    (hinv : ∀ p ∈ acc, f p.1 = .ok p.2) (h : collect f l acc = .ok res) :
    (∀ p ∈ res, f p.1 = .ok p.2) ∧ (∀ s ∈ l, ∃ v, (s, v) ∈ res) ∧ (∀ p ∈ acc, ∃ v, (p.1, v) ∈ res) := by
  induction l generalizing acc with
  | nil =>
    simp only [collect, Except.ok.injEq] at h; subst h
    exact ⟨hinv, by simp, fun p hp => ⟨p.2, hp⟩⟩
  | cons s t ih =>
    simp only [collect] at h
    cases hf : f s with
    | error e => simp [hf] at h
    | ok v =>
      simp only [hf] at h
      have hinv' : ∀ p ∈ dictSet acc s v, f p.1 = .ok p.2 := by
        intro p hp
        rcases mem_dictSet _ _ _ _ hp with hp | hp
        · subst hp; exact hf
        · exact hinv p hp
      obtain ⟨h1, h2, h3⟩ := ih (dictSet acc s v) hinv' h
      refine ⟨h1, ?_, ?_⟩
      · intro x hx
        rcases List.mem_cons.1 hx with hx | hx
        · subst hx
          obtain ⟨w, hw⟩ := dictSet_has_key acc x v
          exact h3 (x, w) hw
        · exact h2 x hx
      · intro p hp
        obtain ⟨w, hw⟩ := dictSet_keeps_keys acc s p.1 v p.2 hp
        exact h3 (p.1, w) hw

/-- `Module.get(…, stations, date)[s]` is the module's own answer for station `s`, for every
station asked for -/
theorem module_result (m : Module) (src : Source) (st : Stations) (date : Option DateQ)
    (res : List (Str × Val)) (h : moduleGet m src st date = .ok res) :
    ∀ s ∈ normStations st, moduleGet1 m src (lower s) date = .ok (pick res s) := by
  intro s hs
  obtain ⟨h1, h2, _⟩ := collect_spec _ _ [] res (by simp) h
  obtain ⟨v, hv⟩ := h2 s hs
  have hget : dictGet? res s = some v :=
    dictGet_of_functional res (fun k v => moduleGet1 m src (lower k) date = .ok v)
      (by intro k v w hv hw; rw [hv] at hw; cases hw; rfl) h1 s v hv
  simp only [pick, hget, Option.getD_some]
  exact h1 (s, v) hv

/-- the date a module is asked with inside `SiteInfo.get` (`Identifier` never gets one) -/
def dateFor (m : Module) (date : Option DateQ) : Option DateQ := if m = .identifier then none else date

/-- the module loop of `SiteInfo.get/get_history` for one station -/
theorem siteModules_spec (src : Source) (sta : Str) (date : Option DateQ) (skip : Bool)
    (ms : List Module) (acc res : List (Module × Val))
    (hinv : ∀ p ∈ acc, ∃ entry, moduleGet p.1 src (.text sta) (dateFor p.1 date) = .ok entry ∧ p.2 = pick entry sta)
    (h : siteModules src sta date skip ms acc = .ok res) :
    (∀ p ∈ res, ∃ entry, moduleGet p.1 src (.text sta) (dateFor p.1 date) = .ok entry ∧ p.2 = pick entry sta) ∧
    (∀ m ∈ ms, ¬ (skip = true ∧ m = .identifier) → ∃ v, (m, v) ∈ res) ∧
    (∀ p ∈ acc, ∃ v, (p.1, v) ∈ res) := by
  induction ms generalizing acc with
  | nil =>
    simp only [siteModules, Except.ok.injEq] at h; subst h
    exact ⟨hinv, by simp, fun p hp => ⟨p.2, hp⟩⟩
  | cons m t ih =>
    simp only [siteModules] at h
    by_cases hsk : (skip && decide (m = .identifier)) = true
    · simp only [hsk, if_true] at h
      obtain ⟨h1, h2, h3⟩ := ih acc hinv h
      refine ⟨h1, ?_, h3⟩
      intro x hx hns
      rcases List.mem_cons.1 hx with hx | hx
      · subst hx; simp at hsk; exact absurd hsk hns
      · exact h2 x hx hns
    · simp only [hsk] at h
      cases hg : moduleGet m src (.text sta) (if m = .identifier then none else date) with
      | error e => simp [hg] at h
      | ok entry =>
        simp only [hg] at h
        have hinv' : ∀ p ∈ dictSet acc m (pick entry sta),
            ∃ entry, moduleGet p.1 src (.text sta) (dateFor p.1 date) = .ok entry ∧ p.2 = pick entry sta := by
          intro p hp
          rcases mem_dictSet _ _ _ _ hp with hp | hp
          · subst hp; exact ⟨entry, hg, rfl⟩
          · exact hinv p hp
        obtain ⟨h1, h2, h3⟩ := ih _ hinv' h
        refine ⟨h1, ?_, ?_⟩
        · intro x hx hns
          rcases List.mem_cons.1 hx with hx | hx
          · subst hx
            obtain ⟨w, hw⟩ := dictSet_has_key acc x (pick entry sta)
            exact h3 (x, w) hw
          · exact h2 x hx hns
        · intro p hp
          obtain ⟨w, hw⟩ := dictSet_keeps_keys acc m p.1 (pick entry sta) p.2 hp
          exact h3 (p.1, w) hw

theorem siteCollect_spec (f : Str → Except Err (List (Module × Val))) (l : List Str)
    (acc res : List (Str × List (Module × Val)))
    (hinv : ∀ p ∈ acc, f p.1 = .ok p.2) (h : siteCollect f l acc = .ok res) :
    (∀ p ∈ res, f p.1 = .ok p.2) ∧ (∀ s ∈ l, ∃ v, (s, v) ∈ res) ∧ (∀ p ∈ acc, ∃ v, (p.1, v) ∈ res) := by
  induction l generalizing acc with
  | nil =>
    simp only [siteCollect, Except.ok.injEq] at h; subst h
    exact ⟨hinv, by simp, fun p hp => ⟨p.2, hp⟩⟩
  | cons s t ih =>
    simp only [siteCollect] at h
    cases hf : f s with
    | error e => simp [hf] at h
    | ok v =>
      simp only [hf] at h
      have hinv' : ∀ p ∈ dictSet acc s v, f p.1 = .ok p.2 := by
        intro p hp
        rcases mem_dictSet _ _ _ _ hp with hp | hp
        · subst hp; exact hf
        · exact hinv p hp
      obtain ⟨h1, h2, h3⟩ := ih (dictSet acc s v) hinv' h
      refine ⟨h1, ?_, ?_⟩
      · intro x hx
        rcases List.mem_cons.1 hx with hx | hx
        · subst hx
          obtain ⟨w, hw⟩ := dictSet_has_key acc x v
          exact h3 (x, w) hw
        · exact h2 x hx
      · intro p hp
        obtain ⟨w, hw⟩ := dictSet_keeps_keys acc s p.1 v p.2 hp
        exact h3 (p.1, w) hw

/-- a station name the second normalisation inside the module call leaves alone (no comma, no outer
blanks, lower case) — true of every piece of a comma separated text, assumed of list elements -/
def Clean (s : Str) : Prop := normStations (.text s) = [s]

/-- **combined = modules** (`SiteInfo.get`): whenever the combined query and a module's own query
(with the same stations and date) both answer, the combined answer holds, for every station asked
for and that module, exactly the module's answer. -/
theorem combined_eq_modules (src : Source) (st : Stations) (date : Option DateQ)
    (all : List (Str × List (Module × Val))) (hall : siteInfoGet src st date = .ok all)
    (m : Module) (res : List (Str × Val)) (hres : moduleGet m src st (dateFor m date) = .ok res)
    (s : Str) (hs : s ∈ normStations st) (hclean : Clean s) :
    ∃ ms, dictGet? all s = some ms ∧ dictGet? ms m = some (pick res s) := by
  obtain ⟨h1, h2, _⟩ := siteCollect_spec _ _ [] all (by simp) hall
  obtain ⟨ms, hms⟩ := h2 s hs
  have hget : dictGet? all s = some ms :=
    dictGet_of_functional all (fun k v => siteModules src k date false modules [] = .ok v)
      (by intro k v w hv hw; rw [hv] at hw; cases hw; rfl) h1 s ms hms
  refine ⟨ms, hget, ?_⟩
  have hsm := h1 (s, ms) hms
  obtain ⟨g1, g2, _⟩ := siteModules_spec src s date false modules [] ms (by simp) hsm
  have hmm : m ∈ modules := by cases m <;> simp [modules]
  obtain ⟨v, hv⟩ := g2 m hmm (by simp)
  obtain ⟨entry, hentry, hpick⟩ := g1 (m, v) hv
  simp only at hentry hpick
  -- the module asked with the single station answers as it does within the full list
  have e1 := module_result m src (.text s) (dateFor m date) entry hentry s (by rw [hclean]; simp)
  have e2 := module_result m src st (dateFor m date) res hres s hs
  rw [e1] at e2
  have hv' : v = pick res s := by rw [hpick]; exact Except.ok.inj e2
  subst hv'
  exact dictGet_of_functional ms
    (fun k v => ∃ entry, moduleGet k src (.text s) (dateFor k date) = .ok entry ∧ v = pick entry s)
    (by
      intro k v w ⟨e, he, hv⟩ ⟨e', he', hw⟩
      rw [he] at he'; cases he'; rw [hv, hw])
    g1 m _ hv

/-- the same for `SiteInfo.get_history` (which leaves `Identifier` out) -/
theorem combined_history_eq_modules (src : Source) (st : Stations)
    (all : List (Str × List (Module × Val))) (hall : siteInfoGetHistory src st = .ok all)
    (m : Module) (hm : m ≠ .identifier)
    (res : List (Str × Val)) (hres : moduleGetHistory m src st = .ok res)
    (s : Str) (hs : s ∈ normStations st) (hclean : Clean s) :
    ∃ ms, dictGet? all s = some ms ∧ dictGet? ms m = some (pick res s) := by
  obtain ⟨h1, h2, _⟩ := siteCollect_spec _ _ [] all (by simp) hall
  obtain ⟨ms, hms⟩ := h2 s hs
  have hget : dictGet? all s = some ms :=
    dictGet_of_functional all (fun k v => siteModules src k none true modules [] = .ok v)
      (by intro k v w hv hw; rw [hv] at hw; cases hw; rfl) h1 s ms hms
  refine ⟨ms, hget, ?_⟩
  have hsm := h1 (s, ms) hms
  obtain ⟨g1, g2, _⟩ := siteModules_spec src s none true modules [] ms (by simp) hsm
  have hmm : m ∈ modules := by cases m <;> simp [modules]
  obtain ⟨v, hv⟩ := g2 m hmm (by simp [hm])
  obtain ⟨entry, hentry, hpick⟩ := g1 (m, v) hv
  simp only at hentry hpick
  have hd : dateFor m none = none := by simp [dateFor]
  rw [hd] at hentry
  have e1 := module_result m src (.text s) none entry hentry s (by rw [hclean]; simp)
  have e2 := module_result m src st none res hres s hs
  rw [e1] at e2
  have hv' : v = pick res s := by rw [hpick]; exact Except.ok.inj e2
  subst hv'
  exact dictGet_of_functional ms
    (fun k v => ∃ entry, moduleGet k src (.text s) (dateFor k none) = .ok entry ∧ v = pick entry s)
    (by
      intro k v w ⟨e, he, hv⟩ ⟨e', he', hw⟩
      rw [he] at he'; cases he'; rw [hv, hw])
    g1 m _ hv

/-- querying never changes the source data: in the model a query is a function of the source it is
given and returns no new source — the same source answers a repeated query identically (the tie to
the code, which *can* write to its argument, is the before/after snapshot of the correspondence run) -/
theorem query_pure (src : Source) (st : Stations) (date : Option DateQ) (m : Module) :
    (fun (_ : Unit) => (moduleGet m src st date, siteInfoGet src st date)) () =
    (fun (_ : Unit) => (moduleGet m src st date, siteInfoGet src st date)) () := rfl

/-- the unrepaired SSC coordinate reader (it popped `pos_vel` from the caller's dict) violated that:
after one query a second one on the same source fails — the replay of the defect fixed in /repo -/
theorem ssc_pop_breaks_second_query (pv : List (Nat × Raw)) (q q' : DateQ) :
    (sscPopQuery (sscPopQuery (some pv) q).2 q').1 = .error .key := by
  simp [sscPopQuery]

/-! ### Stations: comma separated text ≡ list, any letter case in the text form -/


theorem splitComma_ne_nil (s : Str) : splitComma s ≠ [] := by
  cases s with
  | nil => simp [splitComma]
  | cons c t =>
    simp only [splitComma]
    cases splitComma t with
    | nil => simp
    | cons p ps => simp only; split <;> simp

theorem splitComma_nocomma (a : Str) (h : 44 ∉ a) : splitComma a = [a] := by
  induction a with
  | nil => simp [splitComma]
  | cons c t ih =>
    have hc : c ≠ 44 := by intro hc; subst hc; simp at h
    have ht : 44 ∉ t := by intro ht; exact h (List.mem_cons_of_mem _ ht)
    simp [splitComma, ih ht, hc]

theorem splitComma_append (a r : Str) (h : 44 ∉ a) : splitComma (a ++ 44 :: r) = a :: splitComma r := by
  induction a with
  | nil =>
    simp only [List.nil_append, splitComma]
    cases hr : splitComma r with
    | nil => exact absurd hr (splitComma_ne_nil r)
    | cons p ps => simp
  | cons c t ih =>
    have hc : c ≠ 44 := by intro hc; subst hc; simp at h
    have ht : 44 ∉ t := by intro ht; exact h (List.mem_cons_of_mem _ ht)
    simp [splitComma, ih ht, hc]

/-- `",".join(l)` -/
def joinComma : List Str → Str
  | [] => []
  | [a] => a
  | a :: b :: t => a ++ 44 :: joinComma (b :: t)

theorem split_join (l : List Str) (hne : l ≠ []) (h : ∀ s ∈ l, 44 ∉ s) : splitComma (joinComma l) = l := by
  induction l with
  | nil => exact absurd rfl hne
  | cons a t ih =>
    cases t with
    | nil => simp [joinComma, splitComma_nocomma a (h a (by simp))]
    | cons b t' =>
      simp only [joinComma]
      rw [splitComma_append a _ (h a (by simp)), ih (by simp) (fun s hs => h s (List.mem_cons_of_mem _ hs))]

theorem list_eq_commatext (l : List Str) (hne : l ≠ []) (h : ∀ s ∈ l, 44 ∉ s) :
    normStations (.text (joinComma l)) = normStations (.list (l.map strip)) := by
  simp [normStations, split_join l hne h, List.map_map, Function.comp_def]

theorem upperC_comma (c : Nat) : upperC c = 44 ↔ c = 44 := by
  simp only [upperC]; split <;> omega

theorem isBlank_upperC (c : Nat) : isBlank (upperC c) = isBlank c := by
  simp only [upperC]
  split
  · rename_i h
    have h1 : isBlank (c - 32) = false := by simp [isBlank]; omega
    have h2 : isBlank c = false := by simp [isBlank]; omega
    rw [h1, h2]
  · rfl

theorem splitComma_map (g : Nat → Nat) (hg : ∀ c, g c = 44 ↔ c = 44) (s : Str) :
    splitComma (s.map g) = (splitComma s).map (·.map g) := by
  induction s with
  | nil => simp [splitComma]
  | cons c t ih =>
    simp only [List.map_cons, splitComma, ih]
    cases hs : splitComma t with
    | nil => simp
    | cons p ps =>
      simp only [List.map_cons]
      by_cases hc : c = 44
      · simp [hc, (hg 44).2 rfl]
      · have : g c ≠ 44 := fun h => hc ((hg c).1 h)
        simp [hc, this]

theorem dropWhile_map_blank (g : Nat → Nat) (hg : ∀ c, isBlank (g c) = isBlank c) (s : Str) :
    (s.map g).dropWhile isBlank = (s.dropWhile isBlank).map g := by
  induction s with
  | nil => simp
  | cons c t ih =>
    simp only [List.map_cons, List.dropWhile_cons, hg c]
    split
    · exact ih
    · simp

theorem strip_map (g : Nat → Nat) (hg : ∀ c, isBlank (g c) = isBlank c) (s : Str) :
    strip (s.map g) = (strip s).map g := by
  simp only [strip, rstrip, lstrip]
  rw [dropWhile_map_blank g hg, ← List.map_reverse, dropWhile_map_blank g hg, List.map_reverse]

/-- **any letter case** (text form): upper-casing the whole text changes nothing -/
theorem text_case_insensitive (s : Str) : normStations (.text (upper s)) = normStations (.text s) := by
  simp only [normStations, upper]
  rw [splitComma_map upperC upperC_comma]
  simp only [List.map_map, Function.comp_def]
  congr 1
  funext p
  rw [strip_map upperC isBlank_upperC]
  exact lower_upper (strip p)

theorem dropWhile_twice (p : Nat → Bool) (l : List Nat) : (l.dropWhile p).dropWhile p = l.dropWhile p := by
  induction l with
  | nil => simp
  | cons a t ih =>
    simp only [List.dropWhile_cons]
    split
    · exact ih
    · rename_i h; simp [h]

theorem rstrip_idem (s : Str) : rstrip (rstrip s) = rstrip s := by
  simp [rstrip, dropWhile_twice]

theorem rstrip_prefix (u : Str) : rstrip u <+: u := by
  have h : (u.reverse.dropWhile isBlank) <:+ u.reverse := List.dropWhile_suffix _
  have := List.reverse_prefix.2 h
  simpa [rstrip] using this

theorem lstrip_head (s : Str) : ∀ a, (lstrip s).head? = some a → isBlank a = false := by
  intro a ha
  have := List.head?_dropWhile_not isBlank s
  simp only [lstrip] at ha
  rw [ha] at this
  simpa using this

theorem lstrip_of_prefix (w u : Str) (hp : w <+: u) (hu : ∀ a, u.head? = some a → isBlank a = false) :
    lstrip w = w := by
  cases w with
  | nil => simp [lstrip]
  | cons a w' =>
    obtain ⟨r, hr⟩ := hp
    have : u.head? = some a := by rw [← hr]; simp
    simp [lstrip, hu a this]

theorem strip_idem (s : Str) : strip (strip s) = strip s := by
  simp only [strip]
  rw [lstrip_of_prefix (rstrip (lstrip s)) (lstrip s) (rstrip_prefix _) (lstrip_head s), rstrip_idem]

theorem splitComma_pieces (s : Str) : ∀ p ∈ splitComma s, 44 ∉ p := by
  induction s with
  | nil => simp [splitComma]
  | cons c t ih =>
    simp only [splitComma]
    cases hs : splitComma t with
    | nil => exact absurd hs (splitComma_ne_nil t)
    | cons q qs =>
      rw [hs] at ih
      simp only
      split
      · intro p hp
        rcases List.mem_cons.1 hp with h | h
        · subst h; simp
        · exact ih p h
      · rename_i hc
        intro p hp
        rcases List.mem_cons.1 hp with h | h
        · subst h
          intro hm
          rcases List.mem_cons.1 hm with h | h
          · exact hc h.symm
          · exact ih q (by simp) h
        · exact ih p (List.mem_cons_of_mem _ h)

theorem lowerC_comma (c : Nat) : lowerC c = 44 ↔ c = 44 := by
  simp only [lowerC]; split <;> omega

theorem isBlank_lowerC (c : Nat) : isBlank (lowerC c) = isBlank c := by
  simp only [lowerC]
  split
  · rename_i h
    have h1 : isBlank (c + 32) = false := by simp [isBlank]; omega
    have h2 : isBlank c = false := by simp [isBlank]; omega
    rw [h1, h2]
  · rfl

theorem strip_subset (q : Str) : ∀ c ∈ strip q, c ∈ q := by
  intro c hc
  have h1 : c ∈ lstrip q := (rstrip_prefix (lstrip q)).subset hc
  exact (List.dropWhile_suffix isBlank).subset h1

/-- every station name produced from the comma separated text form is `Clean`: the second
normalisation inside the per-station module call of `SiteInfo.get` leaves it alone -/
theorem pieces_clean (t : Str) : ∀ p ∈ normStations (.text t), Clean p := by
  intro p hp
  simp only [normStations, List.mem_map] at hp
  obtain ⟨q, hq, rfl⟩ := hp
  have h44 : 44 ∉ lower (strip q) := by
    intro hm
    simp only [lower, List.mem_map] at hm
    obtain ⟨c, hc, hc44⟩ := hm
    have : c = 44 := (lowerC_comma c).1 hc44
    subst this
    exact splitComma_pieces t q hq (strip_subset q _ hc)
  simp only [Clean, normStations, splitComma_nocomma _ h44, List.map_cons, List.map_nil]
  congr 1
  show lower (strip (lower (strip q))) = lower (strip q)
  rw [show lower (strip q) = (strip q).map lowerC from rfl, strip_map lowerC isBlank_lowerC, strip_idem]
  exact lower_idem (strip q)

/-- **combined = modules**, text form, with no side condition on the station names -/
theorem combined_eq_modules_text (src : Source) (t : Str) (date : Option DateQ)
    (all : List (Str × List (Module × Val))) (hall : siteInfoGet src (.text t) date = .ok all)
    (m : Module) (res : List (Str × Val)) (hres : moduleGet m src (.text t) (dateFor m date) = .ok res)
    (s : Str) (hs : s ∈ normStations (.text t)) :
    ∃ ms, dictGet? all s = some ms ∧ dictGet? ms m = some (pick res s) :=
  combined_eq_modules src (.text t) date all hall m res hres s hs (pieces_clean t s hs)

/-! ### Source paths: the lookup theorems reach `Module.get` for the SINEX and the SSC source -/

theorem histGet_map {α β} (f : α → β) (h : History α) (d : Date) :
    histGet (h.map (fun (k, a) => (k, f a))) d = (histGet h d).map f := by
  induction h with
  | nil => rfl
  | cons p t ih =>
    obtain ⟨k, a⟩ := p
    simp only [List.map_cons, histGet]
    split <;> simp [ih]

/-- the answer of a history module for a date, given the records its source holds -/
def answerOf {ρ} (key : ρ → Interval) (toEntry : ρ → Entry) (rs : List ρ) (d : Date) : Val :=
  match histGet (createHistory key rs []) d with
  | none => .none
  | some r => .entry (toEntry r)

/-- **SSC source**: `SiteCoord.get("ssc", data, station, date)` is the interval search over the
station's `pos_vel` records (in dict order) -/
theorem ssc_siteCoord_get (dd : List (Str × SscStation)) (station : Str) (st : SscStation) (d : Date)
    (hne : dd ≠ []) (hst : findKey dd station = some st) :
    moduleGet1 .siteCoord (.ssc dd) station (some (.at d)) =
      .ok (answerOf Raw.key Entry.ofRaw (st.posvel.map (·.2)) d) := by
  have he : (Source.ssc dd).isEmpty = false := by cases dd <;> simp_all [Source.isEmpty]
  simp only [moduleGet1, historyOf, he, hst, historyGet, histOfRaws, answerOf]
  rw [show (fun (x : Interval × Raw) => (x.1, Entry.ofRaw x.2)) = (fun (k, a) => (k, Entry.ofRaw a)) from rfl]
  simp only [Bool.false_eq_true, if_false]
  rw [histGet_map]
  cases histGet (createHistory Raw.key (st.posvel.map (·.2)) []) d <;> rfl

/-- what `answerOf` is: the four lookup facts, for any record type -/
theorem answerOf_spec {ρ} (key : ρ → Interval) (toEntry : ρ → Entry) (rs : List ρ) (d : Date) :
    (∀ e, answerOf key toEntry rs d = .entry e → ∃ r ∈ rs, e = toEntry r ∧ Within (key r) d) ∧
    ((∃ r ∈ rs, Within (key r) d) → ∃ r ∈ rs, Within (key r) d ∧ answerOf key toEntry rs d = .entry (toEntry r)) ∧
    ((∀ r ∈ rs, ¬ Within (key r) d) → answerOf key toEntry rs d = .none) ∧
    (rs.Pairwise (fun a b => Apart (key a) (key b)) →
      ∀ r ∈ rs, Within (key r) d → answerOf key toEntry rs d = .entry (toEntry r)) := by
  refine ⟨?_, ?_, ?_, ?_⟩
  · intro e he
    simp only [answerOf] at he
    cases hg : histGet (createHistory key rs []) d with
    | none => simp [hg] at he
    | some r =>
      simp only [hg, Val.entry.injEq] at he
      obtain ⟨hm, hw⟩ := lookup_sound key rs d r hg
      exact ⟨r, hm, he.symm, hw⟩
  · intro ⟨r, hr, hw⟩
    have := lookup_complete key rs d r hr hw
    cases hg : histGet (createHistory key rs []) d with
    | none => simp [hg] at this
    | some r' =>
      obtain ⟨hm, hw'⟩ := lookup_sound key rs d r' hg
      exact ⟨r', hm, hw', by simp [answerOf, hg]⟩
  · intro hgap
    simp [answerOf, lookup_none key rs d hgap]
  · intro hdis r hr hw
    simp [answerOf, lookup_unique key rs d r hdis hr hw]

/-- **SSC source, the other modules**: an SSC file has no antenna / receiver / eccentricity
information — a known station answers `None` for every date -/
theorem ssc_no_information (m : Module) (hm : m = .antenna ∨ m = .receiver ∨ m = .eccentricity)
    (dd : List (Str × SscStation)) (station : Str) (st : SscStation) (q : DateQ)
    (hne : dd ≠ []) (hst : findKey dd station = some st) :
    moduleGet1 m (.ssc dd) station (some q) = .ok .none := by
  have he : (Source.ssc dd).isEmpty = false := by cases dd <;> simp_all [Source.isEmpty]
  rcases hm with h | h | h <;> subst h <;> simp [moduleGet1, historyOf, he, hst, historyGet]

/-- **SINEX source**: `Antenna.get("snx", …)` is the interval search over `site_antenna` -/
theorem snx_antenna_get (dd : List (Str × SnxStation)) (station : Str) (st : SnxStation) (rs : List Raw)
    (d : Date) (hne : dd ≠ []) (hst : findKey dd station = some st) (hb : st.ant = some rs) :
    moduleGet1 .antenna (.snx dd) station (some (.at d)) = .ok (answerOf Raw.key Entry.ofRaw rs d) := by
  have he : (Source.snx dd).isEmpty = false := by cases dd <;> simp_all [Source.isEmpty]
  simp only [moduleGet1, historyOf, he, hst, hb, historyGet, histOfRaws, answerOf, Bool.false_eq_true, if_false]
  rw [show (fun (x : Interval × Raw) => (x.1, Entry.ofRaw x.2)) = (fun (k, a) => (k, Entry.ofRaw a)) from rfl,
    histGet_map]
  cases histGet (createHistory Raw.key rs []) d <;> rfl

theorem snx_receiver_get (dd : List (Str × SnxStation)) (station : Str) (st : SnxStation) (rs : List Raw)
    (d : Date) (hne : dd ≠ []) (hst : findKey dd station = some st) (hb : st.rcv = some rs) :
    moduleGet1 .receiver (.snx dd) station (some (.at d)) = .ok (answerOf Raw.key Entry.ofRaw rs d) := by
  have he : (Source.snx dd).isEmpty = false := by cases dd <;> simp_all [Source.isEmpty]
  simp only [moduleGet1, historyOf, he, hst, hb, historyGet, histOfRaws, answerOf, Bool.false_eq_true, if_false]
  rw [show (fun (x : Interval × Raw) => (x.1, Entry.ofRaw x.2)) = (fun (k, a) => (k, Entry.ofRaw a)) from rfl,
    histGet_map]
  cases histGet (createHistory Raw.key rs []) d <;> rfl

theorem snx_eccentricity_get (dd : List (Str × SnxStation)) (station : Str) (st : SnxStation) (rs : List Raw)
    (d : Date) (hne : dd ≠ []) (hst : findKey dd station = some st) (hb : st.ecc = some rs) :
    moduleGet1 .eccentricity (.snx dd) station (some (.at d)) = .ok (answerOf Raw.key Entry.ofRaw rs d) := by
  have he : (Source.snx dd).isEmpty = false := by cases dd <;> simp_all [Source.isEmpty]
  simp only [moduleGet1, historyOf, he, hst, hb, historyGet, histOfRaws, answerOf, Bool.false_eq_true, if_false]
  rw [show (fun (x : Interval × Raw) => (x.1, Entry.ofRaw x.2)) = (fun (k, a) => (k, Entry.ofRaw a)) from rfl,
    histGet_map]
  cases histGet (createHistory Raw.key rs []) d <;> rfl

/-- **SINEX coordinates**: the interval search over the `solution_epochs` records, each merged with the
estimates of its `soln` -/
theorem snx_siteCoord_get (dd : List (Str × SnxStation)) (station : Str) (st : SnxStation) (est : List Est)
    (d : Date) (hne : dd ≠ []) (hst : findKey dd station = some st) (hb : st.est = some est) :
    moduleGet1 .siteCoord (.snx dd) station (some (.at d)) =
      .ok (answerOf Combined.key (fun c => ⟨c.raw.tag, c.params⟩) (combine st.epochs est) d) := by
  have he : (Source.snx dd).isEmpty = false := by cases dd <;> simp_all [Source.isEmpty]
  simp only [moduleGet1, historyOf, he, hst, hb, historyGet, histOfCombined, answerOf, Bool.false_eq_true, if_false]
  have h := histGet_map (fun c : Combined => (⟨c.raw.tag, c.params⟩ : Entry))
    (createHistory Combined.key (combine st.epochs est) []) d
  simp only at h
  rw [show (fun (x : Interval × Combined) => (x.1, (⟨x.2.raw.tag, x.2.params⟩ : Entry))) =
      (fun (x : Interval × Combined) => match x with | (k, a) => (k, (⟨a.raw.tag, a.params⟩ : Entry))) from rfl, h]
  cases histGet (createHistory Combined.key (combine st.epochs est) []) d <;> rfl

/-- a SINEX file without `SOLUTION/ESTIMATE` for the station has no coordinate information -/
theorem snx_siteCoord_none (dd : List (Str × SnxStation)) (station : Str) (st : SnxStation) (q : DateQ)
    (hne : dd ≠ []) (hst : findKey dd station = some st) (hb : st.est = none) :
    moduleGet1 .siteCoord (.snx dd) station (some q) = .ok .none := by
  have he : (Source.snx dd).isEmpty = false := by cases dd <;> simp_all [Source.isEmpty]
  simp [moduleGet1, historyOf, he, hst, hb, historyGet]

/-- the interval of a merged coordinate record is the interval of its epoch record -/
theorem combine_keys (epochs : List Epoch) (est : List Est) :
    (combine (some epochs) est).map Combined.key = epochs.map (fun e => e.raw.key) := by
  simp [combine, Combined.key, List.map_map, Function.comp_def]

/-- **'last' through the modules** (SSC coordinates): the entry with the greatest `(start, end)` of the
`pos_vel` records, `None` for a station without records -/
theorem ssc_siteCoord_last (dd : List (Str × SscStation)) (station : Str) (st : SscStation)
    (hne : dd ≠ []) (hst : findKey dd station = some st) :
    moduleGet1 .siteCoord (.ssc dd) station (some .last) =
      .ok (match histLast (histOfRaws (st.posvel.map (·.2))) with
           | none => .none
           | some (_, e) => .entry e) := by
  have he : (Source.ssc dd).isEmpty = false := by cases dd <;> simp_all [Source.isEmpty]
  simp only [moduleGet1, historyOf, he, hst, historyGet, Bool.false_eq_true, if_false]
  rfl

/-! ### The `Clean` side condition of `combined_eq_modules`: sufficient for plain names, and necessary -/

/-- a name without comma and without outer blanks is `Clean` once lower-cased — so for list-form
stations the side condition only excludes elements that are not plain station names -/
theorem clean_of_plain (s : Str) (h44 : 44 ∉ s) (hs : strip s = s) : Clean (lower s) := by
  have hl : 44 ∉ lower s := by
    intro hm
    simp only [lower, List.mem_map] at hm
    obtain ⟨c, hc, hc44⟩ := hm
    rw [(lowerC_comma c).1 hc44] at hc
    exact h44 hc
  simp only [Clean, normStations, splitComma_nocomma _ hl, List.map_cons, List.map_nil]
  congr 1
  show lower (strip (lower s)) = lower s
  rw [show lower s = s.map lowerC from rfl, strip_map lowerC isBlank_lowerC, hs]
  exact lower_idem s

/-- **combined = modules**, list form: for a list of plain station names (no comma, no outer blanks,
any letter case) no side condition is left -/
theorem combined_eq_modules_list (src : Source) (l : List Str) (date : Option DateQ)
    (hplain : ∀ x ∈ l, 44 ∉ x ∧ strip x = x)
    (all : List (Str × List (Module × Val))) (hall : siteInfoGet src (.list l) date = .ok all)
    (m : Module) (res : List (Str × Val)) (hres : moduleGet m src (.list l) (dateFor m date) = .ok res)
    (s : Str) (hs : s ∈ normStations (.list l)) :
    ∃ ms, dictGet? all s = some ms ∧ dictGet? ms m = some (pick res s) := by
  have hclean : Clean s := by
    simp only [normStations, List.mem_map] at hs
    obtain ⟨x, hx, rfl⟩ := hs
    exact clean_of_plain x (hplain x hx).1 (hplain x hx).2
  exact combined_eq_modules src (.list l) date all hall m res hres s hs hclean

/-! The condition cannot be dropped: `SiteInfo.get` hands each list element to the modules *as text*,
so an element with a comma is split once more.  Witness: a source that has the three stations
`"a,b"`, `"a"` and `"b"`, asked for the list `["a,b"]`. -/

def witnessStation (tag : Nat) : SnxStation :=
  ⟨some [⟨none, none, tag⟩], some [], some [], some (tag + 100), none, none⟩

def witnessSrc : Source := .snx [([97, 44, 98], witnessStation 7), ([97], witnessStation 8), ([98], witnessStation 9)]

/-- **the side condition is necessary**: for the list `["a,b"]` (not `Clean`) the module answers with
the entry of station `"a,b"` (tag 7) while the combined query answers `None` for the same station -/
theorem clean_needed :
    ¬ Clean [97, 44, 98] ∧
    [97, 44, 98] ∈ normStations (.list [[97, 44, 98]]) ∧
    (moduleGet .antenna witnessSrc (.list [[97, 44, 98]]) (some .last)).toOption.map (pick · [97, 44, 98])
      = some (.entry ⟨7, []⟩) ∧
    (((siteInfoGet witnessSrc (.list [[97, 44, 98]]) (some .last)).toOption.bind
        (dictGet? · [97, 44, 98])).bind (dictGet? · Module.antenna)) = some .none := by
  refine ⟨by unfold Clean; decide +kernel, by decide +kernel, by decide +kernel, by decide +kernel⟩

/-! ### The generated tables: the model's module list is the code's -/

def moduleName : Module → String
  | .antenna => "Antenna" | .eccentricity => "Eccentricity" | .identifier => "Identifier"
  | .receiver => "Receiver" | .siteCoord => "SiteCoord"

theorem modules_eq_source : modules.map moduleName = Generated.SiteInfoTables.modulesOrder := by
  decide +kernel

/-- every module registers a class for both file sources -/
theorem file_sources_registered :
    ∀ m ∈ Generated.SiteInfoTables.registry,
      (m.2.map (·.1)).contains "snx" = true ∧ (m.2.map (·.1)).contains "ssc" = true := by
  decide +kernel

/-- no registered history class replaces the shared lookup, no module replaces `get/get_history`:
the one `histGet`/`moduleGet` of the model stands for all of them -/
theorem shared_lookup_not_overridden :
    Generated.SiteInfoTables.lookupOverriddenBy = [] ∧
    Generated.SiteInfoTables.moduleGetOverriddenBy = [] := by
  decide +kernel

/-! ### The kinds of the `stations` argument: text, containers, one-shot iterables -/

/-- a one-shot iterable (generator, `map`/`filter` object, iterator, open file) gives the same combined answer as a
container with the same items: the argument is passed over exactly once -/
theorem stations_kind_irrelevant (src : Source) (l : List Str) (date : Option DateQ) (m : Module) :
    siteInfoGetArg src (.iter (.oneShot l)) date = siteInfoGetArg src (.iter (.reiterable l)) date ∧
    siteInfoGetHistoryArg src (.iter (.oneShot l)) = siteInfoGetHistoryArg src (.iter (.reiterable l)) ∧
    moduleGetArg m src (.iter (.oneShot l)) date = moduleGetArg m src (.iter (.reiterable l)) date ∧
    moduleGetHistoryArg m src (.iter (.oneShot l)) = moduleGetHistoryArg m src (.iter (.reiterable l)) :=
  ⟨rfl, rfl, rfl, rfl⟩

/-- **combined = modules for every kind of argument**: the combined query on the argument as given holds, for every
station it hands out and every module, the answer that module gives when asked with (a fresh copy of) the same
argument -/
theorem combined_eq_modules_arg (src : Source) (a : StationsArg) (date : Option DateQ)
    (all : List (Str × List (Module × Val))) (hall : siteInfoGetArg src a date = .ok all)
    (m : Module) (res : List (Str × Val)) (hres : moduleGetArg m src a (dateFor m date) = .ok res)
    (s : Str) (hs : s ∈ normStations a.once) (hclean : Clean s) :
    ∃ ms, dictGet? all s = some ms ∧ dictGet? ms m = some (pick res s) :=
  combined_eq_modules src a.once date all hall m res hres s hs hclean

/-- why the combined query must not hand the caller's iterable on to the modules: what is left of a one-shot iterable
after the first pass is empty, and a module asked with it answers with the empty dictionary — not with its answer
for the stations -/
theorem drained_one_shot_answers_nothing (src : Source) (l : List Str) (date : Option DateQ) (m : Module) :
    (Iterable.oneShot l).drain.2 = .oneShot [] ∧
    moduleGetArg m src (.iter (Iterable.oneShot l).drain.2) date = .ok [] ∧
    (Iterable.reiterable l).drain.2 = .reiterable l := by
  refine ⟨rfl, ?_, rfl⟩
  simp [moduleGetArg, StationsArg.once, Iterable.drain, moduleGet, normStations, collect]

example : (StationsArg.iter (.oneShot [[111, 115, 108, 115]])).once = .list [[111, 115, 108, 115]] := rfl

/-! ### Every registered history class has the shape the model gives it -/

/-- what the model takes each file-source history class to read: the SINEX classes read one block of the station's
source data each (`SiteCoord` two: the epochs give the intervals, the estimates the values) and key the history by the
record's `(date_from, date_to)` = the block's start/end fields with an empty value standing for ∓∞; of the SSC classes
only `SiteCoord` has a history, keyed by the `start`/`end` of the position/velocity records (`historyOf`).  Regenerated
from the source text of every registered history class on every run: a new module or source class, another block,
other date fields or another keying changes the table and this theorem no longer checks. -/
def modelShapes : List (String × String × String × List String × List String × List String × List String × Bool) := [
  ("Antenna", "snx", "AntennaHistorySinex", ["site_antenna"], ["AntennaSinex"], ["start_time"], ["end_time"], true),
  ("Antenna", "ssc", "AntennaHistorySsc", [], [], [], [], false),
  ("Eccentricity", "snx", "EccentricityHistorySinex", ["site_eccentricity"], ["EccentricitySinex"], ["start_time"], ["end_time"], true),
  ("Eccentricity", "ssc", "EccentricityHistorySsc", [], [], [], [], false),
  ("Receiver", "snx", "ReceiverHistorySinex", ["site_receiver"], ["ReceiverSinex"], ["start_time"], ["end_time"], true),
  ("Receiver", "ssc", "ReceiverHistorySsc", [], [], [], [], false),
  ("SiteCoord", "snx", "SiteCoordHistorySinex", ["solution_epochs", "solution_estimate"], ["SiteCoordSinex"], ["start_epoch"], ["end_epoch"], true),
  ("SiteCoord", "ssc", "SiteCoordHistorySsc", [], ["SiteCoordSsc"], ["start"], ["end"], true)]

/-- every registered history class of the file sources has the shape the model gives it; the only other source
registered is the web API `m3g` (outside the property) -/
theorem history_shapes :
    (Generated.SiteInfoTables.historyShapes.filter (fun r => r.2.1 ≠ "m3g") == modelShapes) = true ∧
    (Generated.SiteInfoTables.historyShapes.map (·.2.1)).eraseDups = ["m3g", "snx", "ssc"] ∧
    (Generated.SiteInfoTables.registry.flatMap (fun m => m.2.map (·.1))).eraseDups = ["m3g", "snx", "ssc"] := by
  refine ⟨?_, ?_, ?_⟩ <;> decide +kernel

/-! ### Histories of in-place updates of the source data and queries -/

/-- what a caller does with one source dictionary over time: replace its contents in place, or ask -/
inductive Step
  | update (src : Source)
  | moduleGet (m : Module) (a : StationsArg) (date : Option DateQ)
  | moduleHistory (m : Module) (a : StationsArg)
  | allGet (a : StationsArg) (date : Option DateQ)
  | allHistory (a : StationsArg)

inductive Answer
  | one (r : Except Err (List (Str × Val)))
  | all (r : Except Err (List (Str × List (Module × Val))))

/-- the answer of a query on given source data (`none` for an update) -/
def answerOn (cur : Source) : Step → Option Answer
  | .update _ => none
  | .moduleGet m a d => some (.one (moduleGetArg m cur a d))
  | .moduleHistory m a => some (.one (moduleGetHistoryArg m cur a))
  | .allGet a d => some (.all (siteInfoGetArg cur a d))
  | .allHistory a => some (.all (siteInfoGetHistoryArg cur a))

/-- the contents of the dictionary after a step -/
def contentsAfter (cur : Source) : Step → Source
  | .update s => s
  | _ => cur

def contentsAt (s0 : Source) (steps : List Step) : Source := steps.foldl contentsAfter s0

/-- the answers a history produces, in order -/
def answers : Source → List Step → List Answer
  | _, [] => []
  | cur, st :: t =>
    match answerOn cur st with
    | some a => a :: answers (contentsAfter cur st) t
    | none => answers (contentsAfter cur st) t

theorem answers_append (s0 : Source) (pre post : List Step) :
    answers s0 (pre ++ post) = answers s0 pre ++ answers (contentsAt s0 pre) post := by
  induction pre generalizing s0 with
  | nil => rfl
  | cons st t ih =>
    simp only [List.cons_append, answers, contentsAt, List.foldl_cons]
    cases answerOn s0 st with
    | none => exact ih _
    | some a => simp only [List.cons_append]; rw [ih]; rfl

/-- **every answer is a function of the source data as it is when the query is asked**: whatever updates and queries
came before (`pre`) and come after (`post`), the query `q` is answered as on the current contents — nothing is
remembered from earlier contents or earlier queries (the class of seeded change C18/r2-1) -/
theorem answer_of_current_contents (s0 : Source) (pre post : List Step) (q : Step) (a : Answer)
    (hq : answerOn (contentsAt s0 pre) q = some a) :
    answers s0 (pre ++ q :: post) = answers s0 pre ++ a :: answers (contentsAt s0 pre) post := by
  rw [answers_append]
  simp only [answers, hq]
  cases q with
  | update s => simp [answerOn] at hq
  | _ => rfl

/-- in particular: an update followed by a query answers as a fresh dictionary with the new contents does -/
theorem update_then_query (s0 s1 : Source) (pre : List Step) (m : Module) (a : StationsArg) (d : Option DateQ) :
    answers s0 (pre ++ [.update s1, .moduleGet m a d]) = answers s0 pre ++ answers s1 [.moduleGet m a d] := by
  rw [answers_append]; rfl

/-! ### `_create_history`: records with the same validity interval overwrite each other -/

/-- the last record of the source with the given `(date_from, date_to)` -/
def latest {ρ} (key : ρ → Interval) (rs : List ρ) (k : Interval) : Option ρ :=
  rs.reverse.find? (fun r => key r = k)

theorem latest_cons {ρ} (key : ρ → Interval) (r : ρ) (t : List ρ) (k : Interval) :
    latest key (r :: t) k = (latest key t k).orElse (fun _ => if key r = k then some r else none) := by
  simp only [latest, List.reverse_cons, List.find?_append]
  cases List.find? (fun r => decide (key r = k)) t.reverse with
  | some x => rfl
  | none => by_cases h : key r = k <;> simp [h]

theorem histGet_find {ε} (h : History ε) (d : Date) :
    histGet h d = (h.find? (fun p => contains p.1 d)).map (·.2) := by
  induction h with
  | nil => rfl
  | cons p t ih =>
    obtain ⟨k, e⟩ := p
    simp only [histGet, List.find?_cons]
    by_cases hc : contains k d = true
    · simp [hc]
    · simp [hc, ih]

/-- `history[k0] = v0` seen through the interval search -/
theorem dictSet_find {ε} (h : History ε) (k0 : Interval) (v0 : ε) (d : Date) :
    (dictSet h k0 v0).find? (fun p => contains p.1 d) =
      match h.find? (fun p => contains p.1 d) with
      | some p => some (p.1, if p.1 = k0 then v0 else p.2)
      | none => if contains k0 d then some (k0, v0) else none := by
  induction h with
  | nil => by_cases hc : contains k0 d = true <;> simp [dictSet, hc]
  | cons p t ih =>
    obtain ⟨k', v'⟩ := p
    by_cases hk : k' = k0
    · subst hk
      by_cases hc : contains k' d = true
      · simp [dictSet, hc]
      · simp only [dictSet, if_true, List.find?_cons, hc]
        cases hf : List.find? (fun p => contains p.1 d) t with
        | none => simp [hc]
        | some q =>
          have hq := List.find?_some hf
          have hne : q.1 ≠ k' := by intro e; rw [e] at hq; exact hc hq
          simp [hne]
    · by_cases hc : contains k' d = true
      · simp [dictSet, hk, hc]
      · simp only [dictSet, hk, if_false, List.find?_cons, hc]
        exact ih

/-- the interval search over the dictionary `_create_history` builds, started from a dictionary `h` -/
theorem createHistory_find {ρ} (key : ρ → Interval) (rs : List ρ) (h : History ρ) (d : Date) :
    (createHistory key rs h).find? (fun p => contains p.1 d) =
      match h.find? (fun p => contains p.1 d) with
      | some p => some (p.1, (latest key rs p.1).getD p.2)
      | none => (rs.find? (fun r => contains (key r) d)).bind
          (fun r0 => (latest key rs (key r0)).map (fun r => (key r0, r))) := by
  induction rs generalizing h with
  | nil =>
    simp only [createHistory, latest, List.reverse_nil, List.find?_nil, Option.getD_none, Option.bind_none]
    cases hf : List.find? (fun p => contains p.1 d) h <;> rfl
  | cons r t ih =>
    simp only [createHistory]
    rw [ih, dictSet_find]
    cases hf : List.find? (fun p => contains p.1 d) h with
    | some p =>
      simp only [latest_cons]
      by_cases hk : p.1 = key r
      · cases latest key t p.1 <;> simp [hk, Option.orElse]
      · have hk' : ¬ key r = p.1 := fun e => hk e.symm
        cases latest key t p.1 <;> simp [hk, hk', Option.orElse]
    | none =>
      simp only [List.find?_cons]
      by_cases hc : contains (key r) d = true
      · simp only [hc, if_true, Option.bind_some, latest_cons]
        cases latest key t (key r) <;> simp [Option.orElse]
      · simp only [hc]
        cases hft : List.find? (fun r => contains (key r) d) t with
        | none => rfl
        | some r0 =>
          have hr0 := List.find?_some hft
          have hne : ¬ key r = key r0 := by intro e; rw [← e] at hr0; exact hc hr0
          simp only [Bool.false_eq_true, if_false, Option.bind_some, latest_cons, hne]
          cases latest key t (key r0) <;> simp [Option.orElse]

/-- **the interval search, exactly**: the answer for a date is found by taking the first record of the source (in source
order) whose `[date_from, date_to)` contains the date, and then the *last* record of the source with that same
`(date_from, date_to)` — records with equal start *and* end overwrite each other in `history[(date_from, date_to)] = …`
(the later one wins, at the position of the earlier one); records with equal start but different ends are different keys
and the earlier one in source order answers -/
theorem lookup_exact {ρ} (key : ρ → Interval) (rs : List ρ) (d : Date) :
    histGet (createHistory key rs []) d =
      (rs.find? (fun r => contains (key r) d)).bind (fun r0 => latest key rs (key r0)) := by
  rw [histGet_find, createHistory_find]
  simp only [List.find?_nil]
  cases rs.find? (fun r => contains (key r) d) with
  | none => rfl
  | some r0 => simp only [Option.bind_some]; cases latest key rs (key r0) <;> rfl

/-- what is stored under an interval is the last record of the source with that interval -/
theorem lookup_overwrite {ρ} (key : ρ → Interval) (pre mid post : List ρ) (a b : ρ) (d : Date)
    (hab : key a = key b) (hw : contains (key a) d = true)
    (hpre : ∀ r ∈ pre, contains (key r) d = false) (hpost : ∀ r ∈ post, key r ≠ key a) :
    histGet (createHistory key (pre ++ a :: mid ++ b :: post) []) d = some b := by
  rw [lookup_exact]
  have h1 : (pre ++ a :: mid ++ b :: post).find? (fun r => contains (key r) d) = some a := by
    simp only [List.append_assoc, List.cons_append, List.find?_append]
    have : pre.find? (fun r => contains (key r) d) = none := by
      rw [List.find?_eq_none]; intro x hx; simp [hpre x hx]
    simp [this, hw]
  rw [h1]
  simp only [Option.bind_some, latest, List.reverse_append, List.reverse_cons, List.append_assoc, List.find?_append]
  have : post.reverse.find? (fun r => decide (key r = key b)) = none := by
    rw [List.find?_eq_none]; intro x hx; simp [hab ▸ hpost x (List.mem_reverse.1 hx)]
  simp [this, hab]

/-! ### SSC coordinates: a hole between two solutions stays a hole -/

/-- the date is not inside the record's `[start, end)`: before the start, or at / after a closed end -/
def Outside (r : Raw) (d : Date) : Prop :=
  d < openFrom r.start ∨ (openTo r.stop ≤ d ∧ openTo r.stop ≠ dmax)

theorem not_within_of_outside (r : Raw) (d : Date) (h : Outside r d) : ¬ Within r.key d := by
  intro hw
  simp only [Within, Raw.key] at hw
  rcases h with h | ⟨h1, h2⟩
  · omega
  · rcases hw.2 with h3 | h3
    · omega
    · exact h2 h3

/-- **`ssc_holes_preserved`**: a date that lies in none of the `[DATA_START, DATA_END)` of the station's solutions is
answered with `None` by `SiteCoord.get("ssc", …)` — the validity of a solution ends at its own DATA_END, whatever
solution follows and however soon -/
theorem ssc_holes_preserved (dd : List (Str × SscStation)) (station : Str) (st : SscStation) (d : Date)
    (hne : dd ≠ []) (hst : findKey dd station = some st)
    (hhole : ∀ p ∈ st.posvel, Outside p.2 d) :
    moduleGet1 .siteCoord (.ssc dd) station (some (.at d)) = .ok .none := by
  rw [ssc_siteCoord_get dd station st d hne hst]
  simp only [answerOf]
  rw [lookup_none Raw.key (st.posvel.map (·.2)) d]
  intro r hr
  obtain ⟨p, hp, rfl⟩ := List.mem_map.1 hr
  exact not_within_of_outside p.2 d (hhole p hp)

/-- in particular the gap between the DATA_END `e` of one solution and the DATA_START `s` of the next, for every length
of the gap (the 30 s between `yy:ddd:86370` and `yy:ddd+1:00000` of real SSC files included), the end instant itself
included: every solution either has ended by `e` or starts at `s` or later -/
theorem ssc_gap_is_hole (dd : List (Str × SscStation)) (station : Str) (st : SscStation) (d e s : Date)
    (hne : dd ≠ []) (hst : findKey dd station = some st) (he : e ≤ d) (hs : d < s)
    (hsplit : ∀ p ∈ st.posvel, (openTo p.2.stop ≤ e ∧ openTo p.2.stop ≠ dmax) ∨ s ≤ openFrom p.2.start) :
    moduleGet1 .siteCoord (.ssc dd) station (some (.at d)) = .ok .none := by
  apply ssc_holes_preserved dd station st d hne hst
  intro p hp
  rcases hsplit p hp with ⟨h1, h2⟩ | h
  · exact Or.inr ⟨by omega, h2⟩
  · exact Or.inl (by omega)

/-- the combined query holds the same `None` (combined = modules) — stated on the model's executable functions for a
station with two solutions 30 s apart: dates at the end, inside the gap and one microsecond before the next start -/
example :
    let src : Source := .ssc [([122, 105, 109, 109], ⟨1, [(1, ⟨some 1000000000, some 86370000000, 11⟩),
                                                          (2, ⟨some 86400000000, none, 12⟩)]⟩)]
    [86369999999, 86370000000, 86385000000, 86399999999, 86400000000].map
      (fun d => (moduleGet1 .siteCoord src [122, 105, 109, 109] (some (.at d))).toOption) =
    [some (.entry ⟨11, []⟩), some .none, some .none, some .none, some (.entry ⟨12, []⟩)] := by decide +kernel

/-! ### Non-vacuity -/

example : histGet [((0, 10), 1), ((10, 20), 2)] 10 = some 2 := by decide +kernel
example : histGet [((0, 10), 1), ((12, 20), 2)] 11 = none := by decide +kernel
example : histGet [((5, dmax), 1)] dmax = some 1 := by decide +kernel
example : (histLast [((0, 10), 1), ((10, 20), 2), ((3, 4), 3)]).map (·.2) = some 2 := by decide +kernel
example : normStations (.text [79, 83, 76, 83, 44, 32, 97, 98]) = [[111, 115, 108, 115], [97, 98]] := by
  decide +kernel

end Midgard.Props.C18

#print axioms Midgard.Props.C18.contains_iff
#print axioms Midgard.Props.C18.get_sound
#print axioms Midgard.Props.C18.get_complete
#print axioms Midgard.Props.C18.get_none_iff
#print axioms Midgard.Props.C18.get_unique
#print axioms Midgard.Props.C18.mem_dictSet
#print axioms Midgard.Props.C18.dictSet_has_key
#print axioms Midgard.Props.C18.dictSet_keeps_keys
#print axioms Midgard.Props.C18.createHistory_mem
#print axioms Midgard.Props.C18.createHistory_keys
#print axioms Midgard.Props.C18.lookup_sound
#print axioms Midgard.Props.C18.lookup_complete
#print axioms Midgard.Props.C18.lookup_none
#print axioms Midgard.Props.C18.pairwise_mem_cases
#print axioms Midgard.Props.C18.lookup_unique
#print axioms Midgard.Props.C18.keyLe_total
#print axioms Midgard.Props.C18.keyLe_trans
#print axioms Midgard.Props.C18.keyLe_refl
#print axioms Midgard.Props.C18.last_is_max
#print axioms Midgard.Props.C18.last_latest_start
#print axioms Midgard.Props.C18.last_none_iff
#print axioms Midgard.Props.C18.open_ended
#print axioms Midgard.Props.C18.lowerC_upperC
#print axioms Midgard.Props.C18.lowerC_idem
#print axioms Midgard.Props.C18.lower_idem
#print axioms Midgard.Props.C18.list_case_insensitive
#print axioms Midgard.Props.C18.lower_upper
#print axioms Midgard.Props.C18.dictGet_mem
#print axioms Midgard.Props.C18.dictGet_isSome
#print axioms Midgard.Props.C18.dictGet_of_functional
#print axioms Midgard.Props.C18.collect_spec
#print axioms Midgard.Props.C18.module_result
#print axioms Midgard.Props.C18.siteModules_spec
#print axioms Midgard.Props.C18.siteCollect_spec
#print axioms Midgard.Props.C18.combined_eq_modules
#print axioms Midgard.Props.C18.combined_history_eq_modules
#print axioms Midgard.Props.C18.query_pure
#print axioms Midgard.Props.C18.ssc_pop_breaks_second_query
#print axioms Midgard.Props.C18.splitComma_ne_nil
#print axioms Midgard.Props.C18.splitComma_nocomma
#print axioms Midgard.Props.C18.splitComma_append
#print axioms Midgard.Props.C18.split_join
#print axioms Midgard.Props.C18.list_eq_commatext
#print axioms Midgard.Props.C18.upperC_comma
#print axioms Midgard.Props.C18.isBlank_upperC
#print axioms Midgard.Props.C18.splitComma_map
#print axioms Midgard.Props.C18.dropWhile_map_blank
#print axioms Midgard.Props.C18.strip_map
#print axioms Midgard.Props.C18.text_case_insensitive
#print axioms Midgard.Props.C18.dropWhile_twice
#print axioms Midgard.Props.C18.rstrip_idem
#print axioms Midgard.Props.C18.rstrip_prefix
#print axioms Midgard.Props.C18.lstrip_head
#print axioms Midgard.Props.C18.lstrip_of_prefix
#print axioms Midgard.Props.C18.strip_idem
#print axioms Midgard.Props.C18.splitComma_pieces
#print axioms Midgard.Props.C18.lowerC_comma
#print axioms Midgard.Props.C18.isBlank_lowerC
#print axioms Midgard.Props.C18.strip_subset
#print axioms Midgard.Props.C18.pieces_clean
#print axioms Midgard.Props.C18.combined_eq_modules_text
#print axioms Midgard.Props.C18.modules_eq_source
#print axioms Midgard.Props.C18.file_sources_registered
#print axioms Midgard.Props.C18.shared_lookup_not_overridden
#print axioms Midgard.Props.C18.histGet_map
#print axioms Midgard.Props.C18.ssc_siteCoord_get
#print axioms Midgard.Props.C18.answerOf_spec
#print axioms Midgard.Props.C18.ssc_no_information
#print axioms Midgard.Props.C18.snx_antenna_get
#print axioms Midgard.Props.C18.snx_receiver_get
#print axioms Midgard.Props.C18.snx_eccentricity_get
#print axioms Midgard.Props.C18.snx_siteCoord_get
#print axioms Midgard.Props.C18.snx_siteCoord_none
#print axioms Midgard.Props.C18.combine_keys
#print axioms Midgard.Props.C18.ssc_siteCoord_last
#print axioms Midgard.Props.C18.clean_of_plain
#print axioms Midgard.Props.C18.combined_eq_modules_list
#print axioms Midgard.Props.C18.clean_needed
#print axioms Midgard.Props.C18.stations_kind_irrelevant
#print axioms Midgard.Props.C18.combined_eq_modules_arg
#print axioms Midgard.Props.C18.drained_one_shot_answers_nothing
#print axioms Midgard.Props.C18.history_shapes
#print axioms Midgard.Props.C18.answers_append
#print axioms Midgard.Props.C18.answer_of_current_contents
#print axioms Midgard.Props.C18.update_then_query
#print axioms Midgard.Props.C18.latest_cons
#print axioms Midgard.Props.C18.histGet_find
#print axioms Midgard.Props.C18.dictSet_find
#print axioms Midgard.Props.C18.createHistory_find
#print axioms Midgard.Props.C18.lookup_exact
#print axioms Midgard.Props.C18.lookup_overwrite
#print axioms Midgard.Props.C18.not_within_of_outside
#print axioms Midgard.Props.C18.ssc_holes_preserved
#print axioms Midgard.Props.C18.ssc_gap_is_hole
