/-
C15 — ANTEX antenna files are parsed into exactly the calibrations they contain.
(property theorems; work in progress)
-/
import Midgard.Model.Antex
import Midgard.Spec.Antex14

namespace Midgard.Props.C15
open Midgard.Text Midgard.FixedCol Midgard.ChainParser Midgard.Antex

/-- every column the parser reads is a column of the ANTEX 1.4 record with that label -/
def colsInSpec (d : LabelDef) : Bool :=
  d.label == "CORRECTION" ||
  match Midgard.Spec.Antex14.findLabel d.label with
  | some sp => d.fields.all (fun f => sp.layout.contains f) && d.openFields.isEmpty
  | none => false

theorem cols_eq_spec :
    Midgard.Generated.AntexCols.header.all colsInSpec = true ∧
    Midgard.Generated.AntexCols.records.all colsInSpec = true := by
  decide +kernel

end Midgard.Props.C15

#print axioms Midgard.Props.C15.cols_eq_spec
