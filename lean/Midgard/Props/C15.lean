/-
C15 — ANTEX antenna files are parsed into exactly the calibrations they contain.

Property theorems about `Model/Antex.lean` (the model of the repaired parser), the generated
column tables `Generated/AntexCols.lean` and the ANTEX 1.4 layouts `Spec/Antex14.lean`.
Numbers are the exact rationals of the printed decimals; double rounding is measured by the
correspondence (harness/c15.py), not proved.
-/
import Midgard.Model.Antex
import Midgard.Spec.Antex14
import Midgard.Proofs.ChainParser
import Midgard.Proofs.AntexRecords
import Midgard.Proofs.AntexRound
import Midgard.Proofs.AntexCore

namespace Midgard.Props.C15
open Midgard.Text Midgard.FixedCol Midgard.ChainParser Midgard.Antex Midgard.Decimal
open Midgard.Spec.Antex14 (RecSpec specs renderLabelled findLabel)
open Midgard.Antex.Records (colsInSpec specOk IsRow IsNoazi corrStep SecItem rowsOf runSection)

/-! ### The code's column tables are the standard's -/

theorem cols_eq_spec :
    Midgard.Generated.AntexCols.header.all colsInSpec = true ∧
    Midgard.Generated.AntexCols.records.all colsInSpec = true := by
  first
    | exact Records.cols_eq_spec ..
    | (apply Records.cols_eq_spec <;> assumption)

/-- the handler registered for every label is the one the model dispatches to; in particular the
rows are reset at START OF FREQUENCY and saved at END OF FREQUENCY -/
theorem handlers_as_modelled :
    Midgard.Generated.AntexCols.records.map (fun d => (d.label, d.handler)) =
      [("TYPE / SERIAL NO", "parse_section_string"), ("DAZI", "parse_section_float"),
       ("ZEN1 / ZEN2 / DZEN", "parse_section_float"), ("# OF FREQUENCIES", "parse_num_of_frequencies"),
       ("VALID FROM", "parse_valid_from"), ("VALID UNTIL", "parse_valid_until"),
       ("START OF FREQUENCY", "parse_start_of_frequency"), ("NORTH / EAST / UP", "parse_section_float"),
       ("END OF FREQUENCY", "save_correction"), ("CORRECTION", "parse_correction")] ∧
    Midgard.Generated.AntexCols.header.map (fun d => (d.label, d.handler)) =
      [("ANTEX VERSION / SYST", "parse_string"), ("PCV TYPE / REFANT", "parse_string"), ("COMMENT", "parse_comment")] ∧
    (Midgard.Generated.AntexCols.records.find? (·.label == "CORRECTION")).map (fun d => (d.fields, d.openFields)) =
      some ([], [("values", 0)]) := by
  first
    | exact Records.handlers_as_modelled ..
    | (apply Records.handlers_as_modelled <;> assumption)

/-! ### Per-record round trip (fixed columns + label) -/

theorem specs_ok : specs.all specOk = true := by
  first
    | exact Records.specs_ok ..
    | (apply Records.specs_ok <;> assumption)

/-- **Record round trip.**  A record of any ANTEX 1.4 kind whose cells fit their columns and have no
outer blanks is read back cell by cell from the (right-stripped) rendered line, and its label is
recognised by the header parser and by the antenna-section parser. -/
theorem record_roundtrip (sp : RecSpec) (hsp : sp ∈ specs) (cells : List Str)
    (hlen : cells.length = sp.layout.length) (hf : Fits sp.layout (sp.aligns.zip cells) = true) :
    sp.layout.map (fun f => slice f (rstrip (renderLabelled sp cells))) = cells ∧
    labelText (rstrip (renderLabelled sp cells)) = sp.label ∧
    corrLabel (rstrip (renderLabelled sp cells)) = sp.label := by
  first
    | exact Records.record_roundtrip ..
    | (apply Records.record_roundtrip <;> assumption)

/-! ### Records the parser does not read (COMMENT, METH / BY / # / DATE, SINEX CODE, START OF ANTENNA,
FREQ RMS brackets …) leave the state untouched wherever they stand in an antenna section -/

theorem rstrip_ne_nil_of_label (sp : RecSpec) (hsp : sp ∈ specs) (cells : List Str) :
    (rstrip (renderLabelled sp cells)).isEmpty = false := by
  first
    | exact Records.rstrip_ne_nil_of_label ..
    | (apply Records.rstrip_ne_nil_of_label <;> assumption)

theorem comments_ignored (sp : RecSpec) (hsp : sp ∈ specs) (cells : List Str)
    (hlen : cells.length = sp.layout.length) (hf : Fits sp.layout (sp.aligns.zip cells) = true)
    (hunread : Midgard.Generated.AntexCols.records.find? (·.label == sp.label) = none)
    (n : Nat) (s : State) :
    parseLine corrParser (rstrip (renderLabelled sp cells)) n s = .ok s := by
  first
    | exact Records.comments_ignored ..
    | (apply Records.comments_ignored <;> assumption)

/-- the labels this applies to, on the current tables -/
theorem unread_labels :
    (specs.filter fun sp => (Midgard.Generated.AntexCols.records.find? (·.label == sp.label)).isNone).map (·.label) =
      ["ANTEX VERSION / SYST", "PCV TYPE / REFANT", "COMMENT", "END OF HEADER", "START OF ANTENNA", "END OF ANTENNA",
       "METH / BY / # / DATE", "SINEX CODE", "START OF FREQ RMS", "END OF FREQ RMS"] := by
  first
    | exact Records.unread_labels ..
    | (apply Records.unread_labels <;> assumption)

/-! ### The per-antenna cache across frequency sections -/

theorem req_some {α} (a : α) : req (some a) = .ok a := by
  first
    | exact Records.req_some ..
    | (apply Records.req_some <;> assumption)

theorem corrStep_row {c : Cache} {line : Str} {nums : List Rat} (h : IsRow line nums) :
    corrStep c line = .ok { c with azi := some (c.azi.getD [] ++ [nums]) } := by
  first
    | exact Records.corrStep_row ..
    | (apply Records.corrStep_row <;> assumption)

theorem corrStep_noazi {c : Cache} {line : Str} {nums : List Rat} (h : IsNoazi line nums) :
    corrStep c line = .ok { c with noazi := some nums } := by
  first
    | exact Records.corrStep_noazi ..
    | (apply Records.corrStep_noazi <;> assumption)

theorem section_azi (items : List SecItem) :
    ∀ (c : Cache), (∀ i ∈ items, i.Ok) →
      ∃ c', runSection c items = .ok c' ∧
        c'.azi = (if rowsOf items = [] then c.azi else some (c.azi.getD [] ++ rowsOf items)) := by
  first
    | exact Records.section_azi ..
    | (apply Records.section_azi <;> assumption)

/-- **freq_isolated.**  Whatever the cache held before (any history of earlier frequency sections,
RMS blocks, comments …), after `START OF FREQUENCY` and the lines of section k the azimuth rows in
the cache — which `save_correction` stores as `azi` of frequency k — are exactly the rows of
section k, in file order; with `nAzi` rows of `nZen` values each that is an `nAzi × nZen` array. -/
theorem freq_isolated (c0 : Cache) (v : Values) (items : List SecItem) (hok : ∀ i ∈ items, i.Ok) :
    ∃ c', runSection (parseStartOfFrequency v c0) items = .ok c' ∧
      c'.azi = (if rowsOf items = [] then none else some (rowsOf items)) ∧
      ∀ fc, freqCorr c' = .ok fc → fc.azi = (if rowsOf items = [] then none else some (rowsOf items)) := by
  first
    | exact Records.freq_isolated ..
    | (apply Records.freq_isolated <;> assumption)

theorem grid_size (rows : List (List Rat)) (nAzi nZen : Nat) (hr : rows.length = nAzi)
    (hc : ∀ r ∈ rows, r.length = nZen) : rows.flatten.length = nAzi * nZen := by
  first
    | exact Records.grid_size ..
    | (apply Records.grid_size <;> assumption)

/-! ### Offsets: millimetres to metres -/

theorem neu_scaled (c : Cache) (fc : FreqCorr) (h : freqCorr c = .ok fc) :
    ∃ n e u, c.north = some n ∧ c.east = some e ∧ c.up = some u ∧
      fc.neu = [n / 1000, e / 1000, u / 1000] ∧ c.noazi = some fc.noazi := by
  first
    | exact Records.neu_scaled ..
    | (apply Records.neu_scaled <;> assumption)

/-! ### Grids from DAZI and ZEN1 / ZEN2 / DZEN -/

theorem roundHalfEven_int (n : Int) : roundHalfEven (n : Rat) = n := by
  first
    | exact Records.roundHalfEven_int ..
    | (apply Records.roundHalfEven_int <;> assumption)

theorem gridCount_nat (n : Nat) : gridCount (n : Rat) = n + 1 := by
  first
    | exact Records.gridCount_nat ..
    | (apply Records.gridCount_nat <;> assumption)

/-- a zenith grid ZEN1, ZEN1+DZEN, …, ZEN2 with `n+1` angles gives the `n+1` elevations 90 − ZEN1 − k·DZEN -/
theorem elevation_grid (z1 dz : Rat) (n : Nat) (hdz : dz ≠ 0) :
    elevationGrid z1 (z1 + (n : Rat) * dz) dz = (List.range (n + 1)).map fun (k : Nat) => 90 - z1 - dz * (k : Rat) := by
  first
    | exact Records.elevation_grid ..
    | (apply Records.elevation_grid <;> assumption)

/-- DAZI dividing the circle into `n` steps gives the `n+1` azimuths k·DAZI, 0 … 360 -/
theorem azimuth_grid (dazi : Rat) (n : Nat) (hd : dazi ≠ 0) (h : (n : Rat) * dazi = 360) :
    azimuthGrid dazi = (List.range (n + 1)).map fun (k : Nat) => dazi * (k : Rat) := by
  first
    | exact Records.azimuth_grid ..
    | (apply Records.azimuth_grid <;> assumption)

/-! ### Validity dates -/

theorem roundHalfEven_near (x : Rat) :
    ((roundHalfEven x : Int) : Rat) - x ≤ 1 / 2 ∧ x - ((roundHalfEven x : Int) : Rat) ≤ 1 / 2 := by
  first
    | exact Records.roundHalfEven_near ..
    | (apply Records.roundHalfEven_near <;> assumption)

/-- the parsed instant is the printed minute plus the printed seconds, to half a microsecond
(the resolution of `datetime`) -/
theorem valid_dates (mins : Int) (q : Rat) :
    ((validMicros mins q : Int) : Rat) - ((mins : Rat) * 60000000 + q * 1000000) ≤ 1 / 2 ∧
    ((mins : Rat) * 60000000 + q * 1000000) - ((validMicros mins q : Int) : Rat) ≤ 1 / 2 := by
  first
    | exact Records.valid_dates ..
    | (apply Records.valid_dates <;> assumption)

/-- … and exactly so when the printed seconds are whole microseconds (0.0000000, 59.000000, …) -/
theorem valid_dates_exact (mins k : Int) :
    validMicros mins ((k : Rat) / 1000000) = mins * 60000000 + k := by
  first
    | exact Records.valid_dates_exact ..
    | (apply Records.valid_dates_exact <;> assumption)

/-! ### Each receiver antenna frequency and each satellite validity period once -/

theorem receiver_frequency_once (s : State) (ant freq : Str)
    (hsat : s.cache.satCode = some []) (hant : s.cache.antennaType = some ant)
    (hfreq : s.cache.freqCode = some freq)
    (hdup : dictHas ((dictGet s.data ant).getD []) (Key.str freq) = true) :
    ∀ s', saveCorrection s ≠ .ok s' := by
  first
    | exact Records.receiver_frequency_once ..
    | (apply Records.receiver_frequency_once <;> assumption)

theorem satellite_period_once (s : State) (sc ant : Str) (dt : Int)
    (hsat : s.cache.satCode = some sc) (hsc : sc ≠ []) (hant : s.cache.antennaCode = some ant)
    (hdt : s.cache.validFrom = some dt) (hfirst : s.cache.counter = some 0)
    (hdup : dictHas ((dictGet s.data ant).getD []) (Key.date dt) = true) :
    ∀ s', saveCorrection s ≠ .ok s' := by
  first
    | exact Records.satellite_period_once ..
    | (apply Records.satellite_period_once <;> assumption)

/-! ### File level

`FileM` (`Spec/AntexFile.lean`) is an ANTEX file as data: header records and comments; antenna sections (receiver or
satellite, any number of validity periods per PRN) with TYPE / SERIAL NO, DAZI, ZEN1 / ZEN2 / DZEN, # OF FREQUENCIES,
optional VALID FROM / VALID UNTIL, frequency sections (offsets, NOAZI row, azimuth rows), each optionally followed by
its `START OF FREQ RMS … END OF FREQ RMS` section, further rms sections after the last frequency section; and lines the
parser does not read (COMMENT, METH / BY / # / DATE, SINEX CODE, blank) in front of any record of an antenna section
and after the last antenna.  `render F` is the file text (ANTEX 1.4 layouts of `Spec/Antex14.lean`), `F.wf` a
decidable well-formedness (cells printable, without outer blanks and fitting their columns; number cells denote
their values; printed dates exist; row values leave a blank in their 8 columns), and `calibrations F` what the file
says: the header fields, and for every antenna in order every frequency stored by `save_correction` from a cache
that holds the antenna's own records and the offsets / NOAZI row / azimuth rows of *that frequency section alone*. -/

open Midgard.Spec.AntexFile in
/-- **file_roundtrip.**  For every well-formed abstract ANTEX file `F`, the parser model (ChainParser `read_data` over
the header parser and the repeated antenna-section parser, all handlers, the per-antenna cache) applied to the
rendered text returns exactly what the file says — also when that is "refused" (a repeated receiver frequency or
satellite validity period: both sides are the same `ParserError`). -/
theorem file_roundtrip (F : FileM) (hwf : F.wf = true) : parseText (render F) = calibrations F := by
  first
    | exact File.file_roundtrip ..
    | (apply File.file_roundtrip <;> assumption)

open Midgard.Spec.AntexFile in
/-- **which characters end a line.**  `read_data` iterates the text-mode file object (`Model/TextLines.lean`): the
lines it sees for a rendered well-formed file are exactly the rendered records — a free-text cell (COMMENT, METH,
SINEX CODE …) may contain form feed, vertical tab, FS/GS/RS, NEL, U+2028/9 (where `str.splitlines()` would cut) and
still stays one line; `FileM.wf` only excludes `\n` and `\r` -/
theorem lines_of_rendered_file (F : FileM) (hwf : F.wf = true) :
    Midgard.TextLines.textLines (render F) = Midgard.Spec.AntexFile.fileLines F :=
  File.fileLines_joinLines _ (File.nonl_file F hwf)

/-- a line ends at `\n` / `\r` and nowhere else: a text without these two characters, closed by a newline, is one line -/
theorem only_newline_and_cr_end_a_line (l : Str) (h : ∀ c ∈ l, Midgard.TextLines.isLineEnd c = false) :
    Midgard.TextLines.textLines (l ++ ['\n']) = [l] := by
  have := File.fileLines_joinLines [l] (by intro x hx; rw [List.mem_singleton.mp hx]; exact h)
  simpa [Midgard.Spec.AntexFile.joinLines] using this

/-- every character on which `str.splitlines()` and text-mode iteration differ stays inside its line -/
example : (Midgard.TextLines.splitlinesOnlyCodes.map Char.ofNat).all
    (fun c => Midgard.TextLines.isSplitlinesOnly c && !Midgard.TextLines.isLineEnd c &&
      decide (Midgard.TextLines.textLines ("ROBOT".toList ++ c :: "PAGE 2\n".toList) = ["ROBOT".toList ++ c :: "PAGE 2".toList])) = true := by
  decide +kernel

/-- `\r\n` is one line end, `\r` alone is one -/
example : Midgard.TextLines.textLines "a\r\nb\rc\n\nd".toList = ["a".toList, "b".toList, "c".toList, [], "d".toList] := by
  decide +kernel

open Midgard.Spec.AntexFile in
/-- rms sections (wherever they stand) and unread lines contribute nothing: what the file says is what the file
without them says -/
theorem rms_and_unread_lines_contribute_nothing (F : FileM) :
    calibrations F = calibrations (File.FileM.core F) := by
  first
    | exact (File.calibrations_core ..).symm
    | (apply Eq.symm; apply File.calibrations_core)

open Midgard.Spec.AntexFile in
/-- … so a well-formed file parses to the same result as the file stripped of its rms sections, comments, METH /
SINEX CODE records and blank lines -/
theorem parse_eq_parse_core (F : FileM) (hwf : F.wf = true) (hwf' : (File.FileM.core F).wf = true) :
    parseText (render F) = parseText (render (File.FileM.core F)) := by
  rw [File.file_roundtrip F hwf, File.file_roundtrip _ hwf', File.calibrations_core]

open Midgard.Spec.AntexFile in
/-- **antenna section through `read_data`**: from any state with an empty cache, the lines of one well-formed antenna
section (records, rms sections, unread lines) are consumed as one group; exactly `storeAntenna` is stored and reading
goes on with an empty cache and line number 0 -/
theorem antenna_section (a : AntM) (ha : a.wf = true) (more : List Str) (s : State) (hc : s.cache = {}) (n : Nat) :
    readData headerParser corrParser resetCache (antennaLines a ++ more) false n s =
      match storeAntenna a s with
      | .error e => .error e
      | .ok s' => readData headerParser corrParser resetCache more false 0 s' := by
  first
    | exact File.antenna_group ..
    | (apply File.antenna_group <;> assumption)

/-- a satellite antenna with two frequencies (azimuth rows), an rms section between them, a comment (containing a form
feed and U+2028, where `str.splitlines()` would cut) and a METH record inside the section, VALID UNTIL …59.9999999 -/
def tinyModel : Midgard.Spec.AntexFile.FileM :=
  let n (t : String) (v : Rat) : Midgard.Spec.AntexFile.NumCell := ⟨t.toList, v⟩
  let i (t : String) (v : Int) : Midgard.Spec.AntexFile.IntCell := ⟨t.toList, v⟩
  let body (bt : String) (b : Rat) : Midgard.Spec.AntexFile.SecM :=
    ⟨n "279.00" 279, n "0.00" 0, n "2319.50" (4639 / 2), [n "-0.80" (-4 / 5), n "-0.90" (-9 / 10)],
     [("0.0".toList, [n "1.00" 1, n "2.00" 2]), ("180.0".toList, [n "3.00" 3, n "4.00" 4]),
      ("360.0".toList, [n "5.00" 5, n bt b])]⟩
  { version := "1.4".toList, satSys := "M".toList, pcvType := "A".toList, refAntenna := [], refSerial := [],
    comments1 := [], comments2 := ["  rendered from a model".toList],
    antennas := [
      { typ := "BLOCK IIA".toList, code := "G01".toList, satCode := "G032".toList, cospar := "1992-079A".toList,
        dazi := n "180.0" 180, zen1 := n "0.0" 0, zen2 := n "1.0" 1, dzen := n "1.0" 1, numFreq := "2".toList,
        validFrom := some ⟨i "1992" 1992, i "11" 11, i "22" 22, i "0" 0, i "0" 0, n "0.0000000" 0, 1047633120⟩,
        validUntil := some ⟨i "2008" 2008, i "10" 10, i "16" 16, i "23" 23, i "59" 59, n "59.9999999" (599999999 / 10000000),
                            1055996639⟩,
        freqs := [⟨"G01".toList, body "6.00" 6, some (body "7.00" 7)⟩, ⟨"G02".toList, body "8.00" 8, none⟩],
        rmsAfter := [("G02".toList, body "9.00" 9)],
        deco := [[], [], [.meth "ROBOT".toList "Geo++ GmbH".toList "1".toList "29-JAN-17".toList], [], [.comment " ROBOT\x0cPAGE 2 \u2028 (form feed and U+2028 inside)".toList]] }],
    trailer := [.blank, .comment "end".toList] }

example : tinyModel.wf = true := by decide +kernel

/-- the hypotheses of `file_roundtrip` are satisfiable, and on this file the second frequency holds its own three
rows although an rms section with azimuth rows stands in front of it -/
example : (match Midgard.Spec.AntexFile.calibrations tinyModel with
    | .ok s =>
      (match dictGet s.data "G01".toList with
       | some [(_, .entry e)] =>
         (match dictGet e "G02".toList with
          | some (.freq f) => f.azi
          | _ => none)
       | _ => none)
    | .error _ => none) = some [[1, 2], [3, 4], [5, 8]] := by decide +kernel

/-! ### Non-vacuity and a worked file (record level) -/

example : Fits Midgard.Spec.Antex14.validLayout
    ([Align.right, .right, .right, .right, .right, .right].zip
      ["2008".toList, "10".toList, "16".toList, "23".toList, "59".toList, "59.9999999".toList]) = true := by
  decide +kernel

example : (corrStep {} "    5.0   +0.00   -0.26".toList).toOption.map (·.azi) = some (some [[0, -26 / 100]]) := by
  decide +kernel

/-- two frequencies with two azimuth rows each: the second frequency holds its own two rows only, the
satellite period ends at 2008-10-17T00:00 (printed 2008-10-16 23:59 59.9999999) -/
def tinyFile : List Str := [
  "     1.4            M                                       ANTEX VERSION / SYST",
  "A                                                           PCV TYPE / REFANT",
  "                                                            END OF HEADER",
  "                                                            START OF ANTENNA",
  "BLOCK IIA           G01                 G032      1992-079A TYPE / SERIAL NO",
  "   180.0                                                    DAZI",
  "     0.0   1.0   1.0                                        ZEN1 / ZEN2 / DZEN",
  "     2                                                      # OF FREQUENCIES",
  "  1992    11    22     0     0    0.0000000                 VALID FROM",
  "  2008    10    16    23    59   59.9999999                 VALID UNTIL",
  "   G01                                                      START OF FREQUENCY",
  "    279.00      0.00   2319.50                              NORTH / EAST / UP",
  "   NOAZI   -0.80   -0.90",
  "     0.0    1.00    2.00",
  "   180.0    3.00    4.00",
  "   360.0    5.00    6.00",
  "   G01                                                      END OF FREQUENCY",
  "   G02                                                      START OF FREQUENCY",
  "      1.00      2.00      3.00                              NORTH / EAST / UP",
  "   NOAZI    0.10    0.20",
  "     0.0    7.00    8.00",
  "   180.0    9.00   10.00",
  "   360.0   11.00   12.00",
  "   G02                                                      END OF FREQUENCY",
  "                                                            END OF ANTENNA"].map String.toList

def tinyG02 : Option FreqCorr :=
  match parseLines tinyFile with
  | .ok s =>
    match dictGet s.data "G01".toList with
    | some [(_, .entry e)] =>
      match dictGet e "G02".toList with
      | some (.freq f) => some f
      | _ => none
    | _ => none
  | .error _ => none

example : tinyG02 = some ⟨[1 / 1000, 2 / 1000, 3 / 1000], [1 / 10, 2 / 10], some [[7, 8], [9, 10], [11, 12]]⟩ := by
  decide +kernel

end Midgard.Props.C15

#print axioms Midgard.Props.C15.cols_eq_spec
#print axioms Midgard.Props.C15.handlers_as_modelled
#print axioms Midgard.Props.C15.specs_ok
#print axioms Midgard.Props.C15.record_roundtrip
#print axioms Midgard.Props.C15.rstrip_ne_nil_of_label
#print axioms Midgard.Props.C15.comments_ignored
#print axioms Midgard.Props.C15.unread_labels
#print axioms Midgard.Props.C15.req_some
#print axioms Midgard.Props.C15.corrStep_row
#print axioms Midgard.Props.C15.corrStep_noazi
#print axioms Midgard.Props.C15.section_azi
#print axioms Midgard.Props.C15.freq_isolated
#print axioms Midgard.Props.C15.grid_size
#print axioms Midgard.Props.C15.neu_scaled
#print axioms Midgard.Props.C15.roundHalfEven_int
#print axioms Midgard.Props.C15.gridCount_nat
#print axioms Midgard.Props.C15.elevation_grid
#print axioms Midgard.Props.C15.azimuth_grid
#print axioms Midgard.Props.C15.roundHalfEven_near
#print axioms Midgard.Props.C15.valid_dates
#print axioms Midgard.Props.C15.valid_dates_exact
#print axioms Midgard.Props.C15.receiver_frequency_once
#print axioms Midgard.Props.C15.satellite_period_once
#print axioms Midgard.Props.C15.file_roundtrip
#print axioms Midgard.Props.C15.lines_of_rendered_file
#print axioms Midgard.Props.C15.only_newline_and_cr_end_a_line
#print axioms Midgard.Props.C15.rms_and_unread_lines_contribute_nothing
#print axioms Midgard.Props.C15.parse_eq_parse_core
#print axioms Midgard.Props.C15.antenna_section
