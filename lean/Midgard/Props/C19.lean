/-
C19 — Configuration lookup follows profile priority and fallback; typed accessors; text round trip.

Property theorems about the model in `Model/Config.lean` (Mathlib-free).
-/
import Midgard.Model.Config
import Midgard.Generated.ConfigTables
import Midgard.Proofs.ConfigRoundTrip
import Midgard.Model.ConfigTyped
import Midgard.Proofs.TimeText

namespace Midgard.Props.C19
open Midgard.Config

/-! ### Regenerated tables -/

/-- the eight boolean spellings of the code are the model's -/
theorem bool_spellings : booleanStates = Generated.ConfigTables.booleanStates := by decide +kernel

/-- exactly the eight documented spellings, four of each truth value -/
theorem bool_spellings_eight :
    Generated.ConfigTables.booleanStates.length = 8 ∧
    (Generated.ConfigTables.booleanStates.filter (·.2)).map (·.1) = ["1", "true", "yes", "on"] ∧
    (Generated.ConfigTables.booleanStates.filter (fun p => !p.2)).map (·.1) = ["0", "false", "no", "off"] := by
  decide +kernel

/-- `write_to_file` uses a fixed width, and the key column of `as_str` and `entry_as_str` agree -/
theorem widths : Generated.ConfigTables.fileWidth = 200 ∧
    Generated.ConfigTables.keyWidth = Generated.ConfigTables.entryKeyWidth := by decide +kernel

/-- the pattern of `_replace` is the one `findVars`/`matchVar` implement -/
theorem replace_regex : Generated.ConfigTables.replaceRegex = "\\{(\\w+)(:[^\\{\\}]*)?\\}" := by decide +kernel

/-- `Configuration.get` catches both lookup errors around its own lookup, and around the fallback
lookup additionally the missing-configuration error — so a fallback that lacks the section cannot
hide the default (this is the obligation the unrepaired code failed) -/
theorem get_catches :
    Generated.ConfigTables.getOuterCatches = ["MissingEntryError", "MissingSectionError"] ∧
    Generated.ConfigTables.getInnerCatches = ["MissingConfigurationError", "MissingEntryError", "MissingSectionError"] := by
  decide +kernel

/-- the wrapping options the text model assumes -/
theorem fill_options :
    ("break_long_words", "False") ∈ Generated.ConfigTables.fillArgs ∧
    ("break_on_hyphens", "False") ∈ Generated.ConfigTables.fillArgs ∧
    ("hanging", "key_width + 3") ∈ Generated.ConfigTables.fillArgs ∧
    Generated.ConfigTables.listReplace = [",", " "] := by decide +kernel

/-! ### Dictionaries and the flattened view -/

theorem dget_dset {κ ν} [DecidableEq κ] (d : List (κ × ν)) (k k' : κ) (v : ν) :
    dget? (dset d k v) k' = if k = k' then some v else dget? d k' := by
  induction d with
  | nil => simp [dset, dget?]
  | cons q t ih =>
    obtain ⟨k0, v0⟩ := q
    simp only [dset]
    by_cases h0 : k0 = k
    · subst h0
      simp only [if_true, dget?]
      by_cases h1 : k0 = k' <;> simp [h1]
    · simp only [h0, if_false, dget?, ih]
      by_cases h1 : k0 = k'
      · have : ¬ k = k' := fun h => h0 (h1.trans h.symm)
        simp [h1, this]
      · simp [h1]

def KeysNodup {κ ν} (d : List (κ × ν)) : Prop := (d.map (·.1)).Nodup

theorem dget_none_of_not_mem {κ ν} [DecidableEq κ] (d : List (κ × ν)) (k : κ)
    (h : k ∉ d.map (·.1)) : dget? d k = none := by
  induction d with
  | nil => rfl
  | cons q t ih =>
    obtain ⟨k0, v0⟩ := q
    simp only [List.map_cons, List.mem_cons, not_or] at h
    simp [dget?, Ne.symm h.1, ih h.2]

theorem mergeSection_get (acc S : Section) (hS : KeysNodup S) (k : String) :
    dget? (mergeSection acc S) k = (dget? S k).orElse (fun _ => dget? acc k) := by
  induction S generalizing acc with
  | nil => simp [mergeSection, dget?]
  | cons q t ih =>
    obtain ⟨k0, e0⟩ := q
    simp only [KeysNodup, List.map_cons, List.nodup_cons] at hS
    simp only [mergeSection, ih (dset acc k0 e0) hS.2, dget_dset, dget?]
    by_cases h : k0 = k
    · subst h
      simp [dget_none_of_not_mem t k0 hS.1]
    · simp [h]

/-- lookup of `(section, key)` in a sections dict -/
def dget2 (secs : Sections) (s k : String) : Option Entry := (dget? secs s).bind (dget? · k)

theorem mergeProfile_get (acc P : Sections) (hP : KeysNodup P) (hin : ∀ p ∈ P, KeysNodup p.2) (s k : String) :
    dget2 (mergeProfile acc P) s k = (dget2 P s k).orElse (fun _ => dget2 acc s k) := by
  induction P generalizing acc with
  | nil => simp [mergeProfile, dget2, dget?]
  | cons q t ih =>
    obtain ⟨s0, sec0⟩ := q
    simp only [KeysNodup, List.map_cons, List.nodup_cons] at hP
    have hin' : ∀ p ∈ t, KeysNodup p.2 := fun p hp => hin p (List.mem_cons_of_mem _ hp)
    simp only [mergeProfile]
    rw [ih _ hP.2 hin']
    by_cases h : s0 = s
    · subst h
      have hnone : dget? t s0 = none := dget_none_of_not_mem t s0 hP.1
      simp only [dget2, hnone, dget_dset, dget?, if_true, Option.bind_some, Option.bind_none, Option.orElse_none]
      rw [mergeSection_get _ _ (hin (s0, sec0) (by simp))]
      cases hacc : dget? acc s0 <;> simp [dget?]
    · simp [dget2, dget_dset, dget?, h]

/-- the entry the profile `p` itself defines for `(s, k)` -/
def profileEntry (ps : List (Profile × Sections)) (p : Profile) (s k : String) : Option Entry :=
  dget2 ((dget? ps p).getD []) s k

/-- first listed profile that defines `(s, k)` -/
def resolve (ps : List (Profile × Sections)) : List Profile → String → String → Option Entry
  | [], _, _ => none
  | p :: t, s, k => (profileEntry ps p s k).orElse (fun _ => resolve ps t s k)

theorem resolve_append (ps : List (Profile × Sections)) (a b : List Profile) (s k : String) :
    resolve ps (a ++ b) s k = (resolve ps a s k).orElse (fun _ => resolve ps b s k) := by
  induction a with
  | nil => simp [resolve]
  | cons p t ih =>
    simp only [List.cons_append, resolve, ih]
    cases profileEntry ps p s k <;> simp

/-- every dict level of the raw store has unique keys (invariant of `dset`-built dicts) -/
def StoreWF (ps : List (Profile × Sections)) : Prop :=
  ∀ q ∈ ps, KeysNodup q.2 ∧ ∀ sec ∈ q.2, KeysNodup sec.2

theorem dget_mem {κ ν} [DecidableEq κ] (d : List (κ × ν)) (k : κ) (v : ν) :
    dget? d k = some v → (k, v) ∈ d := by
  induction d with
  | nil => simp [dget?]
  | cons q t ih =>
    obtain ⟨k', v'⟩ := q
    simp only [dget?]
    by_cases hk : k' = k
    · subst hk; simp only [if_true, Option.some.injEq]; intro h; subst h; simp
    · simp only [hk, if_false]; intro h; exact List.mem_cons_of_mem _ (ih h)

theorem flattenFrom_get (ps : List (Profile × Sections)) (hwf : StoreWF ps) (l : List Profile)
    (acc : Sections) (s k : String) :
    dget2 (flattenFrom ps l acc) s k = (resolve ps l.reverse s k).orElse (fun _ => dget2 acc s k) := by
  induction l generalizing acc with
  | nil => simp [flattenFrom, resolve]
  | cons p t ih =>
    simp only [flattenFrom, List.reverse_cons, resolve_append, resolve]
    rw [ih]
    have hP : KeysNodup ((dget? ps p).getD []) ∧ ∀ sec ∈ (dget? ps p).getD [], KeysNodup sec.2 := by
      cases hp : dget? ps p with
      | none => simp [KeysNodup]
      | some P => simpa using hwf (p, P) (dget_mem ps p P hp)
    rw [mergeProfile_get _ _ hP.1 hP.2]
    simp only [profileEntry]
    cases resolve ps t.reverse s k <;> cases dget2 ((dget? ps p).getD []) s k <;> simp

/-- **flatten_priority**: in the flattened view `(section, key)` holds the entry of the first listed
profile that defines it -/
theorem flatten_priority (ps : List (Profile × Sections)) (hwf : StoreWF ps) (profiles : List Profile)
    (s k : String) : dget2 (flatten profiles ps) s k = resolve ps profiles s k := by
  unfold flatten
  rw [flattenFrom_get ps hwf]
  simp only [List.reverse_reverse]
  cases resolve ps profiles s k <;> simp [dget2, dget?]

/-! ### Invariants of every history -/

theorem mem_dset {κ ν} [DecidableEq κ] (d : List (κ × ν)) (k : κ) (v : ν) (p : κ × ν) :
    p ∈ dset d k v → p = (k, v) ∨ p ∈ d := by
  induction d with
  | nil => simp [dset]
  | cons q t ih =>
    obtain ⟨k', v'⟩ := q
    simp only [dset]
    by_cases hk : k' = k
    · subst hk; simp only [if_true, List.mem_cons]
      rintro (h | h)
      · exact Or.inl h
      · exact Or.inr (Or.inr h)
    · simp only [hk, if_false, List.mem_cons]
      rintro (h | h)
      · exact Or.inr (Or.inl h)
      · rcases ih h with h | h
        · exact Or.inl h
        · exact Or.inr (Or.inr h)

theorem keys_dset {κ ν} [DecidableEq κ] (d : List (κ × ν)) (k : κ) (v : ν) :
    (dset d k v).map (·.1) = if k ∈ d.map (·.1) then d.map (·.1) else d.map (·.1) ++ [k] := by
  induction d with
  | nil => simp [dset]
  | cons q t ih =>
    obtain ⟨k', v'⟩ := q
    simp only [dset]
    by_cases hk : k' = k
    · subst hk; simp
    · have hk' : ¬ k = k' := fun h => hk h.symm
      simp only [hk, if_false, List.map_cons, ih, List.mem_cons, hk', false_or]
      split <;> simp

theorem keysNodup_dset {κ ν} [DecidableEq κ] (d : List (κ × ν)) (k : κ) (v : ν) (h : KeysNodup d) :
    KeysNodup (dset d k v) := by
  unfold KeysNodup at *
  rw [keys_dset]
  split
  · exact h
  · rename_i hk
    exact List.nodup_append.2 ⟨h, by simp, by intro a ha b hb; simp at hb; subst hb; intro hab; subst hab; exact hk ha⟩

theorem keysNodup_nil {κ ν} : KeysNodup ([] : List (κ × ν)) := by simp [KeysNodup]

theorem updateRaw_wf (c c' : Cfg) (u : Upd) (hwf : StoreWF c.profileSections) (h : c.updateRaw u = .ok c') :
    StoreWF c'.profileSections ∧ c'.profiles = c.profiles ∧ c'.sections = c.sections := by
  simp only [Cfg.updateRaw] at h
  split at h
  · simp at h
  · simp only [Except.ok.injEq] at h
    subst h
    refine ⟨?_, rfl, rfl⟩
    intro q hq
    simp only at hq
    rcases mem_dset _ _ _ _ hq with hq | hq
    · subst hq
      have hps : KeysNodup ((dget? c.profileSections u.profile).getD []) ∧
          ∀ sec ∈ (dget? c.profileSections u.profile).getD [], KeysNodup sec.2 := by
        cases hp : dget? c.profileSections u.profile with
        | none => simp [KeysNodup]
        | some P => simpa using hwf (u.profile, P) (dget_mem _ _ _ hp)
      refine ⟨keysNodup_dset _ _ _ hps.1, ?_⟩
      intro sec hsec
      rcases mem_dset _ _ _ _ hsec with hsec | hsec
      · subst hsec
        apply keysNodup_dset
        cases hs : dget? ((dget? c.profileSections u.profile).getD []) u.sect with
        | none => exact keysNodup_nil
        | some S => simpa using hps.2 (u.sect, S) (dget_mem _ _ _ hs)
      · exact hps.2 sec hsec
    · exact hwf q hq

/-- the store is well formed and the flattened view is up to date -/
def Good (c : Cfg) : Prop :=
  StoreWF c.profileSections ∧ c.sections = flatten c.profiles c.profileSections

theorem refresh_good (c : Cfg) (hwf : StoreWF c.profileSections) : Good c.refresh := ⟨hwf, rfl⟩

theorem updateMany_good (skip : Bool) (l : List (String × Upd)) (c : Cfg) (done : List String)
    (hwf : StoreWF c.profileSections) : Good (c.updateMany skip l done).1 := by
  induction l generalizing c done with
  | nil => exact refresh_good c hwf
  | cons q t ih =>
    obtain ⟨tag, u⟩ := q
    simp only [Cfg.updateMany]
    cases h : c.updateRaw u with
    | ok c' => exact ih c' _ (updateRaw_wf c c' u hwf h).1
    | error e =>
      simp only
      split
      · exact ih c done hwf
      · exact refresh_good c hwf

theorem optionsLoop_good (profile : Profile) (source : String) (allowNew : Bool) (l : List String)
    (c : Cfg) (done : List String) (hwf : StoreWF c.profileSections) :
    Good (c.optionsLoop profile source allowNew l done).1 := by
  induction l generalizing c done with
  | nil => exact refresh_good c hwf
  | cons o t ih =>
    simp only [Cfg.optionsLoop]
    split
    · exact ih c done hwf
    · split
      · exact ih c done hwf
      · split
        · exact refresh_good c hwf
        · split
          · rename_i c' h; exact ih c' _ (updateRaw_wf c c' _ hwf h).1
          · split
            · exact ih c done hwf
            · exact refresh_good c hwf

/-- the alphabet of histories: every public way of changing a configuration -/
inductive Op
  | update (u : Upd)
  | fromDict (d : List (String × String)) (sect : Option String) (source : String) (allowNew : Bool)
  | fromOptions (options : List String) (profile : Profile) (source : String) (allowNew : Bool)
  | fromSection (otherName : String) (other : Section) (sect : Option String) (allowNew : Bool)
  | fromText (text source : String) (allowNew caseSensitive : Bool)
  | fromFile (text source : String) (allowNew caseSensitive : Bool)
  | setProfiles (v : Option (List Profile))
  | setMaster (m : Option String)
  | updateVars (d : List (String × String))

/-- the state after an operation; an operation that raises leaves the state it reached -/
def applyOp (c : Cfg) : Op → Cfg
  | .update u => match c.update u with | .ok c' => c' | .error _ => c
  | .fromDict d s src a => (c.updateFromDict d s src a).1
  | .fromOptions o p src a => (c.updateFromOptions o p src a).1
  | .fromSection n other s a => (c.updateFromSection n other s a).1
  | .fromText t src a cs => match c.updateFromText t src a cs with | .ok r => r.1 | .error _ => c
  | .fromFile t src a cs => match c.updateFromFile t src a cs with | .ok r => r.1 | .error _ => c
  | .setProfiles v => c.setProfiles v
  | .setMaster m => { c with master := m }
  | .updateVars d => c.updateVars d

def run (c : Cfg) (ops : List Op) : Cfg := ops.foldl applyOp c

theorem applyOp_good (c : Cfg) (op : Op) (h : Good c) : Good (applyOp c op) := by
  cases op with
  | update u =>
    simp only [applyOp, Cfg.update]
    cases hu : c.updateRaw u with
    | ok c' => exact refresh_good c' (updateRaw_wf c c' u h.1 hu).1
    | error e => exact h
  | fromDict d s src a =>
    simp only [applyOp, Cfg.updateFromDict]
    split
    · exact h
    · exact updateMany_good _ _ c [] h.1
  | fromOptions o p src a =>
    simp only [applyOp, Cfg.updateFromOptions]
    exact optionsLoop_good p src a o c [] h.1
  | fromSection n other s a =>
    simp only [applyOp, Cfg.updateFromSection]
    exact updateMany_good _ _ c [] h.1
  | fromText t src a cs =>
    simp only [applyOp, Cfg.updateFromText]
    cases readIniRaw (!cs) t with
    | error e => exact h
    | ok raw => exact updateMany_good _ _ c [] h.1
  | fromFile t src a cs =>
    simp only [applyOp, Cfg.updateFromFile]
    cases readIniRaw (!cs) t with
    | error e => exact h
    | ok raw =>
      simp only [Except.map]
      apply updateMany_good
      split
      · exact h.1
      · exact h.1
  | setProfiles v =>
    simp only [applyOp, Cfg.setProfiles]
    exact ⟨h.1, rfl⟩
  | setMaster m => exact h
  | updateVars d => exact h

theorem new_good (name : String) : Good (Cfg.new name) := by
  refine ⟨by intro q hq; simp [Cfg.new] at hq, ?_⟩
  simp [Cfg.new, flatten, flattenFrom, mergeProfile, dget?]

theorem run_good (c : Cfg) (ops : List Op) (h : Good c) : Good (run c ops) := by
  induction ops generalizing c with
  | nil => exact h
  | cons op t ih => exact ih (applyOp c op) (applyOp_good c op h)

/-- **for all update / profile-change histories**: after any sequence of operations (including ones
that raised), looking `(section, key)` up in the flattened view gives the entry of the first listed
profile that defines it -/
theorem lookup_first_profile (name : String) (ops : List Op) (s k : String) :
    let c := run (Cfg.new name) ops
    dget2 c.sections s k = resolve c.profileSections c.profiles s k := by
  intro c
  have hg : Good c := run_good _ ops (new_good name)
  rw [hg.2]
  exact flatten_priority _ hg.1 _ s k

/-! ### The lookup order of `Configuration.get` -/

/-- an explicit override always wins -/
theorem get_override (c : Cfg) (rest : List Cfg) (key v : String) (sect dflt : Option String) :
    Midgard.Config.get (c :: rest) key (some v) sect dflt = .ok (key, ⟨v, "method call", []⟩) := by
  simp [Midgard.Config.get]

/-- the configuration's own answer: master section when no section is named, else `cfg[section][key]`
(or the master-section entry called `section`, see DESIGN.md §5/C19 note) -/
def ownLookup (c : Cfg) (rest : List Cfg) (key : String) (sect : Option String) : Except Err (String × Entry) :=
  match sect with
  | none => match c.masterSection with
    | .error e => .error e
    | .ok (_, m) => (sectionEntry m key).map (fun e => (key, e))
  | some s => match getItem (c :: rest) s with
    | .error e => .error e
    | .ok (.entry k e) => .ok (k, e)
    | .ok (.sect _ sec) => (sectionEntry sec key).map (fun e => (key, e))

/-- **get_order**: own configuration → fallback configuration → default → the own lookup's error -/
theorem get_order (c : Cfg) (rest : List Cfg) (key : String) (sect dflt : Option String) :
    Midgard.Config.get (c :: rest) key none sect dflt =
      match ownLookup c rest key sect with
      | .ok r => .ok r
      | .error err =>
        match Midgard.Config.get rest key none sect none with
        | .ok r => .ok r
        | .error _ =>
          match dflt with
          | none => .error err
          | some d => .ok (key, ⟨d, "default value", []⟩) := by
  cases sect <;> simp only [Midgard.Config.get, ownLookup] <;> rfl

/-- the own configuration wins over fallback and default whenever it has the entry -/
theorem get_own_hit (c : Cfg) (rest : List Cfg) (key s : String) (dflt : Option String) (sec : Section) (e : Entry)
    (hs : dget? c.sections s = some sec) (hk : dget? sec key = some e) :
    Midgard.Config.get (c :: rest) key none (some s) dflt = .ok (key, e) := by
  rw [get_order]
  simp [ownLookup, getItem, hs, sectionEntry, hk, Except.map]

/-- the fallback is asked before the default is used -/
theorem get_fallback_before_default (c : Cfg) (rest : List Cfg) (key : String) (sect dflt : Option String)
    (err : Err) (r : String × Entry)
    (hown : ownLookup c rest key sect = .error err) (hfb : Midgard.Config.get rest key none sect none = .ok r) :
    Midgard.Config.get (c :: rest) key none sect dflt = .ok r := by
  rw [get_order, hown]; simp [hfb]

/-- the default is used when neither the configuration nor its fallbacks have the entry -/
theorem get_default (c : Cfg) (rest : List Cfg) (key d : String) (sect : Option String)
    (err err' : Err)
    (hown : ownLookup c rest key sect = .error err) (hfb : Midgard.Config.get rest key none sect none = .error err') :
    Midgard.Config.get (c :: rest) key none sect (some d) = .ok (key, ⟨d, "default value", []⟩) := by
  rw [get_order, hown]; simp [hfb]

theorem masterSection_error (c : Cfg) (e : Err) : c.masterSection = .error e → e = .missingSection := by
  simp only [Cfg.masterSection]
  cases c.master with
  | none => simp; intro h; exact h.symm
  | some m =>
    simp only
    cases dget? c.sections m with
    | none => simp; intro h; exact h.symm
    | some s => simp

theorem sectionEntry_error (s : Section) (key : String) (e : Err) :
    (sectionEntry s key).map (fun x => (key, x)) = .error e → e = .missingEntry := by
  simp only [sectionEntry]
  cases dget? s key with
  | none => simp [Except.map]; intro h; exact h.symm
  | some x => simp [Except.map]

theorem getItem_error2 (c : Cfg) (rest : List Cfg) (name : String) (e : Err) :
    getItem (c :: rest) name = .error e → e = .missingSection ∨ e = .missingEntry := by
  simp only [getItem]
  cases dget? c.sections name with
  | some s => simp
  | none =>
    simp only
    cases c.masterSection with
    | ok r =>
      obtain ⟨mn, m⟩ := r
      simp only
      cases dget? m name with
      | some x => simp
      | none => simp; intro h; exact Or.inr h.symm
    | error e' =>
      simp only
      cases getItem rest name with
      | ok it => simp
      | error e'' => simp; intro h; exact Or.inl h.symm

/-- without an entry, a fallback hit or a default, the documented error is raised: missing section or
missing entry, nothing else -/
theorem get_error (c : Cfg) (rest : List Cfg) (key : String) (sect : Option String) (err err' : Err)
    (hown : ownLookup c rest key sect = .error err)
    (hfb : Midgard.Config.get rest key none sect none = .error err') :
    Midgard.Config.get (c :: rest) key none sect none = .error err ∧
      (err = .missingSection ∨ err = .missingEntry) := by
  refine ⟨by rw [get_order, hown]; simp [hfb], ?_⟩
  cases sect with
  | none =>
    simp only [ownLookup] at hown
    cases hm : c.masterSection with
    | error e => rw [hm] at hown; simp at hown; subst hown; exact Or.inl (masterSection_error c e hm)
    | ok r =>
      obtain ⟨mn, m⟩ := r
      rw [hm] at hown
      exact Or.inr (sectionEntry_error m key err hown)
  | some s =>
    simp only [ownLookup] at hown
    cases hi : getItem (c :: rest) s with
    | error e => rw [hi] at hown; simp at hown; subst hown; exact getItem_error2 c rest s e hi
    | ok it =>
      rw [hi] at hown
      cases it with
      | entry k e => simp at hown
      | sect n sec => exact Or.inr (sectionEntry_error sec key err hown)

/-- the master section is used when no section is named -/
theorem master_when_no_section (c : Cfg) (rest : List Cfg) (key m : String) (sec : Section)
    (hm : c.master = some m) (hs : dget? c.sections m = some sec) :
    ownLookup c rest key none = ownLookup c rest key (some m) := by
  simp [ownLookup, Cfg.masterSection, hm, hs, getItem]

/-- for a configuration without fallback the whole lookup with no section is the lookup in the master section -/
theorem master_when_no_section_get (c : Cfg) (key m : String) (dflt : Option String) (sec : Section)
    (hm : c.master = some m) (hs : dget? c.sections m = some sec) :
    Midgard.Config.get [c] key none none dflt = Midgard.Config.get [c] key none (some m) dflt := by
  rw [get_order, get_order, master_when_no_section c [] key m sec hm hs]
  simp [Midgard.Config.get]

/-- **priority and lookup together, for every history**: in a configuration reached by any sequence
of updates and profile changes, asking for `key` in an existing section returns the entry of the first
listed profile that defines it, and the missing-entry error when no listed profile does -/
theorem get_first_profile (name : String) (ops : List Op) (rest : List Cfg) (key s : String) (sec : Section)
    (hs : dget? (run (Cfg.new name) ops).sections s = some sec) :
    let c := run (Cfg.new name) ops
    (∀ e, resolve c.profileSections c.profiles s key = some e →
        ∀ dflt, Midgard.Config.get (c :: rest) key none (some s) dflt = .ok (key, e)) ∧
    (resolve c.profileSections c.profiles s key = none →
        ownLookup c rest key (some s) = .error .missingEntry) := by
  intro c
  have hl := lookup_first_profile name ops s key
  simp only [dget2] at hl
  change (dget? c.sections s).bind (dget? · key) = resolve c.profileSections c.profiles s key at hl
  have hs' : dget? c.sections s = some sec := hs
  rw [hs'] at hl
  simp only [Option.bind_some] at hl
  constructor
  · intro e he dflt
    exact get_own_hit c rest key s dflt sec e hs' (hl.trans he)
  · intro hn
    simp [ownLookup, getItem, hs', sectionEntry, hl.trans hn, Except.map]

/-! ### The configuration an answer is bound to: variables along the fallback chain -/

/-- `getItemAt` is `getItem` plus the position of the answering configuration -/
theorem getItemAt_getItem (chain : List Cfg) (name : String) :
    (getItemAt chain name).map (·.2) = getItem chain name := by
  induction chain with
  | nil => rfl
  | cons c rest ih =>
    simp only [getItemAt, getItem]
    cases dget? c.sections name with
    | some s => rfl
    | none =>
      simp only
      cases c.masterSection with
      | ok r => obtain ⟨mn, m⟩ := r; simp only; cases dget? m name <;> rfl
      | error e =>
        simp only
        rw [← ih]
        cases getItemAt rest name <;> rfl

/-- the configuration's own answer with the position of the configuration it belongs to -/
def ownLookupAt (c : Cfg) (rest : List Cfg) (key : String) (sect : Option String) : Except Err (Nat × String × Entry) :=
  match sect with
  | none => match c.masterSection with
    | .error e => .error e
    | .ok (_, m) => (sectionEntry m key).map (fun e => (0, key, e))
  | some s => match getItemAt (c :: rest) s with
    | .error e => .error e
    | .ok (d, .entry k e) => .ok (d, k, e)
    | .ok (d, .sect _ sec) => (sectionEntry sec key).map (fun e => (d, key, e))

theorem ownLookupAt_ownLookup (c : Cfg) (rest : List Cfg) (key : String) (sect : Option String) :
    (ownLookupAt c rest key sect).map (·.2) = ownLookup c rest key sect := by
  cases sect with
  | none =>
    simp only [ownLookupAt, ownLookup]
    cases c.masterSection with
    | error e => rfl
    | ok r => obtain ⟨mn, m⟩ := r; simp only; cases sectionEntry m key <;> rfl
  | some s =>
    simp only [ownLookupAt, ownLookup]
    rw [← getItemAt_getItem]
    cases getItemAt (c :: rest) s with
    | error e => rfl
    | ok r =>
      obtain ⟨d, it⟩ := r
      cases it with
      | entry k e => rfl
      | sect n sec => simp only [Except.map]; cases sectionEntry sec key <;> rfl

/-- **getAt_order**: the lookup order of `get`, with the configuration each kind of answer is bound to: the
configuration's own answer keeps its position, an answer of the fallback chain moves one position down, the
default belongs to the configuration that was asked (position 0) -/
theorem getAt_order (c : Cfg) (rest : List Cfg) (key : String) (sect dflt : Option String) :
    getAt (c :: rest) key none sect dflt =
      match ownLookupAt c rest key sect with
      | .ok r => .ok r
      | .error err =>
        match getAt rest key none sect none with
        | .ok r => .ok (r.1 + 1, r.2)
        | .error _ =>
          match dflt with
          | none => .error err
          | some d => .ok (0, key, ⟨d, "default value", []⟩) := by
  cases sect <;> simp only [getAt, ownLookupAt] <;> rfl

/-- **`getAt` refines `get`**: forgetting the position gives exactly `Configuration.get` of the model, so each
result on `get` (order, override, default, errors, first listed profile) holds for the entry `getAt` returns -/
theorem getAt_get (chain : List Cfg) (key : String) (value sect dflt : Option String) :
    (getAt chain key value sect dflt).map (·.2) = Midgard.Config.get chain key value sect dflt := by
  induction chain generalizing value dflt with
  | nil => rfl
  | cons c rest ih =>
    cases value with
    | some v => simp [getAt, Midgard.Config.get, Except.map]
    | none =>
      rw [getAt_order, get_order, ← ownLookupAt_ownLookup, ← ih none none]
      cases ownLookupAt c rest key sect with
      | ok r => rfl
      | error err =>
        simp only [Except.map]
        cases getAt rest key none sect none with
        | ok r => rfl
        | error e => cases dflt <;> rfl

theorem getItemAt_lt (chain : List Cfg) (name : String) (d : Nat) (it : Item)
    (h : getItemAt chain name = .ok (d, it)) : d < chain.length := by
  induction chain generalizing d it with
  | nil => simp [getItemAt] at h
  | cons c rest ih =>
    simp only [getItemAt] at h
    cases hs : dget? c.sections name with
    | some s => rw [hs] at h; simp at h; simp [← h.1]
    | none =>
      rw [hs] at h
      simp only at h
      cases hm : c.masterSection with
      | ok r =>
        obtain ⟨mn, m⟩ := r
        rw [hm] at h
        simp only at h
        cases hk : dget? m name with
        | some e => rw [hk] at h; simp at h; simp [← h.1]
        | none => rw [hk] at h; simp at h
      | error e =>
        rw [hm] at h
        simp only at h
        cases hr : getItemAt rest name with
        | error e' => rw [hr] at h; simp at h
        | ok r =>
          obtain ⟨d', it'⟩ := r
          rw [hr] at h
          simp at h
          have := ih d' it' hr
          simp only [List.length_cons]; omega

theorem sectionEntry_map_ok {α} (s : Section) (key : String) (f : Entry → α) (r : α)
    (h : (sectionEntry s key).map f = .ok r) : ∃ e, r = f e := by
  cases hs : sectionEntry s key with
  | error e => rw [hs] at h; simp [Except.map] at h
  | ok e => rw [hs] at h; simp [Except.map] at h; exact ⟨e, h.symm⟩

theorem ownLookupAt_lt (c : Cfg) (rest : List Cfg) (key : String) (sect : Option String) (r : Nat × String × Entry)
    (h : ownLookupAt c rest key sect = .ok r) : r.1 < (c :: rest).length := by
  cases sect with
  | none =>
    simp only [ownLookupAt] at h
    cases hm : c.masterSection with
    | error e => rw [hm] at h; simp at h
    | ok mr =>
      obtain ⟨mn, m⟩ := mr
      rw [hm] at h
      obtain ⟨e, he⟩ := sectionEntry_map_ok m key _ r h
      simp [he]
  | some s =>
    simp only [ownLookupAt] at h
    cases hi : getItemAt (c :: rest) s with
    | error e => rw [hi] at h; simp at h
    | ok ir =>
      obtain ⟨d, it⟩ := ir
      rw [hi] at h
      have hd := getItemAt_lt (c :: rest) s d it hi
      cases it with
      | entry k e => simp at h; simpa [← h] using hd
      | sect n sec =>
        obtain ⟨e, he⟩ := sectionEntry_map_ok sec key _ r h
        simpa [he] using hd

/-- the answer is bound to a configuration of the chain -/
theorem getAt_lt (chain : List Cfg) (key : String) (value sect dflt : Option String) (r : Nat × String × Entry)
    (h : getAt chain key value sect dflt = .ok r) : r.1 < chain.length := by
  induction chain generalizing value dflt r with
  | nil => simp [getAt] at h
  | cons c rest ih =>
    cases value with
    | some v => simp [getAt] at h; simp [← h]
    | none =>
      rw [getAt_order] at h
      cases ho : ownLookupAt c rest key sect with
      | ok r' => rw [ho] at h; simp at h; subst h; exact ownLookupAt_lt c rest key sect r' ho
      | error err =>
        rw [ho] at h
        simp only at h
        cases hf : getAt rest key none sect none with
        | ok r' =>
          rw [hf] at h; simp at h; subst h
          have := ih none none r' hf
          simp only [List.length_cons]; omega
        | error e =>
          rw [hf] at h
          cases dflt with
          | none => simp at h
          | some d => simp at h; simp [← h]

/-- an explicit override belongs to the configuration that was asked -/
theorem getAt_override (c : Cfg) (rest : List Cfg) (key v : String) (sect dflt : Option String) :
    getAt (c :: rest) key (some v) sect dflt = .ok (0, key, ⟨v, "method call", []⟩) := by
  simp [getAt]

/-- an entry of the configuration's own section belongs to it -/
theorem getAt_own_hit (c : Cfg) (rest : List Cfg) (key s : String) (dflt : Option String) (sec : Section) (e : Entry)
    (hs : dget? c.sections s = some sec) (hk : dget? sec key = some e) :
    getAt (c :: rest) key none (some s) dflt = .ok (0, key, e) := by
  rw [getAt_order]
  simp [ownLookupAt, getItemAt, hs, sectionEntry, hk, Except.map]

/-- an entry found by the fallback chain belongs to the configuration the fallback's own `get` binds it to -/
theorem getAt_fallback (c : Cfg) (rest : List Cfg) (key : String) (sect dflt : Option String)
    (err : Err) (r : Nat × String × Entry)
    (hown : ownLookupAt c rest key sect = .error err) (hfb : getAt rest key none sect none = .ok r) :
    getAt (c :: rest) key none sect dflt = .ok (r.1 + 1, r.2) := by
  rw [getAt_order, hown]; simp [hfb]

/-- **the default belongs to the configuration that was asked**, whatever the fallback chain is -/
theorem getAt_default (c : Cfg) (rest : List Cfg) (key d : String) (sect : Option String) (err err' : Err)
    (hown : ownLookupAt c rest key sect = .error err) (hfb : getAt rest key none sect none = .error err') :
    getAt (c :: rest) key none sect (some d) = .ok (0, key, ⟨d, "default value", []⟩) := by
  rw [getAt_order, hown]; simp [hfb]

theorem varsAt_zero (c : Cfg) (rest : List Cfg) : varsAt (c :: rest) 0 = c.vars := rfl
theorem varsAt_succ (c : Cfg) (rest : List Cfg) (d : Nat) : varsAt (c :: rest) (d + 1) = varsAt rest d := by
  simp [varsAt]

/-- **`.replaced` / `.replace()` on a default**: the variables are those of the configuration that was asked and of
the call — the result does not depend on the variables (or anything else) of the fallback configurations beyond
their not having the entry -/
theorem getReplaced_default (c : Cfg) (rest : List Cfg) (key d : String) (sect : Option String) (err err' : Err)
    (callVars : List (String × String)) (rdflt : Option String)
    (hown : ownLookupAt c rest key sect = .error err) (hfb : getAt rest key none sect none = .error err') :
    getReplaced (c :: rest) key none sect (some d) callVars rdflt =
      .ok (0, key, ⟨d, "default value", []⟩, entryReplace c.vars callVars rdflt d) := by
  simp [getReplaced, getAt_default c rest key d sect err err' hown hfb, Except.map, varsAt_zero]

/-- the same for an explicit override -/
theorem getReplaced_override (c : Cfg) (rest : List Cfg) (key v : String) (sect dflt : Option String)
    (callVars : List (String × String)) (rdflt : Option String) :
    getReplaced (c :: rest) key (some v) sect dflt callVars rdflt =
      .ok (0, key, ⟨v, "method call", []⟩, entryReplace c.vars callVars rdflt v) := by
  simp [getReplaced, getAt_override, Except.map, varsAt_zero]

/-- an own entry is filled in from the configuration's own variables -/
theorem getReplaced_own_hit (c : Cfg) (rest : List Cfg) (key s : String) (dflt : Option String) (sec : Section) (e : Entry)
    (callVars : List (String × String)) (rdflt : Option String)
    (hs : dget? c.sections s = some sec) (hk : dget? sec key = some e) :
    getReplaced (c :: rest) key none (some s) dflt callVars rdflt =
      .ok (0, key, e, entryReplace c.vars callVars rdflt e.value) := by
  simp [getReplaced, getAt_own_hit c rest key s dflt sec e hs hk, Except.map, varsAt_zero]

/-- `cfg[section][key]` of an own section is filled in from the configuration's own variables -/
theorem itemReplaced_own_hit (c : Cfg) (rest : List Cfg) (s key : String) (sec : Section) (e : Entry)
    (callVars : List (String × String)) (rdflt : Option String)
    (hs : dget? c.sections s = some sec) (hk : dget? sec key = some e) :
    itemReplaced (c :: rest) s key callVars rdflt = .ok (0, e, entryReplace c.vars callVars rdflt e.value) := by
  simp [itemReplaced, getItemAt, hs, sectionEntry, hk, Except.map, varsAt_zero]

/-- **an entry found in the fallback chain reads exactly as when the fallback configuration is asked itself**
(same entry, same replaced text; only the position moves by one) -/
theorem getReplaced_fallback (c : Cfg) (rest : List Cfg) (key : String) (sect dflt : Option String) (err : Err)
    (callVars : List (String × String)) (rdflt : Option String) (r : Nat × String × Entry × Except RErr String)
    (hown : ownLookupAt c rest key sect = .error err)
    (hfb : getReplaced rest key none sect none callVars rdflt = .ok r) :
    getReplaced (c :: rest) key none sect dflt callVars rdflt = .ok (r.1 + 1, r.2) := by
  simp only [getReplaced] at hfb ⊢
  cases hg : getAt rest key none sect none with
  | error e => rw [hg] at hfb; simp [Except.map] at hfb
  | ok q =>
    rw [hg] at hfb
    simp [Except.map] at hfb
    rw [getAt_fallback c rest key sect dflt err q hown hg]
    simp [Except.map, varsAt_succ, ← hfb]

/-- replacing the variables of every configuration changes nothing about which entry is found and whom it
belongs to: lookups do not read variables -/
theorem masterSection_vars (c : Cfg) (vs : List (String × String)) :
    ({ c with vars := vs } : Cfg).masterSection = c.masterSection := rfl

theorem getItemAt_ignores_vars (f : Cfg → List (String × String)) (chain : List Cfg) (name : String) :
    getItemAt (chain.map fun c => { c with vars := f c }) name = getItemAt chain name := by
  induction chain with
  | nil => rfl
  | cons c rest ih =>
    simp only [List.map_cons, getItemAt, masterSection_vars, ih]

theorem getAt_ignores_vars (f : Cfg → List (String × String)) (chain : List Cfg) (key : String)
    (value sect dflt : Option String) :
    getAt (chain.map fun c => { c with vars := f c }) key value sect dflt = getAt chain key value sect dflt := by
  induction chain generalizing value dflt with
  | nil => rfl
  | cons c rest ih =>
    have hi := getItemAt_ignores_vars f (c :: rest)
    simp only [List.map_cons] at hi
    simp only [List.map_cons, getAt, masterSection_vars, ih, hi]

theorem ownLookupAt_ignores_fallback_vars (f : Cfg → List (String × String)) (c : Cfg) (rest : List Cfg)
    (key : String) (sect : Option String) :
    ownLookupAt c (rest.map fun x => { x with vars := f x }) key sect = ownLookupAt c rest key sect := by
  have hi : ∀ s, getItemAt (c :: rest.map fun x => { x with vars := f x }) s = getItemAt (c :: rest) s := by
    intro s; simp only [getItemAt, getItemAt_ignores_vars]
  cases sect with
  | none => rfl
  | some s => simp only [ownLookupAt, hi]

/-- **headline for the class of seeded change C19/r3-2**: when the lookup ends at the default, the text seen through
`.replaced` / `.replace()` is the same whatever variables the fallback configurations hold -/
theorem default_ignores_fallback_vars (f : Cfg → List (String × String)) (c : Cfg) (rest : List Cfg)
    (key d : String) (sect : Option String) (err err' : Err) (callVars : List (String × String)) (rdflt : Option String)
    (hown : ownLookupAt c rest key sect = .error err) (hfb : getAt rest key none sect none = .error err') :
    getReplaced (c :: rest.map fun x => { x with vars := f x }) key none sect (some d) callVars rdflt =
      getReplaced (c :: rest) key none sect (some d) callVars rdflt := by
  rw [getReplaced_default c rest key d sect err err' callVars rdflt hown hfb,
    getReplaced_default c _ key d sect err err' callVars rdflt
      (by rw [ownLookupAt_ignores_fallback_vars]; exact hown) (by rw [getAt_ignores_vars]; exact hfb)]

example : (match getReplaced [{ Cfg.new "main" with vars := [("root", "/data")] }, { Cfg.new "fb" with vars := [("root", "/opt")] }]
    "out" none (some "files") (some "{root}/out") [] none with
    | .ok (0, _, _, .ok s) => s == "/data/out"
    | _ => false) = true := by decide +kernel

/-! ### Typed accessors are consistent with the stored text -/

theorem splitBlanks_flatten (cs cur : List Char) :
    (splitBlanks cs cur).flatten = cur.reverse ++ cs.filter (fun c => !isBlank c) := by
  induction cs generalizing cur with
  | nil =>
    simp only [splitBlanks]
    split
    · rename_i h; simp at h; simp [h]
    · simp
  | cons c t ih =>
    simp only [splitBlanks]
    by_cases hb : isBlank c = true
    · simp only [hb, if_true, List.filter_cons, Bool.not_true, Bool.false_eq_true, if_false]
      split
      · rename_i h; simp at h; simp [h, ih]
      · simp [ih]
    · simp only [hb, List.filter_cons]
      simp [ih]

theorem splitBlanks_words (cs cur : List Char) (hcur : ∀ c ∈ cur, isBlank c = false) :
    ∀ w ∈ splitBlanks cs cur, w ≠ [] ∧ ∀ c ∈ w, isBlank c = false := by
  induction cs generalizing cur with
  | nil =>
    simp only [splitBlanks]
    split
    · simp
    · rename_i h
      intro w hw
      simp at hw; subst hw
      exact ⟨by simpa using h, by simpa using hcur⟩
  | cons c t ih =>
    simp only [splitBlanks]
    by_cases hb : isBlank c = true
    · simp only [hb, if_true]
      split
      · exact ih [] (by simp)
      · rename_i h
        intro w hw
        rcases List.mem_cons.1 hw with hw | hw
        · subst hw; exact ⟨by simpa using h, by simpa using hcur⟩
        · exact ih [] (by simp) w hw
    · simp only [hb]
      exact ih (c :: cur) (by
        intro x hx
        rcases List.mem_cons.1 hx with hx | hx
        · subst hx; simpa using hb
        · exact hcur x hx)

/-- the character-level list accessor -/
def asListChars (v : String) : List (List Char) :=
  splitBlanks (v.toList.map (fun c => if c = ',' then ' ' else c)) []

theorem asList_eq (v : String) : asList v = (asListChars v).map String.ofList := rfl

theorem isBlank_space : isBlank ' ' = true := by decide

/-- **list_split**: every element of `entry.list` / `entry.tuple` is non-empty and contains neither a
comma nor a blank, and together, in order, they are exactly the non-separator characters of the text -/
theorem list_split (v : String) :
    (∀ w ∈ asListChars v, w ≠ [] ∧ ',' ∉ w ∧ ∀ c ∈ w, isBlank c = false) ∧
    (asListChars v).flatten = v.toList.filter (fun c => c ≠ ',' && !isBlank c) := by
  have hflat := splitBlanks_flatten (v.toList.map (fun c => if c = ',' then ' ' else c)) []
  constructor
  · intro w hw
    obtain ⟨h1, h2⟩ := splitBlanks_words _ [] (by simp) w hw
    refine ⟨h1, ?_, h2⟩
    intro hc
    have := h2 ',' hc
    have hmem : ',' ∈ (asListChars v).flatten := List.mem_flatten.2 ⟨w, hw, hc⟩
    simp only [asListChars] at hmem
    rw [hflat] at hmem
    simp only [List.reverse_nil, List.nil_append, List.mem_filter, List.mem_map] at hmem
    obtain ⟨⟨x, _, hx⟩, _⟩ := hmem
    split at hx
    · exact absurd hx (by decide)
    · rename_i hne; exact hne hx
  · simp only [asListChars]
    rw [hflat]
    simp only [List.reverse_nil, List.nil_append, List.filter_map]
    induction v.toList with
    | nil => rfl
    | cons c t ih =>
      simp only [List.filter_cons, Function.comp]
      by_cases hc : c = ','
      · subst hc; simp [isBlank_space, ih]
      · simp only [hc, if_false, ne_eq, not_false_eq_true, decide_true, Bool.true_and]
        split <;> simp [ih, hc]

theorem dget_ne_none_of_mem {κ ν} [DecidableEq κ] (d : List (κ × ν)) (k : κ) (v : ν) :
    (k, v) ∈ d → dget? d k ≠ none := by
  induction d with
  | nil => simp
  | cons q t ih =>
    obtain ⟨k', v'⟩ := q
    intro hm
    simp only [dget?]
    by_cases hk : k' = k
    · simp [hk]
    · simp only [hk, if_false]
      rcases List.mem_cons.1 hm with h | h
      · cases h; exact absurd rfl hk
      · exact ih h

/-- **bool**: a value converts iff its lower-case form is one of the eight spellings, to that truth value -/
theorem bool_sound (v : String) (b : Bool) : asBool v = .ok b → (lowerStr v, b) ∈ booleanStates := by
  simp only [asBool]
  cases h : dget? booleanStates (lowerStr v) with
  | none => simp
  | some b' => simp; intro hb; subst hb; exact dget_mem _ _ _ h

theorem bool_error (v : String) : (∃ e, asBool v = .error e) ↔ lowerStr v ∉ booleanStates.map (·.1) := by
  simp only [asBool]
  constructor
  · intro ⟨e, he⟩ hmem
    cases h : dget? booleanStates (lowerStr v) with
    | some b => simp [h] at he
    | none =>
      simp only [List.mem_map] at hmem
      obtain ⟨⟨k, b⟩, hkb, hk⟩ := hmem
      simp only at hk
      rw [← hk] at h
      exact dget_ne_none_of_mem _ k b hkb h
  · intro hnot
    rw [dget_none_of_not_mem _ _ hnot]
    exact ⟨.value, rfl⟩


/-! ### `dict` and `int` accessors are consistent with the stored text -/

/-- `str.partition(sep)`: a found separator splits the text at its *first* occurrence, a missing one
leaves the whole text as the head -/
theorem partitionAt_spec (sep : Char) (s : List Char) :
    (sep ∈ s → (partitionAt sep s).2.1 = true ∧
        (partitionAt sep s).1 ++ sep :: (partitionAt sep s).2.2 = s ∧ sep ∉ (partitionAt sep s).1) ∧
    (sep ∉ s → partitionAt sep s = (s, false, [])) := by
  induction s with
  | nil => simp [partitionAt]
  | cons c t ih =>
    by_cases hc : c = sep
    · subst hc; simp [partitionAt]
    · simp only [partitionAt, hc, if_false, List.mem_cons]
      have hc' : ¬ sep = c := fun h => hc h.symm
      constructor
      · rintro (h | h)
        · exact absurd h hc'
        · obtain ⟨h1, h2, h3⟩ := ih.1 h
          refine ⟨h1, by simp [h2], ?_⟩
          simp only [List.mem_cons, not_or]
          exact ⟨hc', h3⟩
      · intro h
        simp only [not_or] at h
        simp [ih.2 h.2]

/-- the `(key, value)` pair an item of the list stands for -/
def dictItem (it : List Char) : String × String :=
  (String.ofList (partitionAt ':' it).1, String.ofList (partitionAt ':' it).2.2)

/-- the item text is `key:value` (or just `key` when it has no colon): nothing of the stored text is lost -/
theorem dictItem_text (it : List Char) :
    (':' ∈ it → (dictItem it).1.toList ++ ':' :: (dictItem it).2.toList = it ∧ ':' ∉ (dictItem it).1.toList) ∧
    (':' ∉ it → (dictItem it).1.toList = it ∧ (dictItem it).2 = "") := by
  simp only [dictItem, String.toList_ofList]
  constructor
  · intro h; exact (partitionAt_spec ':' it).1 h |>.2
  · intro h; rw [(partitionAt_spec ':' it).2 h]; simp

theorem asDict_eq (v : String) :
    asDict v = ((asListChars v).map dictItem).foldl (fun acc p => dset acc p.1 p.2) [] := by
  simp only [asDict, asList_eq, List.foldl_map, dictItem, String.toList_ofList]

theorem mem_foldl_dset {κ ν} [DecidableEq κ] (l : List (κ × ν)) (acc : List (κ × ν)) (p : κ × ν) :
    p ∈ l.foldl (fun a q => dset a q.1 q.2) acc → p ∈ l ∨ p ∈ acc := by
  induction l generalizing acc with
  | nil => intro h; exact Or.inr h
  | cons q t ih =>
    intro h
    simp only [List.foldl_cons] at h
    rcases ih _ h with h | h
    · exact Or.inl (List.mem_cons_of_mem _ h)
    · rcases mem_dset _ _ _ _ h with h | h
      · exact Or.inl (by simp [h])
      · exact Or.inr h

theorem foldl_dset_get {κ ν} [DecidableEq κ] (l : List (κ × ν)) (acc : List (κ × ν)) (k : κ) :
    dget? (l.foldl (fun a q => dset a q.1 q.2) acc) k =
      ((l.reverse.find? (fun q => q.1 = k)).map (·.2)).orElse (fun _ => dget? acc k) := by
  induction l generalizing acc with
  | nil => simp
  | cons q t ih =>
    simp only [List.foldl_cons, ih, dget_dset, List.reverse_cons, List.find?_append]
    cases hf : List.find? (fun x => decide (x.1 = k)) t.reverse with
    | some r => simp
    | none =>
      by_cases hq : q.1 = k <;> simp [hq]

/-- **dict, sound**: every pair of `entry.dict` is the `key:value` reading of an item of `entry.list` -/
theorem dict_sound (v : String) (p : String × String) (hp : p ∈ asDict v) :
    ∃ it ∈ asListChars v, p = dictItem it := by
  rw [asDict_eq] at hp
  rcases mem_foldl_dset _ _ _ hp with h | h
  · simp only [List.mem_map] at h
    obtain ⟨it, hit, rfl⟩ := h
    exact ⟨it, hit, rfl⟩
  · simp at h

/-- **dict, complete, last one wins**: every item's key is a key of `entry.dict`, and the value stored
under a key is the value of the *last* item with that key (Python dict construction) -/
theorem dict_lookup (v : String) (k : String) :
    dget? (asDict v) k =
      ((((asListChars v).map dictItem).reverse.find? (fun q => q.1 = k))).map (·.2) := by
  rw [asDict_eq, foldl_dset_get]
  cases (List.find? (fun q => decide (q.1 = k)) (List.map dictItem (asListChars v)).reverse) <;> simp [dget?]

/-- keys of `entry.dict` are unique (it is a dict) -/
theorem dict_keys_nodup (v : String) : KeysNodup (asDict v) := by
  rw [asDict_eq]
  generalize (asListChars v).map dictItem = l
  suffices h : ∀ acc : List (String × String), KeysNodup acc → KeysNodup (l.foldl (fun a q => dset a q.1 q.2) acc) from
    h [] keysNodup_nil
  induction l with
  | nil => intro acc h; exact h
  | cons q t ih => intro acc h; exact ih _ (keysNodup_dset _ _ _ h)


/-- one step of reading decimal digits (underscores are skipped) -/
def decStep (a : Nat) (c : Char) : Nat := if c.isDigit then a * 10 + (c.toNat - 48) else a

/-- the decimal value of the digits of a text -/
def decValue (cs : List Char) : Nat := cs.foldl decStep 0

theorem underscore_not_digit : Char.isDigit '_' = false := by decide

/-- whatever `digitsVal` accepts consists of digits and underscores only, ends in a digit, and its
value is the decimal reading of its digits -/
theorem digitsVal_some (cs : List Char) (prev : Bool) (acc : Option Nat) (n : Nat)
    (h : digitsVal cs prev acc = some n) :
    (∀ c ∈ cs, c.isDigit = true ∨ c = '_') ∧ n = cs.foldl decStep (acc.getD 0) ∧
    (cs = [] → prev = false ∧ acc = some n) ∧ (∀ c, cs.getLast? = some c → c.isDigit = true) := by
  induction cs generalizing prev acc with
  | nil =>
    simp only [digitsVal] at h
    cases prev <;> simp_all
  | cons c t ih =>
    simp only [digitsVal] at h
    by_cases hd : c.isDigit = true
    · simp only [hd, if_true] at h
      obtain ⟨h1, h2, h3, h4⟩ := ih _ _ h
      refine ⟨?_, ?_, by simp, ?_⟩
      · intro x hx
        rcases List.mem_cons.1 hx with hx | hx
        · subst hx; exact Or.inl hd
        · exact h1 x hx
      · simp only [List.foldl_cons, decStep, hd, if_true]
        simpa [decStep] using h2
      · intro x hx
        cases t with
        | nil => simp at hx; subst hx; exact hd
        | cons y ys => exact h4 x (by simpa [List.getLast?_cons_cons] using hx)
    · by_cases hu : c = '_'
      · subst hu
        simp only [underscore_not_digit, Bool.false_eq_true, if_false, if_true] at h
        by_cases hp : (prev || acc.isNone) = true
        · simp [hp] at h
        · simp only [hp] at h
          obtain ⟨h1, h2, h3, h4⟩ := ih _ _ h
          refine ⟨?_, ?_, by simp, ?_⟩
          · intro x hx
            rcases List.mem_cons.1 hx with hx | hx
            · subst hx; exact Or.inr rfl
            · exact h1 x hx
          · simp only [List.foldl_cons, decStep, underscore_not_digit]
            simpa using h2
          · intro x hx
            cases t with
            | nil => have := (h3 rfl).1; simp at this
            | cons y ys => exact h4 x (by simpa [List.getLast?_cons_cons] using hx)
      · simp [hd, hu] at h

/-- a plain run of digits is accepted, with its decimal value -/
theorem digitsVal_digits (ds : List Char) (hd : ∀ c ∈ ds, c.isDigit = true) (acc : Option Nat)
    (hne : ds ≠ [] ∨ acc.isSome) :
    digitsVal ds false acc = some (ds.foldl decStep (acc.getD 0)) := by
  induction ds generalizing acc with
  | nil =>
    simp only [digitsVal]
    cases acc <;> simp_all
  | cons c t ih =>
    have hc := hd c (by simp)
    simp only [digitsVal, hc, if_true, List.foldl_cons, decStep]
    rw [ih (fun x hx => hd x (List.mem_cons_of_mem _ hx)) _ (Or.inr rfl)]
    simp

theorem asInt_eq (v : String) :
    asInt v = match digitsVal (splitSign (stripBlanks v.toList)).2 false none with
      | some n => .ok (if (splitSign (stripBlanks v.toList)).1 then -(n : Int) else n)
      | none => .error .value := rfl

/-- **int, sound**: when `entry.int` succeeds, the text is — between blanks — an optional sign followed
by digits and single underscores that starts and ends with a digit, and the value is the decimal
reading of those digits with that sign -/
theorem int_sound (v : String) (n : Int) (h : asInt v = .ok n) :
    let body := (splitSign (stripBlanks v.toList)).2
    let neg := (splitSign (stripBlanks v.toList)).1
    n = (if neg then -(decValue body : Int) else decValue body) ∧
    body ≠ [] ∧ (∀ c ∈ body, c.isDigit = true ∨ c = '_') ∧
    (∀ c, body.head? = some c → c.isDigit = true) ∧ (∀ c, body.getLast? = some c → c.isDigit = true) := by
  intro body neg
  rw [asInt_eq] at h
  cases hv : digitsVal body false none with
  | none => simp [body] at hv; simp [hv] at h
  | some k =>
    have hv' : digitsVal (splitSign (stripBlanks v.toList)).2 false none = some k := hv
    simp only [hv', Except.ok.injEq] at h
    obtain ⟨h1, h2, h3, h4⟩ := digitsVal_some body false none k hv
    have hne : body ≠ [] := by
      intro hb
      have := (h3 hb).2
      simp at this
    refine ⟨?_, hne, h1, ?_, h4⟩
    · rw [← h]
      simp only [Option.getD_none] at h2
      simp [neg, decValue, h2]
    · intro c hc
      cases hb : body with
      | nil => exact absurd hb hne
      | cons x xs =>
        rw [hb] at hc hv
        simp at hc; subst hc
        simp only [digitsVal] at hv
        by_cases hd : x.isDigit = true
        · exact hd
        · simp only [hd] at hv
          by_cases hu : x = '_' <;> simp [hu] at hv

/-- **int, error**: a character other than a digit or an underscore after the sign is refused -/
theorem int_error (v : String) (c : Char) (hc : c ∈ (splitSign (stripBlanks v.toList)).2)
    (hbad : c.isDigit = false ∧ c ≠ '_') : asInt v = .error .value := by
  rw [asInt_eq]
  cases hv : digitsVal (splitSign (stripBlanks v.toList)).2 false none with
  | none => rfl
  | some k =>
    obtain ⟨h1, _⟩ := digitsVal_some _ false none k hv
    rcases h1 c hc with h | h
    · rw [hbad.1] at h; simp at h
    · exact absurd h hbad.2

theorem digit_not_blank (c : Char) (h : c.isDigit = true) : isBlank c = false := by
  simp only [Char.isDigit, Bool.and_eq_true, decide_eq_true_eq] at h
  obtain ⟨h1, h2⟩ := h
  have h1' : (48 : UInt32).toNat ≤ c.val.toNat := UInt32.le_iff_toNat_le.1 h1
  have h3 : c.toNat = c.val.toNat := rfl
  have h4 : (48 : UInt32).toNat = 48 := by decide
  simp only [isBlank, Bool.or_eq_false_iff, Bool.and_eq_false_iff, decide_eq_false_iff_not]
  omega

/-- blanks are only stripped at the ends: a text whose first and last characters are not blank is unchanged -/
theorem stripBlanks_id (s : List Char) (hh : ∀ c, s.head? = some c → isBlank c = false)
    (hl : ∀ c, s.getLast? = some c → isBlank c = false) : stripBlanks s = s := by
  have h1 : s.dropWhile isBlank = s := by
    cases s with
    | nil => rfl
    | cons c t => simp [hh c rfl]
  simp only [stripBlanks, h1]
  have h2 : s.reverse.dropWhile isBlank = s.reverse := by
    cases hr : s.reverse with
    | nil => rfl
    | cons c t =>
      have : s.getLast? = some c := by
        rw [← List.head?_reverse, hr]; rfl
      simp [hl c this]
  rw [h2, List.reverse_reverse]

/-- **int, plain numerals**: a non-empty run of decimal digits, optionally signed, converts to its
decimal value (what `str(int)` writes is read back) -/
theorem int_plain (ds : List Char) (hne : ds ≠ []) (hd : ∀ c ∈ ds, c.isDigit = true) :
    asInt (String.ofList ds) = .ok (decValue ds) ∧
    asInt (String.ofList ('-' :: ds)) = .ok (-(decValue ds : Int)) ∧
    asInt (String.ofList ('+' :: ds)) = .ok (decValue ds) := by
  have hlast : ∀ c, ds.getLast? = some c → isBlank c = false := fun c hc =>
    digit_not_blank c (hd c (List.mem_of_getLast? hc))
  have hhead : ∀ c, ds.head? = some c → isBlank c = false := fun c hc =>
    digit_not_blank c (hd c (List.mem_of_head? hc))
  have hv := digitsVal_digits ds hd none (Or.inl hne)
  have hnosign : splitSign ds = (false, ds) := by
    cases ds with
    | nil => exact absurd rfl hne
    | cons c t =>
      have hc := hd c (by simp)
      unfold splitSign
      split
      · rename_i h; cases h; exact absurd hc (by decide)
      · rename_i h; cases h; exact absurd hc (by decide)
      · rfl
  refine ⟨?_, ?_, ?_⟩
  · rw [asInt_eq, String.toList_ofList, stripBlanks_id ds hhead hlast, hnosign]
    simp [hv, decValue]
  · have hs : stripBlanks ('-' :: ds) = '-' :: ds := by
      apply stripBlanks_id
      · intro c hc; simp at hc; subst hc; decide
      · intro c hc
        rw [List.getLast?_cons_of_ne_nil hne] at hc
        exact hlast c hc
    rw [asInt_eq, String.toList_ofList, hs]
    simp [splitSign, hv, decValue]
  · have hs : stripBlanks ('+' :: ds) = '+' :: ds := by
      apply stripBlanks_id
      · intro c hc; simp at hc; subst hc; decide
      · intro c hc
        rw [List.getLast?_cons_of_ne_nil hne] at hc
        exact hlast c hc
    rw [asInt_eq, String.toList_ofList, hs]
    simp [splitSign, hv, decValue]

/-! ### Variable replacement substitutes only known variables -/

/-- a text none of whose `{variables}` is known is returned unchanged (no default given) -/
theorem replace_unknown_untouched (vars : List (String × String)) (fuel : Nat) (s : List Char)
    (hunknown : ∀ m ∈ findVars s.length s, dget? vars (String.ofList m.name) = none) :
    replaceVars vars none (fuel + 1) s = .ok s := by
  simp only [replaceVars]
  generalize findVars s.length s = ms at hunknown
  induction ms with
  | nil => rfl
  | cons m t ih =>
    simp only [List.foldl_cons]
    rw [hunknown m (by simp)]
    simp only [Option.map_none]
    exact ih (fun m' hm' => hunknown m' (List.mem_cons_of_mem _ hm'))

theorem findVars_no_brace (n : Nat) (s : List Char) (h : '{' ∉ s) : findVars n s = [] := by
  induction s generalizing n with
  | nil => cases n <;> simp [findVars]
  | cons c t ih =>
    cases n with
    | zero => simp [findVars]
    | succ n =>
      have hc : c ≠ '{' := by intro hc; subst hc; simp at h
      have ht : '{' ∉ t := fun ht => h (List.mem_cons_of_mem _ ht)
      simp [findVars, hc, ih n ht]

/-- a text without braces is never changed, whatever the variables and the default -/
theorem replace_no_braces (vars : List (String × String)) (dflt : Option String) (fuel : Nat) (s : List Char)
    (h : '{' ∉ s) : replaceVars vars dflt (fuel + 1) s = .ok s := by
  simp [replaceVars, findVars_no_brace _ s h]

/-- with no variables defined at all (the `update_from_file` case without a `__replace__` section) the
replacement is the identity — which is why the file reader of the model may skip it -/
theorem replace_no_vars (fuel : Nat) (s : List Char) : replaceVars [] none (fuel + 1) s = .ok s :=
  replace_unknown_untouched [] fuel s (by intro m _; rfl)

/-! ### A known variable is substituted by its value -/

theorem takeWhile_append_stop {α} (p : α → Bool) (l : List α) (x : α) (r : List α)
    (hl : ∀ a ∈ l, p a = true) (hx : p x = false) : (l ++ x :: r).takeWhile p = l := by
  induction l with
  | nil => simp [hx]
  | cons a t ih =>
    have ha := hl a (by simp)
    simp [ha, ih (fun b hb => hl b (List.mem_cons_of_mem _ hb))]

theorem dropWhile_append_stop {α} (p : α → Bool) (l : List α) (x : α) (r : List α)
    (hl : ∀ a ∈ l, p a = true) (hx : p x = false) : (l ++ x :: r).dropWhile p = x :: r := by
  induction l with
  | nil => simp [hx]
  | cons a t ih =>
    have ha := hl a (by simp)
    simp [ha, ih (fun b hb => hl b (List.mem_cons_of_mem _ hb))]

theorem isWord_close : isWord '}' = false := by decide

/-- the regular expression matches `{name}` at a brace followed by a non-empty run of word characters and `}` -/
theorem matchVar_plain (name post : List Char) (hne : name ≠ []) (hw : ∀ c ∈ name, isWord c = true) :
    matchVar (name ++ '}' :: post) = some (name, none, post) := by
  simp only [matchVar, takeWhile_append_stop isWord name '}' post hw isWord_close,
    dropWhile_append_stop isWord name '}' post hw isWord_close]
  cases name with
  | nil => exact absurd rfl hne
  | cons a t => simp

/-- braces-free text before a match is skipped -/
theorem findVars_skip (pre t : List Char) (n : Nat) (hpre : '{' ∉ pre) :
    findVars (pre.length + n) (pre ++ t) = findVars n t := by
  induction pre with
  | nil => simp
  | cons c p ih =>
    have hc : c ≠ '{' := by intro hc; subst hc; simp at hpre
    have hp : '{' ∉ p := fun h => hpre (List.mem_cons_of_mem _ h)
    have : (c :: p).length + n = (p.length + n) + 1 := by simp only [List.length_cons]; omega
    rw [this]
    simp [findVars, hc, ih hp]

/-- exactly one reference is found in `pre{name}post` when `pre` and `post` have no opening brace -/
theorem findVars_single (pre name post : List Char) (hpre : '{' ∉ pre) (hpost : '{' ∉ post)
    (hne : name ≠ []) (hw : ∀ c ∈ name, isWord c = true) :
    findVars (pre ++ '{' :: name ++ '}' :: post).length (pre ++ '{' :: name ++ '}' :: post) = [⟨name, none⟩] := by
  have hlen : (pre ++ '{' :: name ++ '}' :: post).length = pre.length + ((name ++ '}' :: post).length + 1) := by
    simp only [List.length_append, List.length_cons]; omega
  have happ : pre ++ '{' :: name ++ '}' :: post = pre ++ ('{' :: (name ++ '}' :: post)) := by simp
  rw [hlen, happ, findVars_skip pre _ _ hpre]
  simp [findVars, matchVar_plain name post hne hw, findVars_no_brace _ post hpost]

theorem isPrefix_append (a b : List Char) : isPrefix a (a ++ b) = true := by
  induction a with
  | nil => simp [isPrefix]
  | cons x t ih => simp [isPrefix, ih]

theorem replaceAll_no_brace (rest new : List Char) (n : Nat) (s : List Char) (h : '{' ∉ s) :
    replaceAll ('{' :: rest) new n s = s := by
  induction s generalizing n with
  | nil => cases n <;> rfl
  | cons c t ih =>
    cases n with
    | zero => rfl
    | succ n =>
      have hc : c ≠ '{' := by intro hc; subst hc; simp at h
      have ht : '{' ∉ t := fun ht => h (List.mem_cons_of_mem _ ht)
      have hpf : isPrefix ('{' :: rest) (c :: t) = false := by
        simp only [isPrefix]; simp; intro e; exact absurd e.symm hc
      simp only [replaceAll, hpf, Bool.false_eq_true, if_false]
      rw [ih n ht]

/-- `text.replace("{name}", new)` on `pre{name}post` -/
theorem replaceAll_single (pre rest post new : List Char) (n : Nat) (hpre : '{' ∉ pre) (hpost : '{' ∉ post)
    (hn : pre.length < n) :
    replaceAll ('{' :: rest) new n (pre ++ (('{' :: rest) ++ post)) = pre ++ (new ++ post) := by
  induction pre generalizing n with
  | nil =>
    cases n with
    | zero => simp at hn
    | succ n =>
      have hp : isPrefix ('{' :: rest) ('{' :: (rest ++ post)) = true := isPrefix_append ('{' :: rest) post
      show replaceAll ('{' :: rest) new (n + 1) ('{' :: (rest ++ post)) = new ++ post
      simp only [replaceAll, hp, if_true]
      have hd : ('{' :: (rest ++ post)).drop ('{' :: rest).length = post := by
        show (('{' :: rest) ++ post).drop ('{' :: rest).length = post
        simp
      rw [hd, replaceAll_no_brace rest new n post hpost]
  | cons c p ih =>
    cases n with
    | zero => simp at hn
    | succ n =>
      have hc : c ≠ '{' := by intro hc; subst hc; simp at hpre
      have hp : '{' ∉ p := fun h => hpre (List.mem_cons_of_mem _ h)
      have hn' : p.length < n := by simp only [List.length_cons] at hn; omega
      have hpf : isPrefix ('{' :: rest) (c :: (p ++ (('{' :: rest) ++ post))) = false := by
        simp only [isPrefix]; simp; intro e; exact absurd e.symm hc
      show replaceAll ('{' :: rest) new (n + 1) (c :: (p ++ (('{' :: rest) ++ post))) = c :: (p ++ (new ++ post))
      simp only [replaceAll, hpf, Bool.false_eq_true, if_false]
      rw [ih n hp hn']

theorem formatStr_none (text : List Char) : formatStr none text = some text := by
  unfold formatStr; rfl

/-- **a reference to a known variable is replaced by the variable's value**: in a text `pre{name}post` with no other
opening brace, with `name` a known variable whose value has no brace, `_replace` returns `pre` + value + `post` — whatever
the default is, whatever other variables are defined -/
theorem replace_known_variable (vars : List (String × String)) (dflt : Option String) (fuel : Nat)
    (pre name post : List Char) (v : String)
    (hpre : '{' ∉ pre) (hpost : '{' ∉ post) (hne : name ≠ []) (hw : ∀ c ∈ name, isWord c = true)
    (hv : dget? vars (String.ofList name) = some v) (hvb : '{' ∉ v.toList) :
    replaceVars vars dflt (fuel + 2) (pre ++ '{' :: name ++ '}' :: post) = .ok (pre ++ v.toList ++ post) := by
  have hs : pre ++ '{' :: name ++ '}' :: post = pre ++ (('{' :: (name ++ ['}'])) ++ post) := by simp
  have hex : VarMatch.expr ⟨name, none⟩ = '{' :: (name ++ ['}']) := rfl
  rw [replaceVars, findVars_single pre name post hpre hpost hne hw]
  simp only [List.foldl_cons, List.foldl_nil, hv, replace_no_braces vars dflt fuel v.toList hvb, Except.map,
    formatStr_none, hex]
  rw [hs, replaceAll_single pre (name ++ ['}']) post v.toList _ hpre hpost
    (by simp only [List.length_append, List.length_cons]; omega)]
  simp

/-- the same through `entry.replace(default, **call_vars)` -/
theorem entryReplace_known_variable (entryVars callVars : List (String × String)) (dflt : Option String)
    (pre name post : List Char) (v : String)
    (hpre : '{' ∉ pre) (hpost : '{' ∉ post) (hne : name ≠ []) (hw : ∀ c ∈ name, isWord c = true)
    (hv : dget? (callVars.foldl (fun acc kx => dset acc kx.1 kx.2) entryVars) (String.ofList name) = some v)
    (hvb : '{' ∉ v.toList) :
    entryReplace entryVars callVars dflt (String.ofList (pre ++ '{' :: name ++ '}' :: post)) =
      .ok (String.ofList (pre ++ v.toList ++ post)) := by
  simp only [entryReplace, String.toList_ofList]
  rw [replace_known_variable _ dflt 62 pre name post v hpre hpost hne hw hv hvb]
  rfl

example : entryReplace [("root", "/data")] [] none "{root}/out" = .ok "/data/out" :=
  entryReplace_known_variable [("root", "/data")] [] none [] "root".toList "/out".toList "/data"
    (by simp) (by decide) (by decide) (by decide) (by decide) (by decide)

/-! ### `_replace` on the full grammar: any number of `{name}` / `{name:spec}` references, default for unknown variables -/

/-- a text as `_replace` sees it: literal stretches without an opening brace, and references -/
inductive Piece
  | lit (t : List Char)
  | ref (m : VarMatch)
  deriving DecidableEq

def Piece.text : Piece → List Char
  | .lit t => t
  | .ref m => m.expr

def renderPieces (ps : List Piece) : List Char := (ps.map Piece.text).flatten

/-- what stands between the braces of a reference: `name` or `name:spec` -/
def innerOf (m : VarMatch) : List Char :=
  match m.spec with
  | none => m.name
  | some sp => m.name ++ ':' :: sp

theorem expr_inner (m : VarMatch) : m.expr = '{' :: ((innerOf m) ++ ['}']) := by
  cases m with | mk name spec => cases spec <;> simp [VarMatch.expr, innerOf]

/-- a reference the regular expression `\{(\w+)(:[^\{\}]*)?\}` matches: a non-empty name of word characters, a format
spec without braces -/
def RefOK (m : VarMatch) : Prop :=
  m.name ≠ [] ∧ (∀ c ∈ m.name, isWord c = true) ∧ ∀ sp, m.spec = some sp → ∀ c ∈ sp, c ≠ '{' ∧ c ≠ '}'

def PieceOK : Piece → Prop
  | .lit t => '{' ∉ t
  | .ref m => RefOK m

def refsOf : List Piece → List VarMatch
  | [] => []
  | .lit _ :: t => refsOf t
  | .ref m :: t => m :: refsOf t

theorem isWord_open : isWord '{' = false := by decide
theorem isWord_colon : isWord ':' = false := by decide

theorem inner_no_brace (m : VarMatch) (h : RefOK m) : '{' ∉ (innerOf m) ∧ '}' ∉ (innerOf m) := by
  obtain ⟨_, hw, hs⟩ := h
  have hn1 : '{' ∉ m.name := fun hm => by have := hw _ hm; simp [isWord_open] at this
  have hn2 : '}' ∉ m.name := fun hm => by have := hw _ hm; simp [isWord_close] at this
  cases hsp : m.spec with
  | none => simpa [innerOf, hsp] using ⟨hn1, hn2⟩
  | some sp =>
    have h1 : '{' ∉ sp := fun hm => (hs sp hsp _ hm).1 rfl
    have h2 : '}' ∉ sp := fun hm => (hs sp hsp _ hm).2 rfl
    simp only [innerOf, hsp, List.mem_append, List.mem_cons, not_or]
    exact ⟨⟨hn1, by decide, h1⟩, ⟨hn2, by decide, h2⟩⟩

/-- the regular expression matches a well-formed reference, with or without a spec -/
theorem matchVar_ref (m : VarMatch) (h : RefOK m) (rest : List Char) :
    matchVar ((innerOf m) ++ '}' :: rest) = some (m.name, m.spec, rest) := by
  obtain ⟨hne, hw, hs⟩ := h
  cases hsp : m.spec with
  | none =>
    simp only [innerOf, hsp]
    exact matchVar_plain m.name rest hne hw
  | some sp =>
    have hsp' := hs sp hsp
    simp only [innerOf, hsp, List.append_assoc, List.cons_append]
    simp only [matchVar, takeWhile_append_stop isWord m.name ':' _ hw isWord_colon,
      dropWhile_append_stop isWord m.name ':' _ hw isWord_colon]
    have htw : (sp ++ '}' :: rest).takeWhile (fun c => c ≠ '{' && c ≠ '}') = sp :=
      takeWhile_append_stop _ sp '}' rest (by intro c hc; simp [(hsp' c hc).1, (hsp' c hc).2]) (by simp)
    have hdw : (sp ++ '}' :: rest).dropWhile (fun c => c ≠ '{' && c ≠ '}') = '}' :: rest :=
      dropWhile_append_stop _ sp '}' rest (by intro c hc; simp [(hsp' c hc).1, (hsp' c hc).2]) (by simp)
    rw [htw, hdw]
    cases hn : m.name with
    | nil => exact absurd hn hne
    | cons a t => simp

theorem findVars_skip_le (pre t : List Char) (n : Nat) (hpre : '{' ∉ pre) (hn : pre.length ≤ n) :
    findVars n (pre ++ t) = findVars (n - pre.length) t := by
  have : n = pre.length + (n - pre.length) := by omega
  rw [this, findVars_skip pre t _ hpre]; simp

/-- **the references `re.finditer` finds are the references of the text, in order** -/
theorem findVars_pieces (ps : List Piece) (hok : ∀ p ∈ ps, PieceOK p) (n : Nat) (hn : (renderPieces ps).length ≤ n) :
    findVars n (renderPieces ps) = refsOf ps := by
  induction ps generalizing n with
  | nil => cases n <;> simp [renderPieces, findVars, refsOf]
  | cons p t ih =>
    have hokt : ∀ q ∈ t, PieceOK q := fun q hq => hok q (List.mem_cons_of_mem _ hq)
    have hr : renderPieces (p :: t) = p.text ++ renderPieces t := by simp [renderPieces]
    rw [hr] at hn ⊢
    cases p with
    | lit x =>
      have hx : '{' ∉ x := hok (.lit x) (by simp)
      simp only [Piece.text, List.length_append] at hn ⊢
      rw [findVars_skip_le x _ n hx (by omega), ih hokt _ (by omega)]
      rfl
    | ref m =>
      have hm : RefOK m := hok (.ref m) (by simp)
      simp only [Piece.text, expr_inner, List.length_append, List.length_cons] at hn ⊢
      cases n with
      | zero => simp at hn
      | succ n =>
        have : '{' :: ((innerOf m) ++ ['}']) ++ renderPieces t = '{' :: ((innerOf m) ++ '}' :: renderPieces t) := by simp
        rw [this]
        simp only [findVars, if_true, matchVar_ref m hm]
        rw [ih hokt n (by simp at hn; omega)]
        cases m; rfl

/-! #### `str.replace` on such a text -/

theorem replaceAll_skip (rest new t X : List Char) (k : Nat) (ht : '{' ∉ t) :
    replaceAll ('{' :: rest) new (t.length + k) (t ++ X) = t ++ replaceAll ('{' :: rest) new k X := by
  induction t with
  | nil => simp
  | cons c r ih =>
    have hc : c ≠ '{' := by intro e; subst e; simp at ht
    have hr : '{' ∉ r := fun h => ht (List.mem_cons_of_mem _ h)
    have hpf : isPrefix ('{' :: rest) (c :: (r ++ X)) = false := by
      simp only [isPrefix]; simp; intro e; exact absurd e.symm hc
    have : (c :: r).length + k = (r.length + k) + 1 := by simp only [List.length_cons]; omega
    rw [this]
    show replaceAll ('{' :: rest) new (r.length + k + 1) (c :: (r ++ X)) = c :: (r ++ replaceAll ('{' :: rest) new k X)
    simp only [replaceAll, hpf, Bool.false_eq_true, if_false]
    rw [ih hr]

/-- a brace-free text ending in the first closing brace is a prefix of another such text (followed by anything) only if
the two are the same -/
theorem isPrefix_closed (a b X : List Char) (ha : '}' ∉ a) (hb : '}' ∉ b)
    (h : isPrefix (a ++ ['}']) (b ++ '}' :: X) = true) : a = b := by
  induction a generalizing b with
  | nil =>
    cases b with
    | nil => rfl
    | cons c t =>
      simp only [List.nil_append, List.cons_append, isPrefix, Bool.and_eq_true, decide_eq_true_eq] at h
      exact absurd h.1.symm (by intro e; subst e; simp at hb)
  | cons x a' ih =>
    cases b with
    | nil =>
      simp only [List.cons_append, List.nil_append, isPrefix, Bool.and_eq_true, decide_eq_true_eq] at h
      exact absurd h.1 (by intro e; subst e; simp at ha)
    | cons c t =>
      simp only [List.cons_append, isPrefix, Bool.and_eq_true, decide_eq_true_eq] at h
      rw [h.1, ih t (fun hm => ha (List.mem_cons_of_mem _ hm)) (fun hm => hb (List.mem_cons_of_mem _ hm)) h.2]

/-- replacing the text of one reference in a piece -/
def substP (e new : List Char) : Piece → Piece
  | .lit t => .lit t
  | .ref m => if m.expr = e then .lit new else .ref m

/-- **`text.replace(expr, new)` replaces exactly the references written like `expr`** -/
theorem replaceAll_pieces (m0 : VarMatch) (h0 : RefOK m0) (new : List Char) (ps : List Piece)
    (hok : ∀ p ∈ ps, PieceOK p) (n : Nat) (hn : (renderPieces ps).length ≤ n) :
    replaceAll m0.expr new n (renderPieces ps) = renderPieces (ps.map (substP m0.expr new)) := by
  induction ps generalizing n with
  | nil => cases n <;> simp [renderPieces, replaceAll]
  | cons p t ih =>
    have hokt : ∀ q ∈ t, PieceOK q := fun q hq => hok q (List.mem_cons_of_mem _ hq)
    have hr : ∀ q (l : List Piece), renderPieces (q :: l) = q.text ++ renderPieces l := by intro q l; simp [renderPieces]
    rw [List.map_cons, hr, hr] at *
    cases p with
    | lit x =>
      have hx : '{' ∉ x := hok (.lit x) (by simp)
      simp only [Piece.text, substP, List.length_append] at hn ⊢
      have : n = x.length + (n - x.length) := by omega
      rw [this, expr_inner, replaceAll_skip _ _ _ _ _ hx, ← expr_inner, ih hokt _ (by omega)]
    | ref m =>
      have hm : RefOK m := hok (.ref m) (by simp)
      simp only [Piece.text, substP] at hn ⊢
      by_cases he : m.expr = m0.expr
      · simp only [he, if_true, Piece.text]
        rw [he] at hn
        rw [expr_inner m0] at hn ⊢
        cases n with
        | zero => simp at hn
        | succ n =>
          have hp : isPrefix ('{' :: ((innerOf m0) ++ ['}'])) ('{' :: ((innerOf m0) ++ ['}']) ++ renderPieces t) = true :=
            isPrefix_append _ _
          show replaceAll ('{' :: ((innerOf m0) ++ ['}'])) new (n + 1) ('{' :: (((innerOf m0) ++ ['}']) ++ renderPieces t)) = _
          have hp' : isPrefix ('{' :: ((innerOf m0) ++ ['}'])) ('{' :: (((innerOf m0) ++ ['}']) ++ renderPieces t)) = true := by
            simpa using hp
          simp only [replaceAll, hp', if_true]
          have hd : ('{' :: (((innerOf m0) ++ ['}']) ++ renderPieces t)).drop ('{' :: ((innerOf m0) ++ ['}'])).length = renderPieces t := by
            show (('{' :: ((innerOf m0) ++ ['}'])) ++ renderPieces t).drop _ = _
            simp
          rw [hd, ← expr_inner m0, ih hokt n (by simp only [List.length_append, List.length_cons] at hn; omega)]
      · simp only [he, if_false, Piece.text]
        rw [expr_inner m] at hn ⊢
        rw [expr_inner m0]
        cases n with
        | zero => simp at hn
        | succ n =>
          have hpf : isPrefix ('{' :: ((innerOf m0) ++ ['}'])) ('{' :: (((innerOf m) ++ ['}']) ++ renderPieces t)) = false := by
            cases hc : isPrefix ('{' :: ((innerOf m0) ++ ['}'])) ('{' :: (((innerOf m) ++ ['}']) ++ renderPieces t)) with
            | false => rfl
            | true =>
              exfalso
              simp only [isPrefix, decide_true, Bool.true_and] at hc
              have hc' : isPrefix ((innerOf m0) ++ ['}']) ((innerOf m) ++ '}' :: renderPieces t) = true := by simpa using hc
              have := isPrefix_closed (innerOf m0) (innerOf m) _ (inner_no_brace m0 h0).2 (inner_no_brace m hm).2 hc'
              apply he
              rw [expr_inner, expr_inner, this]
          show replaceAll ('{' :: ((innerOf m0) ++ ['}'])) new (n + 1) ('{' :: (((innerOf m) ++ ['}']) ++ renderPieces t)) = _
          simp only [replaceAll, hpf, Bool.false_eq_true, if_false]
          have hb : '{' ∉ (innerOf m) ++ ['}'] := by
            simp only [List.mem_append, List.mem_singleton, not_or]
            exact ⟨(inner_no_brace m hm).1, by decide⟩
          have hlen : n = ((innerOf m) ++ ['}']).length + (n - ((innerOf m) ++ ['}']).length) := by
            simp only [List.length_append, List.length_cons] at hn ⊢; omega
          rw [hlen, replaceAll_skip _ _ _ _ _ hb, ← expr_inner m0, ih hokt _ (by
            simp only [List.length_append, List.length_cons] at hn ⊢; omega)]
          simp

/-! #### the loop over the references -/

/-- one round of the loop of `_replace` -/
def stepR (vars : List (String × String)) (dflt : Option String) (fuel : Nat)
    (acc : Except RErr (List Char)) (m : VarMatch) : Except RErr (List Char) :=
  match acc with
  | .error e => .error e
  | .ok cur =>
    let repl : Except RErr (Option (List Char)) :=
      match dget? vars (String.ofList m.name) with
      | none => .ok (dflt.map String.toList)
      | some r => (replaceVars vars dflt fuel r.toList).map some
    match repl with
    | .error e => .error e
    | .ok none => .ok cur
    | .ok (some r) =>
      match formatStr m.spec r with
      | none => .error .unsupportedSpec
      | some txt => .ok (replaceAll m.expr txt cur.length cur)

theorem replaceVars_eq (vars : List (String × String)) (dflt : Option String) (fuel : Nat) (s : List Char) :
    replaceVars vars dflt (fuel + 1) s = (findVars s.length s).foldl (stepR vars dflt fuel) (.ok s) := rfl

/-- the text a reference is formatted from: the value of the variable if it is known, else the default if there is one -/
def targetOf (vars : List (String × String)) (dflt : Option String) (m : VarMatch) : Option (List Char) :=
  match dget? vars (String.ofList m.name) with
  | some r => some r.toList
  | none => dflt.map String.toList

/-- what a reference becomes: `format(value, spec)`, `format(default, spec)`, or nothing (it stays) -/
def outOf (vars : List (String × String)) (dflt : Option String) (m : VarMatch) : Option (List Char) :=
  (targetOf vars dflt m).bind (formatStr m.spec)

def finalP (vars : List (String × String)) (dflt : Option String) : Piece → Piece
  | .lit t => .lit t
  | .ref m => match outOf vars dflt m with | some txt => .lit txt | none => .ref m

/-- the flat case for one reference: the value of the variable has no opening brace (no nested reference), the spec is
one `format` accepts for a text, and the formatted text has no opening brace -/
def FlatRef (vars : List (String × String)) (dflt : Option String) (m : VarMatch) : Prop :=
  RefOK m ∧ (∀ r, dget? vars (String.ofList m.name) = some r → '{' ∉ r.toList) ∧
  ∀ t, targetOf vars dflt m = some t → ∃ txt, formatStr m.spec t = some txt ∧ '{' ∉ txt

theorem stepR_flat (vars : List (String × String)) (dflt : Option String) (fuel : Nat) (m : VarMatch)
    (h : FlatRef vars dflt m) (cur : List Char) :
    stepR vars dflt (fuel + 1) (.ok cur) m =
      .ok (match outOf vars dflt m with | some txt => replaceAll m.expr txt cur.length cur | none => cur) := by
  obtain ⟨_, hv, hf⟩ := h
  simp only [stepR, outOf, targetOf] at hf ⊢
  cases hd : dget? vars (String.ofList m.name) with
  | some r =>
    obtain ⟨txt, ht, _⟩ := hf r.toList (by simp [hd])
    simp [replace_no_braces vars dflt fuel r.toList (hv r hd), Except.map, ht]
  | none =>
    cases dflt with
    | none => simp
    | some d =>
      obtain ⟨txt, ht, _⟩ := hf d.toList (by simp [hd])
      simp [ht]

theorem expr_inj (m m' : VarMatch) (h : RefOK m) (h' : RefOK m') (he : m.expr = m'.expr) : m = m' := by
  rw [expr_inner, expr_inner] at he
  have hi : innerOf m ++ ['}'] = innerOf m' ++ ['}'] := by simpa using he
  have h1 := matchVar_ref m h []
  have h2 := matchVar_ref m' h' []
  rw [hi, h2] at h1
  cases m; cases m'; simp at h1; simp [h1.1, h1.2]

/-- the pieces while the loop runs: the references met so far have got their final form -/
def partialP (vars : List (String × String)) (dflt : Option String) (done : List VarMatch) : Piece → Piece
  | .lit t => .lit t
  | .ref m => if m ∈ done then finalP vars dflt (.ref m) else .ref m

theorem partialP_ok (vars : List (String × String)) (dflt : Option String) (done : List VarMatch) (p : Piece)
    (hp : PieceOK p) (hflat : ∀ m, p = .ref m → FlatRef vars dflt m) : PieceOK (partialP vars dflt done p) := by
  cases p with
  | lit t => exact hp
  | ref m =>
    simp only [partialP]
    split
    · simp only [finalP]
      cases ho : outOf vars dflt m with
      | none => exact hp
      | some txt =>
        obtain ⟨_, _, hf⟩ := hflat m rfl
        simp only [outOf] at ho
        cases ht : targetOf vars dflt m with
        | none => simp [ht] at ho
        | some t =>
          obtain ⟨txt', h1, h2⟩ := hf t ht
          simp only [ht, Option.bind_some, h1, Option.some.injEq] at ho
          subst ho; exact h2
    · exact hp

theorem partialP_step (vars : List (String × String)) (dflt : Option String) (done : List VarMatch) (m0 : VarMatch)
    (h0 : RefOK m0) (p : Piece) (hp : PieceOK p) :
    (match outOf vars dflt m0 with
      | some txt => substP m0.expr txt (partialP vars dflt done p)
      | none => partialP vars dflt done p) = partialP vars dflt (done ++ [m0]) p := by
  cases p with
  | lit t => cases outOf vars dflt m0 <;> rfl
  | ref m =>
    have hm : RefOK m := hp
    by_cases hd : m ∈ done
    · have hd' : m ∈ done ++ [m0] := List.mem_append_left _ hd
      simp only [partialP, hd, hd', if_true, finalP]
      cases ho0 : outOf vars dflt m0 with
      | none => rfl
      | some txt =>
        cases ho : outOf vars dflt m with
        | some t => rfl
        | none =>
          simp only [substP]
          have : m.expr ≠ m0.expr := by
            intro he; have := expr_inj m m0 hm h0 he; subst this; rw [ho] at ho0; cases ho0
          simp [this]
    · simp only [partialP, hd, if_false]
      by_cases he : m = m0
      · subst he
        simp only [List.mem_append, List.mem_singleton, or_true, if_true, finalP]
        cases outOf vars dflt m <;> simp [substP]
      · have hd' : m ∉ done ++ [m0] := by simp [hd, he]
        simp only [hd', if_false]
        cases outOf vars dflt m0 with
        | none => rfl
        | some txt =>
          have : m.expr ≠ m0.expr := fun hx => he (expr_inj m m0 hm h0 hx)
          simp [substP, this]

theorem foldl_stepR (vars : List (String × String)) (dflt : Option String) (fuel : Nat) (ps : List Piece)
    (hok : ∀ p ∈ ps, PieceOK p) (hflat : ∀ m, Piece.ref m ∈ ps → FlatRef vars dflt m)
    (L : List VarMatch) (hL : ∀ m ∈ L, FlatRef vars dflt m) (done : List VarMatch) :
    L.foldl (stepR vars dflt (fuel + 1)) (.ok (renderPieces (ps.map (partialP vars dflt done)))) =
      .ok (renderPieces (ps.map (partialP vars dflt (done ++ L)))) := by
  induction L generalizing done with
  | nil => simp
  | cons m0 t ih =>
    have h0 := hL m0 (by simp)
    simp only [List.foldl_cons]
    rw [stepR_flat vars dflt fuel m0 h0]
    have hcur : ∀ p ∈ ps.map (partialP vars dflt done), PieceOK p := by
      intro p hp
      obtain ⟨q, hq, rfl⟩ := List.mem_map.1 hp
      exact partialP_ok vars dflt done q (hok q hq) (fun m hm => hflat m (hm ▸ hq))
    have hnext : (match outOf vars dflt m0 with
        | some txt => replaceAll m0.expr txt (renderPieces (ps.map (partialP vars dflt done))).length
            (renderPieces (ps.map (partialP vars dflt done)))
        | none => renderPieces (ps.map (partialP vars dflt done))) =
        renderPieces (ps.map (partialP vars dflt (done ++ [m0]))) := by
      have hmap : ps.map (partialP vars dflt (done ++ [m0])) =
          ps.map (fun p => match outOf vars dflt m0 with
            | some txt => substP m0.expr txt (partialP vars dflt done p)
            | none => partialP vars dflt done p) := by
        apply List.map_congr_left
        intro p hp
        exact (partialP_step vars dflt done m0 h0.1 p (hok p hp)).symm
      rw [hmap]
      cases ho : outOf vars dflt m0 with
      | none => rfl
      | some txt =>
        simp only
        rw [replaceAll_pieces m0 h0.1 txt _ hcur _ (Nat.le_refl _), List.map_map]
        rfl
    rw [hnext]
    have := ih (fun m hm => hL m (List.mem_cons_of_mem _ hm)) (done ++ [m0])
    simpa [List.append_assoc] using this

theorem mem_refsOf (ps : List Piece) (m : VarMatch) : m ∈ refsOf ps ↔ Piece.ref m ∈ ps := by
  induction ps with
  | nil => simp [refsOf]
  | cons p t ih => cases p <;> simp [refsOf, ih]

/-- **`_replace` on the whole grammar** (induction over the list of references `re.finditer` returns): a text made of
brace-free stretches and any number of references `{name}` / `{name:spec}` — repeated ones included —, in the flat case
(values of known variables without braces, specs `format` accepts): every reference to a known variable becomes
`format(value, spec)`, every reference to an unknown variable becomes `format(default, spec)` when a default is given
and stays exactly as it is when none is given, and the stretches in between are untouched -/
theorem replace_all_references (vars : List (String × String)) (dflt : Option String) (fuel : Nat) (ps : List Piece)
    (hok : ∀ p ∈ ps, PieceOK p) (hflat : ∀ m, Piece.ref m ∈ ps → FlatRef vars dflt m) :
    replaceVars vars dflt (fuel + 2) (renderPieces ps) = .ok (renderPieces (ps.map (finalP vars dflt))) := by
  rw [replaceVars_eq, findVars_pieces ps hok _ (Nat.le_refl _)]
  have h0 : ps.map (partialP vars dflt []) = ps := by
    rw [List.map_congr_left (g := id)]; simp
    intro p _; cases p <;> simp [partialP]
  have := foldl_stepR vars dflt fuel ps hok hflat (refsOf ps) (fun m hm => hflat m ((mem_refsOf ps m).1 hm)) []
  rw [h0] at this
  rw [this]
  congr 2
  apply List.map_congr_left
  intro p hp
  cases p with
  | lit t => rfl
  | ref m => simp [partialP, (mem_refsOf ps m).2 hp]

/-- unknown variables without a default: the text comes back unchanged wherever it has no known variable — and with
`replace_all_references` the known ones are replaced around them -/
example : replaceVars [("year", "2019"), ("doy", "7")] none 5 "/data/{year}/{doy:>3}_{year}_{unknown}.txt".toList =
    .ok "/data/2019/  7_2019_{unknown}.txt".toList := by decide +kernel
example : replaceVars [("year", "2019")] (some "*") 5 "{year}/{sta}{sta:^5}".toList = .ok "2019/*  *  ".toList := by decide +kernel

/-! ### `update_from_file` with `DEFAULT`, `__replace__`, `__vars__` -/

theorem takeOk_map_ok {ε α} (l : List α) : takeOk (l.map (Except.ok (ε := ε))) = (l, none) := by
  induction l with
  | nil => rfl
  | cons a t ih => simp [takeOk, ih]

theorem replaceIn_nil (s : String) : replaceIn [] s = .ok s := by
  simp [replaceIn, replace_no_vars 63 s.toList, Except.map]

theorem joinValueR_nil (vs : List (List Char)) : joinValueR [] vs = .ok (joinValue vs) := by
  simp [joinValueR, replaceIn_nil, Except.map, joinValue, rawValue]

theorem sectionUpdatesR_nil (source : String) (allowNew : Bool) (n : String) (opts : List RawOpt) :
    sectionUpdatesR [] source allowNew n opts = (sectionUpdates source allowNew n opts).map .ok := by
  simp only [sectionUpdatesR, sectionUpdates]
  split
  · rfl
  · rw [List.map_filterMap]
    congr 1
    funext o
    split
    · rfl
    · cases hv : o.value with
      | none => simp [replaceIn_nil]
      | some vs => simp [replaceIn_nil, joinValueR_nil]

theorem fileUpdatesR_nil (source : String) (allowNew : Bool) (raw : List (String × List RawOpt)) :
    fileUpdatesR [] source allowNew raw = (fileUpdates source allowNew raw).map .ok := by
  simp [fileUpdatesR, fileUpdates, sectionUpdatesR_nil, List.map_flatMap]

/-- **the extended reader is conservative**: for a file without `DEFAULT`, `__replace__` and `__vars__` sections
`update_from_file` is the reader of the round-trip theorems (`Cfg.updateFromText`) -/
theorem updateFromFile_plain (c : Cfg) (text source : String) (allowNew caseSensitive : Bool)
    (raw : List (String × List RawOpt)) (hraw : readIniRaw (!caseSensitive) text = .ok raw)
    (hd : dget? raw "DEFAULT" = none) (hr : dget? raw "__replace__" = none) (hv : dget? raw "__vars__" = none) :
    c.updateFromFile text source allowNew caseSensitive =
      (c.updateFromText text source allowNew caseSensitive).map (fun r => (r.1, r.2.map FileErr.cfg)) := by
  simp only [Cfg.updateFromFile, Cfg.updateFromText, hraw, Except.map, applyDefaults, hd, hr, hv, replaceTable,
    fileUpdatesR_nil, takeOk_map_ok]
  cases ((c.updateMany false (fileUpdates source allowNew raw) []).2.1) <;> rfl

theorem updateRaw_vars (c c' : Cfg) (u : Upd) (h : c.updateRaw u = .ok c') : c'.vars = c.vars := by
  simp only [Cfg.updateRaw] at h
  split at h
  · simp at h
  · simp at h; rw [← h]

theorem updateMany_vars (skip : Bool) (l : List (String × Upd)) (c : Cfg) (done : List String) :
    (c.updateMany skip l done).1.vars = c.vars := by
  induction l generalizing c done with
  | nil => rfl
  | cons tu t ih =>
    obtain ⟨tag, u⟩ := tu
    simp only [Cfg.updateMany]
    cases hu : c.updateRaw u with
    | ok c' => simp only; rw [ih, updateRaw_vars c c' u hu]
    | error e =>
      simp only
      split
      · exact ih c done
      · rfl

/-- **`__vars__`**: after `update_from_file` the variables are the old ones overlaid with the items of the `__vars__`
section of the file (with the `DEFAULT` options seen in it) — also when an entry of the file is refused or a
replacement raises; without such a section the variables are untouched -/
theorem updateFromFile_vars (c c' : Cfg) (text source : String) (allowNew caseSensitive : Bool) (e : Option FileErr)
    (raw : List (String × List RawOpt)) (hraw : readIniRaw (!caseSensitive) text = .ok raw)
    (h : c.updateFromFile text source allowNew caseSensitive = .ok (c', e)) :
    c'.vars = match dget? (applyDefaults raw) "__vars__" with
      | some os => (c.updateVarsOpt (sectionItems os)).vars
      | none => c.vars := by
  simp only [Cfg.updateFromFile, hraw, Except.map] at h
  injection h with h
  have h1 := congrArg Prod.fst h
  simp only at h1
  rw [← h1, updateMany_vars]
  cases dget? (applyDefaults raw) "__vars__" <;> rfl

/-- sections whose name starts with `__` (`__vars__`, `__replace__`, …) define no entries -/
theorem dunder_sections_no_entries (rv : List (String × String)) (source : String) (allowNew : Bool) (n : String)
    (rest : List Char) (hn : n.toList = '_' :: '_' :: rest) (opts : List RawOpt) :
    sectionUpdatesR rv source allowNew n opts = [] := by
  simp [sectionUpdatesR, hn, partDunder]

example : (match (Cfg.new "c").updateFromFile
    "[DEFAULT]\nunit = m\n[__vars__]\nroot = /data\n[__replace__]\nsta = zimm\n[s1]\nk_{sta} = {root}/{sta}.txt\n" "f" true false with
    | .ok (c', none) => c'.vars == [("root", "/data"), ("unit", "m")] &&
        c'.sections == [("s1", [("k_zimm", ⟨"{root}/zimm.txt", "f", []⟩), ("unit", ⟨"m", "f", []⟩)])]
    | _ => false) = true := by decide +kernel

/-! ### Profile selections -/

/-- whatever is assigned to `cfg.profiles`, the profile-less level `None` ends the priority list
("then the profile-less value"); `None` and the empty list select no profile -/
theorem setProfiles_last (c : Cfg) (v : Option (List Profile)) :
    (c.setProfiles v).profiles.getLast? = some none := by
  simp only [Cfg.setProfiles, Cfg.refresh]
  cases v with
  | none => rfl
  | some l =>
    cases l with
    | nil => rfl
    | cons a t =>
      simp only
      split
      · rename_i h; exact h
      · rw [List.getLast?_append]; simp

theorem setProfiles_none_eq_empty (c : Cfg) : c.setProfiles none = c.setProfiles (some []) := rfl


/-! ### Text form: wrapping never loses, splits, merges or reorders a word -/

/-- the word chunks of a chunk list (blank chunks removed) -/
def wordChunks (cs : List (List Char)) : List (List Char) := cs.filter (fun ch => !isSpaceChunk ch)

theorem takeFit_split (avail : Nat) (cur : List (List Char)) (len : Nat) (l : List (List Char)) :
    ∃ a, (takeFit avail cur len l).1 = cur ++ a ∧ a ++ (takeFit avail cur len l).2 = l := by
  induction l generalizing cur len with
  | nil => exact ⟨[], by simp [takeFit]⟩
  | cons ch r ih =>
    simp only [takeFit]
    split
    · obtain ⟨a, h1, h2⟩ := ih (cur ++ [ch]) (len + ch.length)
      exact ⟨ch :: a, by simp [h1], by simp [h2]⟩
    · exact ⟨[], by simp⟩

theorem wordChunks_dropTrailingSpace (cur : List (List Char)) :
    wordChunks (dropTrailingSpace cur) = wordChunks cur := by
  simp only [dropTrailingSpace]
  cases h : cur.getLast? with
  | none => rfl
  | some ch =>
    simp only
    split
    · rename_i hsp
      have hcur : cur = cur.dropLast ++ [ch] := by
        have hne : cur ≠ [] := by intro hn; subst hn; simp at h
        have := List.dropLast_concat_getLast hne
        rw [List.getLast?_eq_some_getLast hne] at h
        simp only [Option.some.injEq] at h
        rw [h] at this
        exact this.symm
      conv => rhs; rw [hcur]
      simp [wordChunks, List.filter_append, hsp]
    · rfl

theorem wordChunks_append (a b : List (List Char)) : wordChunks (a ++ b) = wordChunks a ++ wordChunks b := by
  simp [wordChunks, List.filter_append]

theorem lineSplit_spec (avail : Nat) (cs : List (List Char)) :
    (lineSplit avail cs).1 ++ (lineSplit avail cs).2 = cs ∧ (cs ≠ [] → (lineSplit avail cs).1 ≠ []) := by
  obtain ⟨a, ha1, ha2⟩ := takeFit_split avail [] 0 cs
  simp only [List.nil_append] at ha1
  simp only [lineSplit]
  generalize takeFit avail [] 0 cs = tf at ha1 ha2
  obtain ⟨cur, rest⟩ := tf
  simp only at ha1 ha2
  subst ha1
  cases cur with
  | nil =>
    cases rest with
    | nil => simp at ha2; subst ha2; simp
    | cons c r => simp at ha2; subst ha2; simp
  | cons x xs => simp [ha2]

/-- **wrapping keeps every word**: the lines `textwrap` produces contain, in order, exactly the word
chunks of the text — only blank chunks are dropped (at line starts and ends), nothing is split,
merged, reordered or lost, for every width and indent -/
theorem wrap_keeps_words (w hang : Nat) (n : Nat) (first : Bool) (cs : List (List Char))
    (hfuel : cs.length ≤ n) :
    wordChunks (wrapChunks w hang n first cs).flatten = wordChunks cs := by
  induction n generalizing first cs with
  | zero =>
    have : cs = [] := by cases cs <;> simp_all
    subst this; simp [wrapChunks, wordChunks]
  | succ n ih =>
    cases cs with
    | nil => simp [wrapChunks, wordChunks]
    | cons ch0 r0 =>
      simp only [wrapChunks]
      generalize hcs : (if (!first && isSpaceChunk ch0) = true then r0 else ch0 :: r0) = cs'
      have hlen : cs'.length ≤ n + 1 := by
        rw [← hcs]; split <;> simp at hfuel ⊢ <;> omega
      have hwords : wordChunks cs' = wordChunks (ch0 :: r0) := by
        rw [← hcs]; split
        · rename_i h; simp at h; simp [wordChunks, h.2]
        · rfl
      obtain ⟨hsplit, hne⟩ := lineSplit_spec (if first = true then w else w - hang) cs'
      generalize lineSplit (if first = true then w else w - hang) cs' = sp at hsplit hne
      obtain ⟨cur2, rest2⟩ := sp
      simp only at hsplit hne ⊢
      have hrest : rest2.length ≤ n := by
        by_cases hcs' : cs' = []
        · subst hcs'; simp at hsplit; simp [hsplit.2]
        · have := hne hcs'
          have hl : cs'.length = cur2.length + rest2.length := by rw [← hsplit]; simp
          have : 0 < cur2.length := List.length_pos_iff.2 this
          omega
      have hfin : wordChunks (dropTrailingSpace cur2) ++ wordChunks rest2 = wordChunks (ch0 :: r0) := by
        rw [wordChunks_dropTrailingSpace, ← wordChunks_append, hsplit, hwords]
      split
      · rename_i hemp
        rw [ih first rest2 hrest]
        have : dropTrailingSpace cur2 = [] := by simpa using hemp
        rw [this] at hfin
        simpa [wordChunks] using hfin
      · rw [List.flatten_cons, wordChunks_append, ih false rest2 hrest]
        exact hfin

/-- the same for `fill`, whose fuel is the number of chunks plus one -/
theorem fill_keeps_words (w hang : Nat) (text : List Char) :
    wordChunks (wrapChunks w hang ((chunks (munge text)).length + 1) true (chunks (munge text))).flatten
      = wordChunks (chunks (munge text)) :=
  wrap_keeps_words w hang _ true _ (Nat.le_succ _)

/-! ### Text form: written with `as_str`, read back with `update_from_file`

The statement is about exactly the functions the driver runs for its `w` and `r` operations
(`asStr`, `Cfg.updateFromText` = `readIniRaw` + `fileUpdates` + `Cfg.updateMany`), which every run compares
character for character with `Configuration.as_str` and with `ConfigParser` + `update_from_file` on the
written file.  The proof is in `Proofs/ConfigWrap, ConfigLines, ConfigRead, ConfigReadDoc, ConfigFile,
ConfigDoc, ConfigStore, ConfigRoundTrip`.

`WfText lower w kw secs` (decidable, `Proofs/ConfigDoc.lean`) says which configurations the text form can
carry — each clause is a way the real reader would return something else:
 * section names: pairwise different, no blank, a non-empty part before the first `__`, not `DEFAULT`;
   sections are not empty (`as_str` leaves an empty section out);
 * keys: pairwise different within a section, not empty, no blank, no `=`, no `:` (that marks metadata), lower
   case unless the reader is case sensitive, not starting with `[`, `#` or `;`; key, padding and `=` fit the
   line (`max kw |key| + 2 ≤ w`); the same for the metadata option names `key:meta`, and the metadata names of
   one entry are pairwise different;
 * values and metadata texts: words separated by single blanks (the empty text included), no `%`
   (interpolation), no word starting with `#` or `;` (a wrapped line starting with such a word is a comment).
Long words, words longer than the line, values wrapped over any number of lines, keys longer than the key
column, valueless metadata (`key:meta` alone on a line) and `section__profile` names are all inside. -/

open Midgard.Proofs.ConfigText (WfText readBack readEntry sourceFor profileOf baseOf)

/-- **Text round trip.**  For every well-formed configuration `secs` (the flattened view `as_str` writes),
every line width `w` and key column `kw`: reading the written text (`as_str` + the final line break of
`write_to_file`) into a new configuration succeeds without error, and the configuration read has, for every
profile `p`, exactly the sections that were written under a name standing for `p` (`name` → no profile,
`name__p` → profile `p`), in the order written, each with the same keys in the same order, the same values
and the same metadata (`readBack`); its flattened view is the profile-less part. -/
theorem text_roundtrip (caseSensitive : Bool) (w kw : Nat) (secs : Sections)
    (hwf : WfText (!caseSensitive) w kw secs = true) (name src : String) :
    ∃ c', (Cfg.new name).updateFromText (asStr w kw secs ++ "\n") src true caseSensitive = .ok (c', none) ∧
      c'.name = name ∧ c'.profiles = [none] ∧ c'.master = none ∧ c'.vars = [] ∧
      (∀ p, (dget? c'.profileSections p).getD [] = readBack src p secs) ∧
      c'.sections = readBack src none secs :=
  Midgard.Proofs.ConfigText.text_roundtrip_main caseSensitive w kw secs hwf name src

/-- **Text round trip, no profile sections.**  When no section name contains `__`, the view read back is the
view written: the same sections in the same order, the same keys in the same order, the same values and the
same metadata; only the source of the entries is now the file. -/
theorem text_roundtrip_plain (caseSensitive : Bool) (w kw : Nat) (secs : Sections)
    (hwf : WfText (!caseSensitive) w kw secs = true)
    (hplain : ∀ ns ∈ secs, (partDunder ns.1.toList).2.1 = false) (name src : String) :
    ∃ c', (Cfg.new name).updateFromText (asStr w kw secs ++ "\n") src true caseSensitive = .ok (c', none) ∧
      c'.sections = secs.map (fun ns => (ns.1, ns.2.map (fun ke => (ke.1, ⟨ke.2.value, src, ke.2.metas⟩)))) :=
  Midgard.Proofs.ConfigText.text_roundtrip_plain_main caseSensitive w kw secs hwf hplain name src

/-- the driver's `r` operation (`Driver/C19.lean`: key column 30, reader not case sensitive, configuration
`reread`, source `F`) answers with the view written -/
theorem text_roundtrip_driver (w : Nat) (secs : Sections) (hwf : WfText true w 30 secs = true)
    (hplain : ∀ ns ∈ secs, (partDunder ns.1.toList).2.1 = false) :
    ∃ c', (Cfg.new "reread").updateFromText (asStr w 30 secs ++ "\n") "F" true false = .ok (c', none) ∧
      c'.sections = secs.map (fun ns => (ns.1, ns.2.map (fun ke => (ke.1, ⟨ke.2.value, "F", ke.2.metas⟩)))) :=
  text_roundtrip_plain false w 30 secs hwf hplain "reread" "F"

/-- the text form does not contain the sources -/
theorem sectionStr_ignores_source (w kw : Nat) (n : String) (s : Section) (src : String) :
    sectionStr w kw n (s.map (fun ke => (ke.1, (⟨ke.2.value, src, ke.2.metas⟩ : Entry)))) = sectionStr w kw n s := by
  simp only [sectionStr, List.map_map]
  rfl

theorem asStr_ignores_source (w kw : Nat) (secs : Sections) (src : String) :
    asStr w kw (secs.map (fun ns => (ns.1, ns.2.map (fun ke => (ke.1, (⟨ke.2.value, src, ke.2.metas⟩ : Entry)))))) =
      asStr w kw secs := by
  simp only [asStr, List.map_map]
  congr 3
  apply List.map_congr_left
  intro ns _
  exact sectionStr_ignores_source w kw ns.1 ns.2 src

/-- **the text form is stable**: a written configuration that is read back and written again gives the same
text, character for character (what `update_on_file` and the fixed `FILE_WIDTH` are for) -/
theorem text_form_stable (caseSensitive : Bool) (w kw : Nat) (secs : Sections)
    (hwf : WfText (!caseSensitive) w kw secs = true)
    (hplain : ∀ ns ∈ secs, (partDunder ns.1.toList).2.1 = false) (name src : String) :
    ∃ c', (Cfg.new name).updateFromText (asStr w kw secs ++ "\n") src true caseSensitive = .ok (c', none) ∧
      asStr w kw c'.sections = asStr w kw secs := by
  obtain ⟨c', h1, h2⟩ := text_roundtrip_plain caseSensitive w kw secs hwf hplain name src
  exact ⟨c', h1, by rw [h2]; exact asStr_ignores_source w kw secs src⟩

/-- what `readBack` says, entry by entry: a written section `n` with entry `(k, e)` is found under profile
`profileOf n`, section `baseOf n`, key `k`, with value and metadata of `e` -/
theorem readBack_mem (src : String) (secs : Sections) (n : String) (s : Section) (h : (n, s) ∈ secs) :
    (baseOf n, s.map (fun ke => (ke.1, readEntry src (profileOf n) ke.2))) ∈ readBack src (profileOf n) secs := by
  simp only [readBack, List.mem_map, List.mem_filter, decide_eq_true_eq]
  exact ⟨(n, s), ⟨h, rfl⟩, rfl⟩

/-- a non-trivial configuration inside `WfText` at width 45 (13 characters per continuation line): a value
wrapped over many lines, a word longer than a line, a hyphenated word, words with `#`, `;`, `=`, `[`, `:`
inside, an empty value, a key longer than the key column, metadata with and without value, a wrapped help
text, and two profiles of the same section -/
def exampleSecs : Sections :=
  [("gnss",
     [("stations", ⟨"zimm onsa nyal trom hofn mets wtzr kir0 mar6 vis0 north-east", "code", []⟩),
      ("empty", ⟨"", "", []⟩),
      ("a_key_longer_than_the_key_column", ⟨"/a/path/that/is/much/longer/than/the/forty-five/characters/of/a/line.txt b", "",
        [("help", some "How the a#b c;d e=f [g] h:i values are chosen"), ("type", some "List[str]"), ("flag", none)]⟩)]),
   ("gnss__vlbi", [("stations", ⟨"wettzell ny-alesund", "", [("help", some "x")]⟩)]),
   ("gnss__slr", [("stations", ⟨"", "", []⟩), ("k2", ⟨"0", "", []⟩)]),
   ("files", [("path", ⟨"{year}/{doy:03d}/file.txt", "", [("wrapper", none)]⟩)])]

example : WfText true 45 30 exampleSecs = true := by decide +kernel
example : WfText true 200 30 exampleSecs = true := by decide +kernel
/-- the first value is written on six lines -/
example : (entryLines 45 30 "stations"
    ⟨"zimm onsa nyal trom hofn mets wtzr kir0 mar6 vis0 north-east", "code", []⟩).length = 6 := by decide +kernel
/-- a word starting with `#` is outside (it would be read as a comment when it starts a line) -/
example : WfText true 45 30 [("s", [("k", ⟨"a #b", "", []⟩)])] = false := by decide +kernel

/-! ### Typed accessors with arguments: `as_list` / `as_tuple` / `as_dict` with character-class patterns -/

/-- the default patterns and limits of the source are the ones the model's defaults stand for -/
theorem accessor_defaults :
    Generated.ConfigTables.splitDefaults = [("as_list.split_re", "[\\s,]"), ("as_tuple.split_re", "[\\s,]"),
      ("as_dict.item_split_re", "[\\s,]"), ("as_dict.key_value_split_re", "[:]")] ∧
    Generated.ConfigTables.maxsplitDefaults = [("as_list", 0), ("as_tuple", 0), ("as_dict", 0)] ∧
    parseClass? "[\\s,]" = some classSpaceComma ∧ parseClass? "[:]" = some classColon ∧
    Generated.ConfigTables.asDateDefault = "%Y-%m-%d" ∧ Generated.ConfigTables.asDatetimeDefault = "%Y-%m-%d %H:%M:%S" ∧
    Generated.ConfigTables.fmtDate = "%Y-%m-%d" ∧ Generated.ConfigTables.fmtDatetime = "%Y-%m-%d %H:%M:%S" := by
  decide +kernel

theorem classSpaceComma_has (c : Char) : classSpaceComma.has c = (isBlank c || decide (c = ',')) := by
  by_cases h : c = ',' <;> cases hb : isBlank c <;>
    simp [classSpaceComma, CharClass.has, ClassItem.has, h, hb, eq_comm]

theorem classColon_has (c : Char) : classColon.has c = decide (c = ':') := by
  by_cases h : c = ':' <;> simp [classColon, CharClass.has, ClassItem.has, h, eq_comm]

/-- `re.split("[\s,]", text)` without empty pieces is `text.replace(",", " ").split()` -/
theorem reSplit_filter_eq_splitBlanks (isSep : Char → Bool) (hsep : ∀ c, isSep c = (isBlank c || decide (c = ',')))
    (s cur : List Char) :
    (reSplit isSep none s cur).filter (fun p => !p.isEmpty) =
      splitBlanks (s.map (fun c => if c = ',' then ' ' else c)) cur := by
  induction s generalizing cur with
  | nil =>
    simp only [reSplit, List.map_nil, splitBlanks, List.filter_cons, List.filter_nil]
    cases cur <;> simp
  | cons c t ih =>
    by_cases hc : isSep c = true
    · have hb : isBlank (if c = ',' then ' ' else c) = true := by
        rw [hsep] at hc
        by_cases h : c = ','
        · simp [h, isBlank_space]
        · simpa [h] using hc
      have : ((none : Option Nat) != some 0) = true := by decide
      simp only [reSplit, hc, this, Bool.and_true, if_true, List.map_cons, splitBlanks, hb, Option.map_none]
      cases cur with
      | nil => simp [List.filter_cons, ih]
      | cons a r => simp [List.filter_cons, ih]
    · have hc' : isSep c = false := by simpa using hc
      have hne : c ≠ ',' := by intro h; rw [hsep, h] at hc'; simp at hc'
      have hb : isBlank c = false := by rw [hsep] at hc'; simpa [hne] using hc'
      simp only [reSplit, hc', Bool.false_and, List.map_cons, hne, if_false, splitBlanks, hb]
      exact ih (c :: cur)

/-- **`as_list()` / `as_tuple()` with their defaults are the `list` / `tuple` properties** -/
theorem asListRe_default (v : String) : asListRe classSpaceComma 0 v = asList v := by
  simp only [asListRe, limOf, if_true, asList]
  rw [reSplit_filter_eq_splitBlanks classSpaceComma.has classSpaceComma_has]

/-- when no further split is allowed the rest of the text is one piece -/
theorem reSplit_zero (isSep : Char → Bool) (s cur : List Char) : reSplit isSep (some 0) s cur = [cur.reverse ++ s] := by
  induction s generalizing cur with
  | nil => simp [reSplit]
  | cons c t ih => simp [reSplit, ih]

/-- **the pieces of `re.split(class, text)`**: no piece contains a character of the class, and the pieces joined by the
separators they were cut at are the text: their concatenation is the text without the characters of the class -/
theorem reSplit_spec (isSep : Char → Bool) (s cur : List Char) (hcur : ∀ c ∈ cur, isSep c = false) :
    (∀ p ∈ reSplit isSep none s cur, ∀ c ∈ p, isSep c = false) ∧
    (reSplit isSep none s cur).flatten = cur.reverse ++ s.filter (fun c => !isSep c) := by
  induction s generalizing cur with
  | nil => simpa [reSplit] using hcur
  | cons c t ih =>
    by_cases hc : isSep c = true
    · have : ((none : Option Nat) != some 0) = true := by decide
      simp only [reSplit, hc, this, Bool.and_true, if_true, Option.map_none]
      obtain ⟨h1, h2⟩ := ih [] (by simp)
      refine ⟨?_, by simp [h2, hc]⟩
      intro p hp
      rcases List.mem_cons.1 hp with rfl | hp
      · intro x hx; exact hcur x (List.mem_reverse.1 hx)
      · exact h1 p hp
    · have hc' : isSep c = false := by simpa using hc
      simp only [reSplit, hc', Bool.false_and]
      obtain ⟨h1, h2⟩ := ih (c :: cur) (by
        intro x hx; rcases List.mem_cons.1 hx with rfl | hx
        · exact hc'
        · exact hcur x hx)
      exact ⟨h1, by simp [h2, hc']⟩

/-- **`as_list(split_re)`**: every element is non-empty and free of separator characters, and in order they make up the
text without its separator characters (for `maxsplit = 0`) -/
theorem asListRe_spec (cc : CharClass) (v : String) :
    (∀ w ∈ asListRe cc 0 v, w ≠ "" ∧ ∀ c ∈ w.toList, cc.has c = false) ∧
    ((asListRe cc 0 v).map String.toList).flatten = v.toList.filter (fun c => !cc.has c) := by
  obtain ⟨h1, h2⟩ := reSplit_spec cc.has v.toList [] (by simp)
  simp only [asListRe, limOf, if_true]
  constructor
  · intro w hw
    obtain ⟨p, hp, rfl⟩ := List.mem_map.1 hw
    obtain ⟨hp1, hp2⟩ := List.mem_filter.1 hp
    refine ⟨?_, by simpa using h1 p hp1⟩
    intro h
    have : p = [] := by simpa using congrArg String.toList h
    simp [this] at hp2
  · rw [List.map_map]
    have : (String.toList ∘ String.ofList) = id := by funext x; simp
    rw [this, List.map_id]
    have hf : ∀ l : List (List Char), (l.filter (fun p => !p.isEmpty)).flatten = l.flatten := by
      intro l; induction l with
      | nil => rfl
      | cons a t ih => cases a <;> simp [List.filter_cons, ih]
    rw [hf, h2]; simp

/-- splitting an item once at the key/value separator is `str.partition` when the separator occurs, and leaves a
single piece when it does not -/
theorem reSplit_once (sep : Char) (isSep : Char → Bool) (hsep : ∀ c, isSep c = decide (c = sep)) (s cur : List Char) :
    reSplit isSep (some 1) s cur =
      if (partitionAt sep s).2.1 then [cur.reverse ++ (partitionAt sep s).1, (partitionAt sep s).2.2]
      else [cur.reverse ++ s] := by
  induction s generalizing cur with
  | nil => simp [reSplit, partitionAt]
  | cons c t ih =>
    by_cases hc : c = sep
    · have : ((some 1 : Option Nat) != some 0) = true := by decide
      simp [reSplit, hsep, hc, partitionAt, this, reSplit_zero]
    · have hc' : isSep c = false := by rw [hsep]; simp [hc]
      have hp : partitionAt sep (c :: t) = (c :: (partitionAt sep t).1, (partitionAt sep t).2.1, (partitionAt sep t).2.2) := by
        simp [partitionAt, hc]
      simp only [reSplit, hc', Bool.false_and, Bool.false_eq_true, if_false]
      rw [hp, ih (c :: cur)]
      split <;> simp

/-- the loop of `as_dict` over the items -/
def dictStep (kvCc : CharClass) (acc : Except Err (List (String × String))) (it : String) :
    Except Err (List (String × String)) :=
  match acc with
  | .error e => .error e
  | .ok d =>
    match reSplit kvCc.has (some 1) it.toList [] with
    | [k, x] => .ok (dset d (String.ofList k) (String.ofList x))
    | _ => .error .value

theorem asDictRe_eq (itemCc kvCc : CharClass) (ms : Nat) (v : String) :
    asDictRe itemCc kvCc ms v = (asListRe itemCc ms v).foldl (dictStep kvCc) (.ok []) := rfl

theorem dictStep_error (kvCc : CharClass) (l : List String) (e : Err) : l.foldl (dictStep kvCc) (.error e) = .error e := by
  induction l with
  | nil => rfl
  | cons a t ih => simpa [dictStep] using ih

theorem dictStep_colon (d : List (String × String)) (it : List Char) :
    dictStep classColon (.ok d) (String.ofList it) =
      if ':' ∈ it then .ok (dset d (dictItem it).1 (dictItem it).2) else .error .value := by
  simp only [dictStep, String.toList_ofList]
  rw [reSplit_once ':' classColon.has classColon_has]
  by_cases h : ':' ∈ it
  · have := (partitionAt_spec ':' it).1 h
    simp [h, this.1, dictItem]
  · have := (partitionAt_spec ':' it).2 h
    simp [h, this]

/-- **`as_dict()` with its defaults**: when every item has a colon it is the `dict` property -/
theorem asDictRe_default_ok (v : String) (h : ∀ it ∈ asListChars v, ':' ∈ it) :
    asDictRe classSpaceComma classColon 0 v = .ok (asDict v) := by
  rw [asDictRe_eq, asListRe_default, asList_eq, asDict_eq]
  generalize asListChars v = l at h
  suffices hs : ∀ d, (l.map String.ofList).foldl (dictStep classColon) (.ok d) =
      .ok ((l.map dictItem).foldl (fun acc p => dset acc p.1 p.2) d) from hs []
  induction l with
  | nil => intro d; rfl
  | cons it t ih =>
    intro d
    simp only [List.map_cons, List.foldl_cons, dictStep_colon, h it (by simp), if_true]
    exact ih (fun x hx => h x (List.mem_cons_of_mem _ hx)) _

/-- … and when some item has no colon, `as_dict()` raises ValueError (the unpacking `for k, v in …` fails), where the
`dict` property maps that item to the empty text -/
theorem asDictRe_default_error (v : String) (it : List Char) (hit : it ∈ asListChars v) (hno : ':' ∉ it) :
    asDictRe classSpaceComma classColon 0 v = .error .value := by
  rw [asDictRe_eq, asListRe_default, asList_eq]
  generalize asListChars v = l at hit
  suffices hs : ∀ acc, (l.map String.ofList).foldl (dictStep classColon) acc = .error .value ∨
      (∃ e, acc = .error e ∧ e ≠ .value) from by
    rcases hs (.ok []) with h | ⟨e, h, _⟩
    · exact h
    · cases h
  induction l with
  | nil => simp at hit
  | cons a t ih =>
    intro acc
    cases acc with
    | error e =>
      by_cases he : e = .value
      · left; subst he; simp [dictStep_error, dictStep]
      · right; exact ⟨e, rfl, he⟩
    | ok d =>
      left
      simp only [List.map_cons, List.foldl_cons, dictStep_colon]
      rcases List.mem_cons.1 hit with rfl | hmem
      · simp [hno, dictStep_error]
      · by_cases ha : ':' ∈ a
        · simp only [ha, if_true]
          rcases ih hmem (.ok (dset d (dictItem a).1 (dictItem a).2)) with h | ⟨e, h, _⟩
          · exact h
          · cases h
        · simp [ha, dictStep_error]

/-- **`dict_partition`**: the `dict` property takes an item apart with `str.partition(":")` — an item without a colon is
a key with the empty text as value (it is not an error, unlike in `as_dict`) -/
theorem dict_partition (it : List Char) (h : ':' ∉ it) : dictItem it = (String.ofList it, "") := by
  have := (dictItem_text it).2 h
  apply Prod.ext
  · simpa using congrArg String.ofList this.1
  · exact this.2

example : asDict "elevation:10, ionosphere, clock:poly:2" = [("elevation", "10"), ("ionosphere", ""), ("clock", "poly:2")] := by
  decide +kernel
example : (asDictRe classSpaceComma classColon 0 "elevation:10, ionosphere") = .error .value := by
  apply asDictRe_default_error _ "ionosphere".toList <;> decide +kernel

/-! ### `float`, `date`, `datetime`, `path`, `as_enum` -/

/-- `entry.float` raises nothing but ValueError -/
theorem asFloat_error (v : String) (e : Err) (h : asFloat v = .error e) : e = .value := by
  simp only [asFloat] at h
  split at h
  · simp at h
  · split at h
    · simp at h
    · split at h
      · simp at h; exact h.symm
      · split at h
        · simp at h; exact h.symm
        · split at h <;> simp at h; exact h.symm

/-- **`entry.float` = the decimal parser on the text without its blanks around and its underscores**: a finite answer is
the exact value `Decimal.parseFloat` (the `float()` grammar shared with the file parsers: sign, digits, point,
exponent) gives for the text with the underscores taken out, and underscores are accepted between two digits only -/
theorem asFloat_sound (v : String) (q : Rat) (h : asFloat v = .ok (.finite q)) :
    ∃ t, dropUnderscores none (stripBlanks v.toList) = some t ∧ Midgard.Decimal.parseFloat t = some q := by
  simp only [asFloat] at h
  split at h
  · simp at h
  · split at h
    · simp at h
    · split at h
      · simp at h
      · rename_i t ht
        split at h
        · simp at h
        · split at h
          · rename_i q' hq
            simp at h; subst h; exact ⟨t, ht, hq⟩
          · simp at h

theorem dropUnderscores_spec (prev : Option Char) (s t : List Char) (h : dropUnderscores prev s = some t) :
    t = s.filter (· ≠ '_') := by
  induction s generalizing prev t with
  | nil => simp [dropUnderscores] at h; subst h; rfl
  | cons c r ih =>
    by_cases hc : c = '_'
    · subst hc
      cases prev with
      | none => simp [dropUnderscores] at h
      | some p =>
        cases r with
        | nil => simp [dropUnderscores] at h
        | cons n r' =>
          simp only [dropUnderscores] at h
          split at h
          · simpa using ih _ _ h
          · simp at h
    · have : dropUnderscores prev (c :: r) = (dropUnderscores (some c) r).map (c :: ·) := by
        cases prev <;> simp [dropUnderscores, hc]
      rw [this] at h
      cases hr : dropUnderscores (some c) r with
      | none => simp [hr] at h
      | some t' => simp [hr] at h; subst h; simp [hc, ih _ _ hr]

/-- a text without underscores is handed to the decimal parser as it is -/
theorem dropUnderscores_plain (prev : Option Char) (s : List Char) (h : '_' ∉ s) : dropUnderscores prev s = some s := by
  induction s generalizing prev with
  | nil => rfl
  | cons c r ih =>
    have hc : c ≠ '_' := by intro e; subst e; simp at h
    have hr : '_' ∉ r := fun hm => h (List.mem_cons_of_mem _ hm)
    cases prev <;> simp [dropUnderscores, hc, ih _ hr]

example : asFloat "1_000" = .ok (.finite 1000) := by decide +kernel
example : asFloat " -2.5e-3\n" = .ok (.finite (-1 / 400)) := by decide +kernel
example : asFloat "1__0" = .error .value ∧ asFloat "1_.5" = .error .value ∧ asFloat "" = .error .value := by decide +kernel
example : asFloat "-Infinity" = .ok (.inf true) ∧ asFloat "NaN" = .ok .nan := by decide +kernel

/-! #### dates -/

section Dates
open Midgard.TimeFormat Midgard.Text

theorem dayDir_of_numDir (s : List Char) (r : Int × List Char) (h : numDir 1 2 1 31 s = some r) : dayDir s = some r := by
  simp [dayDir, h]

theorem ymdDirB_of_ymdDir (s : List Char) (r : Int × Int × Int × List Char) (h : ymdDir s = some r) :
    ymdDirB s = some r := by
  simp only [ymdDir, ymdDirB] at h ⊢
  cases hy : numDir 4 4 0 9999 s with
  | none => simp [hy] at h
  | some y =>
    simp only [hy, Option.bind_some] at h ⊢
    cases h1 : litDir '-' y.2 with
    | none => simp [h1] at h
    | some s1 =>
      simp only [h1, Option.bind_some] at h ⊢
      cases hm : numDir 1 2 1 12 s1 with
      | none => simp [hm] at h
      | some m =>
        simp only [hm, Option.bind_some] at h ⊢
        cases h2 : litDir '-' m.2 with
        | none => simp [h2] at h
        | some s2 =>
          simp only [h2, Option.bind_some] at h ⊢
          cases hd : numDir 1 2 1 31 s2 with
          | none => simp [hd] at h
          | some d =>
            simp only [hd, Option.bind_some] at h
            simp [dayDir_of_numDir s2 d hd, h]

/-- **`entry.date` agrees with the `%Y-%m-%d` parser of the time model (C02)** whenever that one accepts the text (the
accessor's own parser accepts in addition a day written as a blank and one digit, as `_strptime`'s `%d` does) -/
theorem asDate_of_strptime (v : String) (dt : Int) (h : strptime .date false v.toList = some dt) : asDate v = .ok dt := by
  simp only [strptime] at h
  cases ha : ymdDir v.toList with
  | none => simp [ha] at h
  | some a =>
    simp only [ha, Option.bind_some] at h
    simp only [asDate, ymdDirB_of_ymdDir _ a ha, Option.bind_some, h]

theorem asDatetime_of_strptime (v : String) (dt : Int) (h : strptime .iso false v.toList = some dt) :
    asDatetime v = .ok dt := by
  simp only [strptime] at h
  cases ha : ymdDir v.toList with
  | none => simp [ha] at h
  | some a =>
    simp only [ha, Option.bind_some, reduceCtorEq, if_false, optFracDir, Bool.false_eq_true] at h
    simp only [asDatetime, ymdDirB_of_ymdDir _ a ha, Option.bind_some]
    cases hw : wsDir a.2.2.2 with
    | none => simp [hw] at h
    | some s1 =>
      simp only [hw, Option.bind_some] at h ⊢
      cases hb : hmsDir s1 with
      | none => simp [hb] at h
      | some b =>
        simp only [hb, Option.bind_some] at h ⊢
        simp only [h]

/-- **what `date.isoformat()` writes, `entry.date` reads**: for every day of the years 1000 … 9999 -/
theorem asDate_isoformat (dt : DateTime) (hy : 1000 ≤ (fieldsOf dt).year ∧ (fieldsOf dt).year ≤ 9999) :
    asDate (String.ofList (render .date dt)) = .ok (dt / usPerDay * usPerDay) := by
  apply asDate_of_strptime
  have := Midgard.TimeFormat.parse_render_date dt hy
  simp only [parse?, render] at this
  rw [str2dt_nofrac _ _ (noPoint_renderYmd _)] at this
  simpa [render] using this

/-- **what `str(datetime)` writes for a whole second, `entry.datetime` reads** -/
theorem asDatetime_isoformat (dt : DateTime) (hy : 1000 ≤ (fieldsOf dt).year ∧ (fieldsOf dt).year ≤ 9999) :
    asDatetime (String.ofList (renderYmd (fieldsOf dt) ++ ' ' :: renderHms (fieldsOf dt))) =
      .ok (dt - (fieldsOf dt).micro) := by
  apply asDatetime_of_strptime
  have hx := fieldsSpec dt
  generalize fieldsOf dt = x at hx hy
  simp only [String.toList_ofList, strptime]
  rw [ymdDir_render x _ hy hx.month hx.day]
  have hws : wsDir (' ' :: renderHms x) = some (renderHms x) := by
    apply wsDir_blank _
    intro c r' hcr
    obtain ⟨d, r, hz, hd⟩ := zpad_head_digit 2 x.hour
    unfold renderHms at hcr
    rw [hz] at hcr
    simp only [List.cons_append, List.cons.injEq] at hcr
    rw [← hcr.1]; exact Midgard.Decimal.isSpace_of_isDigit hd
  simp only [Option.bind_some, reduceCtorEq, if_false, hws]
  have hh := hmsDir_render x [] hx.hour hx.minute hx.second
  rw [List.append_nil] at hh
  rw [hh]
  simp only [Option.bind_some, optFracDir, Bool.false_eq_true, if_false, List.isEmpty_nil, if_true]
  unfold mkDateTime
  have h59 : x.second ≤ 59 := by have := hx.second; omega
  rw [if_pos ⟨by omega, hx.valid, h59⟩]
  have hb := hx.back
  simp only [ofFields, usPerDay, usPerSec] at hb ⊢
  rw [Option.some.injEq]
  have key : ∀ a c d : Int, a + c = d → a + 0 = d - c := by intro a c d h; omega
  exact key _ _ _ hb

example : asDate "2020-02-30" = .error .value ∧ asDate "2020-1-5" = asDate "2020-01-05" ∧ asDate "2020-01- 5" = asDate "2020-01-05" ∧
    asDate "2000-01-02" = .ok 86400000000 ∧ asDatetime "2000-01-01  0:0:1" = .ok 1000000 ∧
    asDatetime "2000-01-01 00:00:60" = .error .value := by decide +kernel

end Dates

/-! #### paths -/

theorem splitOnChar_none (sep : Char) (s cur : List Char) (h : sep ∉ s) : splitOnChar sep s cur = [cur.reverse ++ s] := by
  induction s generalizing cur with
  | nil => simp [splitOnChar]
  | cons c t ih =>
    have hc : c ≠ sep := by intro e; subst e; simp at h
    have ht : sep ∉ t := fun hm => h (List.mem_cons_of_mem _ hm)
    simp [splitOnChar, hc, ih _ ht]

/-- a single path component (no slash, not empty, not `.`) is its own path -/
theorem normPath_component (s : List Char) (h : '/' ∉ s) (hne : s ≠ []) (hdot : s ≠ ['.']) : normPath s = s := by
  have htw : s.takeWhile (· = '/') = [] := by
    cases s with
    | nil => rfl
    | cons c t =>
      have hc : c ≠ '/' := by intro e; subst e; simp at h
      simp [List.takeWhile, hc]
  have hemp : s.isEmpty = false := by cases s <;> simp_all
  have hd : (s != ['.']) = true := by simpa using hdot
  simp [normPath, htw, splitOnChar_none '/' s [] h, hemp, hd, joinWith, hne]

/-- without `~` the text goes to `pathlib` as it is; `~/rest` is `$HOME` (without trailing slashes) followed by `/rest` -/
theorem asPath_no_tilde (home v : String) (h : '~' ∉ v.toList) : asPath home v = some (String.ofList (normPath v.toList)) := by
  simp [asPath, h]

theorem expandUser_home (home rest : List Char) :
    expandUser home ('~' :: '/' :: rest) = some ((home.reverse.dropWhile (· = '/')).reverse ++ '/' :: rest) := by
  simp [expandUser]

example : asPath "/home/geo/" "~/x//y/./z/" = some "/home/geo/x/y/z" ∧ asPath "/h" "//a/b" = some "//a/b" ∧
    asPath "/h" "///a" = some "/a" ∧ asPath "/h" "" = some "." ∧ asPath "/h" "~user/x" = none ∧ asPath "/h" "a~b" = some "a~b" := by
  decide +kernel

/-! #### enumerations -/

/-- **`as_enum(name)`**: the member (an alias stands for the member it was defined equal to) when the registered
enumeration `name` has a member called like the value; ValueError when it has not; UnknownEnumError when no enumeration
is registered under `name` -/
theorem asEnum_spec (table : List (String × List (String × String))) (name v : String) :
    (∀ m, asEnum table name v = .ok m ↔ ∃ members, dget? table name = some members ∧ dget? members v = some m) ∧
    (asEnum table name v = .error .unknownEnum ↔ dget? table name = none) ∧
    (asEnum table name v = .error .value ↔ ∃ members, dget? table name = some members ∧ dget? members v = none) := by
  simp only [asEnum]
  cases ht : dget? table name with
  | none => simp
  | some members =>
    simp only
    cases hm : dget? members v with
    | none => simp [hm]
    | some c => simp [hm]

example : asEnum Generated.ConfigTables.enumTable "gnss_freq_G" "f1" = .ok "L1" ∧
    asEnum Generated.ConfigTables.enumTable "gnss_freq_G" "l1" = .error .value ∧
    asEnum Generated.ConfigTables.enumTable "nope" "L1" = .error .unknownEnum := by decide +kernel

section OneLine
open Midgard.Proofs.ConfigText

/-! ### Text form, entry level: an entry that fits on one line keeps its runs of blanks -/

/-- a value as words with arbitrary (non-empty) runs of blanks between them -/
def spacedValue (w1 : List Char) (ps : List Pair) : List Char := (flatAlt w1 ps).flatten

/-- the chunks of the text `entry_as_str` wraps for such a value -/
def entryPairs (kw : Nat) (key w1 : List Char) (ps : List Pair) : List Pair :=
  (padOf kw key, ['=']) :: ([' '], w1) :: ps

theorem entryText_spaced (kw : Nat) (key w1 : List Char) (ps : List Pair) :
    entryText kw key (spacedValue w1 ps) = (flatAlt key (entryPairs kw key w1 ps)).flatten := by
  simp [entryText, spacedValue, flatAlt, entryPairs, ljust, eq_lit, padOf, List.append_assoc]

theorem takeFit_all (avail : Nat) (l cur : List (List Char)) (len : Nat)
    (h : len + (l.map List.length).sum ≤ avail) : takeFit avail cur len l = (cur ++ l, []) := by
  induction l generalizing cur len with
  | nil => simp [takeFit]
  | cons ch r ih =>
    simp only [List.map_cons, List.sum_cons] at h
    have h1 : len + ch.length ≤ avail := by omega
    simp only [takeFit, h1, if_true]
    rw [ih (cur ++ [ch]) (len + ch.length) (by omega)]
    simp

theorem length_flatten_eq (l : List (List Char)) : l.flatten.length = (l.map List.length).sum := by
  induction l with
  | nil => rfl
  | cons a t ih => simp [ih]

theorem flatAlt_length (x0 : List Char) (ps : List Pair) : (flatAlt x0 ps).length = 1 + 2 * ps.length := by
  induction ps with
  | nil => simp [flatAlt]
  | cons p t ih => simp only [flatAlt, List.flatMap_cons, List.length_cons, List.length_append] at ih ⊢; simp; omega

/-- **written on one line**: when key column, `=` and value fit the width, `console.fill` leaves the text as it is — every
run of blanks inside the value is kept -/
theorem fill_one_line (w hang : Nat) (x0 : List Char) (ps : List Pair) (hx : IsWord x0) (hps : PairsOK ps)
    (hctl : NoCtl (flatAlt x0 ps).flatten) (hfit : (flatAlt x0 ps).flatten.length ≤ w) :
    fill w hang (flatAlt x0 ps).flatten = [(flatAlt x0 ps).flatten] := by
  obtain ⟨gs, hg, hfill, h0⟩ := fill_grouping w hang x0 ps hx hps hctl
  have hls : (lineSplit w (flatAlt x0 ps)).1 = flatAlt x0 ps := by
    have htf := takeFit_all w (flatAlt x0 ps) [] 0 (by rw [← length_flatten_eq]; omega)
    simp only [List.nil_append] at htf
    simp only [lineSplit, htf]
    cases hfa : flatAlt x0 ps with
    | nil => simp [flatAlt] at hfa
    | cons a t => rfl
  rw [hfill]
  cases hg with
  | last => simp [renderLines]
  | cons _ a s x b gs' hg' =>
    exfalso
    have := h0 (x0, a) gs' rfl
    rw [hls, dropTrailingSpace_flatAlt x0 _ hx hps] at this
    have hl := congrArg List.length this
    simp only [flatAlt_length, List.length_append, List.length_cons] at hl
    omega

/-- **`entry_as_str` of an entry without metadata that fits on one line** is that one line, the value unchanged -/
theorem entryLines_one_line (w kw : Nat) (k : String) (w1 : List Char) (ps : List Pair) (src : String)
    (hkey : IsWord k.toList) (hw1 : IsWord w1) (hps : PairsOK ps)
    (hctl : NoCtl (entryText kw k.toList (spacedValue w1 ps)))
    (hfit : (entryText kw k.toList (spacedValue w1 ps)).length ≤ w) :
    entryLines w kw k ⟨String.ofList (spacedValue w1 ps), src, []⟩ = [entryText kw k.toList (spacedValue w1 ps)] := by
  have hP : PairsOK (entryPairs kw k.toList w1 ps) := by
    intro p hp
    simp only [entryPairs, List.mem_cons] at hp
    rcases hp with rfl | rfl | hp
    · exact ⟨isSpaces_pad kw k.toList, isWord_eq⟩
    · exact ⟨isSpaces_single, hw1⟩
    · exact hps p hp
  have h := fill_one_line w (kw + 3) k.toList (entryPairs kw k.toList w1 ps) hkey hP
    (by rw [← entryText_spaced]; exact hctl) (by rw [← entryText_spaced]; exact hfit)
  rw [← entryText_spaced] at h
  simpa [entryLines, entryText] using h

/-- **read from one line**: the reader returns the key and the value exactly as written — blank runs, `#`, `;`, `=`, `:`
anywhere in the value (a comment character starts a comment only at the start of a line, the first `=` of the line ends the
key) -/
theorem readLine_one_line (lower : Bool) (p : PState) (n : String) (os : List RawOpt) (kw : Nat)
    (key v : List Char) (hcur : p.cur = some (n, os)) (hkey : KeyOK lower key)
    (hvh : ∀ c, v.head? = some c → isBlank c = false) (hvl : ∀ c, v.getLast? = some c → isBlank c = false) (hvne : v ≠ [])
    (hnew : key ∉ (os ++ p.opt.toList).map (·.key)) :
    readLine lower p (key ++ padOf kw key ++ '=' :: ' ' :: v) =
      .ok { done := p.done, cur := some (n, os ++ p.opt.toList), opt := some ⟨key, some [v]⟩, indent := 0 } := by
  obtain ⟨hkne, hkc, hklow, hk1, hk2, hk3⟩ := hkey
  have hkhead : ∀ c, key.head? = some c → isBlank c = false := fun c hc => (hkc c (List.mem_of_head? hc)).1
  have hhead : (key ++ padOf kw key ++ '=' :: ' ' :: v).head? = key.head? := by
    cases key with
    | nil => exact absurd rfl hkne
    | cons c t => simp
  have hne : key ++ padOf kw key ++ '=' :: ' ' :: v ≠ [] := by simp
  have hlast : ∀ c, (key ++ padOf kw key ++ '=' :: ' ' :: v).getLast? = some c → isBlank c = false := by
    intro c hc
    rw [show key ++ padOf kw key ++ '=' :: ' ' :: v = (key ++ padOf kw key ++ ['=', ' ']) ++ v by simp,
      getLast?_append_ne_nil _ _ hvne] at hc
    exact hvl c hc
  rw [readLine_header lower p _ hne (by rw [hhead]; exact hkhead) hlast (by rw [hhead]; exact hk2)
    (by rw [hhead]; exact hk3)]
  have hnb : sectionName? (key ++ padOf kw key ++ '=' :: ' ' :: v) = none :=
    sectionName?_none _ (by rw [hhead]; exact hk1)
  simp only [headerLine, hnb, optionLine, closeOpt_eq p n os hcur]
  have hpad : ∀ c ∈ padOf kw key, isBlank c = true := fun c hc => by
    rw [(isSpaces_pad kw key).2 c hc]; exact isBlank_space
  have hnoeq : '=' ∉ key ++ padOf kw key := by
    intro hm
    rcases List.mem_append.1 hm with h | h
    · exact (hkc '=' h).2 rfl
    · have := (isSpaces_pad kw key).2 '=' h; simp at this
  have hpart : partitionAt '=' (key ++ padOf kw key ++ '=' :: ' ' :: v) = (key ++ padOf kw key, true, ' ' :: v) :=
    partitionAt_append '=' _ _ hnoeq
  have hklast : ∀ c, key.getLast? = some c → isBlank c = false := fun c hc => (hkc c (List.mem_of_getLast? hc)).1
  have hrs : rstripBlanks (key ++ padOf kw key) = key := by
    rw [rstripBlanks_append_blanks _ _ hpad, rstripBlanks_id key hklast]
  have hk' : (if lower = true then (rstripBlanks (key ++ padOf kw key)).map lowerChar
      else rstripBlanks (key ++ padOf kw key)) = key := by
    rw [hrs]; cases lower <;> simp_all
  have hcont : ((os ++ p.opt.toList).map (·.key)).contains key = false := by simpa using hnew
  have hke : key.isEmpty = false := by cases key <;> simp_all
  have hsv : stripBlanks (' ' :: v) = v := by
    have : (' ' :: v) = [' '] ++ v := rfl
    rw [this, stripBlanks_blanks_append _ _ (by intro c hc; simp at hc; subst hc; exact isBlank_space),
      stripBlanks_id v hvh hvl]
  simp only [hpart, hk', hke, hcont, Bool.false_eq_true, if_false, if_true, hsv]

/-- the value the reader hands on for a one-line option is the text of that line -/
theorem joinValue_one_line (v : List Char) (hvh : ∀ c, v.head? = some c → isBlank c = false)
    (hvl : ∀ c, v.getLast? = some c → isBlank c = false) (hnl : '\n' ∉ v) : joinValue [v] = String.ofList v := by
  have hmap : v.map (fun c => if c = '\n' then ' ' else c) = v := by
    rw [List.map_congr_left (g := id)]; simp
    intro c hc; have : c ≠ '\n' := fun e => hnl (e ▸ hc); simp [this]
  simp [joinValue, joinLines, rstripBlanks_id v hvl, hmap, stripBlanks_id v hvh hvl]

/-- a value with runs of two and three blanks, a `#`, a `;` and a `=` inside, on one line: written as it is, read as it is
(the document-level theorem `text_roundtrip` asks for single blanks because a run that meets a line break is read back as
one blank) -/
example : let secs : Sections := [("s1", [("k1", ⟨"a  b   #c ;d = e", "x", []⟩)])]
    (match (Cfg.new "r").updateFromText (asStr 80 30 secs ++ "\n") "x" true false with
      | .ok (c, none) => c.sections == secs
      | _ => false) = true ∧ WfText true 80 30 secs = false := by decide +kernel

/-- … and the same value at a width where the line breaks inside a run of blanks: the run comes back as one blank, which
is why `WfText` asks for single blanks -/
example : let secs : Sections := [("s1", [("k1", ⟨"aaaa   bbbb", "x", []⟩)])]
    (match (Cfg.new "r").updateFromText (asStr 40 30 secs ++ "\n") "x" true false with
      | .ok (c, none) => c.sections == [("s1", [("k1", ⟨"aaaa bbbb", "x", []⟩)])]
      | _ => false) = true := by decide +kernel

end OneLine

end Midgard.Props.C19

#print axioms Midgard.Props.C19.bool_spellings
#print axioms Midgard.Props.C19.bool_spellings_eight
#print axioms Midgard.Props.C19.widths
#print axioms Midgard.Props.C19.replace_regex
#print axioms Midgard.Props.C19.get_catches
#print axioms Midgard.Props.C19.fill_options
#print axioms Midgard.Props.C19.dget_dset
#print axioms Midgard.Props.C19.dget_none_of_not_mem
#print axioms Midgard.Props.C19.mergeSection_get
#print axioms Midgard.Props.C19.mergeProfile_get
#print axioms Midgard.Props.C19.resolve_append
#print axioms Midgard.Props.C19.dget_mem
#print axioms Midgard.Props.C19.flattenFrom_get
#print axioms Midgard.Props.C19.flatten_priority
#print axioms Midgard.Props.C19.mem_dset
#print axioms Midgard.Props.C19.keys_dset
#print axioms Midgard.Props.C19.keysNodup_dset
#print axioms Midgard.Props.C19.keysNodup_nil
#print axioms Midgard.Props.C19.updateRaw_wf
#print axioms Midgard.Props.C19.refresh_good
#print axioms Midgard.Props.C19.updateMany_good
#print axioms Midgard.Props.C19.optionsLoop_good
#print axioms Midgard.Props.C19.applyOp_good
#print axioms Midgard.Props.C19.new_good
#print axioms Midgard.Props.C19.run_good
#print axioms Midgard.Props.C19.lookup_first_profile
#print axioms Midgard.Props.C19.get_override
#print axioms Midgard.Props.C19.get_order
#print axioms Midgard.Props.C19.get_own_hit
#print axioms Midgard.Props.C19.get_fallback_before_default
#print axioms Midgard.Props.C19.get_default
#print axioms Midgard.Props.C19.masterSection_error
#print axioms Midgard.Props.C19.sectionEntry_error
#print axioms Midgard.Props.C19.getItem_error2
#print axioms Midgard.Props.C19.get_error
#print axioms Midgard.Props.C19.master_when_no_section
#print axioms Midgard.Props.C19.master_when_no_section_get
#print axioms Midgard.Props.C19.get_first_profile
#print axioms Midgard.Props.C19.splitBlanks_flatten
#print axioms Midgard.Props.C19.splitBlanks_words
#print axioms Midgard.Props.C19.asList_eq
#print axioms Midgard.Props.C19.isBlank_space
#print axioms Midgard.Props.C19.list_split
#print axioms Midgard.Props.C19.dget_ne_none_of_mem
#print axioms Midgard.Props.C19.bool_sound
#print axioms Midgard.Props.C19.bool_error
#print axioms Midgard.Props.C19.replace_unknown_untouched
#print axioms Midgard.Props.C19.findVars_no_brace
#print axioms Midgard.Props.C19.replace_no_braces
#print axioms Midgard.Props.C19.replace_no_vars
#print axioms Midgard.Props.C19.setProfiles_last
#print axioms Midgard.Props.C19.setProfiles_none_eq_empty
#print axioms Midgard.Props.C19.takeFit_split
#print axioms Midgard.Props.C19.wordChunks_dropTrailingSpace
#print axioms Midgard.Props.C19.wordChunks_append
#print axioms Midgard.Props.C19.lineSplit_spec
#print axioms Midgard.Props.C19.wrap_keeps_words
#print axioms Midgard.Props.C19.fill_keeps_words
#print axioms Midgard.Props.C19.partitionAt_spec
#print axioms Midgard.Props.C19.dictItem_text
#print axioms Midgard.Props.C19.asDict_eq
#print axioms Midgard.Props.C19.mem_foldl_dset
#print axioms Midgard.Props.C19.foldl_dset_get
#print axioms Midgard.Props.C19.dict_sound
#print axioms Midgard.Props.C19.dict_lookup
#print axioms Midgard.Props.C19.dict_keys_nodup
#print axioms Midgard.Props.C19.underscore_not_digit
#print axioms Midgard.Props.C19.digitsVal_some
#print axioms Midgard.Props.C19.digitsVal_digits
#print axioms Midgard.Props.C19.asInt_eq
#print axioms Midgard.Props.C19.int_sound
#print axioms Midgard.Props.C19.int_error
#print axioms Midgard.Props.C19.digit_not_blank
#print axioms Midgard.Props.C19.stripBlanks_id
#print axioms Midgard.Props.C19.int_plain
#print axioms Midgard.Props.C19.text_roundtrip
#print axioms Midgard.Props.C19.text_roundtrip_plain
#print axioms Midgard.Props.C19.text_roundtrip_driver
#print axioms Midgard.Props.C19.readBack_mem
#print axioms Midgard.Props.C19.sectionStr_ignores_source
#print axioms Midgard.Props.C19.asStr_ignores_source
#print axioms Midgard.Props.C19.text_form_stable
#print axioms Midgard.Props.C19.getItemAt_getItem
#print axioms Midgard.Props.C19.ownLookupAt_ownLookup
#print axioms Midgard.Props.C19.getAt_order
#print axioms Midgard.Props.C19.getAt_get
#print axioms Midgard.Props.C19.getItemAt_lt
#print axioms Midgard.Props.C19.sectionEntry_map_ok
#print axioms Midgard.Props.C19.ownLookupAt_lt
#print axioms Midgard.Props.C19.getAt_lt
#print axioms Midgard.Props.C19.getAt_override
#print axioms Midgard.Props.C19.getAt_own_hit
#print axioms Midgard.Props.C19.getAt_fallback
#print axioms Midgard.Props.C19.getAt_default
#print axioms Midgard.Props.C19.varsAt_zero
#print axioms Midgard.Props.C19.varsAt_succ
#print axioms Midgard.Props.C19.getReplaced_default
#print axioms Midgard.Props.C19.getReplaced_override
#print axioms Midgard.Props.C19.getReplaced_own_hit
#print axioms Midgard.Props.C19.getReplaced_fallback
#print axioms Midgard.Props.C19.masterSection_vars
#print axioms Midgard.Props.C19.getItemAt_ignores_vars
#print axioms Midgard.Props.C19.getAt_ignores_vars
#print axioms Midgard.Props.C19.ownLookupAt_ignores_fallback_vars
#print axioms Midgard.Props.C19.default_ignores_fallback_vars
#print axioms Midgard.Props.C19.takeOk_map_ok
#print axioms Midgard.Props.C19.replaceIn_nil
#print axioms Midgard.Props.C19.joinValueR_nil
#print axioms Midgard.Props.C19.sectionUpdatesR_nil
#print axioms Midgard.Props.C19.fileUpdatesR_nil
#print axioms Midgard.Props.C19.updateFromFile_plain
#print axioms Midgard.Props.C19.updateRaw_vars
#print axioms Midgard.Props.C19.updateMany_vars
#print axioms Midgard.Props.C19.updateFromFile_vars
#print axioms Midgard.Props.C19.dunder_sections_no_entries
#print axioms Midgard.Props.C19.itemReplaced_own_hit
#print axioms Midgard.Props.C19.takeWhile_append_stop
#print axioms Midgard.Props.C19.dropWhile_append_stop
#print axioms Midgard.Props.C19.isWord_close
#print axioms Midgard.Props.C19.matchVar_plain
#print axioms Midgard.Props.C19.findVars_skip
#print axioms Midgard.Props.C19.findVars_single
#print axioms Midgard.Props.C19.isPrefix_append
#print axioms Midgard.Props.C19.replaceAll_no_brace
#print axioms Midgard.Props.C19.replaceAll_single
#print axioms Midgard.Props.C19.formatStr_none
#print axioms Midgard.Props.C19.replace_known_variable
#print axioms Midgard.Props.C19.entryReplace_known_variable
#print axioms Midgard.Props.C19.accessor_defaults
#print axioms Midgard.Props.C19.classSpaceComma_has
#print axioms Midgard.Props.C19.classColon_has
#print axioms Midgard.Props.C19.reSplit_filter_eq_splitBlanks
#print axioms Midgard.Props.C19.asListRe_default
#print axioms Midgard.Props.C19.reSplit_zero
#print axioms Midgard.Props.C19.reSplit_spec
#print axioms Midgard.Props.C19.asListRe_spec
#print axioms Midgard.Props.C19.reSplit_once
#print axioms Midgard.Props.C19.asDictRe_eq
#print axioms Midgard.Props.C19.dictStep_error
#print axioms Midgard.Props.C19.dictStep_colon
#print axioms Midgard.Props.C19.asDictRe_default_ok
#print axioms Midgard.Props.C19.asDictRe_default_error
#print axioms Midgard.Props.C19.dict_partition
#print axioms Midgard.Props.C19.asFloat_error
#print axioms Midgard.Props.C19.asFloat_sound
#print axioms Midgard.Props.C19.dropUnderscores_spec
#print axioms Midgard.Props.C19.dropUnderscores_plain
#print axioms Midgard.Props.C19.dayDir_of_numDir
#print axioms Midgard.Props.C19.ymdDirB_of_ymdDir
#print axioms Midgard.Props.C19.asDate_of_strptime
#print axioms Midgard.Props.C19.asDatetime_of_strptime
#print axioms Midgard.Props.C19.asDate_isoformat
#print axioms Midgard.Props.C19.asDatetime_isoformat
#print axioms Midgard.Props.C19.splitOnChar_none
#print axioms Midgard.Props.C19.normPath_component
#print axioms Midgard.Props.C19.asPath_no_tilde
#print axioms Midgard.Props.C19.expandUser_home
#print axioms Midgard.Props.C19.asEnum_spec
#print axioms Midgard.Props.C19.expr_inner
#print axioms Midgard.Props.C19.isWord_open
#print axioms Midgard.Props.C19.isWord_colon
#print axioms Midgard.Props.C19.inner_no_brace
#print axioms Midgard.Props.C19.matchVar_ref
#print axioms Midgard.Props.C19.findVars_skip_le
#print axioms Midgard.Props.C19.findVars_pieces
#print axioms Midgard.Props.C19.replaceAll_skip
#print axioms Midgard.Props.C19.isPrefix_closed
#print axioms Midgard.Props.C19.replaceAll_pieces
#print axioms Midgard.Props.C19.replaceVars_eq
#print axioms Midgard.Props.C19.stepR_flat
#print axioms Midgard.Props.C19.expr_inj
#print axioms Midgard.Props.C19.partialP_ok
#print axioms Midgard.Props.C19.partialP_step
#print axioms Midgard.Props.C19.foldl_stepR
#print axioms Midgard.Props.C19.mem_refsOf
#print axioms Midgard.Props.C19.replace_all_references
#print axioms Midgard.Props.C19.entryText_spaced
#print axioms Midgard.Props.C19.takeFit_all
#print axioms Midgard.Props.C19.length_flatten_eq
#print axioms Midgard.Props.C19.flatAlt_length
#print axioms Midgard.Props.C19.fill_one_line
#print axioms Midgard.Props.C19.entryLines_one_line
#print axioms Midgard.Props.C19.readLine_one_line
#print axioms Midgard.Props.C19.joinValue_one_line
