/-
C20 — Numeric helpers satisfy their defining identities.

Property theorems only.  Every statement is about the executable definitions of
`Model/Numeric.lean` (the same terms the driver runs), over `Rat` = `ℚ`, for *all* arguments.
Irrational inputs of the code are parameters of the model and universally quantified here:
`p` (the value of π, any positive rational), `s` (`x.std()`, any non-zero rational), the
cosine/sine pairs of the satellites (arbitrary; the rotation `(c, s)` any point of the unit circle).

Not proved (measured by the correspondence/oracle of harness/c20.py only): floating-point error;
pint's own factor arithmetic; SciPy's `interp1d(cubic)`, `InterpolatedUnivariateSpline`,
`BarycentricInterpolator`; that `np.linalg.inv`, `statsmodels.OLS` compute the inverse / the
least-squares solution the model defines by the adjugate / the normal equations.
-/
import Midgard.Model.Numeric
import Midgard.Spec.UnitsSI
import Midgard.Proofs.C20Algebra
import Midgard.Proofs.C20Lagrange
import Midgard.Proofs.C20Dop
import Midgard.Proofs.C20Deriv
import Midgard.Proofs.C20Bary
import Midgard.Proofs.C20Nputil
import Midgard.Proofs.C20Spherical
import Midgard.Proofs.C20Spline
import Midgard.Proofs.C20Stats
import Midgard.Proofs.C20Grid
import Midgard.Proofs.C20DerivAll
import Midgard.Proofs.C20Tensor

namespace Midgard.Props.C20
open Midgard.Numeric Midgard.Generated.C20 Midgard.Proofs.C20

/-! ## Unit factors are reciprocal and transitive -/

/-- a2b × b2a = 1 -/
theorem unit_recip (a b : UnitRow) (p : ℚ) (hd : a.dim = b.dim)
    (ha : unitFactor a p ≠ 0) (hb : unitFactor b p ≠ 0) :
    ∃ x y, convRow a b p = some x ∧ convRow b a p = some y ∧ x * y = 1 :=
  convRow_recip a b p hd ha hb

/-- a2b × b2c = a2c -/
theorem unit_trans (a b c : UnitRow) (p x y : ℚ) (hb : unitFactor b p ≠ 0)
    (h1 : convRow a b p = some x) (h2 : convRow b c p = some y) : convRow a c p = some (x * y) :=
  convRow_trans a b c p x y hb h1 h2

/-- obligation on the regenerated table: every factor is positive (so no conversion divides by zero) -/
theorem units_table_positive : ∀ u ∈ units, 0 < u.q := by decide +kernel

/-- obligation on the regenerated table: names are unique (lookup by name is unambiguous) -/
theorem units_table_names_nodup : (units.map (·.name)).Nodup := by decide +kernel

/-- obligation on the regenerated table: every unit that the standards define (Spec/UnitsSI.lean)
has exactly the standard's dimension and factor -/
theorem units_table_eq_si : ∀ r ∈ Midgard.Spec.UnitsSI.si, ∀ u ∈ units, u.name = r.name → u = r := by
  decide +kernel

theorem findUnit_mem (n : String) (u : UnitRow) (h : findUnit units n = some u) : u ∈ units :=
  List.mem_of_find?_eq_some h

/-- reciprocity for every pair of names of the table the library's units were extracted into -/
theorem unit_table_recip (a b : String) (p x : ℚ) (hp : 0 < p) (h : conv a b p = some (some x)) :
    ∃ y, conv b a p = some (some y) ∧ x * y = 1 := by
  unfold conv at h ⊢
  cases ha : findUnit units a with
  | none => simp [ha] at h
  | some ua =>
    cases hb : findUnit units b with
    | none => simp [ha, hb] at h
    | some ub =>
      simp only [ha, hb, Option.bind_eq_bind, Option.bind_some, Option.pure_def, Option.some.injEq] at h ⊢
      have pa := unitFactor_pos ua p (units_table_positive ua (findUnit_mem a ua ha)) hp
      have pb := unitFactor_pos ub p (units_table_positive ub (findUnit_mem b ub hb)) hp
      have hd : ua.dim = ub.dim := by
        unfold convRow at h; split at h
        · assumption
        · exact absurd h (by simp)
      obtain ⟨x', y', h1, h2, h3⟩ := convRow_recip ua ub p hd (ne_of_gt pa) (ne_of_gt pb)
      rw [h1] at h
      injection h with h
      exact ⟨y', h2, by rw [← h]; exact h3⟩

/-- transitivity for every triple of names of the table -/
theorem unit_table_trans (a b c : String) (p x y : ℚ) (hp : 0 < p)
    (h1 : conv a b p = some (some x)) (h2 : conv b c p = some (some y)) :
    conv a c p = some (some (x * y)) := by
  unfold conv at h1 h2 ⊢
  cases ha : findUnit units a with
  | none => simp [ha] at h1
  | some ua =>
    cases hb : findUnit units b with
    | none => simp [ha, hb] at h1
    | some ub =>
      cases hc : findUnit units c with
      | none => simp [hb, hc] at h2
      | some uc =>
        simp only [ha, hb, hc, Option.bind_eq_bind, Option.bind_some, Option.pure_def, Option.some.injEq] at h1 h2 ⊢
        have pb := unitFactor_pos ub p (units_table_positive ub (findUnit_mem b ub hb)) hp
        exact convRow_trans ua ub uc p x y (ne_of_gt pb) h1 h2

/-! ## Degree–minute–second conversion round-trips -/

/-- `dms_to_deg(*deg_to_dms(x)) = x` for every angle: any magnitude, either sign, including
negative angles below one degree (where the sign lives only in the `-0.0` of the degree field) -/
theorem dms_roundtrip (p : ℚ) (hp : 0 < p) (x : SF) :
    (dmsToDeg p (degToDms p x).1 (degToDms p x).2.1 (degToDms p x).2.2).val = x.val :=
  dms_roundtrip_val p hp x

/-- the sign bit itself survives for every non-zero angle -/
theorem dms_roundtrip_signbit (p : ℚ) (hp : 0 < p) (x : SF) (hx : 0 < x.mag) :
    (dmsToDeg p (degToDms p x).1 (degToDms p x).2.1 (degToDms p x).2.2).neg = x.neg :=
  dms_roundtrip_sign p hp x hx

/-- what `deg_to_dms` returns: whole degrees carrying the sign (`-0.0` below one degree; `+0.0` for
`±0.0`, because `np.sign(±0.0)` is `+0.0`), whole minutes in [0, 60), seconds in [0, 60) -/
theorem dms_fields (p : ℚ) (hp : 0 < p) (x : SF) :
    (degToDms p x).1 = ⟨x.neg && x.mag != 0, (x.mag.floor : ℚ)⟩ ∧
    (∃ k : ℤ, (degToDms p x).2.1 = (k : ℚ) ∧ 0 ≤ k ∧ k < 60) ∧
    0 ≤ (degToDms p x).2.2 ∧ (degToDms p x).2.2 < 60 := by
  rw [degToDms_fields p hp x]
  obtain ⟨h1, h2, h3, h4⟩ := dms_fields_range x.mag
  refine ⟨rfl, ⟨(frac1 x.mag * 60).floor, rfl, ?_, ?_⟩, h3, h4⟩
  · exact_mod_cast h1
  · exact_mod_cast h2

/-- the sign of the degree field alone decides the sign of the angle (`-0.0, 19, 59.97` is negative) -/
theorem dms_to_deg_sign (p : ℚ) (hp : 0 < p) (d : SF) (m s : ℚ) :
    (dmsToDeg p d m s).val = (if d.neg then -1 else 1) * (d.mag + m / 60 + s / 3600) := by
  have hpn : p ≠ 0 := ne_of_gt hp
  simp only [dmsToDeg, dmsToRad, SF_scale_val, SF_ofRat_val]
  unfold d2r r2d
  field_simp

/-! ## Lagrange interpolation -/

/-- reproduces the data at the nodes (whole call: checks, sort, window selection, scaling, product formula) -/
theorem lagrange_nodes (xs : List ℚ) (rows : List (List ℚ)) (dim w : ℕ) (be srt : Bool) (s : ℚ)
    (xnew : List ℚ) (out : List (List ℚ)) (h : lagrange xs rows dim w be srt s xnew = .ok out) (hs : s ≠ 0)
    (i j : ℕ) (hi : i < xs.length) (hj : j < xnew.length) (hx : xnew.getD j 0 = xs.getD i 0) :
    out.getD j [] = (List.range dim).map (fun c => (rows.getD i []).getD c 0) :=
  Proofs.C20.lagrange_nodes xs rows dim w be srt s xnew out h hs i j hi hj hx

/-- invariant under reordering of the samples (the result, or the error, is the same) -/
theorem lagrange_perm_invariant (xs xs' : List ℚ) (rows rows' : List (List ℚ)) (dim w : ℕ) (be : Bool) (s : ℚ)
    (xnew : List ℚ) (hl : rows.length = xs.length) (hl' : rows'.length = xs'.length)
    (hperm : (xs.zip rows).Perm (xs'.zip rows'))
    (hdist : strictInc ((sortBy (xs.zip rows)).map (·.1)) = true) :
    lagrange xs' rows' dim w be false s xnew = lagrange xs rows dim w be false s xnew :=
  lagrange_perm xs xs' rows rows' dim w be s xnew hl hl' hperm hdist

/-- reproduces every polynomial of degree below the window size, at every abscissa (also outside
the sample range when `bounds_error=False`) -/
theorem lagrange_polynomial (xs : List ℚ) (rows : List (List ℚ)) (dim w : ℕ) (be srt : Bool) (s : ℚ)
    (xnew : List ℚ) (out : List (List ℚ)) (h : lagrange xs rows dim w be srt s xnew = .ok out) (hs : s ≠ 0)
    (c : ℕ) (hc : c < dim) (P : Polynomial ℚ) (hdeg : P.degree < (w : ℕ))
    (hdata : ∀ i, i < xs.length → (rows.getD i []).getD c 0 = P.eval (xs.getD i 0))
    (j : ℕ) (hj : j < xnew.length) : (out.getD j []).getD c 0 = P.eval (xnew.getD j 0) :=
  lagrange_poly xs rows dim w be srt s xnew out h hs c hc P hdeg hdata j hj

/-- linear in the data (whole call, sorted or unsorted input): if `r₃ = a·r₁ + b·r₂` in component `c`
then so are the results -/
theorem lagrange_linear (xs : List ℚ) (r₁ r₂ r₃ : List (List ℚ)) (dim w : ℕ) (be srt : Bool) (s : ℚ)
    (xnew : List ℚ) (a b : ℚ) (o₁ o₂ o₃ : List (List ℚ))
    (h₁ : lagrange xs r₁ dim w be srt s xnew = .ok o₁)
    (h₂ : lagrange xs r₂ dim w be srt s xnew = .ok o₂)
    (h₃ : lagrange xs r₃ dim w be srt s xnew = .ok o₃)
    (c : ℕ) (hc : c < dim)
    (hcomb : ∀ i, i < xs.length →
      (r₃.getD i []).getD c 0 = a * (r₁.getD i []).getD c 0 + b * (r₂.getD i []).getD c 0)
    (j : ℕ) (hj : j < xnew.length) :
    (o₃.getD j []).getD c 0 = a * (o₁.getD j []).getD c 0 + b * (o₂.getD j []).getD c 0 :=
  Proofs.C20.lagrange_linear xs r₁ r₂ r₃ dim w be srt s xnew a b o₁ o₂ o₃ h₁ h₂ h₃ c hc hcomb j hj

/-- 1- and n-dimensional data alike: component `c` of the result is the interpolation of column `c` alone -/
theorem lagrange_ndim (xs : List ℚ) (rows : List (List ℚ)) (dim w : ℕ) (m s x : ℚ) (c : ℕ) (hc : c < dim) :
    (lagrangeAt xs rows dim w m s x).getD c 0 =
      (lagrangeAt xs (rows.map (fun r => [r.getD c 0])) 1 w m s x).getD 0 0 :=
  lagrangeAt_component xs rows dim w m s x c hc

/-- the rescaling `(x - mean) / std` has no influence on the value: any non-zero `std`, any `mean` -/
theorem lagrange_scale_invariant (xs : List ℚ) (rows : List (List ℚ)) (dim w : ℕ) (m s m' s' x : ℚ)
    (hs : s ≠ 0) (hs' : s' ≠ 0) :
    lagrangeAt xs rows dim w m s x = lagrangeAt xs rows dim w m' s' x := by
  rw [lagrangeAt_eq_raw _ _ _ _ _ _ _ hs, lagrangeAt_eq_raw _ _ _ _ _ _ _ hs']

/-- window selection: the window of `w` consecutive samples chosen for a node contains that node,
and always lies inside the sample range -/
theorem lagrange_window (xs : List ℚ) (w k : ℕ) (hp : xs.Pairwise (· < ·)) (hk : k < xs.length)
    (hw : 1 ≤ w) (hwn : w ≤ xs.length) (x : ℚ) :
    startIdx xs w (xs.getD k 0) ≤ k ∧ k < startIdx xs w (xs.getD k 0) + w ∧
    startIdx xs w x + w ≤ xs.length :=
  ⟨(startIdx_node xs w k hp hk hw hwn).1, (startIdx_node xs w k hp hk hw hwn).2, startIdx_add_le xs w x hwn⟩

/-! ## `interpolate_with_derivative` (Lagrange interpolator) -/

/-- the values returned are those of `interpolate` -/
theorem derivative_values (xs : List ℚ) (rows : List (List ℚ)) (dim w : ℕ) (be srt : Bool) (s : ℚ)
    (xnew : List ℚ) (dx : ℚ) (v d : List (List ℚ))
    (h : lagrangeDeriv xs rows dim w be srt s xnew dx = .ok (v, d)) :
    lagrange xs rows dim w be srt s xnew = .ok v := by
  obtain ⟨_, _, h0, _⟩ := lagrangeDeriv_ok_form xs rows dim w be srt s xnew dx v d h
  exact h0

/-- the derivative returned is the central difference `(f(x+dx) - f(x-dx)) / (2dx)` of the interpolant `f` -/
theorem derivative_is_central_difference (xs : List ℚ) (rows : List (List ℚ)) (dim w : ℕ) (be srt : Bool) (s : ℚ)
    (xnew : List ℚ) (dx : ℚ) (v d : List (List ℚ))
    (h : lagrangeDeriv xs rows dim w be srt s xnew dx = .ok (v, d)) :
    ∃ hi lo, lagrange xs rows dim w be srt s (xnew.map (· + dx)) = .ok hi ∧
      lagrange xs rows dim w be srt s (xnew.map (· - dx)) = .ok lo ∧
      ∀ j c, j < xnew.length → c < dim →
        (d.getD j []).getD c 0 = ((hi.getD j []).getD c 0 - (lo.getD j []).getD c 0) / (2 * dx) := by
  obtain ⟨hi, lo, _, h1, h2, he⟩ := lagrangeDeriv_entry xs rows dim w be srt s xnew dx v d h
  exact ⟨hi, lo, h1, h2, he⟩

/-- for data on a polynomial of degree below the window size it is the central difference of that polynomial -/
theorem derivative_polynomial (xs : List ℚ) (rows : List (List ℚ)) (dim w : ℕ) (be srt : Bool) (s : ℚ)
    (xnew : List ℚ) (dx : ℚ) (v d : List (List ℚ))
    (h : lagrangeDeriv xs rows dim w be srt s xnew dx = .ok (v, d)) (hs : s ≠ 0)
    (c : ℕ) (hc : c < dim) (P : Polynomial ℚ) (hdeg : P.degree < (w : ℕ))
    (hdata : ∀ i, i < xs.length → (rows.getD i []).getD c 0 = P.eval (xs.getD i 0))
    (j : ℕ) (hj : j < xnew.length) :
    (d.getD j []).getD c 0 = (P.eval (xnew.getD j 0 + dx) - P.eval (xnew.getD j 0 - dx)) / (2 * dx) :=
  lagrangeDeriv_poly xs rows dim w be srt s xnew dx v d h hs c hc P hdeg hdata j hj

/-- … hence the exact derivative `P'(x)` for data on a polynomial of degree ≤ 2 (lines and parabolas),
for every window size, every step `dx ≠ 0`, every abscissa -/
theorem derivative_exact_quadratic (xs : List ℚ) (rows : List (List ℚ)) (dim w : ℕ) (be srt : Bool) (s : ℚ)
    (xnew : List ℚ) (dx : ℚ) (v d : List (List ℚ))
    (h : lagrangeDeriv xs rows dim w be srt s xnew dx = .ok (v, d)) (hs : s ≠ 0) (hdx : dx ≠ 0)
    (c : ℕ) (hc : c < dim) (P : Polynomial ℚ) (hdeg : P.degree ≤ 2)
    (hdata : ∀ i, i < xs.length → (rows.getD i []).getD c 0 = P.eval (xs.getD i 0))
    (j : ℕ) (hj : j < xnew.length) :
    (d.getD j []).getD c 0 = (Polynomial.derivative P).eval (xnew.getD j 0) :=
  lagrangeDeriv_quadratic xs rows dim w be srt s xnew dx v d h hs hdx c hc P hdeg hdata j hj

/-- the derivative is linear in the data -/
theorem derivative_linear (xs : List ℚ) (r₁ r₂ r₃ : List (List ℚ)) (dim w : ℕ) (be srt : Bool) (s : ℚ)
    (xnew : List ℚ) (dx a b : ℚ) (v₁ v₂ v₃ d₁ d₂ d₃ : List (List ℚ))
    (h₁ : lagrangeDeriv xs r₁ dim w be srt s xnew dx = .ok (v₁, d₁))
    (h₂ : lagrangeDeriv xs r₂ dim w be srt s xnew dx = .ok (v₂, d₂))
    (h₃ : lagrangeDeriv xs r₃ dim w be srt s xnew dx = .ok (v₃, d₃))
    (c : ℕ) (hc : c < dim)
    (hcomb : ∀ i, i < xs.length →
      (r₃.getD i []).getD c 0 = a * (r₁.getD i []).getD c 0 + b * (r₂.getD i []).getD c 0)
    (j : ℕ) (hj : j < xnew.length) :
    (d₃.getD j []).getD c 0 = a * (d₁.getD j []).getD c 0 + b * (d₂.getD j []).getD c 0 :=
  lagrangeDeriv_linear xs r₁ r₂ r₃ dim w be srt s xnew dx a b v₁ v₂ v₃ d₁ d₂ d₃ h₁ h₂ h₃ c hc hcomb j hj

/-! ## Piecewise linear interpolation (`kind="linear"`: SciPy's `interp1d`, modelled — the tie is the
correspondence; the other three SciPy-backed interpolators have no model and are checked by the oracle only) -/

/-- reproduces the data at the nodes -/
theorem linear_nodes (xs : List ℚ) (rows : List (List ℚ)) (dim : ℕ) (xnew : List ℚ) (out : List (List ℚ))
    (h : linear xs rows dim xnew = .ok out)
    (hdist : strictInc ((sortBy (xs.zip rows)).map (·.1)) = true)
    (i j : ℕ) (hi : i < xs.length) (hj : j < xnew.length) (hx : xnew.getD j 0 = xs.getD i 0) :
    out.getD j [] = (List.range dim).map (fun c => (rows.getD i []).getD c 0) :=
  Proofs.C20.linear_nodes xs rows dim xnew out h hdist i j hi hj hx

/-- invariant under reordering of the samples -/
theorem linear_perm_invariant (xs xs' : List ℚ) (rows rows' : List (List ℚ)) (dim : ℕ) (xnew : List ℚ)
    (hl : rows.length = xs.length) (hl' : rows'.length = xs'.length)
    (hperm : (xs.zip rows).Perm (xs'.zip rows'))
    (hdist : strictInc ((sortBy (xs.zip rows)).map (·.1)) = true) :
    linear xs' rows' dim xnew = linear xs rows dim xnew :=
  linear_perm xs xs' rows rows' dim xnew hl hl' hperm hdist

/-- linear in the data -/
theorem linear_linear (xs : List ℚ) (r₁ r₂ r₃ : List (List ℚ)) (dim : ℕ) (xnew : List ℚ) (a b : ℚ)
    (o₁ o₂ o₃ : List (List ℚ))
    (h₁ : linear xs r₁ dim xnew = .ok o₁) (h₂ : linear xs r₂ dim xnew = .ok o₂) (h₃ : linear xs r₃ dim xnew = .ok o₃)
    (c : ℕ) (hc : c < dim)
    (hcomb : ∀ i, i < xs.length →
      (r₃.getD i []).getD c 0 = a * (r₁.getD i []).getD c 0 + b * (r₂.getD i []).getD c 0)
    (j : ℕ) (hj : j < xnew.length) :
    (o₃.getD j []).getD c 0 = a * (o₁.getD j []).getD c 0 + b * (o₂.getD j []).getD c 0 :=
  Proofs.C20.linear_linear xs r₁ r₂ r₃ dim xnew a b o₁ o₂ o₃ h₁ h₂ h₃ c hc hcomb j hj

/-! ## The interpolating polynomial (`kind="barycentric_interpolator"`: SciPy's `BarycentricInterpolator`,
specified by `barycentric` — the Lagrange interpolant over the whole sample set; the tie is the correspondence) -/

/-- the specification *is* the interpolating polynomial of the samples as given (Mathlib's `Lagrange.interpolate`) -/
theorem barycentric_is_interpolating_polynomial (xs : List ℚ) (rows : List (List ℚ)) (dim : ℕ)
    (xnew : List ℚ) (out : List (List ℚ)) (h : barycentric xs rows dim xnew = .ok out)
    (c : ℕ) (hc : c < dim) (j : ℕ) (hj : j < xnew.length) :
    (out.getD j []).getD c 0 = (Lagrange.interpolate (Finset.range xs.length) (fun i => xs.getD i 0)
      (fun i => (rows.getD i []).getD c 0)).eval (xnew.getD j 0) :=
  barycentric_eq_interpolate xs rows dim xnew out h c hc j hj

/-- reproduces the data at the nodes -/
theorem barycentric_nodes (xs : List ℚ) (rows : List (List ℚ)) (dim : ℕ)
    (xnew : List ℚ) (out : List (List ℚ)) (h : barycentric xs rows dim xnew = .ok out)
    (i j : ℕ) (hi : i < xs.length) (hj : j < xnew.length) (hx : xnew.getD j 0 = xs.getD i 0) :
    out.getD j [] = (List.range dim).map (fun c => (rows.getD i []).getD c 0) :=
  Proofs.C20.barycentric_nodes xs rows dim xnew out h i j hi hj hx

/-- invariant under reordering of the samples -/
theorem barycentric_perm_invariant (xs xs' : List ℚ) (rows rows' : List (List ℚ)) (dim : ℕ)
    (xnew : List ℚ) (hl : rows.length = xs.length) (hl' : rows'.length = xs'.length)
    (hperm : (xs.zip rows).Perm (xs'.zip rows'))
    (hdist : strictInc ((sortBy (xs.zip rows)).map (·.1)) = true) :
    barycentric xs' rows' dim xnew = barycentric xs rows dim xnew :=
  barycentric_perm xs xs' rows rows' dim xnew hl hl' hperm hdist

/-- linear in the data -/
theorem barycentric_linear (xs : List ℚ) (r₁ r₂ r₃ : List (List ℚ)) (dim : ℕ)
    (xnew : List ℚ) (a b : ℚ) (o₁ o₂ o₃ : List (List ℚ))
    (h₁ : barycentric xs r₁ dim xnew = .ok o₁) (h₂ : barycentric xs r₂ dim xnew = .ok o₂)
    (h₃ : barycentric xs r₃ dim xnew = .ok o₃) (c : ℕ) (hc : c < dim)
    (hcomb : ∀ i, i < xs.length →
      (r₃.getD i []).getD c 0 = a * (r₁.getD i []).getD c 0 + b * (r₂.getD i []).getD c 0)
    (j : ℕ) (hj : j < xnew.length) :
    (o₃.getD j []).getD c 0 = a * (o₁.getD j []).getD c 0 + b * (o₂.getD j []).getD c 0 :=
  Proofs.C20.barycentric_linear xs r₁ r₂ r₃ dim xnew a b o₁ o₂ o₃ h₁ h₂ h₃ c hc hcomb j hj

/-- reproduces every polynomial of degree below the number of samples, at every abscissa -/
theorem barycentric_polynomial (xs : List ℚ) (rows : List (List ℚ)) (dim : ℕ)
    (xnew : List ℚ) (out : List (List ℚ)) (h : barycentric xs rows dim xnew = .ok out)
    (c : ℕ) (hc : c < dim) (P : Polynomial ℚ) (hdeg : P.degree < (xs.length : ℕ))
    (hdata : ∀ i, i < xs.length → (rows.getD i []).getD c 0 = P.eval (xs.getD i 0))
    (j : ℕ) (hj : j < xnew.length) : (out.getD j []).getD c 0 = P.eval (xnew.getD j 0) :=
  barycentric_poly xs rows dim xnew out h c hc P hdeg hdata j hj

/-- for three or more samples it is the Lagrange interpolator of the library with the window set to all samples -/
theorem barycentric_eq_full_window_lagrange (xs : List ℚ) (rows : List (List ℚ)) (dim : ℕ) (xnew : List ℚ)
    (hn : 3 ≤ xs.length) (hl : rows.length = xs.length) :
    barycentric xs rows dim xnew = lagrange xs rows dim xs.length false false 1 xnew := by
  have hlen : ((sortBy (xs.zip rows)).map (·.1)).length = xs.length := by
    rw [List.length_map, (sortBy_perm _).length_eq]; simp [List.length_zip, hl]
  have h0 : xs.length ≠ 0 := by omega
  have h3 : ¬ xs.length < 3 := by omega
  simp only [barycentric, lagrange, hl, hlen, h0, h3, bne_self_eq_false, Bool.false_eq_true, ↓reduceIte,
    gt_iff_lt, lt_self_iff_false, Bool.false_and]

/-! ## Not-a-knot cubic spline (`kind="cubic"`, `kind="interpolated_univariate_spline"`: SciPy, specified by
`NakEqs` / `pieceEval` / `nakSpline`; the tie is the correspondence.  The model accepts the moments its elimination
returns only when they satisfy `NakEqs`, so the theorems hold for every value it returns) -/

/-- the defining equations determine the spline: two solutions for the same data and strictly increasing nodes
(n ≥ 4) have the same second derivatives at every node -/
theorem spline_unique (n : ℕ) (x y m m' : ℕ → ℚ) (hn : 4 ≤ n) (hx : ∀ i, i + 1 < n → x i < x (i + 1))
    (h : NakEqs n x y m) (h' : NakEqs n x y m') : ∀ i, i < n → m i = m' i :=
  nakEqs_unique n x y m m' hn hx h h'

/-- reproduces the data at the nodes (whole call: sort, interval search, cubic piece) -/
theorem spline_nodes (xs : List ℚ) (rows : List (List ℚ)) (dim : ℕ) (xnew : List ℚ)
    (out : List (List ℚ)) (h : nakSpline xs rows dim xnew = .ok out)
    (i j c : ℕ) (hi : i < xs.length) (hj : j < xnew.length) (hc : c < dim) (hx : xnew.getD j 0 = xs.getD i 0) :
    (out.getD j []).getD c 0 = (rows.getD i []).getD c 0 :=
  nakSpline_nodes xs rows dim xnew out h i j c hi hj hc hx

/-- invariant under reordering of the samples -/
theorem spline_perm_invariant (xs xs' : List ℚ) (rows rows' : List (List ℚ)) (dim : ℕ)
    (xnew : List ℚ) (hl : rows.length = xs.length) (hl' : rows'.length = xs'.length)
    (hperm : (xs.zip rows).Perm (xs'.zip rows'))
    (hdist : strictInc ((sortBy (xs.zip rows)).map (·.1)) = true) :
    nakSpline xs' rows' dim xnew = nakSpline xs rows dim xnew :=
  nakSpline_perm xs xs' rows rows' dim xnew hl hl' hperm hdist

/-- linear in the data (whole call) -/
theorem spline_linear (xs : List ℚ) (r₁ r₂ r₃ : List (List ℚ)) (dim : ℕ) (xnew : List ℚ) (a b : ℚ)
    (o₁ o₂ o₃ : List (List ℚ))
    (h₁ : nakSpline xs r₁ dim xnew = .ok o₁) (h₂ : nakSpline xs r₂ dim xnew = .ok o₂)
    (h₃ : nakSpline xs r₃ dim xnew = .ok o₃) (c : ℕ) (hc : c < dim)
    (hcomb : ∀ i, i < xs.length →
      (r₃.getD i []).getD c 0 = a * (r₁.getD i []).getD c 0 + b * (r₂.getD i []).getD c 0)
    (j : ℕ) (hj : j < xnew.length) :
    (o₃.getD j []).getD c 0 = a * (o₁.getD j []).getD c 0 + b * (o₂.getD j []).getD c 0 :=
  nakSpline_linear xs r₁ r₂ r₃ dim xnew a b o₁ o₂ o₃ h₁ h₂ h₃ c hc hcomb j hj

/-- reproduces every cubic polynomial `c₀ + c₁t + c₂t² + c₃t³` (whole call) -/
theorem spline_reproduces_cubics (xs : List ℚ) (rows : List (List ℚ)) (dim : ℕ) (xnew : List ℚ)
    (out : List (List ℚ)) (h : nakSpline xs rows dim xnew = .ok out) (c : ℕ) (hc : c < dim) (c0 c1 c2 c3 : ℚ)
    (hdata : ∀ i, i < xs.length → (rows.getD i []).getD c 0 = cubicAt c0 c1 c2 c3 (xs.getD i 0))
    (j : ℕ) (hj : j < xnew.length) :
    (out.getD j []).getD c 0 = cubicAt c0 c1 c2 c3 (xnew.getD j 0) :=
  nakSpline_cubic xs rows dim xnew out h c hc c0 c1 c2 c3 hdata j hj

/-- what a successful call returns: for every component, cubic pieces whose second derivatives at the nodes
satisfy the defining equations for the sorted samples (C¹ at interior nodes, not-a-knot at node 1 and n-2) -/
theorem spline_satisfies_defining_equations (xs : List ℚ) (rows : List (List ℚ)) (dim : ℕ) (xnew : List ℚ)
    (out : List (List ℚ)) (h : nakSpline xs rows dim xnew = .ok out) (j c : ℕ) (hj : j < xnew.length) (hc : c < dim) :
    ∃ ms, NakEqs ((sortedPairs xs rows false).map (·.1)).length (fun i => ((sortedPairs xs rows false).map (·.1)).getD i 0)
        (fun i => (((sortedPairs xs rows false).map (·.2)).map (·.getD c 0)).getD i 0) (fun i => ms.getD i 0) ∧
      (out.getD j []).getD c 0 = nakAt ((sortedPairs xs rows false).map (·.1))
        (((sortedPairs xs rows false).map (·.2)).map (·.getD c 0)) ms (xnew.getD j 0) :=
  nakSpline_entry xs rows dim xnew out h j c hj hc

/-! ## `interpolate_with_derivative` with the other interpolators (`interpDeriv f`: three calls of the interpolator
`f`; `lagrangeDeriv` is `interpDeriv (lagrange …)` by definition) -/

/-- spline kinds (`cubic`, `interpolated_univariate_spline`), data on a cubic `c₀ + c₁t + c₂t² + c₃t³`: the derivative
returned is the derivative of the cubic plus `c₃·dx²` — exact for parabolas and lines, for every `dx ≠ 0` -/
theorem spline_derivative_of_cubic (xs : List ℚ) (rows : List (List ℚ)) (dim : ℕ) (xnew : List ℚ) (dx : ℚ) (hdx : dx ≠ 0)
    (v d : List (List ℚ)) (h : interpDeriv (nakSpline xs rows dim) xnew dx = .ok (v, d)) (c : ℕ) (hc : c < dim)
    (c0 c1 c2 c3 : ℚ)
    (hdata : ∀ i, i < xs.length → (rows.getD i []).getD c 0 = cubicAt c0 c1 c2 c3 (xs.getD i 0))
    (j : ℕ) (hj : j < xnew.length) :
    (d.getD j []).getD c 0 = c1 + 2 * c2 * xnew.getD j 0 + 3 * c3 * xnew.getD j 0 * xnew.getD j 0 + c3 * dx * dx :=
  splineDeriv_cubic xs rows dim xnew dx hdx v d h c hc c0 c1 c2 c3 hdata j hj

/-- … and is linear in the data -/
theorem spline_derivative_linear (xs : List ℚ) (r₁ r₂ r₃ : List (List ℚ)) (dim : ℕ) (xnew : List ℚ) (dx a b : ℚ)
    (v₁ v₂ v₃ d₁ d₂ d₃ : List (List ℚ))
    (h₁ : interpDeriv (nakSpline xs r₁ dim) xnew dx = .ok (v₁, d₁))
    (h₂ : interpDeriv (nakSpline xs r₂ dim) xnew dx = .ok (v₂, d₂))
    (h₃ : interpDeriv (nakSpline xs r₃ dim) xnew dx = .ok (v₃, d₃))
    (c : ℕ) (hc : c < dim)
    (hcomb : ∀ i, i < xs.length →
      (r₃.getD i []).getD c 0 = a * (r₁.getD i []).getD c 0 + b * (r₂.getD i []).getD c 0)
    (j : ℕ) (hj : j < xnew.length) :
    (d₃.getD j []).getD c 0 = a * (d₁.getD j []).getD c 0 + b * (d₂.getD j []).getD c 0 :=
  splineDeriv_linear xs r₁ r₂ r₃ dim xnew dx a b v₁ v₂ v₃ d₁ d₂ d₃ h₁ h₂ h₃ c hc hcomb j hj

/-- `barycentric_interpolator`, data on a polynomial of degree below the number of samples: the central difference
of that polynomial, hence its derivative for degree ≤ 2 -/
theorem barycentric_derivative_polynomial (xs : List ℚ) (rows : List (List ℚ)) (dim : ℕ) (xnew : List ℚ) (dx : ℚ)
    (v d : List (List ℚ)) (h : interpDeriv (barycentric xs rows dim) xnew dx = .ok (v, d)) (c : ℕ) (hc : c < dim)
    (P : Polynomial ℚ) (hdeg : P.degree < (xs.length : ℕ))
    (hdata : ∀ i, i < xs.length → (rows.getD i []).getD c 0 = P.eval (xs.getD i 0))
    (j : ℕ) (hj : j < xnew.length) :
    (d.getD j []).getD c 0 = (P.eval (xnew.getD j 0 + dx) - P.eval (xnew.getD j 0 - dx)) / (2 * dx) ∧
    (P.degree ≤ 2 → dx ≠ 0 → (d.getD j []).getD c 0 = (Polynomial.derivative P).eval (xnew.getD j 0)) := by
  have e := barycentricDeriv_poly xs rows dim xnew dx v d h c hc P hdeg hdata j hj
  exact ⟨e, fun h2 hdx => by rw [e]; exact central_diff_quadratic P h2 _ dx hdx⟩

/-! ## Bilinear interpolation on a grid (`spatial_interpolation.regular_grid_interpolator`: SciPy, specified by
`bilinearAt` / `regularGrid`; the tie is the correspondence) -/

/-- reproduces the grid values at the grid nodes, and every function `c₀ + c₁x + c₂y + c₃xy` everywhere -/
theorem grid_bilinear_nodes_and_exactness (xs ys : List ℚ) (grid : List (List ℚ)) (hx : xs.Pairwise (· < ·))
    (hy : ys.Pairwise (· < ·)) (hnx : 2 ≤ xs.length) (hny : 2 ≤ ys.length) (hg : grid.length = ys.length) :
    (∀ k i, k < ys.length → i < xs.length →
      bilinearAt xs ys grid (xs.getD i 0) (ys.getD k 0) = (grid.getD k []).getD i 0) ∧
    (∀ c0 c1 c2 c3 : ℚ, (∀ k i, k < ys.length → i < xs.length →
        (grid.getD k []).getD i 0 = c0 + c1 * xs.getD i 0 + c2 * ys.getD k 0 + c3 * xs.getD i 0 * ys.getD k 0) →
      ∀ x y, bilinearAt xs ys grid x y = c0 + c1 * x + c2 * y + c3 * x * y) :=
  ⟨fun k i hk hi => bilinear_node xs ys grid hx hy hnx hny hg k i hk hi,
   fun c0 c1 c2 c3 hd x y => bilinear_exact xs ys grid hx hy hnx hny hg c0 c1 c2 c3 x y hd⟩

/-- linear in the grid values -/
theorem grid_bilinear_linear (xs ys : List ℚ) (g₁ g₂ g₃ : List (List ℚ)) (hnx : 2 ≤ xs.length) (hny : 2 ≤ ys.length)
    (l₁ : g₁.length = ys.length) (l₂ : g₂.length = ys.length) (l₃ : g₃.length = ys.length) (a b x y : ℚ)
    (hcomb : ∀ k i, k < ys.length → i < xs.length →
      (g₃.getD k []).getD i 0 = a * (g₁.getD k []).getD i 0 + b * (g₂.getD k []).getD i 0) :
    bilinearAt xs ys g₃ x y = a * bilinearAt xs ys g₁ x y + b * bilinearAt xs ys g₂ x y :=
  bilinear_linear xs ys g₁ g₂ g₃ hnx hny l₁ l₂ l₃ a b x y hcomb

/-! ## Bicubic spline on a grid (`spatial_interpolation.rect_bivariate_spline`: SciPy `RectBivariateSpline`, specified
by `bicubicAt` — the tensor product of not-a-knot splines; the tie is the correspondence) -/

/-- reproduces the grid values at the grid nodes and every tensor cubic `Σ cₐᵦ xᵃ yᵇ` (a, b ≤ 3; written as a cubic in
`x` whose four coefficients are cubics in `y`) everywhere -/
theorem grid_bicubic_nodes_and_exactness (xs ys : List ℚ) (grid : List (List ℚ)) (hx : xs.Pairwise (· < ·))
    (hy : ys.Pairwise (· < ·)) (hnx : 4 ≤ xs.length) (hny : 4 ≤ ys.length) (hg : grid.length = ys.length) :
    (∀ k i v, k < ys.length → i < xs.length → bicubicAt xs ys grid (xs.getD i 0) (ys.getD k 0) = some v →
      v = (grid.getD k []).getD i 0) ∧
    (∀ a0 a1 a2 a3 b0 b1 b2 b3 c0 c1 c2 c3 d0 d1 d2 d3 : ℚ,
      (∀ k i, k < ys.length → i < xs.length → (grid.getD k []).getD i 0 =
        cubicAt (cubicAt a0 a1 a2 a3 (ys.getD k 0)) (cubicAt b0 b1 b2 b3 (ys.getD k 0)) (cubicAt c0 c1 c2 c3 (ys.getD k 0))
          (cubicAt d0 d1 d2 d3 (ys.getD k 0)) (xs.getD i 0)) →
      ∀ x y v, bicubicAt xs ys grid x y = some v →
        v = cubicAt (cubicAt a0 a1 a2 a3 y) (cubicAt b0 b1 b2 b3 y) (cubicAt c0 c1 c2 c3 y) (cubicAt d0 d1 d2 d3 y) x) :=
  ⟨fun k i v hk hi h => bicubic_node xs ys grid hx hy (by omega) (by omega) hg k i hk hi v h,
   fun a0 a1 a2 a3 b0 b1 b2 b3 c0 c1 c2 c3 d0 d1 d2 d3 hd x y v h =>
     bicubic_exact xs ys grid hx hy hnx hny hg a0 a1 a2 a3 b0 b1 b2 b3 c0 c1 c2 c3 d0 d1 d2 d3 x y v hd h⟩

/-! ## `planetary_motion.gsdtime_sun`: the angles that are rational in the date -/

/-- the mean longitude and the Greenwich sidereal angle lie in [0, 360); the sidereal angle does not change when
whole days are moved between `frac` and … nothing else: it is periodic in the day fraction with period 1, and
from one day to the next (same fraction) it advances by the tabulated rate, modulo 360 -/
theorem sun_angles (c0 rate jd frac : ℚ) (k : ℤ) :
    (0 ≤ sunMeanLongitude c0 rate jd ∧ sunMeanLongitude c0 rate jd < 360) ∧
    (0 ≤ gmstAngle c0 rate jd frac ∧ gmstAngle c0 rate jd frac < 360) ∧
    gmstAngle c0 rate jd (frac + k) = gmstAngle c0 rate jd frac ∧
    gmstAngle c0 rate (jd + 1) frac = fmod360 (gmstAngle c0 rate jd frac + rate) ∧
    sunMeanLongitude c0 rate (jd + 1) = fmod360 (sunMeanLongitude c0 rate jd + rate) := by
  refine ⟨fmod360_range _, fmod360_range _, ?_, ?_, ?_⟩
  · unfold gmstAngle
    rw [← fmod360_add_turns (c0 + rate * jd + 360 * frac + 180) k]
    congr 1; ring
  · unfold gmstAngle
    rw [fmod360_fmod360_add]
    congr 1; ring
  · unfold sunMeanLongitude
    rw [fmod360_fmod360_add]
    congr 1; ring

/-! ## `nputil.norm`, `nputil.unit_vector`, `nputil.take` -/

/-- `unit_vector(v)` has norm 1 and `norm(v) · unit_vector(v) = v`, for every non-zero vector of any length
(`n` is the norm: any number with `n² = Σ vᵢ²`) -/
theorem unit_vector_identities (v : List ℚ) (n : ℚ) (hn : n ≠ 0) (h : n * n = normSq v) :
    normSq (unitVector v n) = 1 ∧ (unitVector v n).map (n * ·) = v :=
  ⟨unitVector_normSq v n hn h, unitVector_parallel v n hn⟩

/-- the norm is positive definite and absolutely homogeneous: `‖v‖² ≥ 0`, `= 0` only for the zero vector,
`‖a·v‖² = a²‖v‖²` -/
theorem norm_identities (v : List ℚ) (a : ℚ) :
    0 ≤ normSq v ∧ (normSq v = 0 → ∀ x ∈ v, x = 0) ∧ normSq (v.map (a * ·)) = a * a * normSq v :=
  ⟨normSq_nonneg v, normSq_eq_zero v, normSq_scale a v⟩

/-- `take(v, i)` picks component `i` of every row -/
theorem take_last_axis (rows : List (List ℚ)) (i k : ℕ) (hk : k < rows.length) :
    (takeLast rows i).length = rows.length ∧ (takeLast rows i).getD k 0 = (rows.getD k []).getD i 0 :=
  ⟨takeLast_length rows i, takeLast_getD rows i k hk⟩

/-! ## Dilution of precision -/

/-- GDOP² = PDOP² + TDOP² and PDOP² = HDOP² + VDOP² -/
theorem dop_pythagoras (sats : List Sat) (d : Dops) (h : computeDops sats = some d) :
    d.gdop2 = d.pdop2 + d.tdop2 ∧ d.pdop2 = d.hdop2 + d.vdop2 := by
  unfold computeDops at h
  simp only at h
  split at h
  · exact absurd h (by simp)
  · injection h with h
    subst h
    simp [dopsOf]

/-- the values do not change when the satellites are reordered -/
theorem dop_perm (l₁ l₂ : List Sat) (hp : l₁.Perm l₂) : computeDops l₁ = computeDops l₂ :=
  computeDops_perm l₁ l₂ hp

/-- the values do not change when all azimuths are rotated by one angle (cosine `c`, sine `s`) -/
theorem dop_az_rotation (c s : ℚ) (h : c ^ 2 + s ^ 2 = 1) (l : List Sat) :
    computeDops (l.map (rotSat c s)) = computeDops l :=
  computeDops_rot c s h l

/-- obligation on the regenerated table: the test with which `compute_dops` refuses a geometry is the documented
one on the condition number, without a finite limit … -/
theorem dop_guard_source : dopGuardSource = "not np.isfinite(np.linalg.cond(Q))" ∧ dopCondLimit = none := by
  decide +kernel

/-- … hence values are returned for every non-singular design, however weak the geometry: `None` exactly when
`det(HᵀH) = 0` -/
theorem dop_refuses_only_singular (cond : ℚ) (sats : List Sat) :
    computeDopsGuarded dopCondLimit cond sats = none ↔ det4 (normal sats) = 0 := by
  rw [dop_guard_source.2]
  simp only [computeDopsGuarded, computeDops, ofTable_table]
  split <;> simp_all

/-- the matrix the traces are taken of is the inverse of `HᵀH` -/
theorem dop_inverse (sats : List Sat) (h : det4 (normal sats) ≠ 0) :
    toM (normal sats) * toM (inv4 (normal sats)) = 1 :=
  mul_inv4 _ h

/-! ## Plate motion -/

/-- `v = ω × r` is perpendicular to the position and to the rotation pole -/
theorem plate_perp (w r : V3) : dot3 (cross w r) r = 0 ∧ dot3 (cross w r) w = 0 :=
  cross_perp w r

/-- the speed is `|ω||r| sin θ` (Lagrange's identity); with `plate_perp` this fixes `v` up to the
orientation, which is that of `ω × r` by definition of `cross` -/
theorem plate_speed (w r : V3) :
    dot3 (cross w r) (cross w r) = dot3 w w * dot3 r r - dot3 w r * dot3 w r :=
  cross_norm w r

/-- … for every plate of every model of the regenerated table and every position -/
theorem plate_table_perp (model plate : String) (p : ℚ) (pos v : V3)
    (h : plateVelocity model plate p pos = some v) :
    dot3 v pos = 0 ∧ ∃ row ∈ poles, row.model = model ∧ row.plate = plate ∧ dot3 v (poleOmega row p) = 0 := by
  unfold plateVelocity at h
  cases hf : findPole poles model plate with
  | none => simp [hf] at h
  | some row =>
    simp only [hf, Option.map_some, Option.some.injEq] at h
    subst h
    have hm : row ∈ poles := List.mem_of_find?_eq_some hf
    have hq := List.find?_some hf
    simp only [Bool.and_eq_true, beq_iff_eq] at hq
    exact ⟨(cross_perp _ _).1, row, hm, hq.1, hq.2, (cross_perp _ _).2⟩

/-! ## Euler pole: spherical ↔ Cartesian (`PlateMotion.to_cartesian` / `to_spherical`) -/

/-- the executed formula of `to_cartesian` (cos/sin of latitude and longitude as parameters on the unit circle):
the rotation rate that `to_spherical` computes from its result is the one put in (squared: `sqrt` is not
modelled), and the result is `3.6 ω` times the unit vector `(cos lat cos lon, cos lat sin lon, sin lat)` -/
theorem to_cartesian_rate_and_direction (cl sl co so w : ℚ) (h1 : cl ^ 2 + sl ^ 2 = 1) (h2 : co ^ 2 + so ^ 2 = 1) :
    omegaSq (toCartesianQ cl sl co so w) = w * w ∧
    toCartesianQ cl sl co so w = ⟨(w * (3600000 / 1000000)) * (cl * co), (w * (3600000 / 1000000)) * (cl * so),
      (w * (3600000 / 1000000)) * sl⟩ :=
  ⟨omegaSq_toCartesianQ cl sl co so w h1 h2, toCartesianQ_direction cl sl co so w⟩

/-- specification over ℝ (`arctan2 y x = Complex.arg (x + iy)`, unit factors omitted; these definitions are not
executed — the tie to the code is the oracle of harness/c20.py): spherical → Cartesian → spherical is the
identity for ω > 0, latitude in (−π/2, π/2), longitude in (−π, π] -/
theorem spherical_roundtrip_real (lat lon w : ℝ) (hw : 0 < w) (hlat : lat ∈ Set.Ioo (-(Real.pi / 2)) (Real.pi / 2))
    (hlon : lon ∈ Set.Ioc (-Real.pi) Real.pi) :
    Spherical.toSpherical (Spherical.toCartesian lat lon w) = (lat, lon, w) :=
  Spherical.spherical_roundtrip lat lon w hw hlat hlon

/-- … and Cartesian → spherical → Cartesian is the identity for every vector (also on the axis, at the origin) -/
theorem cartesian_roundtrip_real (x y z : ℝ) :
    Spherical.toCartesian (Spherical.toSpherical (x, y, z)).1 (Spherical.toSpherical (x, y, z)).2.1
      (Spherical.toSpherical (x, y, z)).2.2 = (x, y, z) :=
  Spherical.cartesian_roundtrip x y z

/-! ## Least squares -/

/-- the fitted line satisfies the normal equations -/
theorem linreg_normal_equations (xs ys : List ℚ) (f : Fit) (hl : xs.length = ys.length)
    (h : ols xs ys = some f) :
    (resid f xs ys).sum = 0 ∧ (List.zipWith (· * ·) xs (resid f xs ys)).sum = 0 :=
  ols_normal_equations xs ys f hl h

/-- data on a line are fitted by that line -/
theorem linreg_exact_line (xs : List ℚ) (a b : ℚ)
    (hden : (xs.length : ℚ) * (xs.map (fun x => x * x)).sum - xs.sum * xs.sum ≠ 0) :
    ols xs (xs.map (fun x => a + b * x)) = some ⟨a, b⟩ :=
  ols_exact_line xs a b hden

/-! ### statistics of the fit (`rms`, `r_square`, `slope_sigma`, `interception_sigma`: `fitStats`, squares where
the code takes a square root — the textbook expressions in the residuals of the least-squares line) -/

/-- `Σ(y−ȳ)² = Σe² + slope²·Σ(x−x̄)²` for the least-squares line, hence `0 ≤ r_square ≤ 1` -/
theorem linreg_r_square_range (xs ys : List ℚ) (f : Fit) (hl : xs.length = ys.length) (h : ols xs ys = some f) :
    sst ys = ssr f xs ys + f.slope * f.slope * normSq (xs.map (· - mean xs)) ∧
    (sst ys ≠ 0 → 0 ≤ (fitStats f xs ys).rSquare ∧ (fitStats f xs ys).rSquare ≤ 1) :=
  ⟨sst_decomposition xs ys f hl h, rSquare_range xs ys f hl h⟩

/-- affine rescaling `y ↦ α + β y` (`β ≠ 0`) of the ordinates: the fitted line is rescaled, the residuals are
multiplied by `β`, and `r_square` does not change -/
theorem linreg_r_square_affine_invariant (xs ys : List ℚ) (f : Fit) (al be : ℚ) (hbe : be ≠ 0)
    (hl : xs.length = ys.length) (h : ols xs ys = some f) :
    ols xs (ys.map (fun y => al + be * y)) = some ⟨al + be * f.icpt, be * f.slope⟩ ∧
    (fitStats ⟨al + be * f.icpt, be * f.slope⟩ xs (ys.map (fun y => al + be * y))).rSquare = (fitStats f xs ys).rSquare ∧
    (fitStats ⟨al + be * f.icpt, be * f.slope⟩ xs (ys.map (fun y => al + be * y))).rms2 = be * be * (fitStats f xs ys).rms2 := by
  refine ⟨ols_affine xs ys f al be hl h, rSquare_affine xs ys f al be hbe hl h, ?_⟩
  simp only [fitStats, ssr_affine]
  ring

/-- `r_square = 1` iff every sample lies on the fitted line (ordinates not all equal); and for samples on a line
the fit is that line with `rms = slope_sigma = interception_sigma = 0`, `r_square = 1` -/
theorem linreg_r_square_one_iff_on_line (f : Fit) (xs ys : List ℚ) (hs : sst ys ≠ 0) :
    ((fitStats f xs ys).rSquare = 1 ↔ ∀ e ∈ resid f xs ys, e = 0) ∧
    ∀ (zs : List ℚ) (a b : ℚ), fitStats ⟨a, b⟩ zs (zs.map (fun x => a + b * x)) = ⟨0, 1, 0, 0⟩ :=
  ⟨rSquare_eq_one_iff f xs ys hs, fun zs a b => (stats_exact_line zs a b).2⟩

/-- `rms = 0` iff all residuals vanish; `rms² ≥ 0` -/
theorem linreg_rms_zero_iff (f : Fit) (xs ys : List ℚ) (hn : (xs.length : ℚ) ≠ 0) :
    0 ≤ (fitStats f xs ys).rms2 ∧ ((fitStats f xs ys).rms2 = 0 ↔ ∀ e ∈ resid f xs ys, e = 0) := by
  rw [← ssr_eq_zero_iff]
  simp only [fitStats]
  refine ⟨div_nonneg (normSq_nonneg _) (by positivity), ?_⟩
  constructor
  · intro h
    rcases div_eq_zero_iff.mp h with h' | h'
    · exact h'
    · exact absurd h' hn
  · intro h; rw [h]; simp

/-! ## Non-vacuity: concrete instances evaluated by the kernel -/

example : conv "km" "inch" 3 = some (some (5000000 / 127)) := by decide +kernel
example : conv "degree" "mas" 3 = some (some 3600000) := by decide +kernel
example : conv "degree" "second" 3 = some none := by decide +kernel
example : degToDms 3 ⟨true, 1 / 3⟩ = (⟨true, 0⟩, 20, 0) := by decide +kernel
example : degToDms 3 ⟨true, 0⟩ = (⟨false, 0⟩, 0, 0) := by decide +kernel
example : dmsToDeg 3 ⟨true, 0⟩ 19 (3 / 2) = ⟨true, 2283 / 7200⟩ := by decide +kernel
example : lagrange [0, 1, 2, 3] [[0, 0], [1, 1], [4, 8], [9, 27]] 2 3 true false 2 [1 / 2, 2]
    = .ok [[1 / 4, -1 / 4], [4, 8]] := by decide +kernel
example : lagrange [2, 0, 3, 1] [[4], [0], [9], [1]] 1 3 true false 5 [1 / 2] = .ok [[1 / 4]] := by decide +kernel
example : lagrangeDeriv [0, 1, 2, 3, 4] [[1], [2], [5], [10], [17]] 1 3 true false 2 [1, 5 / 2] (1 / 2)
    = .ok ([[2], [29 / 4]], [[2], [5]]) := by decide +kernel      -- y = x² + 1: y' = 2x
example : lagrangeDeriv [0, 1, 2, 3, 4] [[1], [2], [5], [10], [17]] 1 3 true false 2 [1, 4] (1 / 2) = .error .above := by
  decide +kernel
example : barycentric [2, 0, 3, 1] [[8], [0], [27], [1]] 1 [1 / 2, -1] = .ok [[1 / 8], [-1]] := by decide +kernel   -- y = x³
example : barycentric [5] [[7, 8]] 2 [1] = .ok [[7, 8]] := by decide +kernel
example : barycentric [0, 1, 1] [[0], [1], [4]] 1 [1 / 2] = .error .unsorted := by decide +kernel
example : normSq [3, 4] = 25 ∧ unitVector [3, 4] 5 = [3 / 5, 4 / 5] ∧ takeLast [[1, 2, 3], [4, 5, 6]] 1 = [2, 5] := by
  decide +kernel
example : toCartesianQ (3 / 5) (4 / 5) 0 1 2 = ⟨0, 108 / 25, 144 / 25⟩ ∧ omegaSq (toCartesianQ (3 / 5) (4 / 5) 0 1 2) = 4 := by
  decide +kernel
example : nakSpline [0, 1, 2, 3, 5] [[0], [1], [8], [27], [125]] 1 [1 / 2, 4] = .ok [[1 / 8], [64]] := by
  decide +kernel      -- y = x³ is reproduced
example : nakSpline [3, 0, 2, 1, 5] [[1], [0], [0], [1], [0]] 1 [0, 3] = .ok [[0], [1]] := by decide +kernel
example : regularGrid [0, 1, 3] [0, 2] [[0, 1, 3], [4, 7, 13]] [(1 / 2, 1), (3, 2), (4, 1)] = .error .above := by decide +kernel
example : regularGrid [0, 1, 3] [0, 2] [[0, 1, 3], [4, 7, 13]] [(1 / 2, 1), (3, 2)] = .ok [3, 13] := by decide +kernel
example : gmstAngle sunGst0 sunGstRate (57448 - sunEpoch) 0 = 1592289530189 / 10000000000 := by decide +kernel   -- 159.2289530189°: 2016-03-01 0h, the value pinned by the test suite
example : interpDeriv (nakSpline [0, 1, 2, 3, 5] [[0], [1], [8], [27], [125]] 1) [2] (1 / 2) = .ok ([[8]], [[49 / 4]]) := by
  decide +kernel      -- y = x³ at 2: 3·2² + dx² = 12 + 1/4
example : bicubicAt [0, 1, 2, 3] [0, 1, 2, 4] [[0, 0, 0, 0], [0, 1, 8, 27], [0, 2, 16, 54], [0, 4, 32, 108]] (3 / 2) 3
    = some (81 / 8) := by decide +kernel      -- x³·y at (3/2, 3)
example : lagrange [0, 1, 1, 3] [[0], [1], [4], [9]] 1 3 true false 2 [1 / 2] = .error .unsorted := by decide +kernel
example : (computeDops [⟨1/2, 1/2, 1, 0⟩, ⟨1/2, 1/2, 0, 1⟩, ⟨1/2, 1/2, -1, 0⟩, ⟨0, 1, 1, 0⟩, ⟨3/5, 4/5, 0, -1⟩]).isSome = true := by
  decide +kernel
example : computeDops [⟨1, 0, 1, 0⟩, ⟨1, 0, 1, 0⟩, ⟨1, 0, 1, 0⟩, ⟨1, 0, 1, 0⟩] = none := by decide +kernel
example : (plateVelocity "itrf2014" "eura" 3 ⟨1, 2, 3⟩).isSome = true := by decide +kernel
example : linear [2, 0, 3, 1] [[4], [0], [9], [1]] 1 [1 / 2, 2] = .ok [[1 / 2], [4]] := by decide +kernel
example : ols [0, 1, 2, 3] [1, 3, 5, 8] = some ⟨4 / 5, 23 / 10⟩ := by decide +kernel
example : fitStats ⟨4 / 5, 23 / 10⟩ [0, 1, 2, 3] [1, 3, 5, 8] = ⟨3 / 40, 529 / 535, 3 / 100, 21 / 200⟩ := by decide +kernel

end Midgard.Props.C20

#print axioms Midgard.Props.C20.unit_recip
#print axioms Midgard.Props.C20.unit_trans
#print axioms Midgard.Props.C20.units_table_positive
#print axioms Midgard.Props.C20.units_table_names_nodup
#print axioms Midgard.Props.C20.units_table_eq_si
#print axioms Midgard.Props.C20.findUnit_mem
#print axioms Midgard.Props.C20.unit_table_recip
#print axioms Midgard.Props.C20.unit_table_trans
#print axioms Midgard.Props.C20.dms_roundtrip
#print axioms Midgard.Props.C20.dms_roundtrip_signbit
#print axioms Midgard.Props.C20.dms_fields
#print axioms Midgard.Props.C20.dms_to_deg_sign
#print axioms Midgard.Props.C20.lagrange_nodes
#print axioms Midgard.Props.C20.lagrange_perm_invariant
#print axioms Midgard.Props.C20.lagrange_polynomial
#print axioms Midgard.Props.C20.lagrange_linear
#print axioms Midgard.Props.C20.lagrange_ndim
#print axioms Midgard.Props.C20.lagrange_scale_invariant
#print axioms Midgard.Props.C20.lagrange_window
#print axioms Midgard.Props.C20.derivative_values
#print axioms Midgard.Props.C20.derivative_is_central_difference
#print axioms Midgard.Props.C20.derivative_polynomial
#print axioms Midgard.Props.C20.derivative_exact_quadratic
#print axioms Midgard.Props.C20.derivative_linear
#print axioms Midgard.Props.C20.linear_nodes
#print axioms Midgard.Props.C20.linear_perm_invariant
#print axioms Midgard.Props.C20.linear_linear
#print axioms Midgard.Props.C20.barycentric_is_interpolating_polynomial
#print axioms Midgard.Props.C20.barycentric_nodes
#print axioms Midgard.Props.C20.barycentric_perm_invariant
#print axioms Midgard.Props.C20.barycentric_linear
#print axioms Midgard.Props.C20.barycentric_polynomial
#print axioms Midgard.Props.C20.barycentric_eq_full_window_lagrange
#print axioms Midgard.Props.C20.spline_nodes
#print axioms Midgard.Props.C20.spline_perm_invariant
#print axioms Midgard.Props.C20.spline_unique
#print axioms Midgard.Props.C20.spline_linear
#print axioms Midgard.Props.C20.spline_reproduces_cubics
#print axioms Midgard.Props.C20.spline_satisfies_defining_equations
#print axioms Midgard.Props.C20.spline_derivative_of_cubic
#print axioms Midgard.Props.C20.spline_derivative_linear
#print axioms Midgard.Props.C20.barycentric_derivative_polynomial
#print axioms Midgard.Props.C20.grid_bilinear_nodes_and_exactness
#print axioms Midgard.Props.C20.grid_bilinear_linear
#print axioms Midgard.Props.C20.grid_bicubic_nodes_and_exactness
#print axioms Midgard.Props.C20.sun_angles
#print axioms Midgard.Props.C20.unit_vector_identities
#print axioms Midgard.Props.C20.norm_identities
#print axioms Midgard.Props.C20.take_last_axis
#print axioms Midgard.Props.C20.dop_pythagoras
#print axioms Midgard.Props.C20.dop_perm
#print axioms Midgard.Props.C20.dop_az_rotation
#print axioms Midgard.Props.C20.dop_guard_source
#print axioms Midgard.Props.C20.dop_refuses_only_singular
#print axioms Midgard.Props.C20.dop_inverse
#print axioms Midgard.Props.C20.plate_perp
#print axioms Midgard.Props.C20.plate_speed
#print axioms Midgard.Props.C20.plate_table_perp
#print axioms Midgard.Props.C20.to_cartesian_rate_and_direction
#print axioms Midgard.Props.C20.spherical_roundtrip_real
#print axioms Midgard.Props.C20.cartesian_roundtrip_real
#print axioms Midgard.Props.C20.linreg_normal_equations
#print axioms Midgard.Props.C20.linreg_exact_line
#print axioms Midgard.Props.C20.linreg_r_square_range
#print axioms Midgard.Props.C20.linreg_r_square_affine_invariant
#print axioms Midgard.Props.C20.linreg_r_square_one_iff_on_line
#print axioms Midgard.Props.C20.linreg_rms_zero_iff
