import Midgard.Model.Numeric

namespace Midgard.Props.C20
open Midgard.Numeric

theorem dop_pythagoras (q : Mat4) :
    (dopsOf q).gdop2 = (dopsOf q).pdop2 + (dopsOf q).tdop2 ∧
    (dopsOf q).pdop2 = (dopsOf q).hdop2 + (dopsOf q).vdop2 := by
  simp [dopsOf]

end Midgard.Props.C20

#print axioms Midgard.Props.C20.dop_pythagoras
