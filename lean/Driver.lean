import Driver.C03
