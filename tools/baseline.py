#!/venv/bin/python
"""Run the repository's pinned test suite with the verification guard OFF and compare with
/root/.vp/BASELINE.json: every test in stable_pass must pass.  Exit 0 iff so."""
import json, os, subprocess, sys, tempfile
import xml.etree.ElementTree as ET

os.environ.pop("MIDGARD_VERIF", None)
base = json.load(open("/root/.vp/BASELINE.json"))
want = set(base["stable_pass"])
with tempfile.TemporaryDirectory() as d:
    xml = os.path.join(d, "junit.xml")
    cmd = base["cmd"].replace("<file>", xml)
    p = subprocess.run(cmd, shell=True, capture_output=True, text=True)
    passed = set()
    for tc in ET.parse(xml).getroot().iter("testcase"):
        ok = not any(ch.tag in ("failure", "error", "skipped") for ch in tc)
        if ok:
            passed.add(f"{tc.get('classname')}::{tc.get('name')}")
missing = sorted(want - passed)
print(f"stable_pass={len(want)} passed_now={len(passed)} missing={len(missing)}")
for m in missing[:40]:
    print("  NOT PASSING:", m)
sys.exit(1 if missing else 0)
