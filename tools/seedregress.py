#!/usr/bin/env python3
"""Re-run the checks against every stored seeded change (seeded/<PROP>/<k>/patch.diff) on a scratch worktree of /repo.

    tools/seedregress.py [PROP ...] [--jobs N]

For each seed: fresh worktree at /repo's HEAD, `git apply` the patch (a patch that no longer applies is reported as
`stale`, not as a miss), run `MIDGARD_REPO=<wt> ./check PROP` (evidence goes to a scratch directory), expect exit 1 with a
VIOLATION line for PROP.  Also runs the check once on the *clean* worktree and expects exit 0, so that a "caught" can never
be the echo of a violation the base tree already had.  Writes seeded/REGRESSION.json and prints one line per seed.
Nothing is applied to /repo itself; worktrees are removed afterwards.
"""
import json
import os
import subprocess
import sys
from concurrent.futures import ThreadPoolExecutor
from pathlib import Path

V = Path(__file__).resolve().parent.parent
args = [a for a in sys.argv[1:] if not a.startswith("--")]
jobs = next((int(a.split("=")[1]) for a in sys.argv[1:] if a.startswith("--jobs=")), 4)
props = sorted(p.name for p in (V / "seeded").iterdir() if p.is_dir() and (not args or p.name in args))
head = subprocess.check_output(["git", "-C", "/repo", "rev-parse", "--short", "HEAD"]).decode().strip()


def scratch_copy(tag):
    """a private copy of /verif for runs against a scratch tree: the working tree, or with SEED_USE_HEAD=1 the *committed*
    sources (`git archive HEAD`: other work may be editing the working tree) plus the Lean build output (~300 MB; lake
    rebuilds in the copy whatever differs).  The
    translators of such a run rewrite lean/Midgard/Generated in the copy, never in the tree other work is building in."""
    vc = Path(f"/tmp/vc-{tag.lower()}-{os.getpid()}")
    subprocess.run(["rm", "-rf", str(vc)]); vc.mkdir(parents=True)
    if os.environ.get("SEED_USE_HEAD"):
        subprocess.check_call(f"git -C {V} archive HEAD -- . ':!seeded' ':!evidence' | tar -x -C {vc}", shell=True)
        r = subprocess.run(["rsync", "-a", f"{V}/lean/.lake", f"{vc}/lean/"])
    else:
        r = subprocess.run(["rsync", "-a", "--exclude", ".git", "--exclude", "seeded", "--exclude", "evidence",
                            "--exclude", ".lock-*", f"{V}/", f"{vc}/"])
    if r.returncode not in (0, 24):   # 24: a file vanished while copying (a concurrent build)
        raise RuntimeError(f"rsync exit {r.returncode}")
    return vc


def run_check(prop, wt, tag, vc=None):
    vc = vc or V
    env = {**os.environ, "MIDGARD_REPO": str(wt), "VERIF_EVIDENCE_DIR": f"/tmp/sr-evidence-{tag}-{os.getpid()}"}
    p = subprocess.run([str(vc / "check"), prop], cwd=vc, capture_output=True, text=True, env=env)
    lines = [l for l in p.stdout.splitlines() if l.startswith(("VIOLATION", "  what", "KNOWN-FINDING", "TOOL-FAILURE"))]
    return p.returncode, lines


def one_prop(prop):
    wt = Path(f"/tmp/sr-{prop.lower()}-{os.getpid()}")
    subprocess.run(["git", "-C", "/repo", "worktree", "remove", "--force", str(wt)], capture_output=True)
    subprocess.check_call(["git", "-C", "/repo", "worktree", "add", "--detach", str(wt), "HEAD", "-q"])
    out = {}
    vc = scratch_copy(prop)
    try:
        rc, lines = run_check(prop, wt, prop, vc)
        out["clean"] = {"exit": rc, "lines": lines[:4]}
        print(f"{prop} clean tree: exit {rc}", flush=True)
        for d in sorted((V / "seeded" / prop).iterdir()):
            if not (d / "patch.diff").exists():
                continue
            try:
                retired = json.loads((d / "meta.json").read_text()).get("retired")
            except Exception:
                retired = None
            if retired:
                out[d.name] = {"status": "retired", "why": retired[:200]}
                print(f"{prop}/{d.name}: retired ({retired[:80]}…)", flush=True)
                continue
            subprocess.check_call(["git", "-C", str(wt), "checkout", "-q", "--", "."])
            subprocess.run(["git", "-C", str(wt), "clean", "-fdq"], capture_output=True)
            ap = subprocess.run(["git", "-C", str(wt), "apply", str(d / "patch.diff")], capture_output=True, text=True)
            if ap.returncode != 0:
                # later fix: commits moved the context: try a three-way merge and, when it is clean, store the rebased patch
                subprocess.check_call(["git", "-C", str(wt), "checkout", "-q", "--", "."])
                ap3 = subprocess.run(["git", "-C", str(wt), "apply", "--3way", str(d / "patch.diff")], capture_output=True, text=True)
                if ap3.returncode == 0 and "conflicts" not in ap3.stderr:
                    subprocess.run(["git", "-C", str(wt), "reset", "-q"], capture_output=True)
                    (d / "patch.diff").write_text(subprocess.check_output(["git", "-C", str(wt), "diff"]).decode())
                    ap = ap3
                else:
                    subprocess.run(["git", "-C", str(wt), "reset", "-q", "--hard"], capture_output=True)
            if ap.returncode != 0:
                out[d.name] = {"status": "stale", "why": ap.stderr.strip()[:200]}
                print(f"{prop}/{d.name}: stale (patch no longer applies)", flush=True)
                continue
            # does the change still do what its demonstration shows?  (a later fix: can leave a patch applicable but without effect)
            if (d / "demo.py").exists():
                dm = subprocess.run(["/venv/bin/python", str(d / "demo.py")], cwd=wt, capture_output=True, text=True,
                                    env={**os.environ, "PYTHONPATH": str(wt)}, timeout=900)
                if dm.returncode == 0:
                    out[d.name] = {"status": "neutralised", "why": "demo.py passes with the patch applied to /repo HEAD (a later fix: removed its effect): re-express or retire it"}
                    print(f"{prop}/{d.name}: neutralised (its demo passes with the patch on HEAD)", flush=True)
                    continue
            rc, lines = run_check(prop, wt, prop, vc)
            viol = [l for l in lines if l.startswith(f"VIOLATION property={prop}")]
            with_input = [l for l in viol if not l.rstrip().endswith("no-failing-input-found")]
            status = "caught" if rc == 1 and viol else "MISSED"
            out[d.name] = {"status": status, "exit": rc, "failing_input_found": bool(with_input), "lines": lines[:4]}
            print(f"{prop}/{d.name}: {status} (exit {rc}{', failing input' if with_input else ', no failing input'})", flush=True)
    finally:
        subprocess.run(["git", "-C", "/repo", "worktree", "remove", "--force", str(wt)], capture_output=True)
        subprocess.run(["rm", "-rf", f"/tmp/sr-evidence-{prop}-{os.getpid()}", str(vc)])
    return prop, out


with ThreadPoolExecutor(jobs) as ex:
    res = dict(ex.map(one_prop, props))
# (the runs used private copies of /verif, so lean/Midgard/Generated here still says what /repo says)
path = V / "seeded" / "REGRESSION.json"
old = json.loads(path.read_text()) if path.exists() else {}
old.update({p: {"repo_head": head, **r} for p, r in res.items()})
path.write_text(json.dumps(old, indent=1, sort_keys=True) + "\n")
missed = [f"{p}/{k}" for p, r in res.items() for k, v in r.items() if k != "clean" and v.get("status") == "MISSED"]
dirty = [p for p, r in res.items() if r.get("clean", {}).get("exit") != 0]
stale = [f"{p}/{k}" for p, r in res.items() for k, v in r.items() if k != "clean" and v.get("status") == "stale"]
neutral = [f"{p}/{k}" for p, r in res.items() for k, v in r.items() if k != "clean" and v.get("status") == "neutralised"]
print("MISSED:", missed or "none", "| clean-tree failures:", dirty or "none", "| STALE (patch no longer applies, re-base it):", stale or "none",
      "| NEUTRALISED (demo passes with the patch):", neutral or "none")
sys.exit(1 if missed or dirty or stale or neutral else 0)
