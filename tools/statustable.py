#!/usr/bin/env python3
"""tools/statustable.py -- one line per property: theorems in Props/Cxx.lean, Lean lines of its closure is not computed; fix: commits and
open findings recorded in known_findings.txt; stored seeds and their latest regression outcome.  Markdown on stdout."""
import json, re
from pathlib import Path
V = Path(__file__).resolve().parent.parent
kf = (V / "known_findings.txt").read_text().splitlines()
reg = json.loads((V / "seeded" / "REGRESSION.json").read_text())
titles = {json.loads(l)["id"]: json.loads(l)["title"] for l in (V / "properties.jsonl").read_text().splitlines() if l.strip()}
print("| id | property | theorems | `fix:` commits | open findings | seeds (caught with input / caught / stored) |")
print("|---|---|---|---|---|---|")
tot = [0, 0, 0, 0, 0, 0]
for pid in sorted(titles):
    props = (V / "lean" / "Midgard" / "Props" / f"{pid}.lean").read_text()
    props = re.sub(r"/-.*?-/", "", props, flags=re.S)
    nthm = len(re.findall(r"^\s*(?:@\[[^\]]*\]\s*)?(?:private\s+|protected\s+)?theorem\s", props, flags=re.M))
    fixed = [l for l in kf if l.startswith(f"fixed: property={pid} ")]
    found = [l for l in kf if l.startswith(f"finding: property={pid} ")]
    seeds = [d for d in (V / "seeded" / pid).iterdir() if (d / "patch.diff").exists()]
    r = reg.get(pid, {})
    caught = [k for k, v in r.items() if isinstance(v, dict) and v.get("status") == "caught"]
    inp = [k for k in caught if r[k].get("failing_input_found")]
    retired = [d for d in seeds if (d / "meta.json").exists() and json.loads((d / "meta.json").read_text()).get("retired")]
    print(f"| {pid} | {titles[pid][:70]} | {nthm} | {len(fixed)} | {len(found)} | {len(inp)} / {len(caught)} / {len(seeds)}" + (f" ({len(retired)} retired)" if retired else "") + " |")
    for i, x in enumerate([nthm, len(fixed), len(found), len(inp), len(caught), len(seeds)]):
        tot[i] += x
print(f"| | **total** | {tot[0]} | {tot[1]} | {tot[2]} | {tot[3]} / {tot[4]} / {tot[5]} |")
