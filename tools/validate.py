#!/usr/bin/env python3
"""tools/validate.py -- MANIFEST.json against /root/.vp/MANIFEST.schema.json, every evidence/Cxx.json against EVIDENCE.schema.json,
every tools/manifest.d/*.json parses.  Exit 1 with the problems listed."""
import json, subprocess, sys
from pathlib import Path
V = Path(__file__).resolve().parent.parent
sys.path.insert(0, "/opt/veriftools/pyvenv/lib/python3.11/site-packages")
try:
    import jsonschema
except Exception:
    print("jsonschema not importable here: run with python3-vt"); sys.exit(2)
bad = []
for f in sorted((V / "tools" / "manifest.d").glob("*.json")):
    try:
        json.loads(f.read_text())
    except Exception as e:
        bad.append(f"{f.name}: {e}")
def check(doc, schema, name):
    try:
        jsonschema.validate(json.loads(Path(doc).read_text()), json.loads(Path(schema).read_text()))
    except Exception as e:
        bad.append(f"{name}: {str(e).splitlines()[0][:200]}")
check(V / "MANIFEST.json", "/root/.vp/MANIFEST.schema.json", "MANIFEST.json")
for f in sorted((V / "evidence").glob("C*.json")):
    check(f, "/root/.vp/EVIDENCE.schema.json", f"evidence/{f.name}")
print("problems:", bad or "none")
sys.exit(1 if bad else 0)
