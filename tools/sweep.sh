#!/bin/sh
# usage: tools/sweep.sh <first seed> <last seed> [jobs]  -- every quick check once per seed on /repo; prints only what is not "exit 0"
A=${1:-2}; B=${2:-6}; J=${3:-4}
V=$(cd "$(dirname "$0")/.." && pwd); cd "$V"
s=$A; while [ "$s" -le "$B" ]; do echo "=== seed $s"; tools/runall.sh quick $s $J | grep -v "exit 0 C.. exit 0"; s=$((s+1)); done; echo SWEEP-DONE
