# pid -> dict(text, note, technique)
CHECKS["C03"] = dict(
    technique="Lean 4 theorems (affine laws by field arithmetic over Rat on the mirrored jd1/jd2 data flow) + differential correspondence of every constructor/operator against the compiled model",
    text="The six affine laws, the per-format constructor/read-back identities, floor normalisation and the scale guard are theorems for all rational operands (no bound); the model is tied to _time.py by running every operator and duration constructor of the real classes against the Lean driver on the same exact rationals. Operand/caller-array immutability is definitional in the model and is decided on the code by snapshots in the same run.",
    note="Trusted: Lean kernel; axioms propext/Classical.choice/Quot.sound; the hand-written model's fidelity as validated by the correspondence; IEEE rounding is measured (<=1e-15 d + 4e-16 relative) not proved; NumPy elementwise ops modelled as map.",
)
