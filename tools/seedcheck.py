#!/venv/bin/python
"""Verify seeded changes and run the checks against them.

usage: tools/seedcheck.py <PROP> <seed-out-dir> [--keep] [--tier quick]
For each <seed-out-dir>/<k>/{patch.diff,demo.py}: in a scratch worktree of /repo HEAD
  1. demo on the clean tree must exit 0
  2. patch applies; demo must exit != 0
  3. the pinned test suite must still pass every stable_pass test
  4. MIDGARD_REPO=<worktree> ./check PROP  → record exit code and VIOLATION lines
Results are printed and, with --keep, stored as /verif/seeded/<PROP>/<k>/ (patch.diff, demo.py, README.md, meta.json).
"""
import json, os, shutil, subprocess, sys, tempfile
import xml.etree.ElementTree as ET
from pathlib import Path

V = Path(__file__).resolve().parent.parent
prop, outdir = sys.argv[1], Path(sys.argv[2])
keep = "--keep" in sys.argv
prefix = next((a.split("=")[1] for a in sys.argv if a.startswith("--prefix=")), "")
checks = [prop] + [a.split("=")[1] for a in sys.argv if a.startswith("--also=")]
wt = Path(f"/tmp/sv-{prop.lower()}")
subprocess.run(["git", "-C", "/repo", "worktree", "remove", "--force", str(wt)], capture_output=True)
subprocess.check_call(["git", "-C", "/repo", "worktree", "add", "--detach", str(wt), "HEAD", "-q"])
# private copy of /verif for the runs against the scratch tree (their translators rewrite lean/Midgard/Generated): the
# committed sources (other work may be editing the working tree) plus the Lean build output
VC = Path(f"/tmp/vcs-{prop.lower()}")
subprocess.run(["rm", "-rf", str(VC)]); VC.mkdir(parents=True)
subprocess.check_call(f"git -C {V} archive HEAD -- . ':!seeded' ':!evidence' | tar -x -C {VC}", shell=True)
if subprocess.run(["rsync", "-a", f"{V}/lean/.lake", f"{VC}/lean/"]).returncode not in (0, 24):
    raise SystemExit("rsync of the build output failed")
base = json.load(open("/root/.vp/BASELINE.json"))
want = set(base["stable_pass"])


def suite():
    with tempfile.TemporaryDirectory() as d:
        xml = os.path.join(d, "j.xml")
        cmd = base["cmd"].replace("cd /repo", f"cd {wt}").replace("<file>", xml)
        subprocess.run(cmd, shell=True, capture_output=True, text=True, env={**os.environ, "PYTHONPATH": str(wt)})
        passed = set()
        for tc in ET.parse(xml).getroot().iter("testcase"):
            if not any(ch.tag in ("failure", "error", "skipped") for ch in tc):
                passed.add(f"{tc.get('classname')}::{tc.get('name')}")
    return sorted(want - passed)


def demo(k):
    p = subprocess.run(["/venv/bin/python", str(outdir / k / "demo.py")], cwd=wt, capture_output=True, text=True,
                       env={**os.environ, "PYTHONPATH": str(wt)})
    return p.returncode, (p.stdout + p.stderr)[-400:]


results = {}
try:
    for k in sorted(d.name for d in outdir.iterdir() if d.is_dir() and (d / "patch.diff").exists()):
        r = {}
        subprocess.check_call(["git", "-C", str(wt), "checkout", "-q", "--", "."])
        r["demo_clean"] = demo(k)[0]
        ap = subprocess.run(["git", "-C", str(wt), "apply", str(outdir / k / "patch.diff")], capture_output=True, text=True)
        r["applies"] = ap.returncode == 0
        if not r["applies"]:
            r["apply_err"] = ap.stderr[-300:]
            results[k] = r
            continue
        rc, out = demo(k)
        r["demo_patched"], r["demo_msg"] = rc, out.strip().splitlines()[-1:] if out.strip() else []
        r["suite_missing"] = suite()
        r["checks"] = {}
        for c in checks:
            p = subprocess.run([str(VC / "check"), c], cwd=VC, capture_output=True, text=True, env={**os.environ, "MIDGARD_REPO": str(wt), "VERIF_EVIDENCE_DIR": f"/tmp/sv-evidence-{prop}"})
            lines = [l for l in p.stdout.splitlines() if l.startswith("VIOLATION") or l.startswith("  what:")]
            r["checks"][c] = {"exit": p.returncode, "lines": lines[:6]}
        results[k] = r
        print(k, json.dumps(r, indent=1)[:1500], flush=True)
        valid = r["demo_clean"] == 0 and r["demo_patched"] != 0 and not r["suite_missing"]
        if keep and valid:
            dst = V / "seeded" / prop / (prefix + k)
            dst.mkdir(parents=True, exist_ok=True)
            for f in ("patch.diff", "demo.py", "README.md"):
                if (outdir / k / f).exists():
                    shutil.copy(outdir / k / f, dst / f)
            readme = (outdir / k / "README.md").read_text() if (outdir / k / "README.md").exists() else ""
            meta = {"property": prop, "breaks": prop, "needs_to_manifest": readme.split("\n\n")[0][:600],
                    "verified": {"demo_exit_clean": r["demo_clean"], "demo_exit_patched": r["demo_patched"],
                                 "pinned_suite_still_passes": True, "base_commit": subprocess.check_output(["git", "-C", "/repo", "rev-parse", "--short", "HEAD"]).decode().strip()},
                    "ran": [f"tools/seedcheck.py {prop} {outdir}", "git apply patch.diff (scratch worktree of /repo HEAD)", "demo.py clean/patched",
                            "pinned test suite vs BASELINE stable_pass", f"MIDGARD_REPO=<worktree> ./check {c}"],
                    "checks": r["checks"]}
            (dst / "meta.json").write_text(json.dumps(meta, indent=1))
finally:
    subprocess.run(["git", "-C", "/repo", "worktree", "remove", "--force", str(wt)], capture_output=True)
    subprocess.run(["rm", "-rf", str(VC), f"/tmp/sv-evidence-{prop}"])
print("SUMMARY", json.dumps({k: {c: v["exit"] for c, v in r.get("checks", {}).items()} | {"valid": r.get("demo_clean") == 0 and r.get("demo_patched", 0) != 0 and not r.get("suite_missing", ["x"])} for k, r in results.items()}))
