#!/bin/sh
# usage: tools/seedone.sh <seed dir, e.g. seeded/C06/r2-3> <CHECK> [tier]   -- run one check against one stored seeded change
# (scratch worktree of /repo HEAD + a private copy of /verif, so nothing here is rewritten; the copy is of the working
# tree, or with SEED_USE_HEAD=1 of the committed sources)
set -e
V=$(cd "$(dirname "$0")/.." && pwd)
S=$1; C=$2; T=${3:-quick}
TAG=$(echo "$S-$C" | tr "/" "-")-$$
WT=/tmp/so-$TAG; VC=/tmp/sovc-$TAG
git -C /repo worktree remove --force "$WT" >/dev/null 2>&1 || true
git -C /repo worktree add --detach "$WT" HEAD -q
git -C "$WT" apply "$V/$S/patch.diff" || git -C "$WT" apply --3way "$V/$S/patch.diff"
rm -rf "$VC"; mkdir -p "$VC"
if [ -z "$SEED_USE_HEAD" ]; then      # the working tree as it is (what the agent who is editing a check wants)
  rsync -a --exclude .git --exclude seeded --exclude evidence --exclude '.lock-*' "$V/" "$VC/" || [ $? -eq 24 ]
else                                   # SEED_USE_HEAD=1: the committed sources + the build output
  git -C "$V" archive HEAD -- . ':!seeded' ':!evidence' | tar -x -C "$VC"
  rsync -a "$V/lean/.lake" "$VC/lean/" || [ $? -eq 24 ]
fi
cd "$VC"
set +e
MIDGARD_REPO="$WT" VERIF_EVIDENCE_DIR="/tmp/so-ev-$TAG" ./check "$C" --tier "$T" | grep -E "^VIOLATION|^  what|^KNOWN|^TOOL|exit [0-9]" | head -8
set -e
cd "$V"
git -C /repo worktree remove --force "$WT"
rm -rf "/tmp/so-ev-$TAG" "$VC"
