#!/bin/sh
# usage: tools/seedone.sh <seed dir, e.g. seeded/C06/r2-3> <CHECK> [tier]   -- run one check against one stored seeded change
set -e
V=$(cd "$(dirname "$0")/.." && pwd)
S=$1; C=$2; T=${3:-quick}
WT=/tmp/so-$(echo "$S-$C" | tr '/' '-')
git -C /repo worktree remove --force "$WT" >/dev/null 2>&1 || true
git -C /repo worktree add --detach "$WT" HEAD -q
git -C "$WT" apply "$V/$S/patch.diff" || git -C "$WT" apply --3way "$V/$S/patch.diff"
cd "$V"
set +e
MIDGARD_REPO="$WT" VERIF_EVIDENCE_DIR="/tmp/so-ev-$C" ./check "$C" --tier "$T" | grep -E "^VIOLATION|^  what|^KNOWN|^TOOL|exit [0-9]" | head -8
set -e
git -C /repo worktree remove --force "$WT"
rm -rf "/tmp/so-ev-$C"
/venv/bin/python "$V/tools/setup.py" --translate-only >/dev/null 2>&1
