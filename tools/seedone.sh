#!/bin/sh
# usage: tools/seedone.sh <seed dir, e.g. seeded/C06/r2-3> <CHECK> [tier]   -- run one check against one stored seeded change
# (scratch worktree of /repo HEAD + a private copy of /verif, so nothing here is rewritten)
set -e
V=$(cd "$(dirname "$0")/.." && pwd)
S=$1; C=$2; T=${3:-quick}
TAG=$(echo "$S-$C" | tr '/' '-')
WT=/tmp/so-$TAG; VC=/tmp/sovc-$TAG
git -C /repo worktree remove --force "$WT" >/dev/null 2>&1 || true
git -C /repo worktree add --detach "$WT" HEAD -q
git -C "$WT" apply "$V/$S/patch.diff" || git -C "$WT" apply --3way "$V/$S/patch.diff"
rsync -a --delete --exclude .git --exclude seeded --exclude evidence --exclude '.lock-*' "$V/" "$VC/"
cd "$VC"
set +e
MIDGARD_REPO="$WT" VERIF_EVIDENCE_DIR="/tmp/so-ev-$TAG" ./check "$C" --tier "$T" | grep -E "^VIOLATION|^  what|^KNOWN|^TOOL|exit [0-9]" | head -8
set -e
cd "$V"
git -C /repo worktree remove --force "$WT"
rm -rf "/tmp/so-ev-$TAG" "$VC"
