#!/usr/bin/env python3
"""tools/seedprompt.py <ID> <round> -- create the scratch worktree /tmp/seedwt-<id>-<round>, the output directory
/tmp/seedout-<id>-<round>, and print the prompt of tools/seed_brief.md filled in for that property."""
import json, subprocess, sys
from pathlib import Path
V = Path(__file__).resolve().parent.parent
pid, rnd = sys.argv[1], sys.argv[2]
wt, out = f"/tmp/seedwt-{pid.lower()}-{rnd}", f"/tmp/seedout-{pid.lower()}-{rnd}"
subprocess.run(["git", "-C", "/repo", "worktree", "remove", "--force", wt], capture_output=True)
subprocess.check_call(["git", "-C", "/repo", "worktree", "add", "--detach", wt, "HEAD", "-q"])
Path(out).mkdir(parents=True, exist_ok=True)
p = next(json.loads(l) for l in open(V / "properties.jsonl") if json.loads(l)["id"] == pid)
text = f"Title: {p['title']}\n\nStatement: {p['statement']}\n\nQuantifier: {p['quantifier']}\n\nAnchors in the source: {json.dumps(p['anchors'])}"
brief = (V / "tools" / "seed_brief.md").read_text().split("\n", 2)[2]
print(brief.replace("{ID}", pid).replace("{WT}", wt).replace("{OUT}", out).replace("{PROPERTY}", text))
