#!/venv/bin/python
"""MANIFEST.setup_cmd: regenerate lean/Midgard/Generated/* from /repo's working tree with every translator, then
build the whole Lean project (model, proofs, one driver per property).

Exit status: 0 when the toolchain ran, even if some module of the project no longer checks against the tree under
test -- that is for the property's own check to judge (it rebuilds its targets, searches for a failing input and
prints the VIOLATION line); a failing *setup* would only hide which property is concerned.  Exit 2 when lake is
missing or nothing could be built at all.
"""
import os
import subprocess
import sys
import traceback
from pathlib import Path

HERE = Path(__file__).resolve().parent.parent
sys.path.insert(0, str(HERE))
REPO = os.environ.get("MIDGARD_REPO", "/repo")
sys.path.insert(0, REPO)
os.environ.setdefault("MIDGARD_VERIF", "1")

TRANSLATORS = [
    ("extract_time", "generate"), ("extract_timearray", "generate"), ("extract_geodesy", "write_all"),
    ("extract_cache", "generate"), ("extract_rinex_obs", "main"), ("extract_rinexnav", "main"),
    ("extract_sp3", "main"), ("extract_sinex", "main"), ("extract_antex", "main"), ("extract_effects", "main"),
    ("extract_writers", "main"), ("extract_siteinfo", "write"), ("extract_config", "write"),
    ("extract_c20", "generate"), ("extract_exprs", "generate"),
    # added in the third session (each is also run by its property's check)
    ("extract_timefmt", "generate"), ("extract_c05", "write_all"), ("extract_frames", "generate"),
    ("extract_timeflow", "generate"), ("extract_timepurity", "generate"), ("extract_writer_effects", "main"),
]


def main() -> int:
    import importlib
    import warnings

    warnings.filterwarnings("ignore")
    for mod, fn in TRANSLATORS:
        try:
            r = getattr(importlib.import_module(f"translator.{mod}"), fn)()
            print(f"setup: translator {mod}: ok (ran)")
        except Exception:
            # a translator that cannot read the tree is reported by the property's check (broken tie)
            print(f"setup: translator {mod}: FAILED (left to the property's check)")
            traceback.print_exc(limit=2)
    if "--translate-only" in sys.argv:
        return 0
    try:
        p = subprocess.run(["lake", "build"], cwd=HERE / "lean", capture_output=True, text=True)
    except FileNotFoundError:
        print("setup: lake not found")
        return 2
    bad = [l for l in (p.stdout + p.stderr).splitlines() if l.startswith("error:") or l.startswith("- ")]
    if p.returncode != 0:
        print("setup: lake build reported failures (each is judged by the check of the property that imports it):")
        for l in bad[:40]:
            print("   " + l)
    built = list((HERE / "lean" / ".lake" / "build" / "bin").glob("drv_c*"))
    print(f"setup: lake build exit {p.returncode}; driver executables present: {len([b for b in built if b.suffix == ''])}")
    return 0 if built else 2


if __name__ == "__main__":
    sys.exit(main())
