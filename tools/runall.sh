#!/bin/sh
# usage: tools/runall.sh [tier] [seed] [jobs]  -- every check once on /repo; prints one line per property and the VIOLATION / KNOWN-FINDING lines
T=${1:-quick}; S=${2:-0}; J=${3:-5}
V=$(cd "$(dirname "$0")/.." && pwd); cd "$V"
mkdir -p /tmp/runall-$T-$S
for i in 01 02 03 04 05 06 07 08 09 10 11 12 13 14 15 16 17 18 19 20; do echo C$i; done | \
  xargs -P "$J" -I{} sh -c "VERIF_SEED=$S ./check {} --tier $T > /tmp/runall-$T-$S/{}.log 2>&1; echo \"{} exit \$?\" >> /tmp/runall-$T-$S/{}.log"
for i in 01 02 03 04 05 06 07 08 09 10 11 12 13 14 15 16 17 18 19 20; do
  grep -E "^VIOLATION|^TOOL-FAILURE|Traceback" /tmp/runall-$T-$S/C$i.log | head -3
  tail -2 /tmp/runall-$T-$S/C$i.log | tr '\n' ' '; echo
done
