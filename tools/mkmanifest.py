#!/usr/bin/env python3
"""Regenerate MANIFEST.json from the table below (kept in one place so it always validates)."""
import json, subprocess
from pathlib import Path

V = Path(__file__).resolve().parent.parent
CHECKS = {}
NA = {}
for f in sorted((V / "tools" / "manifest.d").glob("C*.json")):
    d = json.loads(f.read_text())
    if "na_reason" in d:
        NA[f.stem] = d["na_reason"]
    else:
        CHECKS[f.stem] = d

props = [json.loads(l)["id"] for l in (V / "properties.jsonl").read_text().splitlines() if l.strip()]
checks = []
for pid in props:
    if pid in CHECKS:
        c = CHECKS[pid]
        checks.append({
            "property_id": pid,
            "quick_cmd": f"./check {pid} --tier quick",
            "thorough_cmd": f"./check {pid} --tier thorough",
            "evidence_file": f"evidence/{pid}.json",
            "replay_cmd_template": f"./check {pid} --replay {{path}}",
            "engine": "lean4-proof+correspondence",
            "level_claimed": {"category": "proof", "text": c["text"], "design_ref": f"DESIGN.md §5/{pid}"},
            "level_note": c["note"],
            "technique": c["technique"],
        })
na = [{"property_id": p, "reason": NA.get(p, "check not built yet in this revision (work in progress; see DESIGN.md §9 staging)")}
      for p in props if p not in CHECKS]
hooks_commits = []
m = {
    "version": 1,
    "setup_cmd": "/venv/bin/python tools/setup.py",
    "hooks": {
        "guard": "MIDGARD_VERIF",
        "enable": "no source hooks are needed: checks import /repo's working tree in-process (PYTHONPATH=/repo) and set MIDGARD_VERIF=1 only as a marker",
        "baseline_off_cmd": "/venv/bin/python tools/baseline.py",
        "source_commits": hooks_commits,
        "add_only": True,
    },
    "engines": [{
        "name": "lean4-proof+correspondence",
        "path": "lean/ (model, theorems, driver), harness/ (correspondence + oracle), translator/ (tables from source)",
        "serves_properties": sorted(CHECKS),
        "kind_free_text": "Lean 4 theorems about an executable model; model tied to /repo on every run by regenerated tables and by differential correspondence through a compiled line-protocol driver",
    }],
    "checks": checks,
    "not_applicable": na,
    "notes": "All checks: ./check <id> [--tier quick|thorough]; VERIF_SEED selects the PRNG seed. Exit 2 = tool failure/timeout (never a verdict).",
}
(V / "MANIFEST.json").write_text(json.dumps(m, indent=1) + "\n")
print("checks:", len(checks), "not_applicable:", len(na))
