"""C16 — parsing is a pure function of file and arguments; every listed plug-in resolves.

translate:   translator/extract_effects.py → lean/Midgard/Generated/ParserEffects.lean (process-wide mutable cells
             reachable from parsing, file-write sites, plug-in lists with the kind each name resolves to)
prove:       lean/Midgard/Props/C16.lean (non-interference over all histories; independence lemma per mechanism;
             obligations over the regenerated tables)
oracle:      the property stated directly on the real code: every parse at any point of a history of
             {construct, parse (whole, in its three public steps, or with another object's parse nested inside it),
             mutate result, overwrite the file} over several live parser objects and argument sets gives the digests a
             parse of the same file content with the same arguments gives in a *fresh process* that never loaded a parser
             plug-in nor constructed a parser (forked from a server that holds third-party packages and the imported
             package midgard.parsers; cross-checked against interpreters started from scratch);
             histories are run in this process (accumulating) and in fresh processes of their own (so that a
             "the first file decides" memo is seen); file bytes hashed before/after; every listed plug-in name is loaded
             and used the way the library advertises.
correspond:  (a) the static effect table (with the level of every cell, closure cells, escape sites and the
             per-instance cells of the parser classes) against the cells that really change at run time (snapshots of every
             mutable container hanging off a loaded midgard module/class/function), each changed cell must be a
             covered effect of the Lean table; (b) the RINEX header cache model against the real decorator on
             generated headers with the real content of the function-level list as `pre`; (c) the registry model
             against `plugins.get` sequences in fresh interpreters.
"""
from __future__ import annotations

import concurrent.futures as cf
import contextlib
import hashlib
import io
import itertools
import json
import os
import queue
import shutil
import subprocess
import sys
import tempfile
import threading
import time
import warnings
from pathlib import Path
from typing import Any, Dict, List, Optional, Tuple

from . import c16_canon, common
from .common import Ctx

REPO = str(common.REPO)
EX = Path(REPO) / "tests" / "parsers" / "example_files"
WORKER = str(Path(__file__).resolve().parent / "c16_worker.py")
PKG = "midgard.parsers"

# example files that are not named after their parser
EXTRA_EXAMPLES = {
    "gnssrefl_snr": ["stat2740.24.snr66"],
    "gnssrefl_txt": ["gnssrefl_gnssir_txt", "gnssrefl_subdaily_txt"],
    "rinex2_nav": ["rinex2_nav.19n", "rinex2_gps_nav"],
    "rinex212_nav": ["rinex212_GN.rnx"],
    "rinex_nav": ["rinex2_nav.19n", "rinex3_nav", "rinex212_GN.rnx"],
    "sp3": ["sp3c", "sp3d"],
    "sinex_site": ["sinex_site", "sinex_site_igs", "gnss_sinex_igs"],
    "bernese_sta": ["bernese_sta"],
    "bernese_sta_v52": ["bernese_sta_v52"],
    "wip_rinex": ["rinex3_obs", "rinex2_obs"],
    "wip_rinex_obs": ["rinex3_obs", "rinex2_obs"],
    "wip_rinex_nav": ["rinex3_nav", "rinex2_nav.19n"],
    "wip_rinex_clk": ["rinex3_clk"],
    "wip_rinex3_obs": ["rinex3_obs"],
    "wip_rinex3_obs_header": ["rinex3_obs"],
    "wip_rinex2_obs_header": ["rinex2_obs"],
    "wip_rinex3_clk_header": ["rinex3_clk"],
    "wip_rinex3_nav_header": ["rinex3_nav"],
    "wip_rinex2_nav_header": ["rinex2_nav.19n"],
}


def sha(path: str) -> str:
    try:
        return hashlib.sha1(Path(path).read_bytes()).hexdigest()
    except FileNotFoundError:
        return "missing"


quiet = c16_canon.quiet
Key = Tuple[str, str, str]  # (parser name, path, canonical JSON of the keyword arguments or '')


# -------------------------------------------------------------------------------------------------
# fresh interpreters / fresh processes


def worker(mode: str, job: Dict[str, Any], timeout: int = 300) -> Dict[str, Any]:
    env = dict(os.environ, PYTHONWARNINGS="ignore", PYTHONDONTWRITEBYTECODE="1")
    p = subprocess.run([sys.executable, WORKER, REPO, mode], input=json.dumps(job), capture_output=True, text=True,
                       timeout=timeout, env=env)
    for line in reversed(p.stdout.splitlines()):
        if line.startswith("@@RESULT@@"):
            return json.loads(line[len("@@RESULT@@"):])
    raise common.ToolFailure(f"fresh-interpreter worker gave no result for {job}: {p.stderr[-600:]}")


def true_fresh(key: Key) -> Dict[str, str]:
    return worker("parse", {"parser": key[0], "path": key[1], "kwargs": key[2]})


class ForkPool:
    """servers that have imported numpy/pandas/scipy/pint and the package midgard.parsers (no plug-in module, no parser
    ever constructed); every job runs in a forked child that exits afterwards (harness/c16_worker.py, mode forkserver).
    The result of such a child is cross-checked on every run against interpreters started from scratch."""

    def __init__(self, n: int = 12):
        env = dict(os.environ, PYTHONWARNINGS="ignore", PYTHONDONTWRITEBYTECODE="1")
        self.procs = [subprocess.Popen([sys.executable, WORKER, REPO, "forkserver"], stdin=subprocess.PIPE, stdout=subprocess.PIPE,
                                       stderr=subprocess.DEVNULL, text=True, env=env) for _ in range(n)]
        self.free: "queue.Queue" = queue.Queue()
        self.ready = [False] * n
        for i in range(n):
            self.free.put(i)
        self.ex = cf.ThreadPoolExecutor(max_workers=n)
        self.jobs = 0

    def _one(self, job: Dict[str, Any]):
        i = self.free.get()
        try:
            p = self.procs[i]
            if not self.ready[i]:
                line = p.stdout.readline()
                if not line.startswith("@@READY@@"):
                    raise common.ToolFailure(f"fork server did not start: {line[:200]!r}")
                self.ready[i] = True
            p.stdin.write(json.dumps(job) + "\n")
            p.stdin.flush()
            line = p.stdout.readline()
            if not line.startswith("@@RESULT@@"):
                raise common.ToolFailure(f"fork server gave no result for {str(job)[:300]}: {line[:200]!r}")
            r = json.loads(line[len("@@RESULT@@"):])
            if "failure" in r:
                raise common.ToolFailure(f"fresh process failed for {str(job)[:300]}: {r['failure']}")
            return r["result"]
        finally:
            self.free.put(i)

    def submit(self, job: Dict[str, Any]) -> "cf.Future":
        self.jobs += 1
        return self.ex.submit(self._one, job)

    def parse(self, key: Key) -> "cf.Future":
        return self.submit({"kind": "parse", "parser": key[0], "path": key[1], "kwargs": key[2]})

    def history(self, events) -> "cf.Future":
        return self.submit({"kind": "history", "events": events})

    def close(self):
        self.ex.shutdown(wait=True)
        for p in self.procs:
            try:
                p.stdin.close()
                p.wait(timeout=10)
            except Exception:
                p.kill()


def diff_keys(a: Dict[str, str], b: Dict[str, str]) -> List[str]:
    return sorted(k for k in set(a) | set(b) if a.get(k) != b.get(k))[:8]


# -------------------------------------------------------------------------------------------------
# generated inputs


def rinex3_header(lines_obs: List[Tuple[str, List[str]]], phase: List[str] = (), extra_after_obs: List[str] = (),
                  end: bool = True, cut: Optional[int] = None) -> str:
    """a RINEX 3 observation header with the given SYS / # / OBS TYPES lines (system may be blank = continuation)"""
    out = ["     3.03           OBSERVATION DATA    M                   RINEX VERSION / TYPE"]
    for sys_, types in lines_obs:
        body = f"{sys_:1s}  {len(types):3d}" + "".join(f" {t:3s}" for t in types)
        out.append(f"{body:60s}SYS / # / OBS TYPES")
    out += list(extra_after_obs)
    for ph in phase:
        out.append(f"{ph:60s}SYS / PHASE SHIFT")
    if cut is not None:
        out = out[:cut]
    elif end:
        out.append(f"{'':60s}END OF HEADER")
    return "\n".join(out) + "\n"


OBS_CODES = ["C1C", "L1C", "D1C", "S1C", "C2W", "L2W", "C5Q", "L5Q", "C1P", "L1P", "C2P", "L2P", "S2W", "C7Q"]
HEADER_KINDS = ["plain", "starts-with-continuation", "raises-after-obs-lines", "phase-shift-starts-with-continuation",
                "unknown-label-strict", "cut-short-in-continuation"]


def gen_obs_lines(rng, wf: bool) -> List[Tuple[str, List[str]]]:
    lines: List[Tuple[str, List[str]]] = []
    for gi in range(rng.randint(1, 3)):
        sys_ = rng.choice("GRECJS")
        for li in range(rng.randint(1, 3)):
            types = [rng.choice(OBS_CODES) for _ in range(rng.randint(0 if li else 1, 13))]
            lines.append((sys_ if li == 0 else "", types))
    if not wf:
        lines.insert(0, ("", [rng.choice(OBS_CODES) for _ in range(rng.randint(1, 5))]))
    return lines


def gen_header(rng, i: int) -> Tuple[str, str, Dict[str, Any]]:
    """(text, kw, info) of the i-th generated header; the classes cycle so that every run has every class:
    plain / starting with a continuation line (the two the header model is compared on), a header whose reading raises
    after SYS / # / OBS TYPES lines were handled (malformed APPROX POSITION XYZ), one whose SYS / PHASE SHIFT block starts
    with a continuation line (raises after the OBS TYPES lines), an unknown label read with strict=True (ParserError),
    a header cut short inside a continuation block (no END OF HEADER)"""
    kind = HEADER_KINDS[i % len(HEADER_KINDS)]
    wf = kind != "starts-with-continuation"
    lines = gen_obs_lines(rng, wf)
    info: Dict[str, Any] = {"header_kind": kind}
    kw = ""
    if kind in ("plain", "starts-with-continuation"):
        phase = []
        if rng.random() < 0.6:
            if not wf and rng.random() < 0.5:
                phase.append(f"{'':19s}G11 G12")
            phase.append("G L1C  0.00000  02 G01 G02")
            phase.append(f"{'':19s}G03")
        text = rinex3_header(lines, phase)
        info.update({"obs_lines": lines, "wf": wf})
    elif kind == "raises-after-obs-lines":
        bad = rng.choice(["  2691511.1850   XXXXXXXX.0000  5050000.0000", "  not a number    1.0   2.0", "  1.0 2.0"])
        text = rinex3_header(lines, ["G L1C  0.00000  02 G01 G02"], [f"{bad:60s}APPROX POSITION XYZ"])
    elif kind == "phase-shift-starts-with-continuation":
        text = rinex3_header(lines, [f"{'':19s}G11 G12", "G L1C  0.00000  02 G01 G02"])
    elif kind == "unknown-label-strict":
        text = rinex3_header(lines, [], [f"{'this label is not a RINEX header':60s}NO SUCH HEADER LABEL"])
        kw = c16_canon.kw_text({"strict": True})
    else:
        lines.append(("", [rng.choice(OBS_CODES) for _ in range(rng.randint(1, 6))]))
        text = rinex3_header(lines, ["G L1C  0.00000  02 G01 G02", f"{'':19s}G03"], cut=1 + rng.randint(1, len(lines)))
    return text, kw, info


COMMENT_START = tuple("*+-%#!")


def length_variant(rng, raw: bytes, longer: bool) -> Optional[bytes]:
    """the same file with other line lengths: data lines (not starting with * + - % # !) get a free-text tail / lose their
    last characters.  None when the file is not text or nothing changed."""
    try:
        lines = raw.decode("utf-8").splitlines(keepends=True)
    except UnicodeDecodeError:
        return None
    out, changed = [], 0
    for ln in lines:
        body = ln.rstrip("\r\n")
        nl = ln[len(body):]
        if body.strip() and not body.startswith(COMMENT_START) and rng.random() < 0.35:
            if longer:
                body = body + " " + " ".join(rng.choice(["Ny-Alesund,", "Svalbard", "Norway", "xq", "7", "ABCDEFGH"]) for _ in range(rng.randint(1, 4)))
                changed += 1
            elif len(body) > 12:
                body = body[: len(body) - rng.randint(1, 8)]
                changed += 1
        out.append(body + nl)
    return "".join(out).encode("utf-8") if changed else None


def kw_variants(name: str, fn) -> List[str]:
    """other argument sets the parser accepts (from its signature)"""
    import inspect

    out = [{"encoding": "utf-8"}, {"encoding": "latin-1"}]
    try:
        params = inspect.signature(fn).parameters
    except (TypeError, ValueError):
        params = {}
    if "strict" in params:
        out.append({"strict": True})
    if "sampling_rate" in params:
        out.append({"sampling_rate": 30})
    if "convert_unit" in params:
        out.append({"convert_unit": True})
    if "header" in params:
        out.append({"header": False})
    if "station" in params:
        out.append({"station": "zzzz"})
    return [c16_canon.kw_text(k) for k in out]


def make_generated(rng, tmp: Path, n_headers: int, n_trunc: int, examples: List[Tuple[str, str]]):
    """returns [(parser, path, kw, info)] of generated inputs; info carries the obs lines for header files"""
    out = []
    for i in range(n_headers):
        text, kw, info = gen_header(rng, i)
        p = tmp / f"gen_header_{i:03d}.rnx"
        p.write_text(text)
        parser = "wip_rinex3_obs" if (i // len(HEADER_KINDS)) % 3 == 2 and "obs_lines" not in info else "wip_rinex3_obs_header"
        out.append((parser, str(p), kw, info))
    cands = [e for e in examples if Path(e[1]).stat().st_size < 400_000]
    for i in range(n_trunc):
        name, path = rng.choice(cands)
        raw = Path(path).read_bytes().splitlines(keepends=True)
        if len(raw) < 4:
            continue
        k = rng.randint(2, len(raw) - 1)
        p = tmp / f"gen_trunc_{i:03d}_{name}"
        p.write_bytes(b"".join(raw[:k]))
        out.append((name, str(p), "", {"truncated_from": path, "lines": k}))
    return out


# -------------------------------------------------------------------------------------------------
# header cache model vs the real decorator


def enc(s: str) -> str:
    return common.hexs(s)


def enc_lines(lines) -> str:
    if not lines:
        return "[]"
    return ",".join(enc(s) + ":" + ";".join(enc(t) for t in ts) for s, ts in lines)


def real_pre_cache() -> Optional[List[Tuple[str, List[str]]]]:
    """content of the function-level list of parse_sys_obs_types (None when the decorator keeps no such list)"""
    from midgard.parsers._parser_rinex import RinexParser

    f = RinexParser.parse_sys_obs_types
    w = getattr(f, "__wrapped__", None)
    c = getattr(w, "cache", None) if w is not None else None
    if not isinstance(c, list):  # or a list in the closure of the wrapper (one per decorated function)
        try:
            cl = dict(zip(f.__code__.co_freevars, (x.cell_contents for x in f.__closure__ or ())))
        except ValueError:
            cl = {}
        c = next((v for k, v in cl.items() if isinstance(v, list)), None)
    if not isinstance(c, list):
        return None
    out = []
    for fields in c:
        out.append((fields.get("satellite_sys", ""), [fields[k] for k in sorted(fields) if k.startswith("type_")]))
    return out


def model_obs(drv, mech: str, pre, lines) -> str:
    full = [(s, (ts + [""] * 13)[:13]) for s, ts in lines]
    return drv.ask1(f"c16 obstypes {mech} {enc_lines(pre)} {enc_lines(full)}")


def impl_obs(p) -> str:
    if p is None:
        return "err"
    h = getattr(p, "header", {}).get("obs_types")
    if not h:
        return "ok -"
    return "ok " + ",".join(enc(k) + "=" + ";".join(enc(t) for t in v) for k, v in h.items())


# -------------------------------------------------------------------------------------------------


# -------------------------------------------------------------------------------------------------
# histories


def embed_generated(paths) -> Dict[str, str]:
    out = {}
    for p in set(paths):
        if not p.startswith(str(EX)) and Path(p).exists() and Path(p).stat().st_size < 200_000:
            out[p] = Path(p).read_bytes().hex()
    return out


def event_paths(e) -> List[str]:
    """the input files an event needs (the destination of a write is made by the event)"""
    return [e[2], e[6]] if e[0] == "nest" else [e[2]]


def event_text(e) -> str:
    if e[0] == "write":
        return f"write {Path(e[1]).name}<-{Path(e[2]).name}"
    if e[0] == "nest":
        return f"nest {Path(e[2]).name}@{e[4]}+{Path(e[6]).name}"
    return e[0] + " " + Path(e[2]).name + ((" " + e[3]) if len(e) > 3 and e[3] else "")


def expand(history):
    """corpus histories name example files as $EX/<file>; events of older corpus files have no kw entry"""
    out = []
    for e in history:
        e = [x.replace("$EX", str(EX)) if isinstance(x, str) else x for x in e]
        if e[0] not in ("nest", "write") and len(e) < 4:
            e = e + [""]
        out.append(e)
    return out


def restore_generated(files: Dict[str, str]) -> List[str]:
    made = []
    for p, hx in (files or {}).items():
        if not Path(p).exists():
            Path(p).parent.mkdir(parents=True, exist_ok=True)
            Path(p).write_bytes(bytes.fromhex(hx))
            made.append(p)
    return made


def observed_in(obs, key: Key, index: Optional[int] = None) -> Optional[Dict[str, str]]:
    """the digests of the observation of `key` (at event `index`, else the last one) in the result of exec_events"""
    got = None
    for i, k, d, _ in obs:
        if tuple(k) == tuple(key) and (index is None or i == index):
            got = d
    return got


def ev(op: str, key: Key) -> List[str]:
    return [op, key[0], key[1], key[2]]


class Explorer:
    def __init__(self, ctx: Ctx, fresh: Dict[Key, Dict[str, str]], info: Dict[Key, Dict], mech: str, pool: ForkPool):
        self.ctx = ctx
        self.fresh = fresh  # keys without an entry are history only (run, never compared)
        self.info = info
        self.mech = mech
        self.pool = pool
        self.log: List[List[Any]] = []  # the whole in-process history so far (for replays)
        self.parses = 0
        self.pending: List[Tuple["cf.Future", List[List[Any]], str]] = []

    # ---- verdict
    def check(self, key: Key, dig: Dict[str, str], hist: List[List[Any]], when: str, index: Optional[int] = None,
              in_process: bool = True, kind: str = "history-dependence", content: Optional[str] = None):
        """`content`: for a path whose content changes during the history, the sha1 of what it held at this parse"""
        want = self.fresh.get(key if content is None else key + (content,))
        self.parses += 1
        if want is None:
            self.ctx.count("parse-as-history-only")
            return
        if dig == want:
            return
        name = key[0]
        vkey = f"{kind}:{name}"
        earlier = next((v for v in self.ctx.violations if v.key == vkey), None)
        if earlier is not None and (earlier.replay.get("history_alone_reproduces_in_a_fresh_process") or in_process):
            self.ctx.violate(vkey, "", {})  # counted; the stored replay is already self-contained (or this one is no better)
            return
        payload = {"history": hist, "observed": list(key), "observed_index": index, "when": when, "fresh": want, "got": dig,
                   "run_in": "the check's own process after everything in full_log" if in_process else "a fresh process of its own"}
        if content is not None:
            src = next((e[2] for e in reversed(hist) if e[0] == "write" and e[1] == key[1]), None)
            payload["reference_history"] = [["write", key[1], src], ev("parse_file", key)]
        payload["generated_files"] = embed_generated([p for e in hist for p in event_paths(e)])
        confirmed = not in_process
        if in_process:  # a self-contained replay: is the short history enough in a fresh process?  else the whole log
            try:
                obs = self.pool.history(hist).result()
                confirmed = observed_in([(i, tuple(k), d, w) for i, k, d, w in obs], key, index) != want
            except common.ToolFailure:
                confirmed = False
        payload["history_alone_reproduces_in_a_fresh_process"] = confirmed
        if not confirmed:
            payload["full_log"] = [list(e) for e in self.log[-6000:]]
            payload["generated_files"] = embed_generated([p for e in self.log[-6000:] + hist for p in event_paths(e)])
        kw = f" with {key[2]}" if key[2] else ""
        what = (f"parse of {Path(key[1]).name} by {name}{kw} ({when}) differs from the parse in a fresh process in "
                f"{diff_keys(dig, want)} (fresh: {'error ' + want['error'] if 'error' in want else 'ok'}, "
                f"here: {'error ' + dig['error'] if 'error' in dig else 'ok'}); history"
                f"{'' if confirmed else ' (its tail; the whole log of this process is in the replay)'}: "
                f"{' ; '.join(event_text(e) for e in hist[-8:])}")
        if earlier is not None:  # a self-contained history replaces the one that needs the whole log
            earlier.what, earlier.replay = what, payload
            self.ctx.count("oracle_failures")
            return
        self.ctx.violate(vkey, what, payload)

    # ---- in this process
    def parse_file(self, key: Key, hist: List[List[Any]], when: str):
        """construct + parse (the library's parse_file), with the header model compared on generated headers"""
        inf = self.info.get(key, {})
        pre = real_pre_cache() if "obs_lines" in inf else None
        p, dig = c16_canon.run_parse(*key)
        self.log.append(ev("parse_file", key))
        self.check(key, dig, hist, when, index=len(hist) - 1 if hist and hist[-1] == ev("parse_file", key) else None)
        if "obs_lines" in inf:
            m = model_obs(self.ctx.driver, self.mech, pre or [], inf["obs_lines"])
            i = impl_obs(p)
            mm = m.rsplit(" ", 1)[0] if m.startswith("ok") else "err"
            self.ctx.count("header-model-compared")
            if mm != i:
                self.ctx.disagree("RINEX header cache model (parseHeader) vs parser_cache decorator",
                                  {"file": key[1], "pre": pre, "lines": inf["obs_lines"], "mech": self.mech}, m, i)
        return p, dig

    def sequence(self, keys: List[Key], when: str):
        """parse_file of every key in order; every one that has a reference is compared"""
        hist = [ev("parse_file", k) for k in keys]
        for j, k in enumerate(keys):
            self.parse_file(k, hist[: j + 1], f"{when}, parse {j + 1} of {len(keys)}")

    @staticmethod
    def contents(events: List[List[Any]]) -> List[Dict[str, str]]:
        """for every event index: {path: sha1 of what a `write` event put there before}"""
        cur: Dict[str, str] = {}
        out = []
        for e in events:
            if e[0] == "write":
                cur = dict(cur)
                cur[e[1]] = sha(e[2])
            out.append(cur)
        return out

    def events(self, events: List[List[Any]], when: str, kind: str = "history-dependence"):
        """run a history of events here (after everything that ran before) and compare every observation"""
        obs = c16_canon.exec_events(events)
        self.log.extend([list(e) for e in events])
        cont = self.contents(events)
        for i, k, d, what in obs:
            self.check(tuple(k), d, events[: i + 1], f"{when}: {what}", index=i, kind=kind, content=cont[i].get(k[1]))
        return obs

    # ---- in a fresh process of its own
    def events_fresh(self, events: List[List[Any]], when: str):
        self.pending.append((self.pool.history(events), events, when))

    def collect_fresh(self):
        for fut, events, when in self.pending:
            obs = fut.result()
            cont = self.contents(events)
            for i, k, d, what in obs:
                self.check(tuple(k), d, events[: i + 1], f"{when}: {what}", index=i, in_process=False, content=cont[i].get(k[1]))
            self.ctx.count("history-in-own-fresh-process")
        self.pending = []


def interleavings():
    evs = ["cA", "pA", "mA", "cB", "pB"]
    for perm in itertools.permutations(evs):
        ix = {e: i for i, e in enumerate(perm)}
        if ix["cA"] < ix["pA"] < ix["mA"] and ix["cB"] < ix["pB"]:
            yield list(perm)


def interleaving_events(order: List[str], A: Key, B: Key) -> List[List[Any]]:
    """one interleaving of {construct A, construct B, parse A, parse B, mutate result A}, then a new instance for A, then
    B's result looked at again (it must still be what it was although A's result was mutated)"""
    return [ev(e, A if e.endswith("A") else B) for e in order] + [ev("cA2", A), ev("pA2", A), ev("oB", B)]


def split_events(A: Key, B: Key, B2: Key) -> List[List[Any]]:
    """A parsed in the three public steps of Parser.parse() with complete parses of other objects in between"""
    return [ev("cA", A), ev("sA", A), ev("parse_file", B), ev("rA", A), ev("cB", B2), ev("pB", B2), ev("mB", B2), ev("fA", A),
            ev("parse_file", A)]


def euler_circuit(n: int) -> List[int]:
    """a closed walk over 0..n-1 in which every ordered pair (i, j), i = j included, is adjacent exactly once
    (Hierholzer on the complete digraph with loops); length n*n + 1"""
    nxt = [0] * n
    stack, out = [0], []
    while stack:
        v = stack[-1]
        if nxt[v] < n:
            stack.append(nxt[v])
            nxt[v] += 1
        else:
            out.append(stack.pop())
    return out[::-1]


def plugin_oracle(ctx: Ctx, tmp: Path):
    """every listed name can be loaded and used the way the library advertises"""
    from midgard import parsers, writers
    from midgard.data import fieldtypes
    from midgard.data.fieldtypes._fieldtype import FieldType
    from midgard.dev import plugins
    import inspect

    garbage = tmp / "garbage.txt"
    garbage.write_text("Temporary test file\n")
    cands = [str(garbage)] + [str(EX / f) for f in ("rinex3_obs", "rinex2_obs", "rinex3_nav", "rinex3_clk", "rinex2_nav.19n")]
    with quiet():
        try:
            pnames = parsers.names()
        except Exception as e:
            ctx.violate("plugin:parsers.names", f"parsers.names() raised {type(e).__name__}: {e}", {"call": "parsers.names()"})
            pnames = []
        for n in pnames:
            ctx.case({"plugin": "parsers." + n})
            ctx.count("plugin-parsers")
            ok, why = False, ""
            for c in cands:
                try:
                    p = plugins.call(package_name=PKG, plugin_name=n, file_path=c, encoding=None)
                    ok = isinstance(p, parsers.Parser)
                    why = f"returned {type(p).__name__}"
                    if ok:
                        break
                except TypeError as e:
                    why = f"TypeError: {e}"
                    if "unexpected keyword" in str(e) or "positional argument" in str(e):
                        break
                except (Exception, SystemExit) as e:
                    why = f"{type(e).__name__}: {e}"
            if not ok:
                ctx.violate(f"plugin:parsers.{n}", f"parsers.parse_file({n!r}, path) cannot produce a parser: {why[:200]}",
                            {"call": f"plugins.call('midgard.parsers', {n!r}, file_path=<file>, encoding=None)", "tried": cands})
        for pkg, lister, label in ((writers.__name__, writers.names, "writers"), (fieldtypes.__name__, fieldtypes.names, "fieldtypes")):
            try:
                names = lister()
            except Exception as e:
                ctx.violate(f"plugin:{label}.names", f"{label}.names() raised {type(e).__name__}: {e}", {"call": f"{label}.names()"})
                continue
            for n in names:
                ctx.case({"plugin": f"{label}.{n}"})
                ctx.count(f"plugin-{label}")
                try:
                    fn = plugins.get(pkg, n).function
                    if label == "writers":
                        good = inspect.isfunction(fn)
                    else:
                        good = inspect.isclass(fn) and issubclass(fn, FieldType) and fieldtypes.function(n) is fn
                    why = f"resolved to {fn!r}"
                except Exception as e:
                    good, why = False, f"{type(e).__name__}: {e}"
                if not good:
                    ctx.violate(f"plugin:{label}.{n}", f"{label} name {n!r} is not of the advertised kind: {why[:200]}",
                                {"call": f"plugins.get({pkg!r}, {n!r})"})


NOT_PLUGINS = {
    "midgard.parsers": ["rinex4_obs", "sinex_bias", "no_such_parser", "_parser_chain", "__init__"],
    "midgard.writers": ["rinex3_obs", "no_such_writer", "_writers"],
    "midgard.data.fieldtypes": ["angle", "no_such_fieldtype", "_fieldtype"],
}


def plugin_history_oracle(ctx: Ctx, rng, only: Optional[Dict[str, List[str]]] = None):
    """the listing is a function of the source tree, not of the questions asked before: in a fresh interpreter, list and
    resolve every parser / writer / field type, ask exists() / get() / load() about names that are not plug-ins, list and
    resolve again - the listing must be unchanged and every listed name must still resolve"""
    jobs = []
    if only is not None:
        jobs.append(only)
    else:
        for j in range(ctx.budget(3, 10)):
            qs = {}
            for pkg, names in NOT_PLUGINS.items():
                kinds = ["e:"] if j == 0 else ["e:", "e:", "g:", "l:"]
                qs[pkg] = [rng.choice(kinds) + n for n in rng.sample(names, rng.randint(1, len(names)))]
            jobs.append(qs)
    with cf.ThreadPoolExecutor(max_workers=8) as exr:
        res = list(exr.map(lambda q: worker("plughist", {"questions": q}), jobs))
    hit = False
    for qs, r in zip(jobs, res):
        case = {"phase": "plugin-history", "questions": qs}
        ctx.case(case, nontrivial=True)
        ctx.count("plugin-history")
        for pkg, q, ans in r["answers"]:
            if ans:
                ctx.violate(f"plugin-question:{pkg}", f"plugins.{ {'e': 'exists', 'g': 'get', 'l': 'load'}[q[0]] }({pkg!r}, {q[2:]!r}) "
                            f"succeeds for a name that is not a plug-in", case)
                hit = True
        for pkg, n, why in r["unresolved_before"]:
            ctx.violate(f"plugin:{pkg.split('.')[-1]}.{n}", f"listed name {n!r} of {pkg} does not resolve in a fresh interpreter: {why[:200]}", case)
            hit = True
        for pkg in r["after"]:
            extra = sorted(set(r["after"][pkg]) - set(r["before"][pkg]))
            gone = sorted(set(r["before"][pkg]) - set(r["after"][pkg]))
            bad = [u for u in r["unresolved_after"] if u[0] == pkg and u not in r["unresolved_before"]]
            if extra or gone or bad:
                ctx.violate(f"plugin-listing-after-questions:{pkg}",
                            f"after asking {qs[pkg]} the listing of {pkg} changed (new {extra}, lost {gone}) and "
                            f"{len(bad)} listed name(s) do not resolve: {[b[1:] for b in bad][:3]}", case)
                hit = True
    return hit


def prefix_groups() -> Dict[str, Dict[str, List[str]]]:
    """{package: {short name: [prefixes]}} from the module files of the three plug-in packages: every way of cutting a
    module name at an underscore into prefix_short where `short` is not a module itself and at least two prefixes share it"""
    out: Dict[str, Dict[str, List[str]]] = {}
    for pkg in ("midgard.parsers", "midgard.writers", "midgard.data.fieldtypes"):
        d = Path(REPO) / pkg.replace(".", "/")
        stems = sorted(p.stem for p in d.glob("*.py") if not p.stem.startswith("_"))
        g: Dict[str, List[str]] = {}
        for st in stems:
            parts = st.split("_")
            for i in range(1, len(parts)):
                pre, short = "_".join(parts[:i]), "_".join(parts[i:])
                if short and pre and short not in stems:
                    g.setdefault(short, []).append(pre)
        out[pkg] = {k: v for k, v in g.items() if len(v) >= 2}
    return out


def plugin_prefix_oracle(ctx: Ctx, rng, tmp: Path, only: Optional[Dict[str, Any]] = None):
    """a short plug-in name resolved through a prefix (`plugins.load/get/call/names(..., prefix=)`, as the rinex dispatchers
    do) ends in the module prefix_short - whatever prefix the same short name was resolved with before; `exists(short)` stays
    False; the listing of the package is what it was.  Per job (a fresh interpreter): one short name, two prefixes, the
    routes in sequence p1, p2, p1 (both orders over the jobs)."""
    garbage = tmp / "garbage_prefix.txt"
    garbage.write_text("Temporary test file\n")
    jobs = []
    if only is not None:
        jobs.append(dict(only, file=str(garbage)))
    else:
        groups = prefix_groups()
        for j in range(ctx.budget(6, 24)):
            pkgs = [p for p in groups if groups[p]]
            pkg = "midgard.parsers" if j % 3 != 2 or len(pkgs) == 1 else rng.choice(pkgs)
            short = rng.choice(sorted(groups[pkg]))
            p1, p2 = rng.sample(groups[pkg][short], 2)
            routes = ["l", "g", "n"] + (["c"] if pkg == "midgard.parsers" else [])
            steps = [[rng.choice(routes) if j else "g", short, p1], ["e", short, ""], [rng.choice(routes) if j else "c" if "c" in routes else "g", short, p2],
                     [rng.choice(routes), short, p1], ["e", short, ""]]
            jobs.append({"package": pkg, "steps": steps, "file": str(garbage)})
    with cf.ThreadPoolExecutor(max_workers=8) as exr:
        res = list(exr.map(lambda q: worker("prefixhist", q), jobs))
    hit = False
    for job, r in zip(jobs, res):
        case = {"phase": "plugin-prefix-history", "package": job["package"], "steps": job["steps"]}
        ctx.case(case, nontrivial=True)
        ctx.count("plugin-prefix-history")
        pk = job["package"].split(".")[-1]
        for (route, short, prefix), ans in zip(job["steps"], r["answers"]):
            ctx.count(f"plugin-prefix-route:{route}")
            full = f"{prefix}_{short}"
            if route == "e":
                want = False
            elif route == "c":
                want = r["by_full_name"].get(full)
            else:
                want = full
            if ans != want:
                ctx.violate(f"plugin-prefix-{'exists' if route == 'e' else 'resolution'}:{pk}.{short}",
                            f"plugins.{ {'l': 'load', 'g': 'get', 'n': 'names', 'c': 'call', 'e': 'exists'}[route] }({job['package']!r}, {short!r}"
                            f"{', prefix=' + repr(prefix) if route != 'e' else ''}) gives {ans!r} instead of {want!r} after the requests "
                            f"{job['steps'][: job['steps'].index([route, short, prefix])]}", case)
                hit = True
        if r["before"] != r["after"]:
            extra = sorted(set(r["after"]) - set(r["before"]))
            gone = sorted(set(r["before"]) - set(r["after"]))
            ctx.violate(f"plugin-listing-after-prefix-requests:{job['package']}",
                        f"after the requests {job['steps']} the listing of {job['package']} changed (new {extra}, lost {gone})", case)
            hit = True
    return hit


def static_id_for(dyn_id: str, kind: str, static_cells: Dict[str, str]) -> Optional[str]:
    """map a run-time cell to the id the translator gives it"""
    if dyn_id in static_cells:
        return dyn_id
    mod, _, rest = dyn_id.partition(":")
    if kind == "funcattr":
        attr = rest.rsplit(".", 1)[-1]
        for sid, sk in static_cells.items():
            if sk == "funcattr" and sid.startswith(mod + ":") and sid.endswith("." + attr):
                return sid
    if kind == "lrucache":
        return dyn_id if dyn_id in static_cells else None
    if kind == "closure":
        var = rest.rsplit(".<closure>.", 1)[-1]
        for sid, sk in static_cells.items():
            if sk == "closure" and sid.startswith(mod + ":") and sid.endswith(".<closure>." + var):
                return sid
        return None
    if kind == "default":
        for sid, sk in static_cells.items():
            if sk == "default" and sid.startswith(mod + ":"):
                return sid
    # an alias of a cell defined elsewhere (from x import _TABLE)
    name = rest
    for sid in static_cells:
        if sid.endswith(":" + name):
            return sid
    return None


def table_tie(ctx, drv, tinfo, snap2, catalog, fresh):
    """run-time validation of the level / instance-cell / escape columns of the static table: for every parser that
    parses an example, two live objects on the same file -
      * every attribute the objects really carry is an instance cell the table lists for a class of the MRO,
      * attributes the table calls ctor-initialised exist right after construction,
      * no mutable container or array is reachable from both objects, or from an object and a process-wide cell
        (`instance_cells_fresh`, `no_shared_cell_escapes` say so statically)."""
    rows = tinfo["instance_cells"]
    by_class: Dict[str, Dict[str, Dict]] = {}
    loose: Dict[str, Dict] = {}
    for rid, r in rows.items():
        mod_cls, attr = rid.split(".self.", 1)
        cls = mod_cls.split(":", 1)[1]
        if cls == "*":
            loose[attr] = r
        else:
            by_class.setdefault(cls, {})[attr] = r
    ctx.extra["instance_cells_static"] = {"rows": len(rows), "ctor_initialised": sum(1 for r in rows.values() if r["ctor"]),
                                          "created_later": sorted(k for k, r in rows.items() if not r["ctor"])}
    ctx.extra["trusted_cells"] = drv.ask1("c16 trusted").split(",")
    ctx.extra["cells_by_level"] = {lv: sum(1 for v in tinfo["levels"].values() if v == lv) for lv in sorted(set(tinfo["levels"].values()))}
    ctx.extra["escape_sites_static"] = tinfo["escapes"]
    seen_parsers = set()
    for key in catalog:
        if key[0] in seen_parsers or "error" in fresh.get(key, {"error": 1}):
            continue
        seen_parsers.add(key[0])
        with quiet():
            try:
                a = c16_canon.construct(*key)
                after_ctor = set(vars(a))
                c16_canon.do_parse(a)
                b = c16_canon.do_parse(c16_canon.construct(*key))
            except (Exception, SystemExit):
                continue
        mro = [c.__name__ for c in type(a).__mro__ if c is not object]
        listed: Dict[str, Dict] = dict(loose)
        for cn in reversed(mro):
            listed.update(by_class.get(cn, {}))
        ctx.case({"phase": "table-tie", "parser": key[0]}, nontrivial=True)
        ctx.count("table-tie:parser-objects-inspected")
        for attr in sorted(set(vars(a)) | set(vars(b))):
            ctx.count("table-tie:instance-attribute")
            if attr not in listed:
                ctx.disagree("static instance cells ⊇ attributes a parser object really carries",
                             {"parser": key[0], "class": mro[0], "attribute": attr}, "listed in Generated.ParserEffects.instanceCells", "not listed")
        for attr, r in listed.items():
            if r["ctor"] and attr in vars(a) and attr not in after_ctor and any(attr in by_class.get(cn, {}) for cn in mro):
                ctx.disagree("ctor-initialised instance cells exist after construction", {"parser": key[0], "attribute": attr},
                             "bound in __init__", "missing after construction")
        with quiet():
            ba, bb = c16_canon.reachable_boxes(vars(a)), c16_canon.reachable_boxes(vars(b))
            ra = c16_canon.reachable_boxes({"as_dict": a.as_dict(), "meta": a.meta, "header": getattr(a, "header", None)})
            shared = c16_canon.shared_boxes(REPO)
        ctx.count("table-tie:mutable-objects-of-an-instance", len(ba))
        both = sorted(ba[i] for i in set(ba) & set(bb))
        if both:
            ctx.disagree("two live parser objects share no mutable object (instance_cells_fresh)",
                         {"parser": key[0], "file": key[1]}, "disjoint", f"shared: {both[:5]}")
        leaked = sorted(f"{ra[i]} is {shared[i]}" for i in set(ra) & set(shared))
        if leaked:
            ctx.disagree("no process-wide mutable object is reachable from a result (no_shared_cell_escapes)",
                         {"parser": key[0], "file": key[1]}, "none", f"{leaked[:5]}")


def run(ctx: Ctx):
    t_start = time.time()
    # ---- 1. translate
    from translator import extract_effects

    tinfo = extract_effects.main()
    static_cells: Dict[str, str] = tinfo["all_cells"]
    effects = set(tinfo["effects"])
    mech = "shared" if any(static_cells.get(e) in ("funcattr", "closure") and e.startswith("midgard.parsers._parser_rinex:") for e in effects) else "local"
    ctx.count(f"cache-mechanism={mech}")
    # ---- 2. prove
    ctx.proof = common.prove("C16")
    ctx.extra["wall_translate_prove_s"] = round(time.time() - t_start, 1)
    drv = ctx.driver
    rng = ctx.rng
    ctx.trusted += [
        "soundness of the ast effect extraction for a dynamic language (translator/extract_effects.py): validated on this run "
        "against the cells that really changed (run-time snapshots), not proved",
        "that each real parser operation respects the frame (read set / write set) the table gives it - the hypothesis "
        "`Framed` of table_noninterference: validated by the history exploration against fresh processes, not proved",
        "the canonical digests of harness/c16_canon.py (deep structural form of as_dict()/meta/header)",
    ]
    ctx.assumptions += ["a parse in a process that never loaded a parser plug-in nor constructed a parser (forked from a server "
                        "holding numpy/pandas/scipy/pint and the imported package midgard.parsers) is the reference result; "
                        "cross-checked on this run against interpreters started from scratch",
                        "lru_cache'd functions are deterministic (C08 checks that claim)"]
    tmp = Path(tempfile.mkdtemp(prefix="c16-"))
    pool = ForkPool(12)
    try:
        _explore(ctx, drv, rng, tmp, static_cells, effects, mech, tinfo, pool)
    finally:
        pool.close()
        shutil.rmtree(tmp, ignore_errors=True)
    ctx.extra["wall_explore_s"] = round(time.time() - t_start, 1)


def _explore(ctx, drv, rng, tmp, static_cells, effects, mech, tinfo, pool):
    from midgard import parsers
    from midgard.dev import plugins

    T = ctx.thorough
    with quiet():
        names = parsers.names()
    files = sorted(p.name for p in EX.iterdir())
    catalog: List[Key] = []
    for n in names:
        cands = EXTRA_EXAMPLES.get(n) or [f for f in files if f == n or f.startswith(n)]
        for f in cands:
            if (EX / f).exists():
                catalog.append((n, str(EX / f), ""))
    info: Dict[Key, Dict] = {}
    gen = make_generated(rng, tmp, ctx.budget(12, 48), ctx.budget(8, 60), [(k[0], k[1]) for k in catalog])
    for n, p, kw, inf in gen:
        info[(n, p, kw)] = inf
        ctx.count("generated:" + inf.get("header_kind", "truncated-example"))
    gen_keys: List[Key] = [(n, p, kw) for n, p, kw, _ in gen]
    header_keys = [k for k in gen_keys if "header_kind" in info[k]]

    # ---- per parser: the same file with other line lengths, the same file with other arguments
    fam: Dict[str, List[Key]] = {}
    for k in catalog:
        fam.setdefault(k[0], []).append(k)
    variants: Dict[str, Dict[str, List[Key]]] = {}
    for n, ks in fam.items():
        v = variants.setdefault(n, {"short": [], "long": [], "kw": []})
        src = ks[0]
        raw = Path(src[1]).read_bytes()
        if len(raw) < 300_000:
            for longer in (False, True):
                b = length_variant(rng, raw, longer)
                if b is not None:
                    p = tmp / f"var_{'long' if longer else 'short'}_{n}"
                    p.write_bytes(b)
                    v["long" if longer else "short"].append((n, str(p), ""))
                    info[(n, str(p), "")] = {"length_variant_of": src[1], "longer": longer}
        try:
            fn = plugins.get("midgard.parsers", n).function
            kws = kw_variants(n, fn)
        except Exception:
            kws = []
        v["kw"] = [(n, src[1], kw) for kw in kws]
    var_keys = [k for v in variants.values() for kind in ("short", "long") for k in v[kind]]
    kw_keys = [k for v in variants.values() for k in v["kw"]]
    ctx.count("generated:length-variant", len(var_keys))
    ctx.count("generated:argument-variant", len(kw_keys))

    # ---- reference: every compared input parsed in a fresh process of its own
    #      (quick: the variants are history only except a sample; thorough: everything has a reference)
    compared: List[Key] = catalog + gen_keys
    if T:
        compared += var_keys + kw_keys
    else:
        compared += rng.sample(var_keys, min(10, len(var_keys))) + rng.sample(kw_keys, min(16, len(kw_keys)))
    all_keys = catalog + gen_keys + var_keys + kw_keys
    hashes0 = {k[1]: sha(k[1]) for k in all_keys}
    # ---- the same path with other content over time: per parser a path that holds its examples (and a variant / a file
    #      of another parser) one after the other; the reference of every (path, content) is a parse in a fresh process
    slots: Dict[str, Tuple[str, List[str]]] = {}
    multi = [n for n, ks in fam.items() if len({sha(k[1]) for k in ks}) > 1]
    single = [n for n in fam if n not in multi]
    for n in multi + (single if T else rng.sample(single, min(6, len(single)))):
        srcs = []
        for k in fam[n]:
            if k[1] not in srcs and Path(k[1]).stat().st_size < 400_000:
                srcs.append(k[1])
        srcs += [k[1] for k in variants[n]["short"]]
        if len(srcs) < 2:
            other = rng.choice([k for k in catalog if k[0] != n and Path(k[1]).stat().st_size < 100_000])
            srcs.append(other[1])
        if len(srcs) >= 2:
            slots[n] = (str(tmp / f"slot_{n}_{Path(srcs[0]).name}"), srcs[:4])
    t_f = time.time()
    futs = {k: pool.parse(k) for k in compared}
    # (one content after the other per path: every reference process writes the path itself)
    slot_ex = cf.ThreadPoolExecutor(max_workers=6)

    def slot_refs(n, slot, srcs):
        return {(n, slot, "", sha(src)): pool._one({"kind": "history", "events": [["write", slot, src], ["parse_file", n, slot, ""]]})[-1][2]
                for src in srcs}

    slot_futs = [slot_ex.submit(slot_refs, n, slot, srcs) for n, (slot, srcs) in slots.items()]
    tie_keys = catalog if T else rng.sample(catalog, 8)
    with cf.ThreadPoolExecutor(max_workers=8) as exr:
        tie = dict(zip(tie_keys, exr.map(true_fresh, tie_keys)))
    fresh: Dict[Any, Dict[str, str]] = {k: f.result() for k, f in futs.items()}
    for f in slot_futs:
        fresh.update(f.result())
    slot_ex.shutdown()
    ctx.count("reference:same-path-other-content", sum(len(v[1]) for v in slots.values()))
    ctx.extra["wall_references_s"] = round(time.time() - t_f, 1)
    for k, d in tie.items():
        ctx.count("reference-cross-checked-with-fresh-interpreter")
        if d != fresh[k]:
            ctx.disagree("reference: parse in a forked fresh process = parse in a fresh interpreter", {"key": list(k)}, fresh[k], d)
    parsing = [k for k in catalog if "error" not in fresh[k]]
    ctx.extra["parsers_listed"] = len(names)
    ctx.extra["parsers_parsing_an_example"] = len({k[0] for k in parsing})
    ctx.extra["inputs"] = {"example": len(catalog), "generated": len(gen_keys), "length_variants": len(var_keys),
                           "argument_variants": len(kw_keys), "with_reference": len(compared),
                           "example_inputs_that_raise": sorted(f"{k[0]}:{Path(k[1]).name}:{fresh[k]['error']}" for k in catalog if "error" in fresh[k])}
    ex = Explorer(ctx, fresh, info, mech, pool)

    # ---- histories that run in a fresh process of their own (started now, collected at the end).  Per parser two
    #      orders of {other arguments, shorter lines, examples, mutate result + parse again, longer lines}: a memo that
    #      the first file / the first argument set of the process decides is seen in one of them
    for n, ks in fam.items():
        v = variants[n]
        kwv = v["kw"][:]
        rng.shuffle(kwv)
        kwv = kwv[: (3 if T else 1)]
        up = [ev("parse_file", k) for k in kwv + v["short"] + ks] + [ev("cA", ks[0]), ev("pA", ks[0]), ev("mA", ks[0]), ev("parse_file", ks[0])] \
            + [ev("parse_file", k) for k in v["long"]]
        down = [ev("parse_file", k) for k in v["long"] + ks[::-1] + v["short"] + kwv[::-1] + ks[:1]]
        ex.events_fresh(up, f"history of {n} in a fresh process of its own (other arguments, shorter lines first)")
        ex.events_fresh(down, f"history of {n} in a fresh process of its own (longer lines first)")
    hk = header_keys[:]
    for r in range(ctx.budget(2, 8)):
        rng.shuffle(hk)
        ex.events_fresh([ev("parse_file", k) for k in hk], "generated RINEX headers in a fresh process of their own")

    # ---- static table vs run-time cells: snapshot after loading every plug-in, before any parse
    snap0 = c16_canon.snapshot_cells(REPO)

    # ---- corpus: minimised past violations first
    for cf_ in sorted((common.VERIF / "corpus" / "C16").glob("*.json")):
        c = json.loads(cf_.read_text())
        c["history"] = expand(c["history"])
        made = restore_generated(c.get("generated_files"))
        try:
            key = tuple((list(c["observed"]) + [""])[:3])
            if all(Path(p).exists() for e in c["history"] for p in event_paths(e)):
                want = pool.parse(key).result()
                got = observed_in(c16_canon.exec_events(c["history"]), key)
                ex.log.extend([list(e) for e in c["history"]])
                ctx.case({"phase": "corpus", "file": cf_.name}, nontrivial=True)
                ctx.count("corpus-history")
                if got != want:
                    ctx.violate(f"history-dependence:{key[0]}", f"corpus history {cf_.name}: parse of {Path(key[1]).name} by {key[0]} "
                                f"differs from the parse in a fresh process in {diff_keys(got or {}, want)}",
                                {"history": c["history"], "observed": list(key), "generated_files": c.get("generated_files"),
                                 "fresh": want, "got": got})
        finally:
            for p_ in made:
                Path(p_).unlink(missing_ok=True)

    # ---- phase 1: every input once (chain), timed
    cost: Dict[Key, float] = {}
    rest = [k for k in var_keys + kw_keys if k not in fresh]
    order1 = catalog + gen_keys + [k for k in var_keys + kw_keys if k in fresh] + (rest if T else rng.sample(rest, min(50, len(rest))))
    rng.shuffle(order1)
    for j, k in enumerate(order1):
        t = time.time()
        hist = [ev("parse_file", x) for x in order1[max(0, j - 5): j + 1]]
        ex.parse_file(k, hist, "first pass over all inputs (everything before it in this process is history)")
        cost[k] = time.time() - t
        ctx.case({"phase": "chain", "key": list(k)}, nontrivial=True)
        ctx.count("parse-in-history")
    snap1 = c16_canon.snapshot_cells(REPO)
    ctx.extra["wall_chain_s"] = round(sum(cost.values()), 1)
    for k in all_keys:
        cost.setdefault(k, cost.get((k[0], variants[k[0]]["kw"][0][1], ""), 0.05) if k[0] in variants and variants[k[0]]["kw"] else 0.05)
    cheap_limit = 0.12
    cheap = [k for k in catalog + gen_keys if cost[k] < cheap_limit]

    marks: List[Tuple[str, float]] = [("chain", time.time())]

    def mark(name: str):
        marks.append((name, time.time()))

    def timed(budget_s: float):
        t0 = time.time()
        return lambda: time.time() - t0 > budget_s

    mark("header-pairs")
    # ---- phase 2: generated headers: every ordered pair X,Y,X (a parse that raised in the header, then a header that
    #      starts with a continuation line, …)
    hsel = header_keys if T else header_keys[:12]
    out_of_time = timed(30.0 if T else 2.5)
    for a in hsel:
        for b in hsel:
            if out_of_time():
                break
            ex.sequence([a, b, a], "ordered pair X,Y,X of generated headers")
            ctx.case({"phase": "header-pair", "A": list(a), "B": list(b)}, nontrivial=True)
            ctx.count("ordered-pair-generated-headers")
            ctx.count(f"header-pair:{info[a]['header_kind']}→{info[b]['header_kind']}")

    mark("pairs")
    # ---- phase 3: per parser A,B,A over its inputs (examples, variants, other arguments), cheapest parsers first so
    #      that the time budget cuts the expensive tail, not an alphabetical one
    out_of_time = timed(60.0 if T else 4.0)
    fams = sorted(fam, key=lambda n: sum(cost[k] for k in fam[n]))
    npairs = 0
    for n in fams:
        v = variants[n]
        members = fam[n][:4] + v["short"] + v["long"] + (v["kw"] if T else v["kw"][:2])
        for a in members:
            for b in members:
                if out_of_time():
                    break
                if not T and a not in fam[n] and b not in fam[n]:
                    continue
                ex.sequence([a, b, a], "A,B,A of one parser")
                ctx.case({"phase": "pair", "A": list(a), "B": list(b)}, nontrivial=True)
                ctx.count("ordered-pair-same-parser")
                npairs += 1
    # cross-parser pairs sampled
    out_of_time = timed(20.0 if T else 1.5)
    while not out_of_time():
        a, b = rng.choice(cheap), rng.choice(cheap)
        if a[0] == b[0]:
            continue
        ex.sequence([a, b, a], "A,B,A of two parsers")
        ctx.case({"phase": "pair", "A": list(a), "B": list(b)}, nontrivial=True)
        ctx.count("ordered-pair")
        npairs += 1
    ctx.extra["ordered_pairs"] = npairs

    mark("interleavings")
    # ---- phase 4: two live objects: all ten interleavings of {cA, cB, pA, pB, mA} (+ a new instance for A, B looked at
    #      again); every parser gets three of the ten with its own files first, then all ten under the time budget
    inter = list(interleavings())
    same = [(a, b) for n in fams for a in fam[n][:2] for b in (fam[n] + variants[n]["kw"][:1])[:3]]
    out_of_time = timed(60.0 if T else 3.0)
    ninter = 0
    for a, b in same:
        if out_of_time():
            break
        for order in (inter if T else rng.sample(inter, 3)):
            ex.events(interleaving_events(order, a, b), f"interleaving {' '.join(order)}")
            ctx.case({"phase": "interleaving", "order": order, "A": list(a), "B": list(b)}, nontrivial=True)
            ctx.count("interleaving")
        ninter += 1
    crossc = [(a, b) for a in cheap for b in cheap if a[0] != b[0]]
    rng.shuffle(crossc)
    out_of_time = timed(20.0 if T else 1.5)
    for a, b in crossc:
        if out_of_time():
            break
        for order in inter:
            ex.events(interleaving_events(order, a, b), f"interleaving {' '.join(order)}")
            ctx.case({"phase": "interleaving", "order": order, "A": list(a), "B": list(b)}, nontrivial=True)
            ctx.count("interleaving")
        ninter += 1
    ctx.extra["interleaved_pairs"] = ninter

    mark("split+nested")
    # ---- phase 5: A parsed partly, then B, then A finished: (a) the three public steps of Parser.parse() with complete
    #      parses of other objects (one of them mutated) in between; (b) B's complete parse nested at the k-th function
    #      entry of midgard/parsers inside A.parse() (a logger / callback / other thread of the caller)
    out_of_time = timed(25.0 if T else 1.5)
    for n in fams * (4 if T else 1):
        if out_of_time():
            break
        a = rng.choice(fam[n]) if T else fam[n][0]
        others = (fam[n] + variants[n]["short"] + variants[n]["kw"][:1])
        b, b2 = rng.choice(others), rng.choice(others)
        ex.events(split_events(a, b, b2), "A in the three public steps of parse() around complete parses of B")
        ctx.case({"phase": "split-parse", "A": list(a), "B": list(b), "B2": list(b2)}, nontrivial=True)
        ctx.count("split-parse")
    out_of_time = timed(40.0 if T else 2.0)
    nest_pairs = [(a, b) for a in header_keys[:6] for b in header_keys[:6]] if not T else [(a, b) for a in header_keys[:12] for b in header_keys[:12]]
    per_fam = [(fam[n][0], rng.choice(fam[n] + variants[n]["short"])) for n in fams if cost[fam[n][0]] < (cheap_limit if T else 0.05)]
    calls: Dict[Key, int] = {}
    for a, b in per_fam + nest_pairs:
        if out_of_time():
            break
        if a not in calls:
            with quiet():
                try:
                    calls[a] = c16_canon.count_calls(c16_canon.construct(*a))
                except (Exception, SystemExit):
                    calls[a] = 0
            ex.log.append(ev("parse_file", a))
        if calls[a] < 2:
            continue
        ks_ = sorted({1 + calls[a] // 2, calls[a]} | {rng.randint(2, calls[a]) for _ in range(8 if T else 1)})
        for kk in (ks_ if T or "header_kind" in info.get(a, {}) else ks_[:2]):
            ex.events([["nest", a[0], a[1], a[2], kk, b[0], b[1], b[2]]], "nested parse", kind="nested-parse-dependence")
            ctx.case({"phase": "nested", "A": list(a), "k": kk, "of": calls[a], "B": list(b)}, nontrivial=True)
            ctx.count("nested-parse")

    mark("same-path-other-content")
    # ---- phase 5c: the same path holds other content later (a working file that is overwritten / downloaded again):
    #      c0, c1, c0, c2, … parsed through the same path; every parse = fresh parse of the content the path holds now
    for n, (slot, srcs) in slots.items():
        seq = [srcs[0]] + [x for c in srcs[1:] for x in (c, srcs[0])]
        events = [x for src in seq for x in (["write", slot, src], ["parse_file", n, slot, ""])]
        ex.events(events, "same path, other content")  # (nobody parsed this path before: as good as a process of its own)
        if sha(slot) != sha(seq[-1]):
            ctx.violate(f"file-modified:{n}", f"input file {slot} changed during parsing", {"file": slot, "history": events})
        ctx.case({"phase": "same-path-other-content", "parser": n, "contents": [Path(x).name for x in seq]}, nontrivial=True)
        ctx.count("same-path-other-content")
        ctx.count("same-path-other-content:parses", len(seq))

    mark("thorough-walk")
    # ---- phase 6 (thorough): every example file next to every example file in both orders (an Euler circuit over all
    #      ordered pairs, every parse compared), then random ordered triples
    if T:
        sel = [k for k in catalog if cost[k] < 0.6]
        walk = euler_circuit(len(sel))
        out_of_time = timed(150.0)
        done = 0
        for j, ix in enumerate(walk):
            if out_of_time():
                break
            k = sel[ix]
            ex.parse_file(k, [ev("parse_file", sel[x]) for x in walk[max(0, j - 2): j + 1]], "walk over every ordered pair of example files")
            done += 1
        ctx.count("euler-walk-parses", done)
        ctx.extra["example_pairs_adjacent_in_both_orders"] = {"files": len(sel), "walk_length": len(walk), "walked": done}
        out_of_time = timed(20.0)
        ntr = 0
        while not out_of_time():
            tri = [rng.choice(cheap) for _ in range(3)]
            ex.sequence(tri, "ordered triple")
            ctx.case({"phase": "triple", "keys": [list(k) for k in tri]}, nontrivial=True)
            ctx.count("ordered-triple")
            ntr += 1
        ctx.extra["ordered_triples"] = ntr
    snap2 = c16_canon.snapshot_cells(REPO)

    mark("collect-fresh-histories")
    # ---- the histories that ran in fresh processes of their own
    t_c = time.time()
    ex.collect_fresh()
    ctx.extra["wall_wait_for_fresh_histories_s"] = round(time.time() - t_c, 1)
    ctx.extra["fresh_process_jobs"] = pool.jobs

    mark("tables")
    # ---- files untouched
    for path, h0 in hashes0.items():
        if sha(path) != h0:
            who = [k[0] for k in all_keys if k[1] == path]
            ctx.violate(f"file-modified:{who[0]}", f"input file {path} changed during parsing (sha1 {h0[:10]} -> {sha(path)[:10]})",
                        {"file": path, "parsers": who, "history": ex.log[-40:]})
    ctx.count("files-hashed", len(hashes0))

    # ---- static effect table ⊇ cells that really changed; every changed cell covered; registries stable once warm
    changed = {c for c in set(snap0) | set(snap2) if snap0.get(c) != snap2.get(c)}
    changed_warm = {c for c in set(snap1) | set(snap2) if snap1.get(c) != snap2.get(c)}
    ctx.extra["runtime_cells"] = len(snap2)
    ctx.extra["runtime_cells_changed"] = sorted(changed)
    for c in sorted(changed):
        kind = (snap2.get(c) or snap0.get(c))[0]
        sid = static_id_for(c, kind, static_cells)
        ctx.count("runtime-changed-cell")
        if sid is None or sid not in effects:
            ctx.disagree("static effect table ⊇ cells changed at run time", {"cell": c, "kind": kind, "static_id": sid},
                         "listed in Generated.ParserEffects.effects", "changed at run time but not an effect of the static table")
            continue
        cov = drv.ask1(f"c16 cover {common.hexs(sid)}")
        if cov == "none":
            ctx.disagree("every changed cell has an independence lemma (coverOf)", {"cell": c, "static_id": sid}, cov, "changed at run time")
        if cov == "registry" and c in changed_warm:
            ctx.disagree("registry cells change at import time only", {"cell": c, "static_id": sid}, "unchanged once every parser ran once",
                         "changed during later parses")
    ne, nc = drv.ask1("c16 effects").split()
    ctx.extra["static_effects"] = int(ne)
    ctx.extra["static_effects_covered"] = int(nc)
    table_tie(ctx, drv, tinfo, snap2, catalog, fresh)

    mark("registry-model")
    # ---- registry model vs plugins.get in fresh interpreters
    known = [n for n in names]
    jobs = []
    for _ in range(ctx.budget(6, 40)):
        seq = [rng.choice(["g:", "g:", "l:", "e:"]) + rng.choice(known + ["no_such_parser", "rinex4_obs", "_parser_chain"])
               for _ in range(rng.randint(1, 6))]
        jobs.append(seq)
    with cf.ThreadPoolExecutor(max_workers=12) as exr:
        res = list(exr.map(lambda s: worker("reg", {"package": PKG, "names": s}), jobs))
    for seq, r in zip(jobs, res):
        m = drv.ask1("c16 reg " + ",".join(seq))
        impl = ",".join("found" if f else "missing" for f in r["found"]) + " keys=" + ",".join(r["keys"])
        ctx.case({"phase": "registry", "gets": seq}, nontrivial=len(seq) > 1)
        ctx.count("registry-sequence")
        if m != impl:
            ctx.disagree("registry model (regGet/regExists) vs plugins.get/load/exists", {"questions": seq}, m, impl)

    mark("plugin-oracle")
    # ---- plug-in oracle
    plugin_oracle(ctx, tmp)
    plugin_history_oracle(ctx, rng)
    plugin_prefix_oracle(ctx, rng, tmp)
    mark("end")
    ctx.extra["wall_phases_s"] = {a[0]: round(b[1] - a[1], 1) for a, b in zip(marks, marks[1:])}
    ctx.traces = ex.parses
    ctx.extra["in_process_events"] = len(ex.log)
    ctx.rule = ("inputs: every (parser, example file) of tests/parsers/example_files; per parser the first example with shorter / "
                "longer data lines and with other keyword arguments (encoding, strict, sampling_rate, convert_unit, header, station "
                "as the signature allows); generated RINEX-3 headers of six classes (plain, starting with a continuation line, raising "
                "after OBS TYPES lines were handled, PHASE SHIFT block starting with a continuation line, unknown label under "
                "strict=True, cut short inside a continuation block); truncated example files. Histories in this process: one chain "
                "over all inputs, every ordered pair X,Y,X of generated headers, per parser A,B,A over its inputs, sampled cross-parser "
                "pairs, interleavings of {construct A, construct B, parse A, parse B, mutate result A} + new instance + B re-read, A in "
                "the three public steps of parse() around parses of B, B's parse nested at the k-th function entry inside A's parse; "
                "thorough: an Euler walk over every ordered pair of example files and random triples. Histories in fresh processes of "
                "their own: per parser two orders of {other arguments, shorter lines, examples, mutate + parse again, longer lines}, "
                "shuffled generated headers. Every parse of an input that has a reference is compared with a parse in a fresh "
                "process; a case is a history, distinct by its canonical event list")


def replay(payload):
    """re-run a stored history in this process and compare the observed parse with a fresh interpreter"""
    c = payload.get("replay", payload)
    print("key:", payload.get("key"))
    print("what:", payload.get("what"))
    if c.get("phase") == "plugin-history":
        ctx = Ctx("C16", "quick", 0)
        hit = plugin_history_oracle(ctx, ctx.rng, only=c["questions"])
        for v in ctx.violations:
            print(" ", v.key, "-", v.what[:300])
        print("VIOLATION reproduced" if hit else "not reproduced")
        return 1 if hit else 0
    if c.get("phase") == "plugin-prefix-history":
        ctx = Ctx("C16", "quick", 0)
        tmp = Path(tempfile.mkdtemp(prefix="c16-"))
        try:
            hit = plugin_prefix_oracle(ctx, ctx.rng, tmp, only={"package": c["package"], "steps": c["steps"]})
        finally:
            shutil.rmtree(tmp, ignore_errors=True)
        for v in ctx.violations:
            print(" ", v.key, "-", v.what[:300])
        print("VIOLATION reproduced" if hit else "not reproduced")
        return 1 if hit else 0
    if "history" not in c:
        if "call" in c:
            print("call to repeat:", c["call"])
            ctx = Ctx("C16", "quick", 0)
            tmp = Path(tempfile.mkdtemp(prefix="c16-"))
            try:
                plugin_oracle(ctx, tmp)
            finally:
                shutil.rmtree(tmp, ignore_errors=True)
            hit = [v for v in ctx.violations if v.key == payload.get("key")]
            print("VIOLATION reproduced" if hit else "not reproduced")
            return 1 if hit else 0
        print(json.dumps(c, indent=1)[:2000])
        return 0
    key = tuple((list(c["observed"]) + [""])[:3])
    c["history"] = expand(c["history"])
    made = restore_generated(c.get("generated_files"))
    try:
        written = {e[1] for e in c["history"] if e[0] == "write"}
        missing = [p for e in c["history"] for p in event_paths(e) if not Path(p).exists() and p not in written]
        if missing:
            print("generated input no longer exists (temporary file):", missing[0], "- re-run ./check C16 with the recorded seed")
            return 2
        if c.get("reference_history"):
            want = worker("history", {"events": c["reference_history"]})[-1][2]
        else:
            want = true_fresh(key)
        idx = c.get("observed_index")
        got = observed_in(c16_canon.exec_events(c["history"]), key, idx)
        which = "the recorded history, run in this (fresh) process"
        if got == want and c.get("full_log"):
            full = expand(c["full_log"]) + c["history"]
            got = observed_in(c16_canon.exec_events(full), key, None if idx is None else idx + len(full) - len(c["history"]))
            which = "the whole recorded in-process log"
    finally:
        for p in made:
            Path(p).unlink(missing_ok=True)
    print("history:", c["history"])
    print("fresh interpreter:", "error " + want["error"] if "error" in want else "ok")
    print("in this history :", "error " + got["error"] if got and "error" in got else "ok", f"({which})")
    if got != want:
        print("VIOLATION reproduced: differs in", diff_keys(got or {}, want))
        return 1
    print("not reproduced (results equal)")
    return 0
