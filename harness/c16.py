"""C16 — parsing is a pure function of file and arguments; every listed plug-in resolves.

translate:   translator/extract_effects.py → lean/Midgard/Generated/ParserEffects.lean (process-wide mutable cells
             reachable from parsing, file-write sites, plug-in lists with the kind each name resolves to)
prove:       lean/Midgard/Props/C16.lean (non-interference over all histories; independence lemma per mechanism;
             obligations over the regenerated tables)
oracle:      the property stated directly on the real code: every parse at any point of a history of
             {construct, parse, mutate result} over several live parser objects gives the digests a parse of the same
             file gives in a *fresh interpreter* (subprocess); file bytes hashed before/after; every listed plug-in
             name is loaded and used the way the library advertises.
correspond:  (a) the static effect table against the cells that really change at run time (snapshots of every
             mutable container hanging off a loaded midgard module/class/function), each changed cell must be a
             covered effect of the Lean table; (b) the RINEX header cache model against the real decorator on
             generated headers with the real content of the function-level list as `pre`; (c) the registry model
             against `plugins.get` sequences in fresh interpreters.
"""
from __future__ import annotations

import concurrent.futures as cf
import contextlib
import hashlib
import io
import itertools
import json
import os
import shutil
import subprocess
import sys
import tempfile
import time
import warnings
from pathlib import Path
from typing import Any, Dict, List, Optional, Tuple

from . import c16_canon, common
from .common import Ctx

REPO = str(common.REPO)
EX = Path(REPO) / "tests" / "parsers" / "example_files"
WORKER = str(Path(__file__).resolve().parent / "c16_worker.py")
PKG = "midgard.parsers"

# example files that are not named after their parser
EXTRA_EXAMPLES = {
    "gnssrefl_snr": ["stat2740.24.snr66"],
    "gnssrefl_txt": ["gnssrefl_gnssir_txt", "gnssrefl_subdaily_txt"],
    "rinex2_nav": ["rinex2_nav.19n", "rinex2_gps_nav"],
    "rinex212_nav": ["rinex212_GN.rnx"],
    "rinex_nav": ["rinex2_nav.19n"],
    "sp3": ["sp3c", "sp3d"],
    "sinex_site": ["sinex_site", "sinex_site_igs", "gnss_sinex_igs"],
    "bernese_sta": ["bernese_sta"],
    "bernese_sta_v52": ["bernese_sta_v52"],
    "wip_rinex": ["rinex3_obs", "rinex2_obs"],
    "wip_rinex_obs": ["rinex3_obs"],
    "wip_rinex3_obs": ["rinex3_obs"],
    "wip_rinex3_obs_header": ["rinex3_obs"],
    "wip_rinex2_obs_header": ["rinex2_obs"],
    "wip_rinex3_clk_header": ["rinex3_clk"],
    "wip_rinex3_nav_header": ["rinex3_nav"],
    "wip_rinex2_nav_header": ["rinex2_nav.19n"],
}


def sha(path: str) -> str:
    try:
        return hashlib.sha1(Path(path).read_bytes()).hexdigest()
    except FileNotFoundError:
        return "missing"


@contextlib.contextmanager
def quiet():
    with warnings.catch_warnings():
        warnings.simplefilter("ignore")
        with contextlib.redirect_stdout(io.StringIO()), contextlib.redirect_stderr(io.StringIO()):
            yield


# -------------------------------------------------------------------------------------------------
# fresh interpreter


def worker(mode: str, job: Dict[str, Any], timeout: int = 300) -> Dict[str, Any]:
    env = dict(os.environ, PYTHONWARNINGS="ignore", PYTHONDONTWRITEBYTECODE="1")
    p = subprocess.run([sys.executable, WORKER, REPO, mode], input=json.dumps(job), capture_output=True, text=True,
                       timeout=timeout, env=env)
    for line in reversed(p.stdout.splitlines()):
        if line.startswith("@@RESULT@@"):
            return json.loads(line[len("@@RESULT@@"):])
    raise common.ToolFailure(f"fresh-interpreter worker gave no result for {job}: {p.stderr[-600:]}")


def fresh_many(jobs: List[Tuple[str, str]], workers: int = 12) -> Dict[Tuple[str, str], Dict[str, str]]:
    out: Dict[Tuple[str, str], Dict[str, str]] = {}
    with cf.ThreadPoolExecutor(max_workers=workers) as ex:
        futs = {ex.submit(worker, "parse", {"parser": n, "path": f}): (n, f) for n, f in jobs}
        for fu in cf.as_completed(futs):
            out[futs[fu]] = fu.result()
    return out


# -------------------------------------------------------------------------------------------------
# the library's front door, split into its two steps (parsers.parse_file = construct, then parse)


def construct(name: str, path: str):
    from midgard.dev import plugins

    return plugins.call(package_name=PKG, plugin_name=name, file_path=path, encoding=None)


def do_parse(p):
    if p.data_available:
        p.parse()
    return p


def diff_keys(a: Dict[str, str], b: Dict[str, str]) -> List[str]:
    return sorted(k for k in set(a) | set(b) if a.get(k) != b.get(k))[:8]


# -------------------------------------------------------------------------------------------------
# generated inputs


def rinex3_header(lines_obs: List[Tuple[str, List[str]]], phase: List[str] = ()) -> str:
    """a RINEX 3 observation header with the given SYS / # / OBS TYPES lines (system may be blank = continuation)"""
    out = ["     3.03           OBSERVATION DATA    M                   RINEX VERSION / TYPE"]
    for sys_, types in lines_obs:
        body = f"{sys_:1s}  {len(types):3d}" + "".join(f" {t:3s}" for t in types)
        out.append(f"{body:60s}SYS / # / OBS TYPES")
    for ph in phase:
        out.append(f"{ph:60s}SYS / PHASE SHIFT")
    out.append(f"{'':60s}END OF HEADER")
    return "\n".join(out) + "\n"


OBS_CODES = ["C1C", "L1C", "D1C", "S1C", "C2W", "L2W", "C5Q", "L5Q", "C1P", "L1P", "C2P", "L2P", "S2W", "C7Q"]


def gen_obs_lines(rng, wf: bool) -> List[Tuple[str, List[str]]]:
    lines: List[Tuple[str, List[str]]] = []
    for gi in range(rng.randint(1, 3)):
        sys_ = rng.choice("GRECJS")
        for li in range(rng.randint(1, 3)):
            types = [rng.choice(OBS_CODES) for _ in range(rng.randint(0 if li else 1, 13))]
            lines.append((sys_ if li == 0 else "", types))
    if not wf:
        lines.insert(0, ("", [rng.choice(OBS_CODES) for _ in range(rng.randint(1, 5))]))
    return lines


def make_generated(rng, tmp: Path, n_headers: int, n_trunc: int, examples: List[Tuple[str, str]]):
    """returns [(parser, path, info)] of generated inputs; info carries the obs lines for header files"""
    out = []
    for i in range(n_headers):
        wf = i % 3 != 0
        lines = gen_obs_lines(rng, wf)
        phase = []
        if rng.random() < 0.6:
            if not wf and rng.random() < 0.5:
                phase.append(f"{'':19s}G11 G12")
            phase.append("G L1C  0.00000  02 G01 G02")
            phase.append(f"{'':19s}G03")
        p = tmp / f"gen_header_{i:03d}.rnx"
        p.write_text(rinex3_header(lines, phase))
        out.append(("wip_rinex3_obs_header", str(p), {"obs_lines": lines, "wf": wf}))
    cands = [e for e in examples if Path(e[1]).stat().st_size < 400_000]
    for i in range(n_trunc):
        name, path = rng.choice(cands)
        raw = Path(path).read_bytes().splitlines(keepends=True)
        if len(raw) < 4:
            continue
        k = rng.randint(2, len(raw) - 1)
        p = tmp / f"gen_trunc_{i:03d}_{name}"
        p.write_bytes(b"".join(raw[:k]))
        out.append((name, str(p), {"truncated_from": path, "lines": k}))
    return out


# -------------------------------------------------------------------------------------------------
# header cache model vs the real decorator


def enc(s: str) -> str:
    return common.hexs(s)


def enc_lines(lines) -> str:
    if not lines:
        return "[]"
    return ",".join(enc(s) + ":" + ";".join(enc(t) for t in ts) for s, ts in lines)


def real_pre_cache() -> Optional[List[Tuple[str, List[str]]]]:
    """content of the function-level list of parse_sys_obs_types (None when the decorator keeps no such list)"""
    from midgard.parsers._parser_rinex import RinexParser

    f = RinexParser.parse_sys_obs_types
    w = getattr(f, "__wrapped__", None)
    c = getattr(w, "cache", None) if w is not None else None
    if not isinstance(c, list):
        return None
    out = []
    for fields in c:
        out.append((fields.get("satellite_sys", ""), [fields[k] for k in sorted(fields) if k.startswith("type_")]))
    return out


def model_obs(drv, mech: str, pre, lines) -> str:
    full = [(s, (ts + [""] * 13)[:13]) for s, ts in lines]
    return drv.ask1(f"c16 obstypes {mech} {enc_lines(pre)} {enc_lines(full)}")


def impl_obs(p) -> str:
    if p is None:
        return "err"
    h = getattr(p, "header", {}).get("obs_types")
    if not h:
        return "ok -"
    return "ok " + ",".join(enc(k) + "=" + ";".join(enc(t) for t in v) for k, v in h.items())


# -------------------------------------------------------------------------------------------------


def embed_generated(paths) -> Dict[str, str]:
    out = {}
    for p in set(paths):
        if not p.startswith(str(EX)) and Path(p).exists() and Path(p).stat().st_size < 200_000:
            out[p] = Path(p).read_bytes().hex()
    return out


def expand(history):
    """corpus histories name example files as $EX/<file>"""
    return [[e[0], e[1], e[2].replace("$EX", str(EX))] for e in history]


def restore_generated(files: Dict[str, str]) -> List[str]:
    made = []
    for p, hx in (files or {}).items():
        if not Path(p).exists():
            Path(p).parent.mkdir(parents=True, exist_ok=True)
            Path(p).write_bytes(bytes.fromhex(hx))
            made.append(p)
    return made


def run_history(history, key) -> Optional[Dict[str, str]]:
    """run a stored history in this process; the digests of the last parse of `key` in it"""
    got = None
    objs: Dict[str, Any] = {}
    with quiet():
        for e in history:
            op, name, path = e[0], e[1], e[2]
            if op == "parse_file":
                _, d = c16_canon.run_parse(name, path)
                if (name, path) == key:
                    got = d
            else:
                slot = op[1:]
                try:
                    if op[0] == "c":
                        objs[slot] = construct(name, path)
                    elif op[0] == "p" and slot in objs:
                        do_parse(objs[slot])
                        if (name, path) == key:
                            got = c16_canon.result_digests(objs[slot])
                    elif op[0] == "m" and slot in objs:
                        c16_canon.mutate_result(objs[slot])
                except (Exception, SystemExit) as err:
                    if (name, path) == key and op[0] == "p":
                        got = {"error": type(err).__name__}
    return got


class Explorer:
    def __init__(self, ctx: Ctx, fresh: Dict[Tuple[str, str], Dict[str, str]], info: Dict[Tuple[str, str], Dict],
                 mech: str):
        self.ctx = ctx
        self.fresh = fresh
        self.info = info
        self.mech = mech
        self.log: List[List[str]] = []  # the whole in-process history so far (for replays)
        self.parses = 0

    def check(self, key: Tuple[str, str], dig: Dict[str, str], hist: List[List[str]], when: str):
        want = self.fresh[key]
        if dig != want:
            name = key[0]
            first = not any(v.key == f"history-dependence:{name}" for v in self.ctx.violations)
            payload = {"history": hist, "observed": list(key), "when": when, "fresh": want, "got": dig,
                       "earlier_in_process": len(self.log)}
            if first:  # a self-contained replay: the whole in-process log and the text of generated inputs
                payload["full_log"] = [list(e) for e in self.log]
                payload["generated_files"] = embed_generated([e[2] for e in self.log] + [e[2] for e in hist])
            self.ctx.violate(
                f"history-dependence:{name}",
                f"parse of {Path(key[1]).name} by {name} ({when}) differs from the parse in a fresh interpreter in "
                f"{diff_keys(dig, want)} (fresh: {'error ' + want['error'] if 'error' in want else 'ok'}, "
                f"here: {'error ' + dig['error'] if 'error' in dig else 'ok'})", payload)

    def parse_file(self, key: Tuple[str, str], hist: List[List[str]], when: str):
        """construct + parse (the library's parse_file), with the header model compared on generated headers"""
        pre = real_pre_cache() if "obs_lines" in self.info.get(key, {}) else None
        p, dig = c16_canon.run_parse(key[0], key[1])
        self.parses += 1
        self.log.append(["parse_file", key[0], key[1]])
        self.check(key, dig, hist, when)
        inf = self.info.get(key, {})
        if "obs_lines" in inf:
            m = model_obs(self.ctx.driver, self.mech, pre or [], inf["obs_lines"])
            i = impl_obs(p)
            mm = m.rsplit(" ", 1)[0] if m.startswith("ok") else "err"
            self.ctx.count("header-model-compared")
            if mm != i:
                self.ctx.disagree("RINEX header cache model (parseHeader) vs parser_cache decorator",
                                  {"file": key[1], "pre": pre, "lines": inf["obs_lines"], "mech": self.mech}, m, i)
        return p, dig


def interleavings():
    ev = ["cA", "pA", "mA", "cB", "pB"]
    for perm in itertools.permutations(ev):
        ix = {e: i for i, e in enumerate(perm)}
        if ix["cA"] < ix["pA"] < ix["mA"] and ix["cB"] < ix["pB"]:
            yield list(perm)


def run_interleaving(ex: Explorer, order: List[str], A: Tuple[str, str], B: Tuple[str, str]):
    """one interleaving of {construct A, construct B, parse A, parse B, mutate result A}, then a new instance for A"""
    hist = [[e, *(A if e.endswith("A") else B)] for e in order] + [["cA2", *A], ["pA2", *A]]
    objs: Dict[str, Any] = {}
    digs: Dict[str, Dict[str, str]] = {}
    with quiet():
        for e in order + ["cA2", "pA2"]:
            slot = e[1:]
            key = A if slot.startswith("A") else B
            try:
                if e[0] == "c":
                    objs[slot] = construct(*key)
                elif e[0] == "p":
                    if slot in objs:
                        do_parse(objs[slot])
                        digs[slot] = c16_canon.result_digests(objs[slot])
                        ex.parses += 1
                elif e[0] == "m":
                    if slot in objs and slot in digs:
                        c16_canon.mutate_result(objs[slot])
            except (Exception, SystemExit) as err:
                digs[slot] = {"error": type(err).__name__}
                objs.pop(slot, None)
            ex.log.append([e, *key])
    for slot, dig in digs.items():
        key = A if slot.startswith("A") else B
        ex.check(key, dig, hist, f"event p{slot} of interleaving {' '.join(order)}")
    # late observation: B's result must still be what it was after A's result was mutated
    if "B" in objs and "error" not in digs.get("B", {"error": 1}):
        with quiet():
            late = c16_canon.result_digests(objs["B"])
        ex.check(B, late, hist, f"result of B re-read at the end of interleaving {' '.join(order)}")


def plugin_oracle(ctx: Ctx, tmp: Path):
    """every listed name can be loaded and used the way the library advertises"""
    from midgard import parsers, writers
    from midgard.data import fieldtypes
    from midgard.data.fieldtypes._fieldtype import FieldType
    from midgard.dev import plugins
    import inspect

    garbage = tmp / "garbage.txt"
    garbage.write_text("Temporary test file\n")
    cands = [str(garbage)] + [str(EX / f) for f in ("rinex3_obs", "rinex2_obs", "rinex3_nav", "rinex3_clk", "rinex2_nav.19n")]
    with quiet():
        try:
            pnames = parsers.names()
        except Exception as e:
            ctx.violate("plugin:parsers.names", f"parsers.names() raised {type(e).__name__}: {e}", {"call": "parsers.names()"})
            pnames = []
        for n in pnames:
            ctx.case({"plugin": "parsers." + n})
            ctx.count("plugin-parsers")
            ok, why = False, ""
            for c in cands:
                try:
                    p = plugins.call(package_name=PKG, plugin_name=n, file_path=c, encoding=None)
                    ok = isinstance(p, parsers.Parser)
                    why = f"returned {type(p).__name__}"
                    if ok:
                        break
                except TypeError as e:
                    why = f"TypeError: {e}"
                    if "unexpected keyword" in str(e) or "positional argument" in str(e):
                        break
                except (Exception, SystemExit) as e:
                    why = f"{type(e).__name__}: {e}"
            if not ok:
                ctx.violate(f"plugin:parsers.{n}", f"parsers.parse_file({n!r}, path) cannot produce a parser: {why[:200]}",
                            {"call": f"plugins.call('midgard.parsers', {n!r}, file_path=<file>, encoding=None)", "tried": cands})
        for pkg, lister, label in ((writers.__name__, writers.names, "writers"), (fieldtypes.__name__, fieldtypes.names, "fieldtypes")):
            try:
                names = lister()
            except Exception as e:
                ctx.violate(f"plugin:{label}.names", f"{label}.names() raised {type(e).__name__}: {e}", {"call": f"{label}.names()"})
                continue
            for n in names:
                ctx.case({"plugin": f"{label}.{n}"})
                ctx.count(f"plugin-{label}")
                try:
                    fn = plugins.get(pkg, n).function
                    if label == "writers":
                        good = inspect.isfunction(fn)
                    else:
                        good = inspect.isclass(fn) and issubclass(fn, FieldType) and fieldtypes.function(n) is fn
                    why = f"resolved to {fn!r}"
                except Exception as e:
                    good, why = False, f"{type(e).__name__}: {e}"
                if not good:
                    ctx.violate(f"plugin:{label}.{n}", f"{label} name {n!r} is not of the advertised kind: {why[:200]}",
                                {"call": f"plugins.get({pkg!r}, {n!r})"})


NOT_PLUGINS = {
    "midgard.parsers": ["rinex4_obs", "sinex_bias", "no_such_parser", "_parser_chain", "__init__"],
    "midgard.writers": ["rinex3_obs", "no_such_writer", "_writers"],
    "midgard.data.fieldtypes": ["angle", "no_such_fieldtype", "_fieldtype"],
}


def plugin_history_oracle(ctx: Ctx, rng, only: Optional[Dict[str, List[str]]] = None):
    """the listing is a function of the source tree, not of the questions asked before: in a fresh interpreter, list and
    resolve every parser / writer / field type, ask exists() / get() / load() about names that are not plug-ins, list and
    resolve again - the listing must be unchanged and every listed name must still resolve"""
    jobs = []
    if only is not None:
        jobs.append(only)
    else:
        for j in range(ctx.budget(3, 10)):
            qs = {}
            for pkg, names in NOT_PLUGINS.items():
                kinds = ["e:"] if j == 0 else ["e:", "e:", "g:", "l:"]
                qs[pkg] = [rng.choice(kinds) + n for n in rng.sample(names, rng.randint(1, len(names)))]
            jobs.append(qs)
    with cf.ThreadPoolExecutor(max_workers=8) as exr:
        res = list(exr.map(lambda q: worker("plughist", {"questions": q}), jobs))
    hit = False
    for qs, r in zip(jobs, res):
        case = {"phase": "plugin-history", "questions": qs}
        ctx.case(case, nontrivial=True)
        ctx.count("plugin-history")
        for pkg, q, ans in r["answers"]:
            if ans:
                ctx.violate(f"plugin-question:{pkg}", f"plugins.{ {'e': 'exists', 'g': 'get', 'l': 'load'}[q[0]] }({pkg!r}, {q[2:]!r}) "
                            f"succeeds for a name that is not a plug-in", case)
                hit = True
        for pkg, n, why in r["unresolved_before"]:
            ctx.violate(f"plugin:{pkg.split('.')[-1]}.{n}", f"listed name {n!r} of {pkg} does not resolve in a fresh interpreter: {why[:200]}", case)
            hit = True
        for pkg in r["after"]:
            extra = sorted(set(r["after"][pkg]) - set(r["before"][pkg]))
            gone = sorted(set(r["before"][pkg]) - set(r["after"][pkg]))
            bad = [u for u in r["unresolved_after"] if u[0] == pkg and u not in r["unresolved_before"]]
            if extra or gone or bad:
                ctx.violate(f"plugin-listing-after-questions:{pkg}",
                            f"after asking {qs[pkg]} the listing of {pkg} changed (new {extra}, lost {gone}) and "
                            f"{len(bad)} listed name(s) do not resolve: {[b[1:] for b in bad][:3]}", case)
                hit = True
    return hit


def static_id_for(dyn_id: str, kind: str, static_cells: Dict[str, str]) -> Optional[str]:
    """map a run-time cell to the id the translator gives it"""
    if dyn_id in static_cells:
        return dyn_id
    mod, _, rest = dyn_id.partition(":")
    if kind == "funcattr":
        attr = rest.rsplit(".", 1)[-1]
        for sid, sk in static_cells.items():
            if sk == "funcattr" and sid.startswith(mod + ":") and sid.endswith("." + attr):
                return sid
    if kind == "lrucache":
        return dyn_id if dyn_id in static_cells else None
    if kind == "default":
        for sid, sk in static_cells.items():
            if sk == "default" and sid.startswith(mod + ":"):
                return sid
    # an alias of a cell defined elsewhere (from x import _TABLE)
    name = rest
    for sid in static_cells:
        if sid.endswith(":" + name):
            return sid
    return None


def run(ctx: Ctx):
    t_start = time.time()
    # ---- 1. translate
    from translator import extract_effects

    tinfo = extract_effects.main()
    static_cells: Dict[str, str] = tinfo["all_cells"]
    effects = set(tinfo["effects"])
    mech = "shared" if any(static_cells.get(e) == "funcattr" and e.startswith("midgard.parsers._parser_rinex:") for e in effects) else "local"
    ctx.count(f"cache-mechanism={mech}")
    # ---- 2. prove
    ctx.proof = common.prove("C16")
    drv = ctx.driver
    rng = ctx.rng
    ctx.trusted += [
        "soundness of the ast effect extraction for a dynamic language (translator/extract_effects.py): validated on this run "
        "against the cells that really changed (run-time snapshots), not proved",
        "that each real parser operation satisfies NonInterfering for the cover the table claims: validated by the "
        "history exploration against fresh interpreters, not proved",
        "the canonical digests of harness/c16_canon.py (deep structural form of as_dict()/meta/header)",
    ]
    ctx.assumptions += ["a parse in a fresh interpreter (subprocess) is the reference result",
                        "lru_cache'd functions are deterministic (C08 checks that claim)"]
    tmp = Path(tempfile.mkdtemp(prefix="c16-"))
    try:
        _explore(ctx, drv, rng, tmp, static_cells, effects, mech, tinfo)
    finally:
        shutil.rmtree(tmp, ignore_errors=True)
    ctx.extra["wall_explore_s"] = round(time.time() - t_start, 1)


def _explore(ctx, drv, rng, tmp, static_cells, effects, mech, tinfo):
    from midgard import parsers

    with quiet():
        names = parsers.names()
    files = sorted(p.name for p in EX.iterdir())
    catalog: List[Tuple[str, str]] = []
    for n in names:
        cands = EXTRA_EXAMPLES.get(n) or [f for f in files if f == n or f.startswith(n)]
        for f in cands:
            if (EX / f).exists():
                catalog.append((n, str(EX / f)))
    info: Dict[Tuple[str, str], Dict] = {}
    gen = make_generated(rng, tmp, ctx.budget(9, 40), ctx.budget(8, 60), catalog)
    for n, p, inf in gen:
        info[(n, p)] = inf
    gen_keys = [(n, p) for n, p, _ in gen]
    all_keys = catalog + gen_keys
    hashes0 = {k[1]: sha(k[1]) for k in all_keys}

    # ---- reference: every input parsed in its own fresh interpreter
    t_f = time.time()
    fresh = fresh_many(all_keys)
    ctx.extra["wall_fresh_interpreters_s"] = round(time.time() - t_f, 1)
    parsing = [k for k in catalog if "error" not in fresh[k]]
    ctx.extra["parsers_listed"] = len(names)
    ctx.extra["parsers_parsing_an_example"] = len({k[0] for k in parsing})
    ctx.extra["inputs"] = {"example": len(catalog), "generated": len(gen_keys),
                           "example_inputs_that_raise": sorted(f"{k[0]}:{Path(k[1]).name}:{fresh[k]['error']}" for k in catalog if "error" in fresh[k])}
    ex = Explorer(ctx, fresh, info, mech)

    # ---- static table vs run-time cells: snapshot after loading every plug-in, before any parse
    snap0 = c16_canon.snapshot_cells(REPO)

    # ---- corpus: minimised past violations first
    for cf_ in sorted((common.VERIF / "corpus" / "C16").glob("*.json")):
        c = json.loads(cf_.read_text())
        c["history"] = expand(c["history"])
        made = restore_generated(c.get("generated_files"))
        try:
            key = tuple(c["observed"])
            if all(Path(e[2]).exists() for e in c["history"]):
                want = worker("parse", {"parser": key[0], "path": key[1]})
                got = run_history(c["history"], key)
                ex.log.extend([list(e) for e in c["history"]])
                ctx.case({"phase": "corpus", "file": cf_.name}, nontrivial=True)
                ctx.count("corpus-history")
                if got != want:
                    ctx.violate(f"history-dependence:{key[0]}", f"corpus history {cf_.name}: parse of {Path(key[1]).name} by {key[0]} "
                                f"differs from the parse in a fresh interpreter in {diff_keys(got or {}, want)}",
                                {"history": c["history"], "observed": list(key), "generated_files": c.get("generated_files"),
                                 "fresh": want, "got": got})
        finally:
            for p_ in made:
                Path(p_).unlink(missing_ok=True)

    # ---- phase 1: every input once (chain), timed; then ordered pairs
    cost: Dict[Tuple[str, str], float] = {}
    order1 = all_keys[:]
    rng.shuffle(order1)
    for k in order1:
        t = time.time()
        hist = [["parse_file", *x] for x in order1[: order1.index(k) + 1]]
        ex.parse_file(k, hist[-6:], "first pass over all inputs (everything before it in this process is history)")
        cost[k] = time.time() - t
        ctx.case({"phase": "chain", "key": list(k)}, nontrivial=True)
        ctx.count("parse-in-history")
    snap1 = c16_canon.snapshot_cells(REPO)
    ctx.extra["wall_chain_s"] = round(sum(cost.values()), 1)

    cheap = [k for k in all_keys if cost[k] < 0.12]
    fam: Dict[str, List[Tuple[str, str]]] = {}
    for k in all_keys:
        fam.setdefault(k[0], []).append(k)
    # pairs: same-parser pairs (incl. the same file twice) exhaustively for small families, others sampled / all
    pairs: List[Tuple[Tuple[str, str], Tuple[str, str]]] = []
    for n, ks in fam.items():
        for a in ks[:4]:
            for b in ks[:4]:
                pairs.append((a, b))
    budget_s = 7.0 if not ctx.thorough else 150.0
    cross = [(a, b) for a in all_keys for b in all_keys if a[0] != b[0]]
    rng.shuffle(cross)
    t0 = time.time()
    done = 0
    for a, b in pairs + cross:
        if time.time() - t0 > budget_s:
            break
        if cost[a] + cost[b] > 0.5 and done > 50 and not ctx.thorough:
            continue
        hist = [["parse_file", *a], ["parse_file", *b], ["parse_file", *a]]
        ex.parse_file(a, hist, "A in the ordered pair A,B,A")
        ex.parse_file(b, hist, "B right after A")
        ex.parse_file(a, hist, "A again after B")
        ctx.case({"phase": "pair", "A": list(a), "B": list(b)}, nontrivial=True)
        ctx.count("ordered-pair" + ("-same-parser" if a[0] == b[0] else ""))
        done += 1
    ctx.extra["ordered_pairs"] = done

    # ---- phase 2: all ten interleavings of {cA, cB, pA, pB, mA} (+ a new instance for A) per pair
    inter = list(interleavings())
    same = [(a, b) for n, ks in fam.items() for a in ks[:3] for b in ks[:3]]
    crossc = [(a, b) for a in cheap for b in cheap if a[0] != b[0]]
    rng.shuffle(crossc)
    budget_s = 7.0 if not ctx.thorough else 150.0
    t0 = time.time()
    npairs = 0
    for a, b in same + crossc:
        if time.time() - t0 > budget_s:
            break
        if cost[a] + cost[b] > 0.25 and not ctx.thorough:
            continue
        for order in inter:
            run_interleaving(ex, order, a, b)
            ctx.case({"phase": "interleaving", "order": order, "A": list(a), "B": list(b)}, nontrivial=True)
            ctx.count("interleaving")
        npairs += 1
    ctx.extra["interleaved_pairs"] = npairs

    # ---- phase 3 (thorough): ordered triples
    if ctx.thorough:
        t0 = time.time()
        ntr = 0
        while time.time() - t0 < 80.0:
            tri = [rng.choice(cheap) for _ in range(3)]
            hist = [["parse_file", *k] for k in tri]
            for j, k in enumerate(tri):
                ex.parse_file(k, hist, f"parse {j + 1} of an ordered triple")
            ctx.case({"phase": "triple", "keys": [list(k) for k in tri]}, nontrivial=True)
            ctx.count("ordered-triple")
            ntr += 1
        ctx.extra["ordered_triples"] = ntr
    snap2 = c16_canon.snapshot_cells(REPO)

    # ---- files untouched
    for path, h0 in hashes0.items():
        if sha(path) != h0:
            who = [k[0] for k in all_keys if k[1] == path]
            ctx.violate(f"file-modified:{who[0]}", f"input file {path} changed during parsing (sha1 {h0[:10]} -> {sha(path)[:10]})",
                        {"file": path, "parsers": who, "history": ex.log[-40:]})
    ctx.count("files-hashed", len(hashes0))

    # ---- static effect table ⊇ cells that really changed; every changed cell covered; registries stable once warm
    changed = {c for c in set(snap0) | set(snap2) if snap0.get(c) != snap2.get(c)}
    changed_warm = {c for c in set(snap1) | set(snap2) if snap1.get(c) != snap2.get(c)}
    ctx.extra["runtime_cells"] = len(snap2)
    ctx.extra["runtime_cells_changed"] = sorted(changed)
    for c in sorted(changed):
        kind = (snap2.get(c) or snap0.get(c))[0]
        sid = static_id_for(c, kind, static_cells)
        ctx.count("runtime-changed-cell")
        if sid is None or sid not in effects:
            ctx.disagree("static effect table ⊇ cells changed at run time", {"cell": c, "kind": kind, "static_id": sid},
                         "listed in Generated.ParserEffects.effects", "changed at run time but not an effect of the static table")
            continue
        cov = drv.ask1(f"c16 cover {common.hexs(sid)}")
        if cov == "none":
            ctx.disagree("every changed cell has an independence lemma (coverOf)", {"cell": c, "static_id": sid}, cov, "changed at run time")
        if cov == "registry" and c in changed_warm:
            ctx.disagree("registry cells change at import time only", {"cell": c, "static_id": sid}, "unchanged once every parser ran once",
                         "changed during later parses")
    ne, nc = drv.ask1("c16 effects").split()
    ctx.extra["static_effects"] = int(ne)
    ctx.extra["static_effects_covered"] = int(nc)

    # ---- registry model vs plugins.get in fresh interpreters
    known = [n for n in names]
    jobs = []
    for _ in range(ctx.budget(6, 40)):
        seq = [rng.choice(["g:", "g:", "l:", "e:"]) + rng.choice(known + ["no_such_parser", "rinex4_obs", "_parser_chain"])
               for _ in range(rng.randint(1, 6))]
        jobs.append(seq)
    with cf.ThreadPoolExecutor(max_workers=12) as exr:
        res = list(exr.map(lambda s: worker("reg", {"package": PKG, "names": s}), jobs))
    for seq, r in zip(jobs, res):
        m = drv.ask1("c16 reg " + ",".join(seq))
        impl = ",".join("found" if f else "missing" for f in r["found"]) + " keys=" + ",".join(r["keys"])
        ctx.case({"phase": "registry", "gets": seq}, nontrivial=len(seq) > 1)
        ctx.count("registry-sequence")
        if m != impl:
            ctx.disagree("registry model (regGet/regExists) vs plugins.get/load/exists", {"questions": seq}, m, impl)

    # ---- plug-in oracle
    plugin_oracle(ctx, tmp)
    plugin_history_oracle(ctx, rng)
    ctx.traces = ex.parses
    ctx.extra["in_process_events"] = len(ex.log)
    ctx.rule = ("inputs: every (parser, example file) of tests/parsers/example_files + generated RINEX-3 headers (well-formed and "
                "starting with a continuation line) + truncated example files; histories: one chain over all inputs, ordered "
                "pairs A,B,A (same-parser pairs incl. the same file twice exhaustive, cross-parser sampled by time budget), all "
                "10 interleavings of {construct A, construct B, parse A, parse B, mutate result A} followed by a new instance "
                "for A, thorough: random ordered triples; every parse compared with a parse in a fresh interpreter; a case is "
                "a history, distinct by its canonical event list")


def replay(payload):
    """re-run a stored history in this process and compare the observed parse with a fresh interpreter"""
    c = payload.get("replay", payload)
    print("key:", payload.get("key"))
    print("what:", payload.get("what"))
    if c.get("phase") == "plugin-history":
        ctx = Ctx("C16", "quick", 0)
        hit = plugin_history_oracle(ctx, ctx.rng, only=c["questions"])
        for v in ctx.violations:
            print(" ", v.key, "-", v.what[:300])
        print("VIOLATION reproduced" if hit else "not reproduced")
        return 1 if hit else 0
    if "history" not in c:
        if "call" in c:
            print("call to repeat:", c["call"])
            ctx = Ctx("C16", "quick", 0)
            tmp = Path(tempfile.mkdtemp(prefix="c16-"))
            try:
                plugin_oracle(ctx, tmp)
            finally:
                shutil.rmtree(tmp, ignore_errors=True)
            hit = [v for v in ctx.violations if v.key == payload.get("key")]
            print("VIOLATION reproduced" if hit else "not reproduced")
            return 1 if hit else 0
        print(json.dumps(c, indent=1)[:2000])
        return 0
    key = tuple(c["observed"])
    c["history"] = expand(c["history"])
    made = restore_generated(c.get("generated_files"))
    try:
        missing = [e[2] for e in c["history"] if not Path(e[2]).exists()]
        if missing:
            print("generated input no longer exists (temporary file):", missing[0], "- re-run ./check C16 with the recorded seed")
            return 2
        want = worker("parse", {"parser": key[0], "path": key[1]})
        got = run_history(c["history"], key)
        which = "the recorded local history"
        if got == want and c.get("full_log"):
            got = run_history(c["full_log"] + c["history"], key)
            which = "the whole recorded in-process log"
    finally:
        for p in made:
            Path(p).unlink(missing_ok=True)
    print("history:", c["history"])
    print("fresh interpreter:", "error " + want["error"] if "error" in want else "ok")
    print("in this history :", "error " + got["error"] if got and "error" in got else "ok", f"({which})")
    if got != want:
        print("VIOLATION reproduced: differs in", diff_keys(got or {}, want))
        return 1
    print("not reproduced (results equal)")
    return 0
