"""C09 — a Dataset stays a rectangular, row-aligned table under any operation sequence.

prove:       lean/Midgard/Props/C09.lean (history invariant + refinement to a list-of-records table)
correspond:  operation histories on the real Dataset vs the compiled Lean model (drv_c09): after
             every operation the whole world (every dataset, field, nested collection, attached
             `other`/`ref_pos` object, object identities) is rendered canonically and diffed
oracle:      a plain list-of-records reference (harness/c09_ref.py: every reachable object is
             transformed once by the row function of the operation) stated directly against the
             real code; independent of the Lean model
"""
from __future__ import annotations

import itertools
import json
from fractions import Fraction

import numpy as np

from . import common
from .common import Ctx
from . import c09_ref as ref
from .c09_world import (RealWorld, op_tokens, render_world, KINDS, UNIT_TABLE, units_token, concretise,
                        base_world_ops, SYMBOLIC_ALPHABET, random_history, diff_history, time_history)


def _stream(ops_sym, rw):
    """concrete operations, each made concrete only when the real world has reached it"""
    for sop in ops_sym:
        for op in concretise(sop, rw):
            yield op


def _count_diff(ctx: Ctx, op, status, out, exp_status, info):
    """the distribution of the `difference` calls (branches of the model the generators reach)"""
    ctx.count("diff:calls")
    ctx.count("diff:outcome=" + ("ok" if status == "ok" else "raises-" + str(out)) + "/oracle-" + exp_status)
    if info is None:
        return
    ctx.count(f"diff:index-fields={info['index_fields']}")
    ctx.count("diff:pairs=" + ("0" if info["pairs"] == 0 else "1" if info["pairs"] == 1 else "2-3" if info["pairs"] <= 3 else "4+"))
    for k in ("duplicate_keys", "one_sided_keys", "other_order"):
        if info.get(k):
            ctx.count("diff:" + k)
    if exp_status != "ok" or "kinds" not in info:
        return
    ctx.count(f"diff:nesting-depth={info['nested']}")
    ctx.count(f"diff:copy-flags=self{int(bool(op.get('cs')))}/other{int(bool(op.get('co')))}")
    if info["dropped"]:
        ctx.count("diff:one-sided-fields-dropped")
    if info["factor"]:
        ctx.count("diff:unit-factor!=1")
    if info["not_subtractable"]:
        ctx.count("diff:bool/text/sigma-field" + ("-copied" if info["copied"] else "-dropped"))
    for k in sorted(info["kinds"]):
        ctx.count("diff:kind=" + k)
    if op["d"] == op["e"]:
        ctx.count("diff:with-itself")
    if op["r"] in (op["d"], op["e"]):
        ctx.count("diff:result-replaces-operand")


def _conv_class(c: str) -> str:
    fr, to = c.replace("d:", "").split(">")
    (fs, ff), (ts, tf) = fr.split("/"), to.split("/")
    return ("scale" if fs != ts else "") + ("+" if fs != ts and ff != tf else "") + ("format" if ff != tf else "")


def _count_sort_key(ctx: Ctx, rf, op):
    """what the sort key of a merge looks like: a time field? epochs closer than the resolution of a Julian date?"""
    f = rf.find(rf.ds[op["d"]].fields, op["sort_by"].split("."))
    if f is None or isinstance(f, ref.RColl) or f.kind != "time":
        return
    ctx.count("sort-key:time-field:" + (f.obj.tag.split("/")[-1]))
    jds = sorted(Fraction(r[0][1:]) + Fraction(r[1][1:]) for r in f.obj.rows if r[0] != "nan")
    if any(0 < b - a < Fraction(40, 86400 * 10**6) for a, b in zip(jds, jds[1:])):
        ctx.count("sort-key:time-field:epochs-closer-than-40us")


def run_history(ctx: Ctx, ops_sym, tag: str, corpus: bool = False):
    """execute one history on the real code, the reference and the model; returns nothing, reports"""
    rw = RealWorld(tv=True)
    rf = ref.RefWorld(conv=rw.conv)
    concrete = []
    impl_out = []
    stop = False
    for op in _stream(ops_sym, rw):
        if stop:
            break
        concrete.append(op)
        status, out = rw.apply(op)
        quiet = bool(op.get("setup"))  # set-up operations are checked once, at the end of the set-up
        if status == "ok":
            if op["op"] == "extend" and str(out).startswith("x"):
                ctx.count("extend:compared-with-list-of-records-extend")
            if op["op"] == "extend" and str(out) in ("s0", "s1"):
                ctx.count("extend:splitSharing-predicate=" + str(out)[1] + "(model=real=reference)")
            impl_out.append("ok:-:~" if quiet else f"ok:{out}:{render_world(rw)}")
        else:
            impl_out.append(f"ERR:{out}")
            stop = True
        # ---- oracle: the reference table, stated on the real code
        exp_status, exp_out = rf.apply(op)
        if op["op"] == "diff":
            _count_diff(ctx, op, status, out, exp_status, rf.diff_info)
        if getattr(rf, "or_fields_used", False):
            ctx.count("filter:on-<name>_self/_other-fields")
        if getattr(rf, "shared_one_sided", False):
            ctx.count("one-array-under-two-names,-one-name-missing-in-the-other-dataset:" + op["op"])
        if getattr(rf, "pad_refused", False):
            ctx.count("pad-of-gps-format-time-field-refused:" + ("raises-" + str(out) if status != "ok" else "NOT-REFUSED"))
        if exp_status == "ok":
            for c in sorted(rf.converted):
                ctx.count("insert-converts:" + ("time-delta:" if c.startswith("d:") else "time:") + _conv_class(c))
            if op["op"] == "merge" and op.get("sort_by") and status == "ok":
                _count_sort_key(ctx, rf, op)
        nviol = ctx.hist.get("oracle_failures", 0)
        if not (quiet and status == "ok" and exp_status == "ok"):
            ref.judge(ctx, op, concrete, status, out, exp_status, exp_out, rw, rf)
        if exp_status != "ok" or status != "ok" or ctx.hist.get("oracle_failures", 0) != nviol:
            stop = True  # the history ends at the first error, skip or violated expectation
    case = {"ops": concrete}
    nontrivial = sum(1 for o in concrete if o["op"] in ("subset", "extend", "merge", "filter", "del", "diff")) >= 1
    ctx.case(case, nontrivial=nontrivial)
    ctx.count(f"{tag}:len={sum(1 for o in concrete if o['op'] not in ('new', 'obj', 'add') or o.get('late'))}")
    for o in concrete:
        ctx.count("op=" + o["op"] + (":" + o["how"] if "how" in o else ""))
        if o.get("conv_of") is not None:
            ctx.count("time-field-is-cached-conversion-of-another-field")
    # ---- correspondence
    line = "c09 run " + units_token() + " " + rw.conv.token() + " " + " | ".join(
        ("q " if o.get("setup") else "") + " ".join(op_tokens(o)) for o in concrete)
    model = ctx.driver.ask1(line).split(" || ")
    ctx.traces += 1
    if model and model[-1] == "ERR:unsupported":
        # outside the modelled fragment (e.g. a 2-dimensional sort/filter key): no expectation for that operation
        ctx.count("model-unsupported")
        k = len(model) - 1
        model, impl_out = model[:k], impl_out[:k]
    if model != impl_out:
        k = next((i for i, (a, b) in enumerate(itertools.zip_longest(model, impl_out)) if a != b), 0)
        ctx.disagree(f"history replay ({concrete[min(k, len(concrete) - 1)]['op']})",
                     {"ops": concrete, "first_difference_at_op": k},
                     model[k] if k < len(model) else None, impl_out[k] if k < len(impl_out) else None)
    if any(x.startswith("ERR:") for x in impl_out):
        ctx.count("history-ends-in:" + impl_out[-1])


def run(ctx: Ctx):
    ctx.proof = common.prove("C09")
    rng = ctx.rng
    ctx.rule = ("operation histories over a world of up to 4 datasets sharing objects: (a) every sequence of "
                f"length <= {4 if ctx.thorough else 3} over a symbolic alphabet of {len(SYMBOLIC_ALPHABET)} operations "
                "(mask/int subsets, extend both ways, merge with stable sort on tie-rich keys, filter, delete, late add, "
                "difference by the tie-rich key whose result replaces the first dataset) "
                "applied to a base world with all ten array field types, nested collections and shared other/ref_pos "
                "objects; (b) random histories up to length 25 with 0..8 rows, 1-/2-D float/bool/text/sigma fields, "
                "missing fields, differing units, anonymous and shared references, differences with 0..2 index fields "
                "into any slot, sometimes a field-less 0-row accumulator dataset that the others are merged into; "
                "(c) histories around difference: 0..3 index fields (text/float/bool/time) whose key tuples come from "
                "a small universe (other row order, duplicate keys, one-sided keys, nothing in common), value fields of "
                "every type at the top level and in collections nested to depth 2, one-sided fields, differing / "
                "incompatible / one-sided units, both copy flags, result into a new slot or replacing an operand, then "
                "up to 3 operations on the result (subsets, self-extend, positional self-difference, sort, the reverse "
                "difference joined on, delete); (d) histories around time fields: 2..3 datasets with 2..3 time fields "
                "(scale utc/gps/tai/tt and format mjd/jd/datetime/jyear differing between and inside the datasets, equal "
                "epochs in separate arrays, one array under two names, epochs 5..45 microseconds apart, 0-row datasets, "
                "missing and nested fields), extended both ways, merged with a time field as the sort key, subset; in (b) a "
                "time / time-delta field has another scale / format than in the other datasets in 45% of the cases; "
                "a history is non-trivial when it "
                "contains at least one row-moving operation; distinct by its canonical concrete operation list; after "
                "every operation the WHOLE world (all datasets) is compared")
    ctx.trusted += ["pint unit factors enter the model as a table computed from the real Unit() on this run",
                    "the epoch-by-epoch conversion of a time to another scale / format inside insert enters model and oracle as "
                    "a table computed from the real Time classes on this run (closed under repeated conversion to depth 4); "
                    "position-system conversion inside insert is not modelled (generators keep the system equal)",
                    "NumPy fancy indexing and np.insert modelled as list pick / splice",
                    "np.intersect1d(return_indices=True) on object-dtype records modelled as: distinct common key tuples "
                    "in ascending field-by-field order, each with its first row in either dataset",
                    "difference outside the modelled fragment (model answers `unsupported`, oracle skips): fields of "
                    "different types under one name, NumPy broadcasting of unequal shapes, NaN / nested index fields, "
                    "differences of empty epochs"]
    ctx.assumptions += ["the stored float values of the time formats gps_ws / gps_seconds are not compared (TimeBase.__new__ stores "
                        "from_jds(to_jds(value)): one ulp of drift per insert, accumulating); their value columns are the exact "
                        "function of jd1, jd2; jd1 / jd2 and the values of all other formats are compared exactly",
                        "a history ends at the first operation that raises",
                        "all values are exactly representable (integers / dyadic rationals)"]
    # corpus first
    cdir = common.VERIF / "corpus" / "C09"
    if cdir.exists():
        for p in sorted(cdir.glob("*.json")):
            ops = json.loads(p.read_text())["ops"]
            run_history(ctx, ops, "corpus", corpus=True)
    # (a) bounded exhaustive
    # quick: all sequences <= 3 on base world 0; thorough: <= 4 on base world 0 and <= 3 on base world 1
    plan = [(0, 4), (1, 3)] if ctx.thorough else [(0, 3)]
    for bv, depth in plan:
        base = base_world_ops(bv)
        for n in range(0, depth + 1):
            for seq in itertools.product(SYMBOLIC_ALPHABET, repeat=n):
                run_history(ctx, base + list(seq), f"exhaustive{bv}")
    # (b) random
    for _ in range(ctx.budget(300, 2000)):
        run_history(ctx, random_history(rng), "random")
    # (c) histories around `difference`
    for _ in range(ctx.budget(350, 2500)):
        run_history(ctx, diff_history(rng), "difference")
    # (d) histories around time fields of different scale / format, equal epochs, epochs microseconds apart
    for _ in range(ctx.budget(220, 1200)):
        run_history(ctx, time_history(rng), "time")


def replay(payload):
    """re-run the oracle on a stored history against the real code"""
    ctx = Ctx("C09", "quick", 0)
    c = payload.get("replay", payload)
    ops = c["ops"] if "ops" in c else c["case"]["ops"]
    rw = RealWorld(tv=True)
    rf = ref.RefWorld(conv=rw.conv)
    done = []
    for op in ops:
        done.append(op)
        status, out = rw.apply(op)
        exp_status, exp_out = rf.apply(op)
        ref.judge(ctx, op, done, status, out, exp_status, exp_out, rw, rf)
        print(" ".join(op_tokens(op)), "->", status, out if status != "ok" else "")
        if status != "ok" or exp_status != "ok" or ctx.violations:
            break
    for v in ctx.violations:
        print("VIOLATION", v.key, "-", v.what)
    print("replayed", len(done), "operations;", len(ctx.violations), "oracle failure(s)")
    return 1 if ctx.violations else 0
