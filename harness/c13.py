"""C13 — SP3 orbit files are parsed into exactly the positions, clocks and epochs given.

translate:   translator/extract_sp3.py → lean/Midgard/Generated/Sp3Cols.lean (header / P / V column tables, unit factors)
prove:       lean/Midgard/Props/C13.lean
correspond:  files rendered by an independent writer (SP3-c / SP3-d record formats typed here) are parsed by the real
             parser and by the compiled Lean model; entries, header meta and the Dataset epoch compared
oracle:      generating orbit model vs as_dict(), meta and as_dataset()
"""
from __future__ import annotations

import json
import math
import os
import sys
import tempfile
import warnings
from datetime import datetime, timedelta
from fractions import Fraction

import numpy as np

from . import c13_adv, c13_hist, common
from .common import Ctx, hexs

C = 299792458
SYS = "GRECJIS"
J2000 = datetime(2000, 1, 1)


# ------------------------------------------------------------------------------------------
# independent writer (SP3-c / SP3-d: "The Extended Standard Product 3 Orbit Format", Hilla 2010/2016)


def micro(rng, kind):
    """a value of an F14.6 field in units of 1e-6 (None-free: the sentinels are the values 0 and 999999999999)"""
    if kind == "pos":
        k = rng.random()
        if k < 0.06:
            return 0                                            # 0.000000: bad or absent
        if k < 0.12:                                            # the smallest non-zero values next to the sentinel
            return rng.choice([1, -1, 2, -2, 10, -10])
        v = rng.randint(-45_000_000_000, 45_000_000_000)
        return v or 1
    k = rng.random()
    if k < 0.08:
        return 999_999_999_999                                  # 999999.999999: bad or absent
    if k < 0.14:  # values next to the sentinel (and its negative, which is an ordinary value)
        return rng.choice([999_999_999_998, 999_999_999_997, 999_999_999_990, -999_999_999_999, -999_999_999_998,
                           999_999_000_000, 1, -1, 0])
    return rng.randint(-999_999_000_000, 999_999_000_000)


SENTINEL_SUBSETS = [("x", "y"), ("x", "z"), ("x", "clk"), ("y", "z"), ("y", "clk"), ("z", "clk"),
                    ("x", "y", "z"), ("x", "y", "clk"), ("x", "z", "clk"), ("y", "z", "clk"), ("x", "y", "z", "clk")]


def corr_fields(a, b, c, d):
    """the six correlation coefficients of an EP / EV record (8 columns each), derived from the drawn values"""
    vals = [(a * 7919 + b) % 19999999 - 9999999, (b * 104729 + c) % 19999999 - 9999999, (c * 1299709 + d) % 19999999 - 9999999,
            (d * 31 + a) % 19999999 - 9999999, (a * b + c) % 19999999 - 9999999, (b * c + d) % 19999999 - 9999999]
    return "".join(f" {v:8d}" for v in vals)


def gen_model(rng, quick, version=None, pv=None, nsat=None, nep=None, sats=None, ncomments=None):
    """an abstract SP3 file (the `File` of lean/Midgard/Spec/Sp3File.lean) as plain Python data.
    The keyword arguments override the drawn values (without them the random stream is what it always was)."""
    v0 = rng.choice("cd")
    version = v0 if version is None else version
    p0 = rng.choice("PPV")
    pv = p0 if pv is None else pv
    k = rng.random()
    if k < 0.08:
        n0 = 1
    elif k < 0.16:
        n0 = rng.randint(86, 99)                                # more than 85: extra + / ++ continuation lines
    else:
        n0 = rng.randint(1, 12 if quick else 90)
    nsat = n0 if nsat is None else nsat
    if sats is not None:
        nsat = len(sats)
    e0 = rng.randint(1, 6 if quick else 50)
    if quick and n0 > 85:
        e0 = rng.randint(1, 2)
    nep = e0 if nep is None else nep
    sats = [] if sats is None else list(sats)
    while len(sats) < nsat:
        s = f"{rng.choice(SYS)}{rng.randint(1, 99):02d}"
        if s not in sats:
            sats.append(s)
    time_sys = rng.choice(["GPS", "GPS", "UTC"])
    base_pos = rng.choice([12_500_000, 20_000_000, 11_000_000])            # F10.7, units 1e-7
    base_clk = rng.choice([1_025_000_000, 2_000_000_000, 1_500_000_000])   # F12.9, units 1e-9
    t0 = datetime(rng.randint(1995, 2035), rng.randint(1, 12), rng.randint(1, 28), rng.randint(0, 23), rng.choice([0, 15, 30, 45, rng.randint(0, 59)]))
    frac0 = rng.choice([0, 0, 5_000_000, 1, 9_999_999, rng.randint(0, 9_999_999)])  # units of 1e-7 s
    if rng.random() < 0.3:  # several epochs inside one integral second
        step7 = rng.choice([1_000_000, 2_500_000, 5_000_000, 1, 3_333_333])
    else:
        step7 = rng.choice([900, 300, 30, 1]) * 10**7 + rng.choice([0, 0, 0, 5_000_000, rng.randint(0, 9_999_999)])
    agency = rng.choice(["IGS", "COD", "ESA", "GFZ", "NGS", "JPL"])
    coord = rng.choice(["IGb08", "IGS14", "IGS20", "ITR97", "WGS84"])
    orb = rng.choice(["HLM", "FIT", "EXT", "BCT"])
    data_used = rng.choice(["ORBIT", "d+D", "u+U", "__u+U"])
    interval_txt = f"{float(Fraction(step7, 10**7)):.8f}"
    gps0 = datetime(1980, 1, 6)
    wk = (t0 - gps0).days // 7
    sow = (t0 - gps0 - timedelta(weeks=wk)).total_seconds() + frac0 / 1e7
    mjd = (t0 - datetime(1858, 11, 17)).days
    line1 = [pv, str(t0.year), str(t0.month), str(t0.day), str(t0.hour), str(t0.minute), f"{t0.second + frac0 / 1e7:.8f}",
             str(nep), data_used, coord, orb, agency]
    line2 = [str(wk), f"{sow:.8f}", interval_txt, str(mjd), f"{(t0.hour * 3600 + t0.minute * 60 + t0.second) / 86400:.13f}"]
    ids = sats + ["  0"] * (-len(sats) % 17)
    satlines = []
    for i in range(0, max(len(ids), 85), 17):
        chunk = ids[i:i + 17] if i < len(ids) else ["  0"] * 17
        satlines.append(("p", (" %3d   " % nsat if i == 0 else "       ") + "".join(chunk)))
    for i in range(0, max(len(ids), 85), 17):
        satlines.append(("pp", "       " + "".join(f"{rng.randint(0, 12):3d}" for _ in range(17))))
    ft = rng.choice(["G", "M", "R", "E"])
    tail = [("i", "    0    0    0    0      0      0      0      0         0")] * 2
    for _ in range((rng.randint(4, 6) if version == "c" else rng.randint(0, 8)) if ncomments is None else ncomments):
        tail.append(("c", " " + common.digest(rng.random())[:rng.randint(0, 12)] + " comment"))
    epochs = []
    for k in range(nep):
        tot7 = frac0 + k * step7
        t = t0 + timedelta(seconds=tot7 // 10**7)
        recs = []
        for s in sats:
            r = {"sat": s, "x": micro(rng, "pos"), "y": micro(rng, "pos"), "z": micro(rng, "pos"), "clk": micro(rng, "clk"),
                 "acc": None, "pad80": rng.random() >= 0.7, "extras": []}
            cut = rng.random()
            if cut >= 0.35:
                acc = {c: (None if rng.random() < 0.15 else rng.randint(0, 30)) for c in ("sx", "sy", "sz")}
                acc["sclk"] = None if rng.random() < 0.15 else rng.randint(0, 200)
                acc["flags"] = [rng.choice(["", "E"]), rng.choice(["", "P"]), rng.choice(["", "M"]), rng.choice(["", "P"])] if cut > 0.6 else [""] * 4
                r["acc"] = acc
            # EP / EV records in the layout of the standard (SP3-c/d: `EP  55  55  55     222  1234567 -1234567 …`: standard deviations
            # in mm / ps - 1e-4 mm/s, 1e-4 ps/s for EV - then six correlation coefficients), non-zero, also after P records whose
            # accuracy columns are blank or missing: those stay NaN, the EP values are not delivered
            if rng.random() < 0.1:
                a, b, c, d = rng.randint(0, 9999), rng.randint(0, 9999), rng.randint(0, 9999), rng.randint(0, 9999999)
                r["extras"].append(("EP", f"  {max(a, 1):4d} {max(b, 1):4d} {max(c, 1):4d} {max(d, 1):7d}" + corr_fields(a, b, c, d)))
            if pv == "V":
                r["extras"].append(("V", s + "".join(f"{rng.uniform(-30000, 30000):14.6f}" for _ in range(4))))
                if rng.random() < 0.1:
                    a, b, c, d = rng.randint(0, 9999), rng.randint(0, 9999), rng.randint(0, 9999), rng.randint(0, 9999999)
                    r["extras"].append(("EV", f"  {max(a, 1):4d} {max(b, 1):4d} {max(c, 1):4d} {max(d, 1):7d}" + corr_fields(a, b, c, d)))
            # blank lines after the record (kind "B": 0..5 blanks and nothing else).  Decided by the values already drawn, so the
            # random stream - and with it every generated file apart from these lines - is what it was without them
            z = (abs(r["x"]) + 7 * abs(r["clk"]) + 3 * abs(r["y"])) % 40
            if z < 3:
                for j in range(1 + z % 2):
                    b = ("B", " " * ((abs(r["z"]) + 5 * j) % 6))
                    r["extras"].insert(0 if (z == 2 and r["extras"]) else len(r["extras"]), b)
            # several bad-value markers at once (every 2-, 3-subset of x y z clk and all four: a placeholder record still is one
            # entry, of NaNs).  Decided by the values already drawn (after the blank lines), so the random stream is unchanged
            h = (abs(r["x"]) // 3 + 5 * abs(r["y"]) + 11 * abs(r["clk"])) % 25
            if h < 2:
                k = (abs(r["z"]) // 7 + abs(r["x"])) % 14
                subset = SENTINEL_SUBSETS[k] if k < 11 else ("x", "y", "z", "clk")
                for c in subset:
                    r[c] = 999_999_999_999 if c == "clk" else 0
            recs.append(r)
        epochs.append({"t": t, "s7": t.second * 10**7 + tot7 % 10**7, "recs": recs})
    return {"version": version, "line1": line1, "line2": line2, "satlines": satlines, "ft": ft, "ts": time_sys,
            "bp": base_pos, "bc": base_clk, "tail": tail, "epochs": epochs}


def f14_6(n):
    a = abs(n)
    return f"{'-' if n < 0 else ''}{a // 10**6}.{a % 10**6:06d}".rjust(14)


HDR_TAG = {"p": "+ ", "pp": "++", "i": "%i", "c": "/*"}


def py_render(F):
    """the independent writer: SP3-c/d record formats typed from the format documents (f-strings)"""
    a, b = F["line1"], F["line2"]
    L = [f"#{F['version']}{a[0]:1}{a[1]:>4} {a[2]:>2} {a[3]:>2} {a[4]:>2} {a[5]:>2} {a[6]:>11} {a[7]:>7} {a[8]:>5} {a[9]:>5} {a[10]:>3} {a[11]:>4}",
         f"## {b[0]:>4} {b[1]:>15} {b[2]:>14} {b[3]:>5} {b[4]:>15}"]
    L += [HDR_TAG[k] + t for k, t in F["satlines"]]
    bp, bc = F["bp"], F["bc"]
    L += [f"%c {F['ft']:<2} cc {F['ts']:<3} ccc cccc cccc cccc cccc ccccc ccccc ccccc ccccc",
          "%c cc cc ccc ccc cccc cccc cccc cccc ccccc ccccc ccccc ccccc",
          f"%f {f'{bp // 10**7}.{bp % 10**7:07d}':>10} {f'{bc // 10**9}.{bc % 10**9:09d}':>12}  0.00000000000  0.000000000000000",
          "%f  0.0000000  0.000000000  0.00000000000  0.000000000000000"]
    L += [HDR_TAG[k] + t for k, t in F["tail"]]
    for e in F["epochs"]:
        t = e["t"]
        L.append(f"*  {t.year:4d} {t.month:2d} {t.day:2d} {t.hour:2d} {t.minute:2d} {e['s7'] // 10**7:2d}.{e['s7'] % 10**7:07d}0")
        for r in e["recs"]:
            line = f"P{r['sat']:<3}" + f14_6(r["x"]) + f14_6(r["y"]) + f14_6(r["z"]) + f14_6(r["clk"])
            acc = r["acc"]
            if acc is not None:
                c2 = lambda c, w: " " * w if c is None else f"{c:{w}d}"
                line += f" {c2(acc['sx'], 2)} {c2(acc['sy'], 2)} {c2(acc['sz'], 2)} {c2(acc['sclk'], 3)}"
                fl = [f or " " for f in acc["flags"]]
                line += f" {fl[0]}{fl[1]}  {fl[2]}{fl[3]}"
            L.append(line.ljust(80) if r["pad80"] else line.rstrip())
            L += [("" if k == "B" else k) + t for k, t in r["extras"]]     # a blank line has no tag
    L.append("EOF")
    return "\n".join(L) + "\n"


def wire(F):
    """the abstract file on the driver's line protocol (see lean/Driver/C13.lean)"""
    o = [hexs(F["version"])] + [hexs(c) for c in F["line1"]] + [hexs(c) for c in F["line2"]]
    o.append(str(len(F["satlines"])))
    for k, t in F["satlines"]:
        o += [k, hexs(t)]
    o += [hexs(F["ft"]), hexs(F["ts"]), str(F["bp"]), str(F["bc"]), str(len(F["tail"]))]
    for k, t in F["tail"]:
        o += [k, hexs(t)]
    o.append(str(len(F["epochs"])))
    opt = lambda c: "-" if c is None else str(c)
    for e in F["epochs"]:
        t = e["t"]
        o += [str(t.year), str(t.month), str(t.day), str(t.hour), str(t.minute), str(e["s7"]), str(len(e["recs"]))]
        for r in e["recs"]:
            o += [hexs(r["sat"]), str(r["x"]), str(r["y"]), str(r["z"]), str(r["clk"])]
            acc = r["acc"]
            if acc is None:
                o.append("0")
            else:
                o += ["1", opt(acc["sx"]), opt(acc["sy"]), opt(acc["sz"]), opt(acc["sclk"])] + [hexs(f) for f in acc["flags"]]
            o += ["1" if r["pad80"] else "0", str(len(r["extras"]))]
            for k, t in r["extras"]:
                o += [k, hexs(t)]
    return " ".join(o)


def gen_file(rng, quick, **kw):
    """abstract file -> what the oracle needs (the generating orbit model) + the independent writer's text"""
    return file_of_model(gen_model(rng, quick, **kw))


def file_of_model(F):
    recs = []
    for e in F["epochs"]:
        t, f7 = e["t"], e["s7"] % 10**7
        for r in e["recs"]:
            acc = r["acc"] or {}
            recs.append({"t": t, "f7": f7, "sat": r["sat"],
                         **{"p" + ax: (None if r[ax] == 0 else Fraction(r[ax], 10**6)) for ax in "xyz"},
                         "clk": None if r["clk"] == 999_999_999_999 else Fraction(r["clk"], 10**6),
                         "sx": acc.get("sx"), "sy": acc.get("sy"), "sz": acc.get("sz"), "sclk": acc.get("sclk")})
    a, b = F["line1"], F["line2"]
    meta = {"version": F["version"], "pv_flag": a[0], "time_sys": F["ts"], "coord_sys": a[9], "agency": a[11],
            "num_epoch": a[7], "epoch_interval": b[2], "orb_type": a[10], "data_used": a[8], "file_type": F["ft"]}
    return {"model": F, "text": py_render(F), "recs": recs, "meta": meta,
            "base_pos": Fraction(F["bp"], 10**7), "base_clk": Fraction(F["bc"], 10**9)}


# ------------------------------------------------------------------------------------------


class Impl:
    def __init__(self):
        self.dir = tempfile.mkdtemp(prefix="c13-")
        self.n = 0
        from midgard.parsers.sp3 import Sp3dParser

        self.cls = Sp3dParser

    def parse(self, text, via_plugin=False):
        """via_plugin: through the public entry `parsers.parse_file("sp3", path)` instead of the class"""
        self.n += 1
        fn = os.path.join(self.dir, f"o{self.n % 8}.sp3")
        with open(fn, "w", newline="") as f:
            f.write(text)
        try:
            with warnings.catch_warnings():
                warnings.simplefilter("ignore")
                if via_plugin:
                    from midgard import parsers

                    p = parsers.parse_file("sp3", fn)
                else:
                    p = self.cls(fn)
                    p.parse()
            return "ok", p
        except BaseException as e:  # noqa: BLE001
            if isinstance(e, KeyboardInterrupt):
                raise
            return "raises", f"{type(e).__name__}: {e}"

    def dataset(self, p):
        try:
            with warnings.catch_warnings():
                warnings.simplefilter("ignore")
                return "ok", p.as_dataset()
        except BaseException as e:  # noqa: BLE001
            if isinstance(e, KeyboardInterrupt):
                raise
            return "raises", f"{type(e).__name__}: {e}"

    def cleanup(self):
        import shutil

        shutil.rmtree(self.dir, ignore_errors=True)


def parse_timestr(s):
    """'2016-03-01T00:00:00.0000000' → (datetime of the whole second, 1e-7 s units)"""
    try:
        a, b = s.split(".")
        return datetime.strptime(a, "%Y-%m-%dT%H:%M:%S"), int(b.ljust(7, "0")[:7]) if len(b) <= 7 else None
    except ValueError:
        return None, None  # not a valid epoch text: reported by the caller as a wrong epoch


def relclose(x: float, q: Fraction, rel) -> bool:
    if math.isnan(x):
        return False
    return abs(Fraction(x) - q) <= rel * abs(q) + Fraction(1, 10**300)


def dataset_seconds(dset):
    """seconds since 2000-01-01 of each dataset epoch, exact from the stored jd parts"""
    j1 = np.atleast_1d(np.asarray(dset.time.jd1, dtype=float))
    j2 = np.atleast_1d(np.asarray(dset.time.jd2, dtype=float))
    return [((Fraction(float(a)) - Fraction(24515445, 10)) + Fraction(float(b))) * 86400 for a, b in zip(j1, j2)]


REL = Fraction(4, 10**16)


def compare_model(ctx, case, p, dset_res, model):
    """correspondence: compiled model vs real parser"""
    d = p.data
    ents = model["entries"]
    n = len(d.get("time", []))
    if n != len(ents):
        return f"{len(ents)} entries in the model, {n} in the code"
    mm = {common.unhex(k): v for k, v in model["meta"]}
    im = {k: v for k, v in p.meta.items() if not k.startswith("__")}
    if sorted(mm) != sorted(im):
        return f"meta keys {sorted(mm)} vs {sorted(im)}"
    for k, v in mm.items():
        if "s" in v:
            if common.unhex(v["s"]) != im[k]:
                return f"meta {k}: {common.unhex(v['s'])!r} vs {im[k]!r}"
        elif float(Fraction(v["f"])) != im[k]:
            return f"meta {k}: {v['f']} vs {im[k]!r}"
    dsec = None
    if dset_res is not None and dset_res[0] == "ok":
        dsec = dataset_seconds(dset_res[1])

    def num(x, q, what, i, rel=REL):
        if q is None:
            return None if (isinstance(x, float) and math.isnan(x)) else f"{what}[{i}]: model NaN, code {x!r}"
        return None if relclose(float(x), Fraction(q), rel) else f"{what}[{i}]: model {float(Fraction(q))!r}, code {float(x)!r}"

    for i, e in enumerate(ents):
        y, mo, dd, h, mi, s7 = e["time"]
        want = f"{y}-{mo:02d}-{dd:02d}T{h:02d}:{mi:02d}:{s7 // 10**7:02d}.{s7 % 10**7:07d}"
        if d["time"][i] != want:
            return f"time[{i}]: model {want}, code {d['time'][i]}"
        if d["satellite"][i] != common.unhex(e["sat"]) or d["system"][i] != common.unhex(e["system"]):
            return f"satellite[{i}]: {common.unhex(e['sat'])} vs {d['satellite'][i]}"
        for j in range(3):
            r = num(d["sat_pos"][i][j], e["pos"][j], "sat_pos", i) or num(d["sat_pos_sigma"][i][j], e["psig"][j], "sat_pos_sigma", i, Fraction(1, 10**13))
            if r:
                return r
        r = num(d["sat_clock_bias"][i], e["clk"], "sat_clock_bias", i) or num(d["sat_clock_bias_sigma"][i], e["csig"], "sat_clock_bias_sigma", i, Fraction(1, 10**13))
        if r:
            return r
        if dsec is not None and abs(dsec[i] - Fraction(e["dsec"])) > Fraction(1, 10**8):
            return f"dataset time[{i}]: model {float(Fraction(e['dsec']))!r} s, code {float(dsec[i])!r} s"
    return None


def oracle(ctx, case, f, p, dset_res):
    d = p.data
    recs = f["recs"]
    for k, want in f["meta"].items():
        got = p.meta.get(k)
        if got != want:
            ctx.violate(f"header:{k}", f"header field {k}: file has {want!r}, parser returned {got!r}", case)
            return
    for k, want in (("base_posvel", f["base_pos"]), ("base_clkrate", f["base_clk"])):
        if p.meta.get(k) != float(want):
            ctx.violate(f"header:{k}", f"{k}: {p.meta.get(k)!r} vs {float(want)!r}", case)
            return
    lens = {k: len(v) for k, v in d.items()}
    if len(set(lens.values())) > 1 or lens.get("time", 0) != len(recs):
        ctx.violate("record-count", f"{len(recs)} position records written, columns have lengths {lens}", case)
        return
    for i, r in enumerate(recs):
        c = {**case, "record": i}
        t, f7 = parse_timestr(d["time"][i])
        if t != r["t"] or f7 != r["f7"]:
            ctx.violate("epoch", f"record {i}: epoch line says {r['t'].isoformat()}+{r['f7']}e-7 s, parser has {d['time'][i]}", c)
            return
        if d["satellite"][i] != r["sat"] or d["system"][i] != r["sat"][0]:
            ctx.violate("satellite", f"record {i}: {d['satellite'][i]} vs {r['sat']}", c)
            return
        for j, ax in enumerate("xyz"):
            v = r["p" + ax]
            g = float(d["sat_pos"][i][j])
            if (v is None) != math.isnan(g) or (v is not None and not relclose(g, v * 1000, REL)):
                ctx.violate(f"position{':sentinel' if v is None else ''}", f"record {i} {ax}: file {None if v is None else float(v)} km, parser {g!r} m", c)
                return
            code = r["s" + ax]
            gs = float(d["sat_pos_sigma"][i][j])
            if code is None:
                if not math.isnan(gs):
                    ctx.violate("sigma:blank", f"record {i}: blank accuracy column gave {gs!r}", c)
                    return
            elif not relclose(gs, f["base_pos"] ** code / 1000, Fraction(1, 10**12)):
                ctx.violate("sigma:position", f"record {i} {ax}: code {code}, base {float(f['base_pos'])}: expected "
                            f"{float(f['base_pos'] ** code / 1000)!r} m, parser {gs!r}", c)
                return
        v = r["clk"]
        g = float(d["sat_clock_bias"][i])
        if (v is None) != math.isnan(g) or (v is not None and not relclose(g, v * C / 10**6, REL)):
            ctx.violate(f"clock{':sentinel' if v is None else ''}", f"record {i}: file {None if v is None else float(v)} us, parser {g!r} m", c)
            return
        code = r["sclk"]
        gs = float(d["sat_clock_bias_sigma"][i])
        if code is None:
            if not math.isnan(gs):
                ctx.violate("sigma:blank", f"record {i}: blank clock accuracy column gave {gs!r}", c)
                return
        elif not relclose(gs, f["base_clk"] ** code * C / 10**12, Fraction(1, 10**12)):
            ctx.violate("sigma:clock", f"record {i}: code {code}, base {float(f['base_clk'])}: expected "
                        f"{float(f['base_clk'] ** code * C / 10**12)!r} m, parser {gs!r}", c)
            return


def oracle_dataset(ctx, case, f, p, dset_res):
    recs = f["recs"]
    if dset_res[0] == "raises":
        ctx.violate(f"dataset:raises:{dset_res[1].split(':')[0]}", f"as_dataset() raises {dset_res[1]}", case)
        return
    dset = dset_res[1]
    secs = dataset_seconds(dset)
    if len(secs) != len(recs):
        ctx.violate("dataset:rows", f"dataset has {len(secs)} rows for {len(recs)} records", case)
        return
    if str(dset.time.scale) != f["meta"]["time_sys"].lower():
        ctx.violate("dataset:scale", f"dataset time scale {dset.time.scale} for time system {f['meta']['time_sys']}", case)
        return
    pos = np.asarray(dset.sat_pos)
    clk = np.asarray(dset.sat_clock_bias)
    for i, r in enumerate(recs):
        want = Fraction(int((r["t"] - J2000).total_seconds())) + Fraction(r["f7"], 10**7)
        if abs(secs[i] - want) > Fraction(1, 10**7):
            ctx.violate("dataset:epoch" + (":fractional" if r["f7"] else ""), f"record {i}: epoch {r['t'].isoformat()}+{r['f7']}e-7 s, dataset is off by "
                        f"{float(secs[i] - want)!r} s", {**case, "record": i})
            return
        for j, ax in enumerate("xyz"):
            v = r["p" + ax]
            if (v is None) != math.isnan(pos[i][j]) or (v is not None and not relclose(float(pos[i][j]), v * 1000, REL)):
                ctx.violate("dataset:position", f"record {i} {ax}: dataset has {pos[i][j]!r}", {**case, "record": i})
                return
        v = r["clk"]
        if (v is None) != math.isnan(clk[i]) or (v is not None and not relclose(float(clk[i]), v * C / 10**6, REL)):
            ctx.violate("dataset:clock", f"record {i}: dataset has {clk[i]!r}", {**case, "record": i})
            return


def one_file(ctx, impl, drv, f, corpus=False):
    case = {"file": f["text"]}
    ctx.case({"t": common.digest(f["text"])}, nontrivial=True)
    model_json = None
    if not corpus:
        F = f["model"]
        nsat = max(len(e["recs"]) for e in F["epochs"])
        ctx.count(f"version:{f['meta']['version']}{f['meta']['pv_flag']}")
        ctx.count(f"time_sys:{f['meta']['time_sys']}")
        ctx.count("fractional-epochs" if any(r["f7"] for r in f["recs"]) else "whole-second-epochs")
        if len({r["t"] for r in f["recs"]}) < len({(r["t"], r["f7"]) for r in f["recs"]}):
            ctx.count("epochs-sharing-a-second (spacing below 1 s)")
        ctx.count("satellites:1" if nsat == 1 else "satellites:>=86 (+/++ continuation lines)" if nsat >= 86 else "satellites:2..85")
        ctx.count(f"+/++ header lines:{len(F['satlines'])}")
        kinds = {k for e in F["epochs"] for r in e["recs"] for k, _ in r["extras"]}
        for k in sorted(kinds):
            ctx.count("files with blank lines after a P record" if k == "B" else f"files with {k} lines")
        blanks = [t for e in F["epochs"] for r in e["recs"] for k, t in r["extras"] if k == "B"]
        ctx.count("blank lines", len(blanks))
        ctx.count("blank lines:empty (no blanks)", sum(1 for t in blanks if t == ""))
        ctx.count("blank lines:directly before EOF", sum(1 for e in F["epochs"][-1:] for r in e["recs"][-1:] if r["extras"] and r["extras"][-1][0] == "B"))
        ctx.count("records", len(f["recs"]))
        ctx.count("records:cut after clock", sum(1 for e in F["epochs"] for r in e["recs"] if r["acc"] is None))
        ctx.count("records:padded to 80 columns", sum(1 for e in F["epochs"] for r in e["recs"] if r["pad80"]))
        for e in F["epochs"]:
            for i, r in enumerate(e["recs"]):
                marks = sum([r["x"] == 0, r["y"] == 0, r["z"] == 0, r["clk"] == 999_999_999_999])
                if marks >= 2:
                    where = "only record" if len(e["recs"]) == 1 else "first" if i == 0 else "last" if i == len(e["recs"]) - 1 else "middle"
                    ctx.count(f"records:{'all four' if marks == 4 else marks} bad-value markers at once ({where} in the block)")
                blank_acc = r["acc"] is None or None in (r["acc"]["sx"], r["acc"]["sy"], r["acc"]["sz"], r["acc"]["sclk"])
                if blank_acc and any(k == "EP" for k, _ in r["extras"]):
                    ctx.count("records:blank or missing accuracy columns followed by an EP record")
        ctx.count("records:position sentinel", sum(1 for r in f["recs"] if None in (r["px"], r["py"], r["pz"])))
        ctx.count("records:clock sentinel", sum(1 for r in f["recs"] if r["clk"] is None))
        ctx.count("records:blank accuracy code", sum(1 for e in F["epochs"] for r in e["recs"] if r["acc"] and None in (r["acc"]["sx"], r["acc"]["sy"], r["acc"]["sz"], r["acc"]["sclk"])))
        # the abstract file through the spec writer and the model parser (the functions `file_roundtrip` is about)
        a = drv.ask1("c13 model " + wire(F))
        if a == "bad-op":
            ctx.disagree("sp3 abstract file not accepted by the driver", case, a, "")
            return
        m = json.loads(a)
        if not m["wf"]:
            ctx.disagree("sp3 generated file does not satisfy the theorem's well-formedness predicate (generator outside File.wf)", case, "wf=false", "")
        elif not m["thm"]:
            ctx.disagree("sp3 file_roundtrip instance: compiled parseFile (render F) differs from expectedMeta/expectedEntries", case, "thm=false", "")
        lean_text = common.unhex(m["text"])
        if lean_text != f["text"]:
            i = next((k for k, (x, y) in enumerate(zip(lean_text.split("\n"), f["text"].split("\n"))) if x != y), -1)
            ctx.disagree("sp3 spec writer (Lean render) vs independent writer (Python)", case,
                         lean_text.split("\n")[i] if i >= 0 else f"{len(lean_text)} characters", f["text"].split("\n")[i] if i >= 0 else f"{len(f['text'])} characters")
        model_json = m["parse"]
    st, p = impl.parse(f["text"])
    if model_json is None:
        a = drv.ask1(f"c13 file {hexs(f['text'])}")
        model_json = "RAISES" if a == "RAISES" else a if a == "bad-op" else json.loads(a)
    if st == "raises":
        ctx.violate(f"raises:{p.split(':')[0]}", f"well-formed file makes the parser raise {p}", case)
        if model_json != "RAISES":
            ctx.disagree("sp3 (model returns, code raises)", case, "value", p)
        return
    dres = impl.dataset(p)
    if model_json in ("RAISES", "bad-op"):
        ctx.disagree("sp3 (model raises, code returns)", case, model_json, "value")
    else:
        dd = compare_model(ctx, case, p, dres, model_json)
        if dd:
            ctx.disagree("sp3 entries / meta / dataset epoch", case, dd, "")
    if not corpus:
        oracle(ctx, case, f, p, dres)
        oracle_dataset(ctx, case, f, p, dres)


def run(ctx: Ctx):
    from translator import extract_sp3

    ctx.extra["tables_regenerated"] = bool(extract_sp3.main())
    ctx.proof = common.prove("C13")
    drv = ctx.driver
    rng = ctx.rng
    quick = not ctx.thorough
    impl = Impl()
    ctx.rule = ("abstract SP3-c / SP3-d files (Spec/Sp3File.lean `File`) rendered by the Lean spec writer AND by an independent Python writer (texts must be equal), "
                "each checked against File.wf and the compiled instance of file_roundtrip, then parsed by the real parser: 1, 2..90 and 86..99 satellites of any constellation letter (extra +/++ header lines), "
                "1..50 epochs with whole and fractional (1e-7 s) seconds and steps incl. sub-second steps (0.1/0.25/0.5 s, several epochs per integral second), P and P+V files with EP/EV lines, "
                "0.000000 / 999999.999999 sentinels and the values next to them (+-0.000001, +-0.000002, 999999.999998, -999999.999999), blank accuracy codes, records cut after the clock or after the codes, "
                "blank lines of 0..5 blanks after position records (about 7 % of the records; part of File.wf and of file_roundtrip), "
                "GPS and UTC time systems, comment/%i/+/++ header lines; every case non-trivial; distinct by file text.  "
                + c13_adv.RULE)
    ctx.trusted += ["float(text) vs correctly rounded double of the exact rational; products with unit factors compared to 4e-16 relative, "
                    "base**code to 1e-13 relative (floating-point error measured, not proved)",
                    "Time(datetime)+TimeDelta(seconds) of midgard.data.time taken as given (C02/C03); dataset epoch compared to 1e-8 s",
                    "the driver's wire parser for abstract files (lean/Driver/C13.lean, namespace Wire); the Lean spec writer is compared byte for byte with the independent Python writer on every generated file"]
    ctx.assumptions += ["seconds fields carry at most 7 decimals (the 8th printed digit is 0), so '{:010.7f}' is exact",
                        "no duplicate epochs (outside 'well-formed'); the abstract files of File.wf contain blank lines (0..5 blanks) after position records only "
                        "(also directly before EOF); blank lines directly after an epoch line, after EOF, in the header, and whitespace other than blanks are the adversarial kinds blank-*"] + c13_adv.ASSUMPTIONS
    ctx.extra["adversarial_kinds"] = {**{k: {"real_parser": e, "property_defines_result": p} for k, (e, p) in c13_adv.EXPECT.items()},
                                      **{k: {"real_parser": v, "property_defines_result": True} for k, v in c13_adv.MODEL_KINDS.items()}}
    try:
        for fcase in sorted((common.VERIF / "corpus" / "C13").glob("*.json")):
            c = json.loads(fcase.read_text())
            c = c.get("replay", c)
            if "adv" in c:      # a text-level adversarial file: model vs code + the stated behaviour of the real parser
                c13_adv.text_case(ctx, sys.modules[__name__], impl, drv, c["adv"], c["file"], c["ref"], corpus=True, via_plugin=bool(c.get("via_plugin")))
                continue
            ctx.count("corpus")
            one_file(ctx, impl, drv, {"text": c["file"], "recs": [], "meta": {}}, corpus=True)
        for f in sorted((common.REPO / "tests" / "parsers" / "example_files").glob("sp3*")):
            ctx.count("example-file")
            one_file(ctx, impl, drv, {"text": f.read_text(), "recs": [], "meta": {}}, corpus=True)
        for _ in range(ctx.budget(350, 300)):   # thorough: full-size files (~1000 records each, ~1 s per file)
            one_file(ctx, impl, drv, gen_file(rng, quick))
        if ctx.thorough:                          # plus many small ones
            for _ in range(1200):
                one_file(ctx, impl, drv, gen_file(rng, True))
        # adversarial files for the line grouping (after the generated ones: their random stream stays what it was)
        c13_adv.run_adv(ctx, sys.modules[__name__], impl, drv, ctx.budget(8, 80))
        # histories: parses after constant.use_source blocks (ended, nested, left by an exception) in the same process
        c13_hist.history_cases(ctx, sys.modules[__name__], impl, rng, ctx.budget(25, 150))
    finally:
        impl.cleanup()
    ctx.traces = ctx.evaluations


def replay(payload):
    c = payload.get("replay", payload)
    if "file" not in c and payload.get("disagreements"):      # a "broken correspondence" replay file: its first case
        c = payload["disagreements"][0]["case"]
        payload = {**payload, "replay": c, "key": payload["disagreements"][0]["correspondence"]}
    if "adv" in c:
        return c13_adv.replay_adv(sys.modules[__name__], payload)
    if "history" in c:
        return c13_hist.replay_history(sys.modules[__name__], payload)
    ctx = Ctx("C13", "quick", 0)
    impl = Impl()
    try:
        st, p = impl.parse(c["file"])
        print("key:", payload.get("key"), "|", payload.get("what"))
        if st == "raises":
            print("VIOLATION (replayed): raises", p)
            return 1
        a = ctx.driver.ask1(f"c13 file {hexs(c['file'])}")
        dres = impl.dataset(p)
        d = compare_model(ctx, c, p, dres, json.loads(a)) if a not in ("RAISES", "bad-op") else a
        print("model vs code:", d or "agree")
        if "record" in c:
            i = c["record"]
            print({k: (v[i].tolist() if hasattr(v[i], "tolist") else v[i]) for k, v in p.data.items()})
            if dres[0] == "ok":
                print("dataset epoch (s since J2000):", float(dataset_seconds(dres[1])[i]))
    finally:
        impl.cleanup()
    return 0
