"""C12 — adversarial text-level files for the line grouping of the RINEX navigation parsers.

`c12.one_file` compares the real ChainParser and the compiled model only on well-formed files rendered from the abstract
file model.  Here the TEXT of such files is mutated (line ends, blank lines, header labels inside the data section,
data-like text inside the header, broken record structure) and the same text goes through the real parser class and
through the compiled model (`c12 <parser> <ext-char> <hex>`): header / data split at END OF HEADER and the record
splitting must agree, "raises" on both sides counts as agreement.

Where the property statement defines the result (the mutated file is still a well-formed navigation file, or differs
from one only in line ends / trailing blanks / blank lines at the end of the file) the property is stated directly on
the real code: the generating records through `c12.oracle`, and the columns must equal those of the unmutated file.

entry point:  adversarial_cases(ctx, impl, drv, rng, n, extra=False, skip=())
replay:       every case is {"parser", "ext", "file"} (c12.replay runs it)
counts:       "adv: <kind>", "adv: <kind> (<variant>)", "adv: <kind> [<parser>] -> real parser: <what the change did to the result>"
"""
from __future__ import annotations

from . import common
from .common import hexs

def _slug(kind):
    """violate keys carry no blanks (known_findings.txt: key=<no blanks>)"""
    return kind.replace(" ", "-")


PARSERS = ("rinex3_nav", "rinex2_nav", "rinex212_nav")
V3, V2 = ("rinex3_nav",), ("rinex2_nav", "rinex212_nav")


# ------------------------------------------------------------------------------------------
# a generated file as header lines + records (the generator knows where its records are)


class Doc:
    def __init__(self, f, parser):
        self.f = f
        self.parser = parser
        lines = f["text"].split("\n")
        assert lines[-1] == ""
        lines = lines[:-1]
        h = next(i for i, l in enumerate(lines) if l[60:73] == "END OF HEADER") + 1
        self.header = lines[:h]
        self.records = []  # {"lines": [...], "rec": generating record | None (GLONASS / SBAS, skipped by the parser)}
        recs = iter(f["recs"])
        pos = h
        if parser == "rinex3_nav":
            for it in f["model"]["items"]:
                k = 1 + len(it["rows"])
                self.records.append({"lines": lines[pos:pos + k], "rec": next(recs) if it["kind"] == "N" else None})
                pos += k
        else:
            while pos < len(lines):
                self.records.append({"lines": lines[pos:pos + 8], "rec": next(recs)})
                pos += 8
        assert pos == len(lines) and next(recs, None) is None

    def kept(self):
        return [i for i, r in enumerate(self.records) if r["rec"] is not None]

    def lines(self):
        return self.header + [l for r in self.records for l in r["lines"]]

    def text(self):
        return "\n".join(self.lines()) + "\n"

    def recs(self):
        return [r["rec"] for r in self.records if r["rec"] is not None]


def gen(c12, rng, parser, want=None, tries=200):
    """a well-formed generated file for `parser` (with `want(f)` true)"""
    for _ in range(tries):
        f = c12.gen_file3(rng, True) if parser == "rinex3_nav" else c12.gen_file2(rng, True, parser)
        if want is None or want(f):
            return f
    raise common.ToolFailure("c12_adv: the file generator does not reach the wanted shape")


def orbit_line(c12, rng, parser, ncells=4):
    return ("    " if parser == "rinex3_nav" else "   ") + "".join(c12.num_text(c12.num19(rng) or c12.num19(rng, style="0.dD")) for _ in range(ncells))


def header_line(content, label):
    return f"{content:<60}{label}"


def label_line(doc, rng, label):
    """a header line with `label` in columns 61-80, as it occurs in a (second) header"""
    own = [l for l in doc.header if l[60:].strip() == label]
    if label == "COMMENT":
        content = rng.choice(["a comment", " indented comment", "Concatenated file", "  12 3 4", "G01 2021 03 10 00 00 00 orbit"])
    elif label == "END OF HEADER":
        content = ""
    else:
        content = own[0][:60] if own and rng.random() < 0.7 else rng.choice(["text starting with a letter", "     3.04           N: GNSS NAV DATA    M: MIXED"])
    return header_line(content, label)


# ------------------------------------------------------------------------------------------
# mutations: (doc, rng, c12) -> (text, recs | None, variant)     recs: the property defines the result — these records
#                                                               None: only model vs code is compared


def m_crlf_all(doc, rng, c12):
    return doc.text().replace("\n", "\r\n"), doc.recs(), ""


def m_crlf_some(doc, rng, c12):
    lines = doc.lines()
    pick = [rng.random() < 0.5 for _ in lines]
    pick[rng.randrange(len(lines))] = True
    j = rng.randrange(len(lines))
    if sum(pick) == len(lines) and len(lines) > 1:
        pick[j] = False
    where = "header" if any(pick[:len(doc.header)]) else "data"
    return "".join(l + ("\r\n" if p else "\n") for l, p in zip(lines, pick)), doc.recs(), f"first CRLF in {where}"


def m_no_final_newline(doc, rng, c12):
    crlf = rng.random() < 0.3
    t = doc.text()[:-1]
    return (t.replace("\n", "\r\n") if crlf else t), doc.recs(), "CRLF" if crlf else "LF"


def m_trailing_blanks(doc, rng, c12):
    how = rng.choice(["pad to 80", "a few blanks", "mixed"])
    out = []
    for l in doc.lines():
        h = how if how != "mixed" else rng.choice(["pad to 80", "a few blanks", "none"])
        out.append(l.ljust(80) if h == "pad to 80" else l + " " * rng.randint(1, 6) if h == "a few blanks" else l)
    return "\n".join(out) + "\n", doc.recs(), how


def m_eof_blank(doc, rng, c12):
    tail, name = rng.choice([("\n", "one empty line"), ("\n\n\n", "three empty lines"), ("    \n", "a line of blanks"),
                             ("   ", "blanks without newline"), ("\r\n", "one empty CRLF line")])
    return doc.text() + tail, doc.recs(), name


def m_cr_only(doc, rng, c12):
    return doc.text().replace("\n", "\r"), doc.recs(), ""


def _blank(rng):
    return rng.choice(["", "", "   ", " " * 80])


def m_blank_in_header(doc, rng, c12):
    lines = doc.header[:]
    lines.insert(rng.randint(1, len(lines) - 1), _blank(rng))
    return "\n".join(lines + [l for r in doc.records for l in r["lines"]]) + "\n", None, ""


def m_blank_after_header(doc, rng, c12):
    return "\n".join(doc.header + [_blank(rng)] + [l for r in doc.records for l in r["lines"]]) + "\n", None, ""


def m_blank_between_records(doc, rng, c12):
    i = rng.randint(1, len(doc.records) - 1)
    body = []
    for k, r in enumerate(doc.records):
        if k == i:
            body.append(_blank(rng))
        body += r["lines"]
    return "\n".join(doc.header + body) + "\n", None, ""


def m_blank_inside_record(doc, rng, c12, raw_op=False):
    """a blank line inside a record.  Pure insertion before the last orbit line gives transmission_time = 0 and drops the last
    line; at other positions the shifted lines put orbit angles into gnss_week / toe and the result depends on float Time
    arithmetic on garbage (raises or differs in the last bits), which is not about grouping — there the blank line takes
    the place of an orbit line and the displaced line is appended (record lines 4, 6, 8 stay where they are), unless the
    driver has the raw `accum` op (then any position, compared before post-processing)."""
    full = [i for i in doc.kept() if len(doc.records[i]["lines"]) == 8]
    i = rng.choice(full)
    ls = doc.records[i]["lines"][:]
    how = rng.choice(["before the last orbit line", "in place of an orbit line"] + (["anywhere"] * 2 if raw_op else []))
    flags = set()
    if doc.parser != "rinex3_nav":
        at = rng.randint(1, 7)
        ls.insert(at, _blank(rng))
        how = "RINEX 2: the following lines shift into the next 8-line group"
    elif how == "before the last orbit line":
        ls.insert(7, _blank(rng))
    elif how == "in place of an orbit line":
        at = rng.choice([1, 2, 3, 4, 6])     # not record line 6: week 0 with a negative transmission time is before the GPS epoch
        ls = ls[:at] + [_blank(rng)] + ls[at + 1:] + [ls[at]]
        how += f" (record line {at + 1})"
    else:
        ls.insert(rng.randint(1, 6), _blank(rng))
        flags.add("raw-only")
    records = [dict(r, lines=ls) if k == i else r for k, r in enumerate(doc.records)]
    return "\n".join(doc.header + [l for r in records for l in r["lines"]]) + "\n", None, how, flags


def _insert_between(doc, rng, new_lines, where=None):
    """new lines at a record boundary: before the first record, between two, after the last"""
    n = len(doc.records)
    i = rng.randint(0, n) if where is None else where
    body = []
    for k, r in enumerate(doc.records):
        if k == i:
            body += new_lines
        body += r["lines"]
    if i == n:
        body += new_lines
    return "\n".join(doc.header + body) + "\n", ("before the first record" if i == 0 else "after the last record" if i == n else "between two records")


def _m_label(label):
    def m(doc, rng, c12):
        line = label_line(doc, rng, label)
        text, where = _insert_between(doc, rng, [line])
        return text, None, f"{where}, line starts with {'a letter' if line[:1].isalpha() else 'a blank' if line[:1] == ' ' else 'a digit'}"
    return m


def m_second_header(doc, rng, c12):
    """two files concatenated: header, records, header, records"""
    f2 = gen(c12, rng, doc.parser, want=lambda f: f["sat_sys"] == doc.f["sat_sys"])
    return doc.text() + f2["text"], None, f"second header of {len(Doc(f2, doc.parser).header)} lines"


def m_second_header_inside(doc, rng, c12):
    """the file's own header repeated at a record boundary"""
    text, where = _insert_between(doc, rng, doc.header, where=rng.randint(1, max(1, len(doc.records) - 1)))
    return text, None, f"{len(doc.header)} header lines {where}"


def m_comment_like_record(doc, rng, c12):
    """a COMMENT line (well-formed header line) whose content starts like a record"""
    r = rng.choice(doc.records)
    content = r["lines"][0][:60] if rng.random() < 0.7 else r["lines"][min(1, len(r["lines"]) - 1)][:60]
    lines = doc.header[:]
    lines.insert(rng.randint(1, len(lines) - 1), header_line(content, "COMMENT"))
    return "\n".join(lines + [l for r in doc.records for l in r["lines"]]) + "\n", doc.recs(), ""


def m_record_line_in_header(doc, rng, c12):
    """a whole record line (no label) inside the header"""
    r = rng.choice(doc.records)
    lines = doc.header[:]
    lines.insert(rng.randint(1, len(lines) - 1), rng.choice(r["lines"]))
    return "\n".join(lines + [l for r in doc.records for l in r["lines"]]) + "\n", None, ""


def m_comment_end_of_header(doc, rng, c12):
    """a COMMENT line (well-formed) containing the words END OF HEADER at other columns than 61"""
    col = rng.choice([0, 1, 20, 46, 47])
    content = (" " * col + "END OF HEADER").ljust(60)[:60]
    lines = doc.header[:]
    lines.insert(rng.randint(1, len(lines) - 1), header_line(content, "COMMENT"))
    return "\n".join(lines + [l for r in doc.records for l in r["lines"]]) + "\n", doc.recs(), f"at column {col + 1}"


def m_no_end_of_header(doc, rng, c12):
    how = rng.choice(["removed", "removed", "label at column 60", "label at column 62", "lower case"])
    last = {"removed": None, "label at column 60": " " * 59 + "END OF HEADER", "label at column 62": " " * 61 + "END OF HEADER",
            "lower case": " " * 60 + "end of header"}[how]
    lines = doc.header[:-1] + ([last] if last is not None else [])
    return "\n".join(lines + [l for r in doc.records for l in r["lines"]]) + "\n", None, how


def m_header_only(doc, rng, c12):
    how = rng.choice(["newline", "no final newline", "empty line after"])
    t = "\n".join(doc.header)
    return t + {"newline": "\n", "no final newline": "", "empty line after": "\n\n"}[how], None, how


def m_two_version_lines(doc, rng, c12):
    """a second RINEX VERSION / TYPE line in the header naming another satellite system"""
    first = doc.header[0]
    other = rng.choice([s for s in "GECJIM" if s != first[40:41]] + ["R"])
    second = first[:40] + other + first[41:]
    lines = doc.header[:]
    lines.insert(rng.randint(1, len(lines) - 1), second)
    return "\n".join(lines + [l for r in doc.records for l in r["lines"]]) + "\n", None, f"{first[40:41] or ' '} then {other}"


def _with_records(doc, records):
    return "\n".join(doc.header + [l for r in records for l in r["lines"]]) + "\n"


def m_missing_last_line(doc, rng, c12):
    k = rng.choice(doc.kept())
    pos = "first" if k == 0 else "last" if k == len(doc.records) - 1 else "middle"
    if len(doc.records) == 1:
        pos = "only"
    records = [dict(r, lines=r["lines"][:-1]) if i == k else r for i, r in enumerate(doc.records)]
    return _with_records(doc, records), None, f"{pos} record of {min(len(doc.kept()), 3)}{'+' if len(doc.kept()) > 3 else ''}"


def m_extra_line(doc, rng, c12):
    k = rng.choice(doc.kept())
    extra = orbit_line(c12, rng, doc.parser, rng.choice([4, 4, 2, 1]))
    records = [dict(r, lines=r["lines"] + [extra]) if i == k else r for i, r in enumerate(doc.records)]
    return _with_records(doc, records), None, "last record" if k == len(doc.records) - 1 else "not the last record"


def m_glo_sbas_kept(doc, rng, c12):
    ks = sorted({len(r["lines"]) for r in doc.records if r["rec"] is None})
    return doc.text(), doc.recs(), "skipped records of " + "/".join(map(str, ks)) + " lines"


def m_irnss_qzss(doc, rng, c12):
    return doc.text(), doc.recs(), "+".join(sorted({r["system"] for r in doc.recs() if r["system"] in "IJ"}))


def m_lower_case(doc, rng, c12):
    """the system letter of one record in lower case.  Of a GLONASS/SBAS record (no longer skipped: a record of 2..6 lines)
    only when the file has at least two supported records: with exactly one, numpy broadcasts the length-1 columns."""
    skipped = [i for i in range(len(doc.records)) if i not in doc.kept()]
    k = rng.choice(skipped) if skipped and len(doc.kept()) >= 2 and rng.random() < 0.4 else rng.choice(doc.kept())
    r = doc.records[k]
    records = [dict(x, lines=[x["lines"][0][:1].lower() + x["lines"][0][1:]] + x["lines"][1:]) if i == k else x for i, x in enumerate(doc.records)]
    return _with_records(doc, records), None, f"system {r['lines'][0][:1].lower()}" + (f", {len(r['lines'])} lines" if r["rec"] is None else "")


def m_glonass_v2(doc, rng, c12):
    """RINEX 2 GLONASS navigation file (epoch line + 3 lines per record), extension .19g — or a GPS-layout file named .19g"""
    if rng.random() < 0.25:
        return doc.text(), None, "GPS 8-line records named .19g"
    head = [l for l in doc.header if l[60:].strip() not in ("ION ALPHA", "ION BETA", "IONOSPHERIC CORR")]
    head[0] = f"{head[0][:20]}{'G: GLONASS NAV DATA' if doc.parser == 'rinex212_nav' else 'GLONASS NAV DATA':<40}RINEX VERSION / TYPE"
    body = []
    n = rng.choice([1, 2, 3, 4, 5])
    for _ in range(n):
        t = c12.gen_epoch(rng, False)
        it = {"prn": rng.randint(1, 24), "date": [t.year, t.month, t.day, t.hour, t.minute, t.second],
              "clock": [c12.num19(rng, style="0.dD") for _ in range(3)],
              "rows": [{"cells": [c12.num19(rng, style="0.dD") for _ in range(4)], "cut": False} for _ in range(3)]}
        body += c12.item_lines2(it)
    return "\n".join(head + body) + "\n", None, f"{n} four-line records"


def m_sat_over_32(doc, rng, c12):
    k = rng.choice(doc.kept())
    prn = rng.choice([33, 36, 40, 63, 64, 99, rng.randint(33, 99)])
    records = []
    for i, r in enumerate(doc.records):
        if i == k:
            l0 = r["lines"][0]
            l0 = l0[:1] + f"{prn:02d}" + l0[3:] if doc.parser == "rinex3_nav" else f"{prn:2d}" + l0[2:]
            r = {"lines": [l0] + r["lines"][1:], "rec": dict(r["rec"], prn=prn)}
        records.append(r)
    return _with_records(doc, records), [r["rec"] for r in records if r["rec"] is not None], "number " + ("33-36" if prn <= 36 else "37-64" if prn <= 64 else "65-99")


def m_duplicate_record(doc, rng, c12):
    k = rng.choice(doc.kept())
    adjacent = rng.random() < 0.6
    records = doc.records[:k + 1] + [doc.records[k]] + doc.records[k + 1:] if adjacent else doc.records + [doc.records[k]]
    return _with_records(doc, records), [r["rec"] for r in records if r["rec"] is not None], "adjacent" if adjacent else "repeated at the end of the file"


def _has_skips(f):
    return any(it["kind"] == "S" for it in f["model"]["items"])


def _two_records(f):
    return len(f["recs"]) >= 2


# (kind, parsers, mutation, property defines the result?, generator filter, extension override)
KINDS = [
    # 1. line ends
    ("CRLF on every line", PARSERS, m_crlf_all, True, None, None),
    ("CRLF on some lines", PARSERS, m_crlf_some, True, None, None),
    ("last line without newline", PARSERS, m_no_final_newline, True, None, None),
    ("trailing blanks on lines", PARSERS, m_trailing_blanks, True, None, None),
    ("blank lines at the end of the file", PARSERS, m_eof_blank, True, None, None),
    # 2. blank lines
    ("blank line inside the header", PARSERS, m_blank_in_header, False, None, None),
    ("blank line between END OF HEADER and the first record", PARSERS, m_blank_after_header, False, None, None),
    ("blank line between records", PARSERS, m_blank_between_records, False, _two_records, None),
    ("blank line inside a record", PARSERS, m_blank_inside_record, False, None, None),
    # 3. header label text in the data section, data-like text in the header
    ("COMMENT line in the data section", PARSERS, _m_label("COMMENT"), False, None, None),
    ("END OF HEADER line in the data section", PARSERS, _m_label("END OF HEADER"), False, None, None),
    ("RINEX VERSION / TYPE line in the data section", PARSERS, _m_label("RINEX VERSION / TYPE"), False, None, None),
    ("PGM / RUN BY / DATE line in the data section", PARSERS, _m_label("PGM / RUN BY / DATE"), False, None, None),
    ("two files concatenated (second header in the middle)", PARSERS, m_second_header, False, None, None),
    ("own header repeated between records", PARSERS, m_second_header_inside, False, _two_records, None),
    ("COMMENT whose content looks like a record", PARSERS, m_comment_like_record, True, None, None),
    ("record line inside the header", PARSERS, m_record_line_in_header, False, None, None),
    ("COMMENT containing END OF HEADER at other columns", PARSERS, m_comment_end_of_header, True, None, None),
    ("END OF HEADER missing", PARSERS, m_no_end_of_header, False, None, None),
    ("header only", PARSERS, m_header_only, False, None, None),
    ("two RINEX VERSION / TYPE lines in the header", V3, m_two_version_lines, False, None, None),
    # 4. record structure
    ("record without its last orbit line", PARSERS, m_missing_last_line, False, None, None),
    ("record with an extra 9th line", PARSERS, m_extra_line, False, None, None),
    ("GLONASS/SBAS records between others (well-formed)", V3, m_glo_sbas_kept, True, _has_skips, None),
    ("IRNSS/QZSS records (well-formed)", V3, m_irnss_qzss, True, lambda f: any(r["system"] in "IJ" for r in f["recs"]), None),
    ("record starting with a lower-case letter", V3, m_lower_case, False, None, None),
    ("RINEX 2 GLONASS file under .19g", V2, m_glonass_v2, False, lambda f: f["sat_sys"] == "G", ".19g"),
    ("satellite number above 32", PARSERS, m_sat_over_32, True, None, None),
    ("two records of the same satellite and epoch", PARSERS, m_duplicate_record, True, None, None),
]

# `\r` alone as line end (old Mac): Python's text mode splits there, the property statement does not mention it
EXTRA_KINDS = [
    ("CR alone as line end", PARSERS, m_cr_only, False, None, None),
]


class _Prefixed:
    """c12.oracle reporting under adv:<kind>:… keys"""

    def __init__(self, ctx, kind, parser):
        self.ctx, self.kind, self.parser, self.failed = ctx, kind, parser, False

    def violate(self, key, what, case):
        self.failed = True
        self.ctx.violate(f"adv:{_slug(self.kind)}:{self.parser}:{key}", f"[{self.kind}] {what}", case)


def _columns(c12, p):
    try:
        return c12.impl_columns(p), None
    except Exception as e:  # noqa: BLE001  (columns of unequal length, no `time` column, …)
        return None, f"{type(e).__name__}: {e}"


def _outcome(c12, st0, cols0, st, cols):
    """what the mutation did to the real parser's result, relative to the unmutated file"""
    if st == "raises":
        return "raises"
    if cols is None:
        return "returns columns that cannot be read"
    if st0 != "ok" or cols0 is None:
        return "returns (the unmutated file does not)"
    if c12.diff_columns(cols0, cols) is None:
        return "unchanged"
    n0, n1 = len(cols0.get("time", ("t", []))[1]), len(cols.get("time", ("t", []))[1])
    lens = {len(v[1]) for v in cols.values()}
    if len(lens) > 1:
        return "columns of different lengths"
    return "fewer records" if n1 < n0 else "more records" if n1 > n0 else "same number of records, other values"


# ------------------------------------------------------------------------------------------
# optional: the reading stage alone (grouping), before any post-processing
#
#   c12 accum3 x <hex> | c12 accum2 <n|l|g> <hex> | c12 accum212 <n|l|g> <hex>
#     -> RAISES | {"sys": "<hex of satSys>" (accum3 only), "cols": <showCols st.data>, "epochs": [[y, mo, d, h, mi, "<second as rational>"], …]}
#   (accumV3 / accumV2 of Model/RinexNav.lean).  Compared with `ChainParser.read_data()` of the real class: raw `self.data`
#   (ISO time strings, floats, text).  The driver answers `bad-op` as long as it does not have the op; then this is skipped.

RAW_OPS = {"rinex3_nav": "accum3", "rinex2_nav": "accum2", "rinex212_nav": "accum212"}


def raw_real(impl, parser, text, ext):
    """("ok", raw data dict, meta) | ("raises", text): the reading stage of the real parser (no post-processors)"""
    import pathlib
    import warnings

    fn = impl.path(ext)
    with open(fn, "w", newline="") as fh:
        fh.write(text)
    try:
        with warnings.catch_warnings():
            warnings.simplefilter("ignore")
            p = impl.classes[parser](pathlib.Path(fn))
            p.read_data()
        return "ok", p.data, p.meta
    except BaseException as e:  # noqa: BLE001
        if isinstance(e, KeyboardInterrupt):
            raise
        return "raises", f"{type(e).__name__}: {e}", None


def raw_compare(ctx, impl, drv, c12, kind, parser, text, ext, case):
    import json
    from fractions import Fraction

    a = drv.ask1(f"c12 {RAW_OPS[parser]} {ext[-1]} {hexs(text)}")
    if a == "bad-op":
        return False
    ctx.count("adv: reading stage compared before post-processing (accum op)")
    st, data, meta = raw_real(impl, parser, text, ext)
    name = f"adv [{kind}] {parser} reading stage (read_data vs accum)"
    if st == "raises" or a == "RAISES":
        if (st == "raises") != (a == "RAISES"):
            ctx.disagree(name + (" (model returns, code raises)" if st == "raises" else " (model raises, code returns)"), case, a[:200], data if st == "raises" else "value")
        return True
    m = json.loads(a)
    cols = {}
    for k, v in data.items():
        if k == "time":
            continue
        cols[k] = ("s", [str(x) for x in v]) if k in ("system", "satellite") else ("f", [Fraction(float(x)) for x in v])
    d = c12.diff_columns(c12.model_columns(json.dumps(m["cols"])), cols)
    if not d:
        times = ["{}-{:02d}-{:02d}T{:02d}:{:02d}:{:010.7f}".format(*[int(x) for x in e[:5]], float(Fraction(e[5]))) for e in m["epochs"]]
        if times != list(data.get("time", [])):
            d = f"time: {times[:3]} vs {list(data.get('time', []))[:3]}"
    if not d and "sys" in m and common.unhex(m["sys"]) != meta.get("sat_sys", ""):
        d = f"sat_sys: {common.unhex(m['sys'])!r} vs {meta.get('sat_sys')!r}"
    if d:
        ctx.disagree(name, case, d, "")
    return True


def one_case(ctx, impl, drv, rng, c12, kind, mutate, defined, want, ext, parser, raw_op=False):
    f = gen(c12, rng, parser, want)
    doc = Doc(f, parser)
    res = mutate(doc, rng, c12, raw_op=True) if raw_op and mutate is m_blank_inside_record else mutate(doc, rng, c12)
    text, recs, variant = res[:3]
    flags = res[3] if len(res) > 3 else set()
    ext = ext or f["ext"]
    case = {"parser": parser, "ext": ext, "file": text}
    ctx.case({"adv": kind, "p": parser, "t": common.digest(text)})
    ctx.count(f"adv: {kind}")
    if variant:
        ctx.count(f"adv: {kind} ({variant})")
    if raw_op:
        raw_compare(ctx, impl, drv, c12, kind, parser, text, ext, case)
    # the real parser on the unmutated and on the mutated text
    st0, p0, _ = impl.parse(parser, f["text"], f["ext"])
    cols0 = _columns(c12, p0)[0] if st0 == "ok" else None
    st, p, _ = impl.parse(parser, text, ext)
    cols, unreadable = _columns(c12, p) if st == "ok" else (None, None)
    out = _outcome(c12, st0, cols0, st, cols)
    ctx.count(f"adv: {kind} [{parser}] -> real parser: {out}")
    if "raw-only" in flags:     # the values that reach the time arithmetic are garbage: only the reading stage is compared
        return
    # model vs code on the mutated text
    a = drv.ask1(f"c12 {parser} {ext[-1]} {hexs(text)}")
    if a == "bad-op":
        ctx.disagree(f"adv [{kind}] {parser}: text not accepted by the driver", case, a, "")
    elif st == "raises":
        if a != "RAISES":
            ctx.disagree(f"adv [{kind}] {parser} (model returns, code raises)", case, a[:200], p)
    elif a == "RAISES":
        ctx.disagree(f"adv [{kind}] {parser} (model raises, code returns)", case, a, out)
    elif cols is None:
        ctx.disagree(f"adv [{kind}] {parser} (code returns columns that cannot be canonicalised: {unreadable})", case, a[:200], "")
    else:
        d = c12.diff_columns(c12.model_columns(a), cols)
        if d:
            ctx.disagree(f"adv [{kind}] {parser} columns", case, d, "")
    # the property on the real code
    if not defined or recs is None:
        return
    if st == "raises":
        ctx.violate(f"adv:{_slug(kind)}:{parser}:raises", f"[{kind}{', ' + variant if variant else ''}] {parser} raises {p} — the same file without the change "
                    f"{'is parsed' if st0 == 'ok' else 'raises as well'}", case)
        return
    pref = _Prefixed(ctx, kind, parser)
    c12.oracle(pref, case, {**f, "recs": recs}, p, parser)
    if pref.failed:
        return
    same_records = len(recs) == len(f["recs"]) and all(x is y for x, y in zip(recs, f["recs"]))
    if same_records and st0 == "ok" and cols0 is not None and cols is not None:
        d = c12.diff_columns(cols0, cols)
        if d:
            ctx.violate(f"adv:{_slug(kind)}:{parser}:differs-from-unmutated", f"[{kind}{', ' + variant if variant else ''}] {parser} returns other columns than for the "
                        f"same file without the change: {d}", case)


def adversarial_cases(ctx, impl, drv, rng, n, extra=False, skip=()):
    """n adversarial text-level files, kinds and parsers in rotation (every kind is reached once n >= len(KINDS); every
    kind with every parser it applies to once n >= 3 * len(KINDS)).
    extra: also the kinds of EXTRA_KINDS;  skip: names of kinds to leave out."""
    from . import c12

    kinds = [k for k in KINDS + (EXTRA_KINDS if extra else []) if k[0] not in skip]
    unknown = set(skip) - {k[0] for k in KINDS + EXTRA_KINDS}
    if unknown:
        raise common.ToolFailure(f"c12_adv: unknown kinds in skip: {sorted(unknown)}")
    for name in skip:
        ctx.count(f"adv: kind left out: {name}")
    note = ("adversarial files (c12_adv): for mutations that leave the set of well-formed files (blank lines inside header / data, header "
            "labels in the data section, missing END OF HEADER, broken records, GLONASS under .19g, lower-case system letter) the property "
            "does not define a result — only model vs code (same columns, or both raise) is compared; a blank line inside a RINEX 3 record "
            "is placed so that record lines 4, 6, 8 (toe, week, transmission time) are not filled from other lines; the property is stated "
            "on the real code for: " + "; ".join(k[0] for k in kinds if k[3]))
    if note not in ctx.assumptions:
        ctx.assumptions.append(note)
    raw_op = drv.ask1("c12 accum3 x " + hexs("\n")) != "bad-op"
    for i in range(n):
        kind, parsers, mutate, defined, want, ext = kinds[i % len(kinds)]
        parser = parsers[(i // len(kinds)) % len(parsers)]
        one_case(ctx, impl, drv, rng, c12, kind, mutate, defined, want, ext, parser, raw_op)
