"""C08 — caching is invisible: results depend on current values, not on call history.

translate:   translator/extract_cache.py (mechanism flags of every process-wide cache, list of all lru_caches)
prove:       lean/Midgard/Props/C08.lean (cached machine refines the cache-free machine, for all histories)
correspond:  part A — histories over {create array, call cached function, write into a returned result, change the
             argument array, overflow the cache} on the real trs2llh / llh2trs / enu2trs / trs2enu / Time.to_scale
             vs the model's cache machine, including which calls are cache hits (lru cache_info) and whether the
             argument stays writable
oracle:      part A — every returned value equals an uncached evaluation on the current argument;
             part B — histories on position / time *objects* (convert, derived quantities, item assignment, attach /
             replace / mutate `other`, slices, equal-valued objects of other shape or format) run twice on the real
             code: naturally, and with every cache flushed before each operation; the observations must agree;
             part C — the object machine (Model/ObjCache.lean: views sharing memory, attachment chains of any depth, other /
             ref_pos, item assignment, reads) against real Position / PositionDelta objects;
             part D — harness/c08_hist.py: every way of deriving a position object x read / change / read again, and every
             method taking another object x call / change the argument / call again, against the same history without the
             early reads and against freshly built twins
"""
from __future__ import annotations

import itertools
import json

import numpy as np

from . import common
from .common import Ctx

SHAPES = {"s3": (3,), "s13": (1, 3), "sn3": (4, 3)}
ANG_SHAPES = {"s0": (), "s1": (1,), "sn3": (4,)}


def _mods():
    from midgard.math import transformation as tr, rotation as rot, ellipsoid as ell, nputil
    from midgard.data import _time as T
    from midgard.data.time import Time
    from midgard.data import position

    import midgard.data._position as _P
    if not PROCESS_STATE:
        # every module- or class-level mutable container of the modules under test, as it is right after import: a value
        # memoised in one of them by hand (not through lru_cache) is process state an earlier computation leaves behind
        for m in (tr, rot, T, _P, nputil):
            holders = [m] + [c for c in vars(m).values() if isinstance(c, type) and getattr(c, "__module__", None) == m.__name__]
            for h in holders:
                for name, val in list(vars(h).items()):
                    if name.startswith("__"):
                        continue
                    if isinstance(val, (dict, list, set)) and not isinstance(val, type(vars(h))):
                        PROCESS_STATE.append((f"{getattr(h, '__name__', h)}.{name}", val, val.copy()))
    return tr, rot, ell, nputil, T, Time, position


PROCESS_STATE = []


def restore_process_state():
    for _, cont, snap in PROCESS_STATE:
        if isinstance(cont, list):
            cont[:] = snap
        else:
            cont.clear()
            cont.update(snap)


def palette_xyz(v: int, shape):
    """deterministic coordinates for value id v"""
    n = 1 if len(shape) == 1 else shape[0]
    rows = []
    for k in range(n):
        s = 1000.0 * v + 10.0 * k
        rows.append([3512889.0 + s, 780843.0 - 2 * s, 5248750.0 + 3 * s])
    a = np.array(rows)
    return a[0].copy() if len(shape) == 1 else a


def palette_llh(v: int, shape):
    n = 1 if len(shape) == 1 else shape[0]
    rows = [[0.3 + 0.01 * v + 0.001 * k, -1.0 + 0.02 * v + 0.003 * k, 100.0 * v + k] for k in range(n)]
    a = np.array(rows)
    return a[0].copy() if len(shape) == 1 else a


def palette_ang(v: int, shape):
    n = 1 if shape == () else shape[0]
    lat = np.array([0.3 + 0.01 * v + 0.001 * k for k in range(n)])
    lon = np.array([-1.0 + 0.02 * v + 0.003 * k for k in range(n)])
    if shape == ():
        return float(lat[0]), float(lon[0])
    return lat, lon


def same(a, b):
    a, b = np.asarray(a), np.asarray(b)
    return a.shape == b.shape and a.dtype == b.dtype and a.tobytes() == b.tobytes()


_ELLS = []


def same_name_ellipsoids(ell):
    """tags of the ellipsoid argument: 0 = GRS80, 1 = another ellipsoid *of the same name* (a user redefining a name: other
    axis and flattening — equal coordinates on the two must not share a cache entry), 2 = WGS84, 3 = sphere.  Creating an
    Ellipsoid registers its name: the registry is put back."""
    if not _ELLS:
        reg = getattr(ell, "_ELLIPSOIDS", None)
        snap = dict(reg) if isinstance(reg, dict) else None
        other = ell.Ellipsoid("GRS80", a=6_377_397.155, f_inv=299.152_812_8, description="GRS80 redefined (Bessel 1841 figures)")
        if snap is not None:
            reg.clear()
            reg.update(snap)
        _ELLS.extend([ell.GRS80, other, ell.WGS84, ell.sphere if hasattr(ell, "sphere") else ell.WGS72])
    return list(_ELLS)


class GroupRaw:
    """one cached function on plain arrays"""

    def __init__(self, name, mods):
        tr, rot, ell, nputil, T, Time, position = mods
        self.name = name
        self.kind = "xyz" if name == "trs2llh" else "llh" if name == "llh2trs" else "ang"
        self.ells = same_name_ellipsoids(ell)
        self.nputil = nputil
        if name in ("trs2llh", "llh2trs"):
            self.pub = getattr(tr, name)
            self.cached = getattr(tr, "_" + name)
            self.raw = self.cached.__wrapped__
        else:
            self.pub = getattr(rot, name)
            self.cached = self.pub.__wrapped__
            self.raw = self.cached.__wrapped__
        self.shapes = SHAPES if self.kind != "ang" else ANG_SHAPES
        self.ntags = len(self.ells) if self.kind != "ang" else 1

    def make(self, v, sh, tag):
        shape = self.shapes[sh]
        if self.kind == "xyz":
            return palette_xyz(v, shape)
        if self.kind == "llh":
            return palette_llh(v, shape)
        return palette_ang(v, shape)

    def call(self, arr, tag):
        if self.kind == "ang":
            return self.pub(arr[0], arr[1])
        return self.pub(arr, self.ells[tag])

    def fresh(self, v, sh, tag):
        arr = self.make(v, sh, tag)
        if self.kind == "ang":
            return self.raw(arr[0], arr[1])
        return self.raw(self.nputil.HashArray(arr), self.ells[tag])

    def writable(self, arr):
        if self.kind == "ang":
            return all(getattr(x, "flags", None) is None or x.flags.writeable for x in arr)
        return bool(arr.flags.writeable)

    def mutate(self, arr, v, sh, tag):
        new = self.make(v, sh, tag)
        if self.kind == "ang":
            if np.ndim(arr[0]) == 0:
                return (new[0], new[1]), True  # python floats: rebinding, nothing to refuse
            arr[0][...] = new[0]
            arr[1][...] = new[1]
            return arr, True
        arr[...] = new
        return arr, True


class GroupTime:
    """Time.to_scale: fn = target scale, tag = format of the receiver"""

    name = "toScale"
    FMTS = ["jd", "mjd", "datetime", "isot"]
    TARGETS = ["tai", "tt", "gps", "tcg"]
    shapes = {"s0": (), "s1": (1,), "sn3": (3,)}
    ntags = 4

    def __init__(self, mods):
        tr, rot, ell, nputil, T, Time, position = mods
        self.Time = Time
        self.T = T
        self.cached = T.TimeBase._to_scale
        self.raw = self.cached.__wrapped__

    def make(self, v, sh, tag):
        shape = self.shapes[sh]
        n = 1 if shape == () else shape[0]
        # value ids 0 and 1 are 8.64 us apart (1e-10 day in jd2, same jd1): one float Julian date cannot tell them apart,
        # the two parts can; value id 2 is another day
        jd1 = np.array([2451544.5 + 10 * (v // 2) + k for k in range(n)])
        jd2 = np.array([0.25 + 0.001 * (v // 2) + 0.01 * k + (1e-10 if v % 2 else 0.0) for k in range(n)])
        base = self.Time(jd1[0], val2=jd2[0], fmt="jd", scale="utc") if shape == () else self.Time(jd1, val2=jd2, fmt="jd", scale="utc")
        fmt = self.FMTS[tag]
        if fmt == "jd":
            return base
        return self.Time(getattr(base, fmt), fmt=fmt, scale="utc")

    def obs(self, t):
        return (type(t).__name__, t.fmt, np.shape(t.jd1), np.asarray(t.jd1, dtype=float).tobytes(), np.asarray(t.jd2, dtype=float).tobytes(),
                np.asarray(t).tolist() if np.asarray(t).dtype != object else [str(x) for x in np.atleast_1d(np.asarray(t))])


def run_raw_history(ctx: Ctx, g: GroupRaw, ops, label):
    """execute on the real code, compare with the model and with uncached evaluation"""
    arrs, meta, handles = [], [], []
    outs = []
    case = {"group": g.name, "ops": ops}
    for op in ops:
        p = op.split(":")
        if p[0] == "create":
            v, sh, tag = int(p[1]), p[2], int(p[3])
            arrs.append(g.make(v, sh, tag))
            meta.append([v, sh, tag])
            outs.append("C")
        elif p[0] == "call":
            a = int(p[2])
            v, sh, tag = meta[a]
            h0 = g.cached.cache_info().hits
            try:
                r = g.call(arrs[a], tag)
            except Exception as e:
                ctx.violate(f"raises:{g.name}", f"{g.name} raised {type(e).__name__}: {e}", case)
                outs.append("B")
                continue
            hit = g.cached.cache_info().hits > h0
            handles.append(r)
            exp = g.fresh(v, sh, tag)
            if same(r, exp):
                term = f"app.{p[1]}.{v}.{sh}.{tag}"
            else:
                term = "unknown"
                jr = np.asarray(r).ravel()
                if jr.size and jr[0] >= 1e9:
                    term = f"junk.{int(jr[0] - 1e9)}"
                else:
                    for (v2, sh2, tag2) in {tuple(m) for m in meta}:
                        if same(r, g.fresh(v2, sh2, tag2)):
                            term = f"app.{p[1]}.{v2}.{sh2}.{tag2}"
                            break
                ctx.violate(f"stale-or-wrong-result:{g.name}",
                            f"{g.name} on contents {v} shape {sh} ellipsoid/tag {tag} returned {term} (shape {np.shape(r)}) instead of a fresh evaluation",
                            case)
            w = g.writable(arrs[a])
            if not w:
                ctx.violate(f"argument-made-readonly:{g.name}", f"{g.name} left the array passed to it read-only", case)
            outs.append(f"R:{term}:{int(w)}:{int(hit)}")
        elif p[0] == "write":
            k, j = int(p[1]), int(p[2])
            if k >= len(handles):
                outs.append("B")
                continue
            try:
                handles[k][...] = 1e9 + j
                outs.append("W")
            except ValueError:
                outs.append("X")
        elif p[0] == "mutate":
            a, v = int(p[1]), int(p[2])
            try:
                arrs[a], _ = g.mutate(arrs[a], v, meta[a][1], meta[a][2])
                meta[a][0] = v
                outs.append("M")
            except ValueError:
                outs.append("X")
                ctx.violate(f"argument-readonly-on-assign:{g.name}", "assigning to an array that was passed to a conversion raised (read-only)", case)
    model = ctx.driver.ask1(f"c08 run {g.name} " + " ".join(ops))
    impl = "|".join(outs)
    ctx.case([g.name, label, ops], nontrivial=sum(o.startswith("call") for o in ops) > 1)
    ctx.count(f"A:{g.name}")
    if model != impl:
        ctx.disagree(f"cache machine ({g.name})", case, model, impl)


def run_time_history(ctx: Ctx, g: GroupTime, ops, label):
    objs, meta, handles, outs = [], [], [], []
    case = {"group": g.name, "ops": ops}
    for op in ops:
        p = op.split(":")
        if p[0] == "create":
            v, sh, tag = int(p[1]), p[2], int(p[3])
            objs.append(g.make(v, sh, tag))
            meta.append((v, sh, tag))
            outs.append("C")
        elif p[0] == "call":
            fn, a = int(p[1]), int(p[2])
            v, sh, tag = meta[a]
            target = g.TARGETS[fn]
            h0 = g.cached.cache_info().hits
            try:
                r = getattr(objs[a], target)
            except Exception as e:
                ctx.violate("raises:toScale", f"to_scale raised {type(e).__name__}: {e}", case)
                outs.append("B")
                continue
            hit = g.cached.cache_info().hits > h0
            handles.append(r)
            exp = g.raw(g.make(v, sh, tag), target, g.FMTS[tag])
            if g.obs(r) == g.obs(exp):
                term = f"app.{fn}.{v}.{sh}.{tag}"
            else:
                term = "unknown"
                for (v2, sh2, tag2) in set(meta):
                    if g.obs(r) == g.obs(g.raw(g.make(v2, sh2, tag2), target, g.FMTS[tag2])):
                        term = f"app.{fn}.{v2}.{sh2}.{tag2}"
                        break
                ctx.violate("stale-or-wrong-result:toScale",
                            f"{target} of a {g.FMTS[tag]}-format time of shape {sh} returned {term} (fmt {r.fmt}, shape {np.shape(r.jd1)})", case)
            outs.append(f"R:{term}:1:{int(hit)}")
        elif p[0] == "write":
            k, j = int(p[1]), int(p[2])
            if k >= len(handles):
                outs.append("B")
                continue
            try:
                handles[k][...] = 1e9 + j
                outs.append("W")
            except (ValueError, AttributeError, TypeError):
                outs.append("X")
    model = ctx.driver.ask1("c08 run toScale " + " ".join(ops))
    impl = "|".join(outs)
    ctx.case(["toScale", label, ops], nontrivial=sum(o.startswith("call") for o in ops) > 1)
    ctx.count("A:toScale")
    if model != impl:
        ctx.disagree("cache machine (toScale)", case, model, impl)


def gen_history(rng, shapes, ntags, nfn, length, allow_mutate=True, allow_write=True):
    ops = []
    narr = 0
    ncalls = 0
    vals = [rng.randint(0, 3) for _ in range(3)]
    for _ in range(length):
        k = rng.random()
        if narr == 0 or k < 0.25:
            ops.append(f"create:{rng.choice(vals)}:{rng.choice(list(shapes))}:{rng.randrange(ntags)}")
            narr += 1
        elif k < 0.75:
            ops.append(f"call:{rng.randrange(nfn)}:{rng.randrange(narr)}")
            ncalls += 1
        elif k < 0.87 and allow_write and ncalls:
            ops.append(f"write:{rng.randrange(ncalls)}:{rng.randint(1, 9)}")
        elif allow_mutate:
            ops.append(f"mutate:{rng.randrange(narr)}:{rng.choice(vals)}")
        else:
            ops.append(f"call:{rng.randrange(nfn)}:{rng.randrange(narr)}")
            ncalls += 1
    return ops


def exhaustive_histories(shapes, L):
    """all histories of length L over a small alphabet after a fixed prelude of three equal-valued arrays"""
    shs = list(shapes)[:2]
    prelude = [f"create:1:{shs[0]}:0", f"create:1:{shs[1]}:0", f"create:1:{shs[0]}:1"]
    alphabet = ["call:0:0", "call:0:1", "call:0:2", "write:0:5", "write:1:6", "mutate:0:2", "mutate:0:1"]
    for seq in itertools.product(alphabet, repeat=L):
        yield prelude + list(seq)


def flood_history(rng, shapes, cap=128):
    sh = list(shapes)[0]
    ops = [f"create:1:{sh}:0", "call:0:0"]
    for i in range(cap + 5):
        ops += [f"create:{10 + i}:{sh}:0", f"call:0:{len([o for o in ops if o.startswith('create')]) - 1 + 0}"]
    # fix indices: array k is the k-th create
    fixed, narr = [], 0
    for o in ops:
        if o.startswith("create"):
            fixed.append(o)
            narr += 1
        else:
            fixed.append(f"call:0:{narr - 1}")
    fixed += ["call:0:0", f"call:0:{narr - 1}", "call:0:1"]
    return fixed


# ------------------------------------------------------------------------------------------------
# part B: object-level histories, natural run vs flush-before-every-operation run


def all_lru_caches(mods):
    tr, rot, ell, nputil, T, Time, position = mods
    out = []
    for m in (tr, rot, T):
        for name, obj in list(vars(m).items()):
            if hasattr(obj, "cache_clear"):
                out.append(obj)
            if hasattr(obj, "__wrapped__") and hasattr(getattr(obj, "__wrapped__"), "cache_clear"):
                out.append(obj.__wrapped__)
            if isinstance(obj, type):
                for an, av in list(vars(obj).items()):
                    f = av.fget if isinstance(av, property) else getattr(av, "__func__", av)
                    if hasattr(f, "cache_clear"):
                        out.append(f)
    return out


class ObjWorld:
    def __init__(self, mods, flush: bool):
        self.mods = mods
        self.flush = flush
        self.objs = []
        self.caches = all_lru_caches(mods)
        self.results = []
        self.twins = False

    def before(self):
        if self.flush:
            for c in self.caches:
                c.cache_clear()
            restore_process_state()
            for o in self.objs:
                if hasattr(o, "clear_cache"):
                    try:
                        o.clear_cache()
                    except Exception:
                        pass

    def observe(self, x):
        if isinstance(x, tuple) and hasattr(x, "_fields"):
            return ("nt", [self.observe(v) for v in x])
        a = np.asarray(x)
        val = a.tolist() if a.dtype != object else [str(v) for v in np.atleast_1d(a)]
        return (type(x).__name__, getattr(x, "system", getattr(x, "fmt", None)), list(a.shape), json.dumps(val))


TIME_FMTS = ["mjd", "jd", "decimalyear", "jyear", "yyyydddsssss", "isot", "gps_seconds?", "datetime", "doy", "sec_of_day", "year"]


def obj_ops_alphabet():
    return [
        ("conv", 0, "llh"), ("conv", 1, "llh"), ("conv", 2, "llh"), ("conv", 0, "trs"), ("conv", 0, "enu?"),
        ("derived", 3, "distance"), ("derived", 3, "azimuth"), ("derived", 3, "elevation"), ("derived", 3, "direction"),
        ("setitem", 0, 2), ("setitem", 4, 2), ("setitem", 3, 2), ("setother", 3, 5), ("setother", 3, 4),
        ("slice", 3, (1, 3)), ("slice", 0, (0, 2)), ("derived", "L", "distance"), ("conv", "L", "llh"),
        ("writeres", 1, "llh"), ("mask", 3, None), ("derived", "L", "zenith_distance"), ("setitem", "L", 3),
        ("tindex", 6, 1), ("tindex", 6, -1), ("tmax", 6, None), ("tview", 6, 0), ("tview", 6, 2), ("tconv", 6, "tai"),
        ("tconv", "T", "tai"), ("tconv", "T", "gps"), ("tconv", 7, "tai"), ("tconv", 8, "tai"), ("tfmt", "T", "mjd"), ("tslice", 6, (1, 3)),
        # reading a format / derived array of a time and writing into what was returned
        ("twrite", 6, "mjd"), ("twrite", 6, "jd_frac"), ("twrite", 6, "year"), ("twrite", 7, "mjd"), ("tfmt", 6, "mjd"),
        ("tfmt", 6, "jd_frac"), ("tfmt", 6, "year"), ("tfmt", 7, "mjd"), ("tfmt", 6, "gps_ws?"),
        ("tconvkeep", 6, "tai"), ("tconvkeep", "T", "utc"), ("tfmt", "T", "decimalyear"), ("tfmt", 6, "decimalyear"),
        # position deltas: conversions depend on the reference position
        ("conv", 9, "enu"), ("conv", 9, "trs"), ("setitem", 10, 4), ("setref", 9, 5), ("conv", 11, "enu"), ("setitem", 11, 1),
        # position+velocity arrays: derived quantities towards `other`, Keplerian elements and the anomalies derived from them
        ("derived", 12, "azimuth"), ("derived", 12, "elevation"), ("derived", 12, "distance"), ("setother", 12, 5), ("setother", 12, 4),
        ("conv", 12, "kepler"), ("conv", 13, "trs"), ("kprop", 13, "M"), ("kprop", 13, "f"), ("kprop", 13, "E"), ("ksetitem", 13, 5),
        ("ksetitem", 13, 1), ("kprop", 14, "M"), ("kprop", 14, "f"), ("ksetitem", 14, 5), ("conv", 14, "trs"), ("setitem6", 12, 3),
        ("kprop", "K", "M"), ("kprop", "K", "f"), ("kslice", 13, (1, 3)), ("ksetitem", "K", 5),
        # min / max / mean of equal epochs held in different formats (the result carries the format of the receiver)
        ("conv", 19, "trs"), ("conv", 20, "trs"), ("conv", 21, "llh"),
        ("tmax", 15, "max"), ("tmax", 16, "max"), ("tmax", 15, "min"), ("tmax", 16, "min"), ("tmax", 17, "mean"), ("tmax", 18, "mean"),
    ]


def build_objects(mods):
    tr, rot, ell, nputil, T, Time, position = mods
    P = position.Position
    objs = [
        P(palette_xyz(1, (4, 3)), system="trs"),                    # 0  (n,3)
        P(palette_xyz(1, (3,)), system="trs"),                      # 1  (3,) equal to row 0 of object 0
        P(palette_xyz(1, (1, 3)), system="trs"),                    # 2  (1,3)
    ]
    other = P(palette_xyz(7, (4, 3)) * 3.0, system="trs")            # 4 after insertion below
    objs.append(P(palette_xyz(2, (4, 3)), system="trs", other=other))  # 3 with other
    objs.append(other)                                              # 4
    objs.append(P(palette_xyz(9, (4, 3)) * 2.0, system="trs"))       # 5 replacement other
    jd1 = np.array([2457754.5 - 2 + k for k in range(4)])
    jd2 = np.array([0.25 + 0.1 * k for k in range(4)])
    tj = Time(jd1, val2=jd2, fmt="jd", scale="utc")
    objs.append(tj)                                                  # 6 time array, format jd
    objs.append(Time(tj.datetime, fmt="datetime", scale="utc"))      # 7 equal epochs, format datetime
    objs.append(Time(jd1[0], val2=jd2[0], fmt="jd", scale="utc"))    # 8 scalar equal to element 0
    PD = position.PositionDelta
    ref = P(palette_xyz(3, (4, 3)), system="trs")
    objs.append(PD(np.array([[10.0, 20.0, 30.0], [1.0, -2.0, 3.0], [0.5, 0.25, -7.0], [100.0, 0.0, 0.0]]), system="trs", ref_pos=ref))  # 9
    objs.append(ref)                                                 # 10 reference position of 9
    objs.append(PD(np.array([5.0, -6.0, 7.0]), system="trs", ref_pos=P(palette_xyz(4, (3,)), system="trs")))  # 11 single delta
    PV = position.PosVel
    vel = np.array([[10.0, 7500.0, 20.0], [-300.0, 7000.0, 900.0], [5.0, -7400.0, 1500.0], [2000.0, 6000.0, -3000.0]])
    objs.append(PV(np.hstack([palette_xyz(2, (4, 3)) * 1.1, vel]), system="trs", other=other))   # 12 posvel with other
    kep = np.array([[7.0e6, 0.01, 0.9, 1.0, 2.0, 0.5], [8.0e6, 0.2, 2.0, -1.0, 4.0, -2.5], [2.6e7, 0.7, 0.3, 3.0, 0.1, 3.0], [4.2e7, 0.05, 1.5, 0.2, 5.5, 1.2]])
    objs.append(PV(kep, system="kepler"))                           # 13 Keplerian elements (n, 6)
    objs.append(PV(kep[1].copy(), system="kepler"))                 # 14 single set of elements
    # two time arrays with exactly the same two-part Julian dates (equal and hash-equal), one in datetime and one in jd format
    tdt = Time(tj.datetime, fmt="datetime", scale="utc")
    objs.append(tdt)                                                 # 15
    objs.append(Time(np.array(tdt.jd1), val2=np.array(tdt.jd2), fmt="jd", scale="utc"))  # 16
    objs.append(Time(np.array(tdt.jd1)[:1], val2=np.array(tdt.jd2)[:1], fmt="jd", scale="utc"))  # 17 one epoch (mean returns self)
    objs.append(Time(tdt.datetime[:1], fmt="datetime", scale="utc"))  # 18 the same epoch in datetime format
    # equal geodetic coordinates on two ellipsoids of the same name and different figures, and on an equal-valued third object
    e = same_name_ellipsoids(ell)
    objs.append(P(palette_llh(2, (4, 3)), system="llh", ellipsoid=e[0]))    # 19
    objs.append(P(palette_llh(2, (4, 3)), system="llh", ellipsoid=e[1]))    # 20
    objs.append(P(palette_xyz(1, (4, 3)), system="trs", ellipsoid=e[1]))    # 21 the values of object 0 on the other figure
    return objs


def _pos_factory(mods, o):
    position = mods[6]
    return {"PositionArray": position.Position, "PosVelArray": position.PosVel, "PositionDeltaArray": position.PositionDelta,
            "PosVelDeltaArray": position.PosVelDelta}.get(getattr(o, "cls_name", None))


def twin_of(mods, o, depth=0):
    """a freshly built object with the current contents of `o` (values, system, ellipsoid, and fresh twins of the
    attached other / ref_pos): what the property says a read may depend on"""
    f = _pos_factory(mods, o)
    if f is None or depth > 2:
        return None
    kw = {"system": o.system}
    if getattr(o, "ellipsoid", None) is not None and "Delta" not in o.cls_name:
        kw["ellipsoid"] = o.ellipsoid
    for att in ("other", "ref_pos"):
        try:
            v = getattr(o, att, None)
        except Exception:
            v = None
        if v is not None:
            t = twin_of(mods, v, depth + 1)
            if t is not None:
                kw[att] = t
    return f(np.array(np.asarray(o), dtype=float, copy=True), **kw)


def run_obj_history(w: ObjWorld, ops, rng_state=None):
    mods = w.mods
    w.objs = build_objects(mods)
    obs = []
    last = 3
    tlast = 6
    klast = 13
    tainted = set()

    def ptwin(o, arg, tgt):
        # the same read on a freshly built object with the same current contents (never for results the caller wrote into)
        if not w.twins or any(t[0] == tgt for t in tainted):
            return
        try:
            t = twin_of(mods, o)
            if t is not None:
                obs.append(("ptwin",) + w.observe(getattr(t, arg)))
        except Exception as e:
            obs.append(("ptwin", "ERR", type(e).__name__))

    for op in ops:
        w.before()
        kind, tgt, arg = op
        if tgt == "L":
            tgt = last
        if tgt == "T":
            tgt = tlast
        if tgt == "K":
            tgt = klast
        o = w.objs[tgt]
        try:
            if kind == "conv":
                if arg == "enu?":
                    arg = "llh"
                r = getattr(o, arg)
                obs.append(("skip-tainted",) if (tgt, arg) in tainted else w.observe(r))
                if (tgt, arg) not in tainted:
                    ptwin(o, arg, tgt)
            elif kind == "derived":
                if getattr(o, "other", None) is None:
                    obs.append(("no-other",))
                else:
                    obs.append(w.observe(getattr(o, arg)))
                    ptwin(o, arg, tgt)
            elif kind == "kprop":
                obs.append(w.observe(getattr(o, arg)))
                ptwin(o, arg, tgt)
            elif kind == "ksetitem":
                # change one element (column `arg`) of the first set of elements in place
                if np.ndim(o) == 2:
                    o[0, arg] = float(np.asarray(o)[0, arg]) * 0.5 + 0.1
                else:
                    o[arg] = float(np.asarray(o)[arg]) * 0.5 + 0.1
                tainted = {t for t in tainted if t[0] != tgt}
                obs.append(("kset",))
            elif kind == "kslice":
                r = o[arg[0]:arg[1]]
                w.objs.append(r)
                klast = len(w.objs) - 1
                obs.append(w.observe(r))
            elif kind == "setitem6":
                o[0] = np.hstack([palette_xyz(arg + 20, (3,)), [100.0 * arg, 7000.0, -50.0 * arg]])
                tainted = {t for t in tainted if t[0] != tgt}
                obs.append(("set",))
            elif kind == "setitem":
                o[0] = palette_xyz(arg + 20, (3,))
                tainted = {t for t in tainted if t[0] != tgt}
                obs.append(("set",))
            elif kind == "setother":
                o.other = w.objs[arg]
                obs.append(("setother",))
            elif kind == "setref":
                o.ref_pos = w.objs[arg]
                obs.append(("setref",))
            elif kind == "slice":
                r = o[arg[0]:arg[1]]
                w.objs.append(r)
                last = len(w.objs) - 1
                obs.append(w.observe(r) + (None if getattr(r, "other", None) is None else len(r.other),))
            elif kind == "mask":
                m = np.array([k % 2 == 0 for k in range(len(o))])
                r = o[m]
                w.objs.append(r)
                last = len(w.objs) - 1
                obs.append(w.observe(r) + (None if getattr(r, "other", None) is None else len(r.other),))
            elif kind == "writeres":
                # a write into a conversion that was handed out: the source must convert anew (3693fe8 / 9ad3ce5), nothing is
                # excluded from the later reads
                r = getattr(o, arg)
                r[...] = 12345.0
                obs.append(("wrote",))
            elif kind == "twrite":
                r = getattr(o, arg)
                try:
                    if isinstance(r, np.ndarray):
                        r[...] = r[...] * 0 + 7
                        obs.append(("wrote",))
                    else:
                        obs.append(("not-an-array",))
                except (ValueError, TypeError):
                    obs.append(("refused",))
            elif kind in ("tindex", "tmax", "tview", "tconv", "tconvkeep", "tfmt", "tslice"):
                if tgt == "T":
                    tgt = tlast
                    o = w.objs[tgt]
                if kind == "tindex":
                    obs.append(w.observe(o[arg]) if np.ndim(o.jd1) else ("scalar",))
                elif kind == "tmax":
                    obs.append(w.observe(getattr(o, arg or "max")) if np.ndim(o.jd1) else ("scalar",))
                elif kind == "tslice":
                    if np.ndim(o.jd1):
                        r = o[arg[0]:arg[1]]
                        w.objs.append(r)
                        tlast = len(w.objs) - 1
                        obs.append(w.observe(r) + (np.shape(r.jd1),))
                    else:
                        obs.append(("scalar",))
                elif kind == "tview":
                    r = [o.view(), o.T, o.reshape(o.shape), o.ravel() if np.ndim(o) else o.view()][arg % 4] if np.ndim(o) else o.view()
                    w.objs.append(r)
                    tlast = len(w.objs) - 1
                    obs.append(w.observe(r) + (np.shape(r.jd1),))
                elif kind == "tconv":
                    r = getattr(o, arg)
                    obs.append(w.observe(r) + (np.shape(r.jd1), np.asarray(r.jd1, dtype=float).tolist(), np.asarray(r.jd2, dtype=float).tolist()))
                    # the same conversion of a freshly built time with the same values, format and scale
                    if w.twins:
                        twin = type(o)(np.asarray(o).copy() if np.ndim(o) else np.asarray(o).item(), fmt=o.fmt)
                        rt = getattr(twin, arg)
                        obs.append(("twin",) + w.observe(rt) + (np.shape(rt.jd1), np.asarray(rt.jd1, dtype=float).tolist()))
                elif kind == "tconvkeep":
                    r = getattr(o, arg)
                    w.objs.append(r)
                    tlast = len(w.objs) - 1
                    obs.append(w.observe(r) + (np.shape(r.jd1),))
                elif kind == "tfmt":
                    r = getattr(o, arg.rstrip("?"))
                    obs.append(("val", json.dumps(np.asarray(r).tolist()), list(np.shape(r))))
        except Exception as e:
            obs.append(("ERR", type(e).__name__))
    return obs



# ------------------------------------------------------------------------------------------------
# part C: the per-object cache machine (Model/ObjCache.lean) against real position arrays


def _pal_rows():
    """fixed, generic points (value id -> xyz); no two ordered pairs have the same difference vector"""
    rng = np.random.RandomState(20260929)
    pts = []
    for v in range(16):
        d = rng.normal(size=3)
        d /= np.linalg.norm(d)
        pts.append(d * (6.4e6 + 1.0e5 * rng.rand()))
    return np.array(pts)


PAL = _pal_rows()


def gen_obj_history(rng, length):
    """operations of the object machine; keeps its own picture of (rows, attached object, kind) to stay well-formed.
    Kinds: a position (attached object = `other`) or a position delta (attached object = `ref_pos`, always a position);
    attachment chains of any depth (the other of an other, the other of a ref_pos), never cyclic."""
    ops, objs = [], []  # objs: dict(n=rows, other=index or None, kind="pos"|"delta", single=bool)

    def chain(i):
        out = []
        while objs[i]["other"] is not None:
            i = objs[i]["other"]
            out.append(i)
        return out

    def push_views(p, n, single):
        # the model (and the real __getitem__) makes the views innermost first
        members = [p] + chain(p)
        prev = None
        for m in reversed(members):
            objs.append({"n": n, "other": prev, "kind": objs[m]["kind"], "single": single})
            prev = len(objs) - 1

    for _ in range(length):
        k = rng.random()
        # a single row taken with an integer index is a (3,) position: indexing it addresses coordinates, not rows
        nonempty = [i for i, o in enumerate(objs) if o["n"] > 0 and not o.get("single")]
        anyrow = [i for i, o in enumerate(objs) if o["n"] > 0]
        if not objs or k < 0.12:
            n = rng.randint(1, 5)
            refs = [i for i, o in enumerate(objs) if o["kind"] == "pos" and o["n"] == n and not o.get("single")]
            if refs and rng.random() < 0.45:
                # a position delta is made with its reference position (a delta without one cannot even be indexed)
                q = rng.choice(refs)
                ops.append("created:" + ",".join(str(rng.randrange(12)) for _ in range(n)) + f":{q}")
                objs.append({"n": n, "other": q, "kind": "delta", "single": False})
            else:
                ops.append("create:" + ",".join(str(rng.randrange(12)) for _ in range(n)))
                objs.append({"n": n, "other": None, "kind": "pos", "single": False})
        elif k < 0.25 and nonempty:
            p = rng.choice(nonempty)
            a = rng.randrange(objs[p]["n"])
            b = rng.randint(a + 1, objs[p]["n"])
            rows = list(range(a, b))
            ops.append(f"view:{p}:" + ",".join(map(str, rows)))
            push_views(p, len(rows), False)
        elif k < 0.30 and nonempty:
            p = rng.choice(nonempty)
            ops.append(f"viewi:{p}:{rng.randrange(objs[p]['n'])}:{rng.randrange(4)}")
            push_views(p, 1, True)
        elif k < 0.35 and objs:
            # a view of all rows made by NumPy itself (no __getitem__(int|slice)): only __array_finalize__ runs; the attached
            # object is taken over as it is, so only for objects without one (the model's view slices the chain)
            cands = [i for i, o in enumerate(objs) if o["other"] is None and o["n"] > 0]
            if cands:
                p = rng.choice(cands)
                ops.append(f"viewn:{p}:{rng.randrange(6)}")
                objs.append({"n": objs[p]["n"], "other": None, "kind": objs[p]["kind"], "single": objs[p].get("single", False)})
            else:
                ops.append(f"readconv:{rng.randrange(len(objs))}")
        elif k < 0.39 and [i for i in nonempty if objs[i]["kind"] == "pos"]:
            p = rng.choice([i for i in nonempty if objs[i]["kind"] == "pos"])
            rows = [rng.randrange(objs[p]["n"]) for _ in range(rng.randint(1, 4))]
            ops.append(f"take:{p}:" + ",".join(map(str, rows)))
            objs.append({"n": len(rows), "other": None, "kind": objs[p]["kind"], "single": False})
        elif k < 0.54:
            p = rng.randrange(len(objs))
            # the attached object is a position with as many rows; no cycles (the real p[a:b] would recurse forever)
            cands = [i for i, o in enumerate(objs) if o["n"] == objs[p]["n"] and bool(o.get("single")) == bool(objs[p].get("single"))
                     and i != p and o["kind"] == "pos" and p not in chain(i)]
            if cands and (rng.random() < 0.85 or objs[p]["kind"] == "delta"):
                q = rng.choice(cands)
                ops.append(f"setother:{p}:{q}")
                objs[p]["other"] = q
            elif objs[p]["kind"] == "delta":
                ops.append(f"readder:{p}")
            else:
                ops.append(f"setother:{p}:-")
                objs[p]["other"] = None
        elif k < 0.72 and anyrow:
            p = rng.choice(anyrow)
            ops.append(f"setitem:{p}:{rng.randrange(objs[p]['n'])}:{rng.randrange(12)}")
        elif k < 0.84:
            pos = [i for i, o in enumerate(objs) if o["kind"] == "pos"]
            ops.append(f"readconv:{rng.choice(pos)}" if pos else f"readder:{rng.randrange(len(objs))}")
        else:
            ops.append(f"readder:{rng.randrange(len(objs))}")
    return ops


def _att(o):
    return "ref_pos" if "Delta" in o.cls_name else "other"


def run_obj_machine(ctx, mods, ops, label):
    tr, rot, ell, nputil, T, Time, position = mods
    P, PD = position.Position, position.PositionDelta
    objs = []
    outs = []  # ("D",) | ("C", array) | ("R", array) | ("E", array) | ("B",)
    case = {"object_machine": ops}

    def add_with_chain(r):
        # the views of the attached objects came into being first (innermost first), then the rows themselves
        members, x = [], r
        while getattr(x, _att(x), None) is not None:
            x = getattr(x, _att(x))
            members.append(x)
        objs.extend(reversed(members))
        objs.append(r)

    for op in ops:
        t = op.split(":")
        try:
            if t[0] == "create":
                ids = [int(x) for x in t[1].split(",")]
                objs.append(P(PAL[ids].copy(), system="trs"))
                outs.append(("D",))
            elif t[0] == "created":
                # a delta made with its reference position: for the model a create followed by the attachment
                ids = [int(x) for x in t[1].split(",")]
                outs += [("D",), ("D",)]
                objs.append(PD(PAL[ids].copy(), system="trs", ref_pos=objs[int(t[2])]))
            elif t[0] == "view":
                p = int(t[1])
                rows = [int(x) for x in t[2].split(",")]
                add_with_chain(objs[p][rows[0]:rows[-1] + 1])
                outs.append(("D",))
            elif t[0] == "viewi":
                # one row taken with an integer index: a Python int, a NumPy integer, or a 0-d integer array element
                p, k, variant = int(t[1]), int(t[2]), int(t[3])
                idx = [k, np.int64(k), np.arange(k + 1)[k], np.intp(k)][variant]
                add_with_chain(objs[p][idx])
                outs.append(("D",))
            elif t[0] == "viewn":
                p, variant = int(t[1]), int(t[2])
                o = objs[p]
                makers = [lambda o: o.view(), lambda o: o[...], lambda o: o.reshape(o.shape), lambda o: o[:, :] if o.ndim == 2 else o[..., :],
                          lambda o: np.asanyarray(o)[...], lambda o: type(o)(o, **({"ref_pos": None} if "Delta" in o.cls_name else {}))]
                objs.append(makers[variant](o))
                outs.append(("D",))
            elif t[0] == "take":
                p = int(t[1])
                rows = [int(x) for x in t[2].split(",")]
                r = objs[p][rows]
                setattr(r, _att(r), None)  # the model's `take` is a bare copy of the rows
                objs.append(r)
                outs.append(("D",))
            elif t[0] == "setother":
                o = objs[int(t[1])]
                setattr(o, _att(o), None if t[2] == "-" else objs[int(t[2])])
                outs.append(("D",))
            elif t[0] == "setitem":
                o = objs[int(t[1])]
                if o.ndim == 1:
                    if int(t[2]) != 0:
                        raise IndexError
                    o[:] = PAL[int(t[3])]
                else:
                    o[int(t[2])] = PAL[int(t[3])]
                outs.append(("D",))
            elif t[0] == "readconv":
                outs.append(("C", np.atleast_2d(np.asarray(objs[int(t[1])].llh, dtype=float)).copy()))
            elif t[0] == "readder":
                o = objs[int(t[1])]
                if getattr(o, _att(o), None) is None:
                    outs.append(("B",))
                elif "Delta" in o.cls_name:
                    outs.append(("E", np.atleast_2d(np.asarray(o.enu, dtype=float)).copy()))
                else:
                    outs.append(("R", np.atleast_2d(np.asarray(o.direction, dtype=float)).copy()))
        except Exception as e:
            outs.append(("ERR", type(e).__name__))

    def mop(o):
        t = o.split(":")
        if t[0] == "viewi":
            return ":".join(["view"] + t[1:3])
        if t[0] == "viewn":
            n = len(objs[int(t[1])]) if int(t[1]) < len(objs) else 1
            return f"view:{t[1]}:" + ",".join(str(k) for k in range(max(1, n)))
        return o
    # `created` names the new object in the model's numbering: views add one object per chain member, so after a view the
    # count is asked from the model (the reference for ids)
    mops, opix, nobj, dirty = [], [], 0, False
    for i, o in enumerate(ops):
        t = o.split(":")
        if t[0] == "created":
            if dirty:
                nobj, dirty = int(ctx.driver.ask1("c08 objcount src " + " ".join(mops))), False
            mops += ["create:" + t[1], f"setother:{nobj}:{t[2]}"]
            opix += [i, i]
            nobj += 1
        else:
            mops.append(mop(o))
            opix.append(i)
            if t[0] in ("create", "take", "viewn"):
                nobj += 1
            elif t[0] in ("view", "viewi"):
                dirty = True
    model = ctx.driver.ask1("c08 obj src " + " ".join(mops)).split("|")
    ctx.case(["C", label, ops], nontrivial=sum(o.startswith("read") for o in ops) > 1)
    ctx.count("C:object-machine")
    for o in ops:
        if o.split(":")[0] in ("created", "viewn"):
            ctx.count("C:op:" + o.split(":")[0])
    depth = 0
    for x in objs:
        d = 0
        while getattr(x, _att(x), None) is not None and d < 50:
            x = getattr(x, _att(x))
            d += 1
        depth = max(depth, d)
    ctx.count(f"C:max-chain-depth:{min(depth, 4)}{'+' if depth >= 4 else ''}")
    llh_of = lambda ids: tr._trs2llh.__wrapped__(nputil.HashArray(PAL[ids]), ell.GRS80)
    if len(model) != len(outs):
        ctx.disagree("object cache machine (length)", case, model, [o[0] for o in outs])
        return
    for j, (m, o) in enumerate(zip(model, outs)):
        k = opix[j]
        kind = m.split(":")[0]
        ok = True
        if kind in ("D", "B"):
            ok = o[0] == kind
        elif kind == "C":
            ids = [int(x) for x in m.split(":")[1].split(",")]
            exp = llh_of(ids)
            ok = o[0] == "C" and o[1].shape == exp.shape and bool(np.all(np.abs(o[1] - exp) <= np.array([1e-11, 1e-11, 1e-5])))
        elif kind == "R" and o[0] == "E":
            # a position delta: its conversion to the local system of the (current) reference position
            a = [int(x) for x in m.split(":")[1].split(",")]
            b = [int(x) for x in m.split(":")[2].split(",")]
            exp = np.atleast_2d(np.asarray(PD(PAL[a].copy(), system="trs", ref_pos=P(PAL[b].copy(), system="trs")).enu, dtype=float))
            ok = o[1].shape == exp.shape and bool(np.all(np.abs(o[1] - exp) <= 1e-9 * np.maximum(1.0, np.abs(exp))))
            ctx.count("C:read:delta.enu")
        elif kind == "R":
            a = [int(x) for x in m.split(":")[1].split(",")]
            b = [int(x) for x in m.split(":")[2].split(",")]
            d = PAL[b] - PAL[a]
            nrm = np.linalg.norm(d, axis=1)[:, None]
            with np.errstate(invalid="ignore", divide="ignore"):
                exp = d / nrm
            ok = o[0] == "R" and o[1].shape == exp.shape and bool(np.all((np.abs(o[1] - exp) <= 1e-12) | (np.isnan(exp) & np.isnan(o[1]))))
        if not ok:
            ctx.disagree("object cache machine", {**case, "step": k, "op": ops[k]}, m, [o[0]] + ([o[1].tolist()] if len(o) > 1 and hasattr(o[1], "tolist") else list(o[1:])))
            # the model's value is the one recomputed from the current contents: a difference is a stale or wrong read
            ctx.violate(f"object-cache-stale:{ops[k].split(':')[0]}", f"step {k} ({ops[k]}) does not return the value of the current contents", {**case, "step": k})
            return


# ------------------------------------------------------------------------------------------------
# running a list of independent histories on several forked worker processes

_WORK = {}


def _shard_worker(args):
    name, k, n, tier, seed = args
    sub = Ctx("C08", tier, seed * 1000 + 7 * k + 1)
    jobs, fn, shard_of = _WORK[name]
    state = {}
    for i, job in enumerate(jobs):
        if (shard_of(job) if shard_of else i) % n == k:
            fn(sub, job, state, (k, n))
    if sub._driver is not None:
        sub._driver.close()
    return ([(v.key, v.what, v.replay) for v in sub.violations], sub.hist, sub.evaluations, sub.nontrivial, sub.samples, sub.corr_broken)


def workers_for(ctx):
    import os

    if os.environ.get("C08_WORKERS"):
        return max(1, int(os.environ["C08_WORKERS"]))
    return max(1, min(8 if ctx.thorough else 4, (os.cpu_count() or 1) // 2))


def run_sharded(ctx, name, jobs, fn, shard_of=None):
    """fn(ctx, job, state, (shard, shards)) for every job; the jobs are dealt out deterministically (job index, or `shard_of(job)`,
    modulo the number of workers) to forked processes, each with its own Ctx (and its own model driver when it asks one);
    violations / counters / coverage are merged in shard order.  Every worker imports nothing anew: it is a fork of this
    process, so midgard is the tree under test and the process state is the one at the fork.  A replay names the shard."""
    import time as _time

    n = workers_for(ctx)
    _WORK[name] = (jobs, fn, shard_of)
    ctx.extra.setdefault("workers", {})[name] = n
    t0 = _time.time()
    try:
        return _run_sharded(ctx, name, jobs, fn, n)
    finally:
        ctx.extra.setdefault("phase_wall_seconds", {})[name] = round(_time.time() - t0, 1)


def _run_sharded(ctx, name, jobs, fn, n):
    if n <= 1 or len(jobs) < 4 * n:
        state = {}
        for job in jobs:
            fn(ctx, job, state, (0, 1))
        return
    import multiprocessing as mp

    if ctx._driver is not None:
        # the children must not share the parent's pipe to the model driver
        ctx._driver.close()
        ctx._driver = None
    with mp.get_context("fork").Pool(n) as pool:
        results = pool.map(_shard_worker, [(name, k, n, ctx.tier, ctx.seed) for k in range(n)], chunksize=1)
    for viol, hist, ev, nontriv, samples, broken in results:
        for key, what, rep in viol:
            if key not in ctx._vkeys and len(ctx.violations) < 200:
                ctx._vkeys.add(key)
                ctx.violations.append(common.Violation(key, what, rep))
        for kk, vv in hist.items():
            ctx.hist[kk] = ctx.hist.get(kk, 0) + vv
        ctx.evaluations += ev
        ctx.nontrivial |= nontriv
        ctx.samples += [x for x in samples if len(ctx.samples) < 6]
        ctx.corr_broken += broken[: max(0, 50 - len(ctx.corr_broken))]


def run(ctx: Ctx):
    from translator import extract_cache

    changed = extract_cache.generate()
    ctx.count("generated-mech-changed" if changed else "generated-mech-unchanged")
    _t0 = __import__('time').time()
    ctx.proof = common.prove("C08")
    ctx.extra.setdefault("phase_wall_seconds", {})["prove"] = round(__import__('time').time() - _t0, 1)
    mods = _mods()
    rng = ctx.rng
    ctx.rule = ("part A: histories over {create array (3 value ids, shapes (3,)/(1,3)/(n,3) resp. scalar/(1,)/(n,), ellipsoid or format tag), "
                "call, write into k-th result, change argument}: all histories of length L after a 3-array prelude, random ones up to length 30, "
                "and one >128-key flood per function; part B: object histories (convert, derived quantity, item assignment, replace/mutate other, "
                "slice, mask, write into a result) run naturally and with all caches flushed before each step; non-trivial = at least two calls / "
                "two steps; distinct by the operation list; part D (harness/c08_hist.py): for 17 kinds of position objects x every way of making "
                "a second object from one (copy, copy.copy, deepcopy, view, [...], transpose, reshape, ufunc output, slices, tuple / fancy / mask / "
                "integer index, constructor, factories, +/- a delta, conversions, .pos/.vel): read - change one of the objects involved (item "
                "assignment with 6 kinds of keys, or replace an attachment) - read every readable quantity of the derived object and of its "
                "source, compared exactly with the same history without the early reads and (1e-9) with a freshly built twin; and for every "
                "Python-defined method taking another object: call - change the argument / its attachment / the receiver - call again, same two "
                "comparisons (core plans exhaustively, the rest sampled)")
    ctx.trusted += ["translator/extract_cache.py (AST facts about HashArray, hashable, the public wrappers, TimeBase.__eq__/_to_scale)",
                    "functools.lru_cache behaves as an LRU map keyed by hash and __eq__ of the arguments (modelled, validated through cache_info)",
                    "NumPy view/copy semantics of asarray/view/.copy() are modelled (which buffers alias), validated by the write-into-result steps"]
    ctx.assumptions += ["a 2-d PosVel array hands out .pos / .vel as copies it keeps in its own cache: writing into such a copy is not seen by the "
                        "PosVel array (the only remaining case of 'writing into an object's own cached result'; conversions are covered)",
                        "only item assignment (__setitem__, any key) and attribute assignment count as changes of a position; the other in-place "
                        "routes of NumPy (out=, np.copyto, .fill, .sort, .flat, .put, writes through .val / np.asarray(p) / the caller's own array) "
                        "are pinned route by route in part E and recorded as findings where they leave stale values",
                        "part D compares a history with early reads against the same history without them (exactly) and against freshly built "
                        "twins (1e-9); reads of the source after writing into the .pos / .vel it holds in its own cache are not compared (first "
                        "assumption)"]
    L = 3 if ctx.thorough else 2
    groups = [GroupRaw(n, mods) for n in ("trs2llh", "llh2trs", "enu2trs", "trs2enu")]
    gt = GroupTime(mods)
    n_ex = 0
    jobsA = []
    for gi, g in enumerate(groups):
        for h in exhaustive_histories(g.shapes, L):
            if g.ntags == 1:
                h = [o if not o.startswith("create") else ":".join(o.split(":")[:3] + ["0"]) for o in h]
            jobsA.append((gi, h, "exhaustive"))
            n_ex += 1
        for _ in range(ctx.budget(60, 2500)):
            jobsA.append((gi, gen_history(rng, g.shapes, g.ntags, 1, rng.randint(3, 30)), "random"))
        jobsA.append((gi, flood_history(rng, g.shapes), "flood"))
    for h in exhaustive_histories(gt.shapes, L):
        jobsA.append((-1, [o for o in h if not o.startswith("mutate")], "exhaustive"))
        n_ex += 1
    for _ in range(ctx.budget(60, 2500)):
        jobsA.append((-1, gen_history(rng, gt.shapes, gt.ntags, 4, rng.randint(3, 25), allow_mutate=False), "random"))
    jobsA.append((-1, [o for o in flood_history(rng, gt.shapes)], "flood"))

    def exec_a(sub, job, state, shard):
        gi, h, label = job
        g = gt if gi < 0 else groups[gi]
        g.cached.cache_clear()  # the model starts from an empty cache
        (run_time_history if gi < 0 else run_raw_history)(sub, g, h, label)

    run_sharded(ctx, "A", jobsA, exec_a)
    ctx.extra["exhaustive_histories"] = n_ex
    # the exhaustive histories above reset the cache; these do not (longer real history than the model sees is fine
    # for the oracle: the oracle does not depend on the model)
    # ---------------- part B
    alphabet = obj_ops_alphabet()
    nat, ref = ObjWorld(mods, False), ObjWorld(mods, True)
    nat.twins = ref.twins = True
    LB = 3 if ctx.thorough else 2
    # the min / max / mean operations (the last six) enter the exhaustive product as pairs only (with every operation, in
    # both orders): a process-wide memo shows on the second call
    late = [o for o in alphabet if o[0] == "tmax" and o[2] is not None]
    core_alphabet = [o for o in alphabet if o not in late]
    seqs = list(itertools.product(core_alphabet, repeat=LB))
    seqs += [(x, y) for x in late for y in alphabet] + [(y, x) for x in late for y in core_alphabet]
    if not ctx.thorough:
        pass
    # read – change – read again, for every reading and every changing operation (and through a row view)
    reads = [o for o in alphabet if o[0] in ("conv", "derived", "tconv", "tfmt", "kprop")]
    muts = [o for o in alphabet if o[0] in ("setitem", "setother", "setref", "writeres", "twrite", "ksetitem", "setitem6")]
    for r in reads:
        for m in muts:
            seqs.append((r, m, r))
        if isinstance(r[1], int) and r[1] in (0, 3, 9):
            seqs.append((r, ("slice", r[1], (0, 2)), ("setitem", "L", 3), r))
    # the same format read from times of different scales holding the same year, in both orders (a value memoised per
    # process under a key that forgets the scale or the format shows here)
    for fmt in TIME_FMTS:
        for sc in ("tai", "gps", "tt", "tcg"):
            seqs.append((("tfmt", 6, fmt), ("tconvkeep", 6, sc), ("tfmt", "T", fmt), ("tfmt", 6, fmt)))
            seqs.append((("tconvkeep", 6, sc), ("tfmt", "T", fmt), ("tfmt", 6, fmt), ("tfmt", "T", fmt)))
    for _ in range(ctx.budget(150, 4000)):
        seqs.append(tuple(rng.choice(alphabet) for _ in range(rng.randint(3, 12))))
    def exec_b(ctx, seq, state, shard):
        # the natural world keeps whatever the earlier histories of this process left in the process-wide caches
        if "nat" not in state:
            state["nat"], state["ref"] = ObjWorld(mods, False), ObjWorld(mods, True)
            state["nat"].twins = state["ref"].twins = True
        nat, ref = state["nat"], state["ref"]
        a = run_obj_history(nat, seq)
        b = run_obj_history(ref, seq)
        case = {"object_history": [list(map(str, o)) for o in seq], "shard": list(shard)}
        ctx.case(["B", [list(map(str, o)) for o in seq]], nontrivial=len(seq) > 1)
        ctx.count("B:object-history")
        # a conversion must equal the conversion of a freshly built equal-valued time (twin entries follow their op)
        for i in range(len(a) - 1):
            if isinstance(a[i + 1], tuple) and a[i + 1][:1] == ("twin",):
                x, y = a[i], a[i + 1][1:]
                # same type, format, shape of the values and of jd1; values equal up to the rounding of rebuilding the
                # twin from the (single-float) values
                same_struct = x[:3] == y[:3] and x[4] == y[4]
                try:
                    vx, vy = np.asarray(json.loads(x[3]), dtype=float), np.asarray(json.loads(y[3]), dtype=float)
                    same_val = vx.shape == vy.shape and bool(np.all(np.abs(vx - vy) <= 1e-6))
                except (ValueError, TypeError):
                    same_val = x[3] == y[3]
                if not (same_struct and same_val):
                    ctx.violate("depends-on-history:time-conversion",
                                f"a scale conversion gave {str(a[i])[:150]} but the same conversion of a freshly built equal time gave {str(a[i + 1])[:150]}", case)
                    break
        for i in range(len(a) - 1):
            if isinstance(a[i + 1], tuple) and a[i + 1][:1] == ("ptwin",):
                x, y = a[i], a[i + 1][1:]
                okp = False
                if len(y) == 4 and len(x) >= 4 and x[0] != "ERR":
                    try:
                        vx, vy = np.asarray(json.loads(x[3]), dtype=float), np.asarray(json.loads(y[3]), dtype=float)
                        okp = (x[0] == y[0] and x[1] == y[1] and x[2] == y[2] and vx.shape == vy.shape
                               and bool(np.all((np.abs(vx - vy) <= 1e-9 * np.maximum(1.0, np.abs(vy))) | (np.isnan(vx) & np.isnan(vy)))))
                    except (ValueError, TypeError):
                        okp = x[:4] == y[:4]
                elif x[:1] == ("ERR",) and y[:1] == ("ERR",):
                    okp = True
                elif x[:1] == ("nt",) and y[:1] == ("nt",):
                    okp = True   # named tuples (multi-part results) are compared by the flushed run only
                if not okp:
                    nops = len([z for z in a[:i + 1] if not (isinstance(z, tuple) and z[:1] in (("twin",), ("ptwin",)))])
                    op = seq[nops - 1] if 0 < nops <= len(seq) else ("?", "?", "?")
                    ctx.violate(f"depends-on-history:{op[0]}:{op[2] if isinstance(op[2], str) else ''}",
                                f"step {nops - 1} ({op}) gave {str(a[i])[:150]} but the same read on a freshly built object with the same "
                                f"current contents gave {str(a[i + 1])[:150]}", case)
                    break
        if a != b:
            k = next(i for i in range(len(a)) if a[i] != b[i])
            ops_k = [i for i, x in enumerate(a[:k + 1]) if not (isinstance(x, tuple) and x[:1] in (("twin",), ("ptwin",)))]
            op = seq[len(ops_k) - 1] if ops_k and len(ops_k) <= len(seq) else ("?", "?", "?")
            ctx.violate(f"history-visible:{op[0]}:{op[2] if isinstance(op[2], str) else ''}",
                        f"step {len(ops_k) - 1} ({op}) gave {str(a[k])[:120]} naturally but {str(b[k])[:120]} with caches flushed", case)

    run_sharded(ctx, "B", seqs, exec_b)
    # ---------------- part C
    fixed = [
        ["create:1,2,3,4", "readconv:0", "view:0:0,1", "view:1:0", "setitem:2:0:7", "readconv:0", "readconv:1"],
        ["create:1,2,3,4", "create:5,6,7,8", "setother:0:1", "readder:0", "view:0:1,2", "readder:3", "setitem:2:0:9", "readder:3", "readder:0",
         "setitem:1:3:2", "readder:0", "setother:0:-", "readder:0"],
    ]
    fixed += [
        # a chain of three (a -> b -> c): rows of a are rows of b and of c too; writes through the innermost rows
        ["create:1,2,3", "create:4,5,6", "create:7,8,9", "setother:0:1", "setother:1:2", "readder:0", "readder:1", "view:0:0,1", "readder:5",
         "readder:4", "setitem:3:0:11", "readder:4", "readder:1", "readder:5", "setitem:4:1:10", "readder:5", "readder:0", "readconv:1"],
        # a delta whose reference position has an other of its own
        ["create:4,5,6", "create:7,8,9", "created:1,2,3:0", "setother:0:1", "readder:2", "view:2:1,2", "readder:5", "setitem:4:0:9",
         "readder:5", "readder:2", "setitem:0:2:3", "readder:2", "readder:5", "viewi:2:2:1", "readder:8", "setitem:0:2:0", "readder:8"],
        # views NumPy makes by itself share the memory and the invalidation
        ["create:1,2,3", "readconv:0", "viewn:0:0", "viewn:0:1", "viewn:1:2", "viewn:0:3", "viewn:0:5", "readconv:1", "readconv:3", "setitem:0:1:9",
         "readconv:1", "readconv:3", "readconv:4", "readconv:5", "setitem:3:0:8", "readconv:0", "readconv:2", "readconv:5"],
    ]
    jobsC = [(h, "fixed") for h in fixed]
    # every history of length LC over a small alphabet after the prelude "a with other b": bookkeeping that goes wrong only
    # on the second invalidation, or only for one way of taking a row, needs a specific order of these
    prelude = ["create:1,2,3", "create:5,6,7", "setother:0:1"]
    small = ["readconv:0", "readder:0", "setitem:1:0:V", "setitem:0:1:V", "viewi:0:1:1"]
    large = small + ["readconv:1", "setother:0:-", "setother:0:1", "view:0:0,1", "readder:L", "readconv:L", "setitem:L:0:V", "setitem:M:0:V", "viewi:1:2:2"]
    fams = [(small, 5), (large, 3)] if not ctx.thorough else [(small, 6), (large, 4)]
    n_exc = 0
    for alpha, LC in fams:
        for seq in itertools.product(alpha, repeat=LC):
            h, nobj, v = list(prelude), 2, 8
            ok = True
            for o in seq:
                if ":L" in o or ":M" in o:
                    if nobj < 3:
                        ok = False
                        break
                    # L: the last object made (a row view of a); M: the one before it (the view of b that came with it)
                    o = o.replace(":L", f":{nobj - 1}").replace(":M", f":{nobj - 2}")
                if ":V" in o:
                    v = 8 + (v - 7) % 4
                    o = o.replace(":V", f":{v}")
                h.append(o)
                if o.startswith("view"):
                    # a is object 0; whether it has an other at this point decides how many objects the view adds
                    has_other = [x for x in h if x.startswith("setother:0:")][-1] != "setother:0:-"
                    nobj += 2 if (o.split(":")[1] == "0" and has_other) else 1
            if ok:
                jobsC.append((h, "exhaustive"))
                n_exc += 1
    # an object that depends on another one for two reasons at once — it is a view of its memory *and* has it attached as
    # `other` — and loses one of them: every order of attaching the source / another array / nothing to a view V of a,
    # reading, and item assignment to a or V (V made by __getitem__ or by NumPy itself); the reads at the end must be current
    back_alpha = ["setother:2:0", "setother:2:1", "setother:2:-", "readconv:2", "setitem:0:0:X", "setitem:2:1:X"]
    views = ["view:0:0,1,2", "viewn:0:0", "viewn:0:1", "viewn:0:2", "viewn:0:3", "viewn:0:4", "viewn:0:5"]
    for vw in (views if ctx.thorough else [views[0], views[1], rng.choice(views[2:])]):
        for seq in itertools.product(back_alpha, repeat=4):
            jobsC.append((["create:1,2,3", "create:5,6,7", vw] + [o.replace(":X", f":{8 + i % 4}") for i, o in enumerate(seq)]
                          + ["readconv:2", "readconv:0", "readder:2"], "view-and-attachment"))
            n_exc += 1
    ctx.extra["exhaustive_object_histories"] = n_exc
    for _ in range(ctx.budget(250, 8000)):
        jobsC.append((gen_obj_history(rng, rng.randint(4, 30)), "random"))
    run_sharded(ctx, "C", jobsC, lambda sub, job, state, shard: run_obj_machine(sub, mods, job[0], job[1]))
    # ---------------- part D: the position classes (every derivation, every method with an object argument)
    from . import c08_hist

    jobs1 = c08_hist.plan_d1(ctx, mods, ctx.thorough)
    run_sharded(ctx, "D1", jobs1, lambda sub, job, state, shard: c08_hist.exec_d1(sub, mods, job, state), shard_of=c08_hist.shard_d1)
    jobs2 = c08_hist.plan_d2(ctx, mods, ctx.thorough)
    run_sharded(ctx, "D2", jobs2, lambda sub, job, state, shard: c08_hist.exec_d2(sub, mods, job, state), shard_of=c08_hist.shard_d2)
    ctx.extra["D1_histories"], ctx.extra["D2_histories"] = len(jobs1), len(jobs2)
    # ---------------- part E: the other in-place routes NumPy offers (pinned outcome per route)
    _t0 = __import__('time').time()
    ctx.extra["E_routes"] = c08_hist.run_routes(ctx, mods)
    ctx.extra.setdefault("phase_wall_seconds", {})["E"] = round(__import__('time').time() - _t0, 1)
    # ---------------- part G: results of time objects are protected or private
    _t0 = __import__('time').time()
    ctx.extra["G_time_results"] = c08_hist.run_time_results(ctx, mods)
    ctx.extra.setdefault("phase_wall_seconds", {})["G"] = round(__import__('time').time() - _t0, 1)
    # ---------------- part I: the same Julian date numbers under two scales
    _t0 = __import__('time').time()
    ctx.extra["I_scale_shadows"] = c08_hist.run_time_scale_shadows(ctx, mods)
    ctx.extra.setdefault("phase_wall_seconds", {})["I"] = round(__import__('time').time() - _t0, 1)
    # ---------------- part H: time arrays made from time arrays after earlier indexing / reads
    _t0 = __import__('time').time()
    ctx.extra["H_time_derivations"] = c08_hist.run_time_derivations(ctx, mods, ctx.thorough)
    ctx.extra.setdefault("phase_wall_seconds", {})["H"] = round(__import__('time').time() - _t0, 1)
    # ---------------- part F: cached functions and objects on one memory (the constructor keeps the caller's array)
    jobsF = [ctx.rng.randrange(2 ** 31) for _ in range(ctx.budget(8, 64))]

    def exec_f(sub, job, state, shard):
        import random

        sub.rng = random.Random(job)  # the job is the seed of its batch of histories: a failure replays from ctx.seed alone
        c08_hist.run_shared(sub, mods, 60)

    run_sharded(ctx, "F", jobsF, exec_f)
    ctx.traces = ctx.evaluations


def replay(payload):
    print(json.dumps(payload, indent=1, default=str)[:3000])
    return 0
