"""C14, second part: `sinex_tms` at file level and the `np.genfromtxt` behaviours the Lean model assumes.

tms_case       a SINEX-TMS file rendered by an independent writer (positions typed from the example records in the
               doc strings of midgard/parsers/sinex_tms.py — SINEX-TMS is not a published standard) is parsed by the
               real `SinexTmsParser` and by the compiled model (`c14 tms`); oracle: every value written comes back,
               TIMESERIES/DATA column by column and row by row.
genfromtxt_cases   the list GFT of behaviours of `np.genfromtxt` the model relies on, each exercised with targeted
               inputs against the *real* `np.genfromtxt` called with exactly the keyword arguments of
               `SinexParser.parse_lines` / `SinexTmsParser.parse_lines` (the kwargs are captured from the real
               methods, not copied) and compared with the model's `cutLine` / `convertCell` / `wsRows`.
"""
from __future__ import annotations

import json
import re
import warnings
from datetime import datetime, timedelta
from fractions import Fraction

import numpy as np

from . import common
from .common import hexs

CODE = "ABCDEFGHIJKLMNOPQRSTUVWXYZ0123456789"
WORD = "ABCDEFGHIJKLMNOPQRSTUVWXYZabcdefghijklmnopqrstuvwxyz0123456789-_./()+,:;=<>[]%&'\"!?@$^~|{}#"

# (name, first column, width, kind) — typed from the example records in the doc strings of sinex_tms.py
TMS_HEADER = [("snx_version", 6, 4, "flt"), ("create_agency", 10, 3, "code"), ("create_epoch", 14, 14, "epoch4"),
              ("data_agency", 29, 3, "code"), ("start_epoch", 33, 14, "epoch4"), ("end_epoch", 48, 14, "epoch4"),
              ("obs_code", 63, 1, "code"), ("solution_contents", 65, 9, "code")]
_SITE = [("site_code", 1, 9, "site"), ("point_code", 11, 2, "rcode"), ("soln", 14, 4, "code")]
TMS_BLOCKS = {
    "FILE/REFERENCE": [("info_type", 1, 18, "words"), ("info", 20, 60, "text")],
    "SITE/ID": [("site_code", 1, 9, "site"), ("point_code", 11, 2, "rcode"), ("domes", 14, 9, "code"), ("obs_code", 24, 1, "code"),
                ("approx_lon", 26, 10, "flt"), ("approx_lat", 37, 10, "flt"), ("approx_height", 48, 8, "flt"),
                ("description", 57, 100, "text")],
    "SITE/RECEIVER": _SITE + [("obs_code", 19, 1, "code"), ("start_time", 21, 14, "epoch4"), ("end_time", 36, 14, "epoch4"),
                              ("receiver_type", 51, 20, "text"), ("serial_number", 72, 20, "text"), ("firmware", 93, 11, "text")],
    "SITE/ANTENNA": _SITE + [("obs_code", 19, 1, "code"), ("start_time", 21, 14, "epoch4"), ("end_time", 36, 14, "epoch4"),
                             ("antenna_type", 51, 20, "antenna"), ("serial_number", 72, 20, "text")],
    "SITE/ECCENTRICITY": _SITE + [("obs_code", 19, 1, "code"), ("start_time", 21, 14, "epoch4"), ("end_time", 36, 14, "epoch4"),
                                  ("vector_type", 51, 3, "code"), ("vector_1", 55, 8, "flt"), ("vector_2", 64, 8, "flt"),
                                  ("vector_3", 73, 8, "flt")],
    "TIMESERIES/REF_COORDINATE": _SITE + [("obs_code", 19, 1, "code"), ("epoch", 21, 14, "epoch4"), ("ref_x", 36, 13, "flt"),
                                          ("ref_y", 50, 13, "flt"), ("ref_z", 64, 13, "flt"), ("system", 78, 9, "code")],
    "TIMESERIES/COLUMNS": [("col", 1, 5, "int_as_flt"), ("name", 7, 20, "colname"), ("unit", 28, 20, "code0"),
                           ("description", 49, 100, "text")],
}
ENTRY = {"SITE/ID": "site_id", "SITE/RECEIVER": "site_receiver", "SITE/ANTENNA": "site_antenna",
         "SITE/ECCENTRICITY": "site_eccentricity"}
EPOCH_KEYS = {"create_epoch", "start_epoch", "end_epoch", "start_time", "end_time", "epoch"}
ISO = re.compile(r"^\d{4}-\d\d-\d\dT\d\d:\d\d:\d\d$")
FOREIGN = ["TIMESERIES/DESCRIPTION", "TIMESERIES/EVENT", "X/BLOCK"]


def rnd(rng, chars, n):
    return "".join(rng.choice(chars) for _ in range(n))


def text_value(rng, width, empty_ok=True):
    """free text with inner blanks, clean at both ends"""
    if empty_ok and rng.random() < 0.06:
        return ""
    n = width if rng.random() < 0.3 else rng.randint(1, width)
    s = list(rnd(rng, WORD, n))
    for i in range(1, n - 1):
        if rng.random() < 0.14:
            s[i] = " "
    return "".join(s)


def epoch4(rng):
    """(text, expected ISO text | None)"""
    k = rng.random()
    if k < 0.12:
        return "0000:000:00000", "9999-12-31T03:46:39"  # the code's "open end" sentinel 9999:364:99999
    year = rng.choice([1980, 1999, 2000, 2024, 2050]) if rng.random() < 0.3 else rng.randint(1900, 2099)
    leap = year % 4 == 0 and (year % 100 != 0 or year % 400 == 0)
    doy = rng.choice([1, 365 + leap]) if rng.random() < 0.2 else rng.randint(1, 365 + leap)
    sec = rng.choice([0, 86399]) if rng.random() < 0.2 else rng.randint(0, 86399)
    d = datetime(year, 1, 1) + timedelta(days=doy - 1, seconds=sec)
    return f"{year:04d}:{doy:03d}:{sec:05d}", d.isoformat()


def flt(rng, width):
    dec = rng.randint(0, max(0, min(5, width - 3)))
    intw = max(width - dec - (1 if dec else 0) - 1, 1)
    mag = rng.randint(0, 10 ** rng.randint(1, intw) - 1)
    frac = rng.randint(0, 10 ** dec - 1) if dec else 0
    t = ("-" if rng.random() < 0.3 else "") + str(mag) + (f".{frac:0{dec}d}" if dec else "")
    return t, Fraction(t)


def gen_field(rng, name, width, kind, site):
    """(text, expected) with expected = ('s', str) | ('f', float) | ('iso', str|None) | ('antenna', (a, r))"""
    if kind == "site":
        return site, ("s", site)
    if kind in ("code", "rcode"):
        t = rnd(rng, CODE + "-", width if rng.random() < 0.6 else rng.randint(1, width))
        return t, ("s", t)
    if kind == "code0":
        t = "" if rng.random() < 0.3 else rnd(rng, CODE.lower(), rng.randint(1, min(width, 6)))
        return t, ("s", t)
    if kind == "words":
        w = [rnd(rng, CODE, rng.randint(1, 8)) for _ in range(rng.randint(1, 2))]
        t = " ".join(w)[:width].strip()
        return t, ("s", t)
    if kind == "text":
        t = text_value(rng, width)
        return t, ("s", t)
    if kind == "antenna":
        a = rnd(rng, CODE + "._-", rng.randint(1, 15))
        r = rnd(rng, CODE, 4)
        return f"{a:15} {r}", ("antenna", (a, r))
    if kind == "epoch4":
        t, e = epoch4(rng)
        return t, ("iso", e)
    if kind == "flt":
        t, e = flt(rng, width)
        return t, ("f", float(e))
    raise ValueError(kind)


def render(fields, texts, lead=" ", strip_p=0.5, rng=None):
    width = max(s + w for _, s, w, _ in fields)
    line = [" "] * width
    line[0] = lead
    for (name, start, w, kind), t in zip(fields, texts):
        assert len(t) <= w, (name, t, w)
        cell = t.rjust(w) if kind in ("flt", "rcode", "int_as_flt") else t.ljust(w)
        line[start:start + w] = list(cell)
    s = "".join(line)
    if rng is None or rng.random() < strip_p:
        s = s.rstrip() or lead
    return s


def data_token(rng):
    k = rng.random()
    if k < 0.55:
        d = rng.randint(1, 5)
        return f"{rng.uniform(-5e6, 5e6):.{d}f}"
    if k < 0.75:
        return f"{rng.uniform(-1, 1):.4f}"
    if k < 0.88:
        return str(rng.randint(-50, 5000))
    if k < 0.95:
        return f"{rng.uniform(-9, 9) * 10.0 ** rng.randint(-9, 9):.6e}"
    return rng.choice(["0", "-0.0", "0.0000", "1", "+3.5", ".5", "5."])


def gen_tms(rng, quick):
    """(text, model of what was written)"""
    site = rnd(rng, CODE, rng.choice([4, 9, 9]))
    W = {"blocks": {}, "data": None, "site": site}
    # header
    texts, hexp = [], []
    for name, start, w, kind in TMS_HEADER:
        if name == "snx_version":
            t, e = rng.choice([("1.0", ("f", 1.0)), ("1.1", ("f", 1.1)), ("2.02", ("f", 2.02))])
        elif name == "solution_contents":
            t, e = site, ("s", site)
        else:
            t, e = gen_field(rng, name, w, kind, site)
        texts.append(t)
        hexp.append((name, e))
    hline = "%=TMS" + render(TMS_HEADER, texts, lead="%", rng=rng)[5:]
    W["header"] = hexp
    W["hline"] = hline
    blocks = []
    maxrows = 6 if quick else 25
    for m, fields in TMS_BLOCKS.items():
        if rng.random() < 0.25:
            continue
        if m == "TIMESERIES/COLUMNS":
            continue
        n = 1 if m == "TIMESERIES/REF_COORDINATE" else (rng.choice([0, 1, 1, 2]) if rng.random() < 0.4 else rng.randint(1, maxrows))
        if m == "TIMESERIES/REF_COORDINATE" and rng.random() < 0.06:
            n = rng.choice([0, 2])  # `data.item()` raises
        rows = []
        for _ in range(n):
            tx, ex = [], []
            for name, start, w, kind in fields:
                t, e = gen_field(rng, name, w, kind, site)
                tx.append(t)
                ex.append(e)
            rows.append((tx, ex))
        lines = [render(fields, tx, rng=rng) for tx, _ in rows]
        W["blocks"][m] = {"fields": fields, "rows": rows}
        blocks.append((m, lines))
    # TIMESERIES/COLUMNS + DATA
    if rng.random() < 0.9:
        ncol = 1 if rng.random() < 0.03 else rng.randint(2, 6 if quick else 14)
        names = []
        pool = ["YEAR", "X", "Y", "Z", "SIG_X", "SIG_Y", "SIG_Z", "EAST", "NORTH", "UP", "SIG_EAST", "SIG_NORTH", "SIG_UP",
                "CORR_EN", "MJD", "NOBSC", "TROTOT", "RCV_CLK"]
        rng.shuffle(pool)
        for j in range(ncol):
            if j == 0 and rng.random() < 0.85:
                names.append(rng.choice(["YYYY-MM-DD", "YYYY-MM-DD", "YYYY-DDD"]))
            elif j == 1 and names[0] == "YYYY-MM-DD" and rng.random() < 0.15:
                names.append("YYYY-DDD")
            else:
                names.append(pool.pop())
        fields = TMS_BLOCKS["TIMESERIES/COLUMNS"]
        rows = []
        for j, nm in enumerate(names):
            tx = [str(j + 1), nm]
            ex = [("f", float(j + 1)), ("s", nm)]
            for name, start, w, kind in fields[2:]:
                t, e = gen_field(rng, name, w, kind, site)
                tx.append(t)
                ex.append(e)
            rows.append((tx, ex))
        W["blocks"]["TIMESERIES/COLUMNS"] = {"fields": fields, "rows": rows}
        blocks.append(("TIMESERIES/COLUMNS", [render(fields, tx, rng=rng) for tx, _ in rows]))
        if rng.random() < 0.93:
            k = rng.choice([0, 1, 1, 2]) if rng.random() < 0.3 else rng.randint(1, 8 if quick else 60)
            drows, dlines = [], []
            day = datetime(rng.randint(1995, 2030), 1, 1) + timedelta(days=rng.randint(0, 364))
            for i in range(k):
                toks = []
                for nm in names:
                    if nm == "YYYY-MM-DD":
                        toks.append((day + timedelta(days=i)).strftime("%Y-%m-%d"))
                    elif nm == "YYYY-DDD":
                        toks.append((day + timedelta(days=i)).strftime("%Y-%j"))
                    else:
                        toks.append(data_token(rng))
                drows.append(toks)
                sep = lambda: " " * (1 if rng.random() < 0.5 else rng.randint(1, 6)) if rng.random() < 0.97 else "\t"
                ln = " " + " " * rng.randint(0, 3) + toks[0] + "".join(sep() + t for t in toks[1:]) + (" " * rng.randint(0, 3))
                dlines.append(ln)
                if rng.random() < 0.03:
                    dlines.append("   ")  # a record of blanks only: no token, skipped
                if rng.random() < 0.03:
                    dlines.append("* comment inside the data")
            ragged = False
            if k >= 2 and ncol >= 2 and rng.random() < 0.03:
                i = rng.randrange(1, k)
                dlines_idx = [x for x, l in enumerate(dlines) if l.strip() and not l.startswith("*")]
                dlines[dlines_idx[i]] = " " + " ".join(drows[i][:-1])
                ragged = True
            W["data"] = {"names": names, "rows": drows, "ragged": ragged}
            blocks.append(("TIMESERIES/DATA", dlines))
    rng.shuffle(blocks)
    dup = None
    out = [hline]
    for m, lines in blocks:
        if rng.random() < 0.25:
            fm = rng.choice(FOREIGN)
            out += [f"+{fm}", " KEY: some content nobody asked for", "*comment", f"-{fm}"]
        if rng.random() < 0.3:
            out.append("*" + "-" * rng.randint(1, 100))
        out.append(f"+{m}")
        if rng.random() < 0.5:
            out.append("*" + "".join(n.upper().ljust(w, "_")[:w] + " " for n, s, w, k in TMS_BLOCKS.get(m, [("data", 1, 30, "")])))
        out += lines
        out.append(f"-{m}")
        if dup is None and lines and m in ENTRY and rng.random() < 0.04:
            dup = m  # the same block once more, later in the file: only the first one is read
    if dup:
        out += [f"+{dup}"] + [l for mm, ls in blocks if mm == dup for l in ls[:1]] + [f"-{dup}"]
        W["dup"] = dup
    out.append("%ENDTMS")
    return "\n".join(out) + "\n", W


def iso_to_dt(name, v):
    if name in EPOCH_KEYS and isinstance(v, str) and ISO.match(v):
        return datetime.fromisoformat(v)
    return v


def tms_tree(c14, p):
    """canonical tree of SinexTmsParser's result; ISO epoch texts as datetimes (the model keeps the instant)"""
    def fix(d):
        return {k: iso_to_dt(k, v) for k, v in d.items()}

    meta = fix({k: v for k, v in p.meta.items() if not k.startswith("__")})
    data = {}
    for k, v in p.data.items():
        if isinstance(v, list):
            data[k] = [fix(x) for x in v]
        elif k == "ref_coordinate":
            data[k] = fix(v)
        else:
            data[k] = v
    return {"meta": c14.val_tree(meta), "data": c14.val_tree(data)}


def matches(e, got):
    k, v = e
    if k == "s":
        return isinstance(got, (str, np.str_)) and str(got) == v.strip()
    if k == "f":
        return isinstance(got, (float, np.floating)) and float(got) == v
    if k == "iso":
        return got == v
    return False


def tms_case(ctx, impl, drv, rng, quick, c14):
    from midgard.parsers.sinex_tms import SinexTmsParser

    text, W = gen_tms(rng, quick)
    case = {"parser": "tms", "file": text}
    ctx.case({"k": "tms", "text": common.digest(text)}, nontrivial=bool(W["blocks"]) or W["data"] is not None)
    D = W["data"]
    if D is not None:
        k = len(D["rows"])
        ctx.count(f"tms:data-rows={'0' if k == 0 else '1' if k == 1 else '2-9' if k < 10 else '10+'}")
        ctx.count(f"tms:data-cols={'1' if len(D['names']) == 1 else '2+'}")
        ctx.count("tms:data-date-col" if D["names"][0].startswith("YYYY") else "tms:data-all-numeric")
        if D["ragged"]:
            ctx.count("tms:data-ragged")
    else:
        ctx.count("tms:no-data-block")
    for m, b in W["blocks"].items():
        ctx.count(f"tms:{m}:rows={'0' if not b['rows'] else '1' if len(b['rows']) == 1 else '2+'}")
    if "dup" in W:
        ctx.count("tms:block-given-twice")
    st, p = impl.parse(SinexTmsParser, text)
    model = c14.ask_model(drv, "tms", text)
    expect_raise = None
    rc = W["blocks"].get("TIMESERIES/REF_COORDINATE")
    if rc is not None and len(rc["rows"]) != 1:
        expect_raise = "ref-coordinate-not-one-record"
    elif D is not None and D["ragged"]:
        expect_raise = "ragged-data"
    if st == "raises":
        if model != "RAISES":
            ctx.disagree("tms file (model returns, code raises)", case, "value", p)
        if expect_raise is None:
            ctx.violate(f"tms:raises:{p.split(':')[0]}", f"well-formed SINEX-TMS file makes the parser raise {p}", case)
        else:
            ctx.count(f"tms:raises:{expect_raise}")
        return
    it = tms_tree(c14, p)
    if model in ("RAISES", "bad-op"):
        ctx.disagree("tms file (model raises, code returns)", case, model, "value")
    else:
        d = c14.tree_diff(model, it)
        if d:
            ctx.disagree("tms file", case, d, "")
    # ---- oracle: what was written comes back
    for name, e in W["header"]:
        if not matches(e, p.meta.get(name)):
            ctx.violate(f"tms:header:{name}", f"header field {name}: parser returned {p.meta.get(name)!r}, file has {W['hline']!r}", case)
    for m, b in W["blocks"].items():
        names = [f[0] for f in b["fields"]]
        if m in ENTRY:
            got = p.data.get(ENTRY[m])
            if got is None or len(got) != len(b["rows"]):
                ctx.violate(f"tms:{ENTRY[m]}:row-count", f"{m}: {len(b['rows'])} rows written, {None if got is None else len(got)} returned", case)
                continue
            for (tx, ex), g in zip(b["rows"], got):
                bad = False
                for name, t, e in zip(names, tx, ex):
                    if e[0] == "antenna":
                        if (g.get("antenna_type"), g.get("radome_type")) != e[1]:
                            ctx.violate("tms:site_antenna:split", f"antenna field {t!r} returned as {g.get('antenna_type')!r} + {g.get('radome_type')!r}", case)
                            bad = True
                    elif not matches(e, g.get(name)):
                        ctx.violate(f"tms:{ENTRY[m]}:{name}", f"{m} field {name}: columns hold {t!r}, parser returned {g.get(name)!r}",
                                    {**case, "field": name, "text": t})
                        bad = True
                    if bad:
                        break
                if bad:
                    break
        elif m == "TIMESERIES/REF_COORDINATE":
            got = p.data.get("ref_coordinate", {})
            (tx, ex), = b["rows"]
            for name, t, e in zip(names, tx, ex):
                if not matches(e, got.get(name)):
                    ctx.violate(f"tms:ref_coordinate:{name}", f"{m} field {name}: columns hold {t!r}, parser returned {got.get(name)!r}",
                                {**case, "field": name, "text": t})
                    break
        elif m == "TIMESERIES/COLUMNS":
            got = p.data.get("timeseries_columns")
            ok = got is not None and len(np.atleast_1d(got)) == len(b["rows"])
            if ok:
                for i, (tx, ex) in enumerate(b["rows"]):
                    for name, t, e in zip(names, tx, ex):
                        if not matches(e, np.atleast_1d(got)[name][i]):
                            ok = False
            if not ok:
                ctx.violate("tms:timeseries_columns", f"{m}: rows written {[tx for tx, _ in b['rows']]} returned {got!r}", case)
        elif m == "FILE/REFERENCE":
            got = p.data.get("file_reference", {})
            want = {}
            for tx, ex in b["rows"]:
                want[tx[0].split()[0].lower()] = tx[1].strip()
            if {k: str(v) for k, v in got.items()} != want:
                ctx.violate("tms:file_reference", f"{m}: written {want}, returned {got}", case)
    if D is not None and "TIMESERIES/COLUMNS" in W["blocks"]:
        got = p.data.get("timeseries_data")
        names, rows = D["names"], D["rows"]
        if got is None:
            ctx.violate("tms:data:absent", "TIMESERIES/DATA is in the file but not in the result", case)
        elif rows:
            for j, nm in enumerate(names):
                col = got.get(nm.lower())
                if col is None or len(col) != len(rows):
                    ctx.violate("tms:data:rows", f"column {nm}: {len(rows)} rows written, {None if col is None else len(col)} returned", case)
                    break
                bad = False
                for i, r in enumerate(rows):
                    e = ("s", r[j]) if nm in ("YYYY-MM-DD", "YYYY-DDD") else ("f", float(Fraction(r[j])))
                    if not matches(e, col[i]):
                        ctx.violate(f"tms:data:value:{'text' if e[0] == 's' else 'float'}",
                                    f"TIMESERIES/DATA row {i} column {nm}: file has {r[j]!r}, parser returned {col[i]!r}", case)
                        bad = True
                        break
                if bad:
                    break
    # ---- an invalid first line must not change how the blocks are read (base class: warn and go on)
    if rng.random() < 0.08:
        text2 = "%=XXX" + text[5:]
        st2, p2 = impl.parse(SinexTmsParser, text2)
        ctx.count("tms:invalid-header-line")
        if st2 == "raises":
            ctx.violate("tms:header:invalid-raises", f"a first line that is not %=TMS makes the parser raise {p2} "
                        "(the base class warns and reads the blocks)", {"parser": "tms", "file": text2})
        else:
            m2 = c14.ask_model(drv, "tms", text2)
            d = c14.tree_diff(m2, tms_tree(c14, p2)) if m2 not in ("RAISES", "bad-op") else "model raises"
            if d:
                ctx.disagree("tms file without a valid header line", {"parser": "tms", "file": text2}, d, "")
            if c14.tree_diff(tms_tree(c14, p2)["data"], it["data"]):
                ctx.violate("tms:header:affects-blocks", "blocks parse differently when the header line is not %=TMS",
                            {"parser": "tms", "file": text2})


# ------------------------------------------------------------------------------------------
# np.genfromtxt behaviours assumed by the model


GFT = {
    "G1-widths": "delimiter=diff([0]+starts+[total]) cuts line[s_i:s_{i+1}] (last field: line[s_last:total]); the 0th piece is dropped (usecols)",
    "G2-short-line": "a line shorter than a field's start gives the empty text for that field (no error, no shifting)",
    "G3-long-line": "characters at or beyond `total` are ignored",
    "G4-autostrip": "every piece is stripped of leading/trailing ASCII whitespace (blank, tab, CR, LF, VT, FF, FS..US), inner whitespace is kept",
    "G5-comments-off": "comments=None: '#' and everything after it stay in the record",
    "G6-empty-text": "the empty text is 'missing': U -> '', i8 -> -1, f8 -> nan, converter -> the converter's ValueError -> None / nan",
    "G7-loose": "a converter or dtype conversion raising ValueError gives the column default (None for object, nan for f8, -1 for i8); nothing is raised",
    "G8-U-truncates": "dtype Uk keeps the first k characters of the stripped piece",
    "G9-int-float": "i8 is Python int(text), f8 is Python float(text) on plain decimal literals",
    "G10-rows": "every non-empty line gives exactly one record, in order; zero lines give an empty array; one line a 0-d record",
    "G11-names": "field names pass NameValidator (blank -> _, punctuation deleted)",
    "G12-negative-last-width": "total < last start (sinex_tms, short lines): the last field is empty, the others are unaffected",
    "W1-ws-split": "delimiter=None: a line is cut at runs of whitespace (str.split()), leading/trailing whitespace ignored",
    "W2-ws-skip": "lines without a token are skipped",
    "W3-ws-ragged": "a line with another number of tokens than the first makes genfromtxt raise ValueError",
    "W4-ws-dtype-none": "dtype=None keeps a column of non-numeric tokens as text and reads decimal tokens as numbers whose float value is float(token)",
}


class Capture(Exception):
    pass


def captured_kwargs(parser, lines, fields):
    """the keyword arguments the real parse_lines passes to np.genfromtxt (captured, not copied)"""
    import numpy

    box = {}
    orig = numpy.genfromtxt

    def spy(*a, **k):
        box["args"], box["kw"] = a, k
        raise Capture()

    numpy.genfromtxt = spy
    try:
        try:
            parser.parse_lines(lines, fields)
        except Capture:
            pass
    finally:
        numpy.genfromtxt = orig
    return box["kw"]


def gft_fixed(ctx, drv, parser, c14, starts, total_mode, lines, behaviours, tms=False):
    """real np.genfromtxt (kwargs of the real parse_lines, all fields dtype object / no converter → raw pieces)
    vs the model's cutLine"""
    from midgard.parsers._parser_sinex import SinexField

    fields = tuple(SinexField(f"f{c}", c, "U200") for c in starts)
    blines = [(l + "\n").encode("latin1") for l in lines]
    kw = captured_kwargs(parser, blines, fields)
    for b in behaviours:
        ctx.count(f"gft:{b}")
    case = {"gft": behaviours, "starts": starts, "lines": lines, "tms": tms}
    ctx.case({"gft": behaviours, "starts": starts, "lines": [hexs(l) for l in lines], "tms": tms})
    with warnings.catch_warnings():
        warnings.simplefilter("ignore")
        try:
            arr = np.atleast_1d(np.genfromtxt(blines, **kw))
            real = [[str(x) for x in (row.tolist() if isinstance(row.tolist(), tuple) else (row.tolist(),))] for row in arr] if len(lines) else []
        except Exception as e:  # noqa: BLE001
            real = f"RAISES {type(e).__name__}"
    total = max([len(l) + 1 for l in lines], default=0) if tms else 81
    ans = drv.ask1(f"c14 cut {','.join(map(str, starts))} {total} " + " ".join(hexs(l) for l in lines))
    model = [[common.unhex(x) for x in row] for row in json.loads(ans)] if ans not in ("bad-op",) else ans
    if model != real:
        ctx.disagree(f"np.genfromtxt fixed-width cutting ({', '.join(behaviours)})", case, model, real)
    return real


def genfromtxt_cases(ctx, impl, drv, rng, n, c14):
    from midgard.parsers._parser_sinex import SinexField, SinexParser
    from midgard.parsers.sinex_tms import SinexTmsParser

    class P(SinexParser):
        def setup_parser(self):
            return ()

    with warnings.catch_warnings():
        warnings.simplefilter("ignore")
        base, tms = P("/dev/null"), SinexTmsParser("/dev/null")
    ctx.extra["genfromtxt_assumptions"] = GFT
    WS = [" ", " ", " ", "\t", "\r", "\x0b", "\x0c", "\x1c", "\x1f"]
    for it in range(n):
        # ---- fixed-width cutting on random start tables and adversarial lines
        k = rng.randint(1, 7)
        starts = sorted(rng.sample(range(1, 80), k))
        mode = rng.choice(["short", "long", "ws", "hash", "plain", "blankonly"])
        lines = []
        for _ in range(rng.randint(0, 4) if rng.random() < 0.2 else rng.randint(1, 4)):
            L = rng.randint(1, 81) if mode == "short" else rng.randint(82, 120) if mode == "long" else rng.randint(1, 100)
            s = [rng.choice(WORD) if rng.random() < 0.6 else " " for _ in range(L)]
            s[0] = " "
            if mode == "ws":
                for i in range(1, L):
                    if rng.random() < 0.25:
                        s[i] = rng.choice(WS)
            if mode == "hash":
                for i in range(1, L):
                    if rng.random() < 0.15:
                        s[i] = "#"
            if mode == "blankonly" and rng.random() < 0.5:
                s = [" "] * L
            ln = "".join(s)
            if rng.random() < 0.5:
                ln = ln.rstrip(" ") or " "
            ln = ln.replace("\n", " ")
            lines.append(ln)
        beh = ["G1-widths", "G10-rows"] + {"short": ["G2-short-line"], "long": ["G3-long-line"], "ws": ["G4-autostrip"],
                                           "hash": ["G5-comments-off"], "plain": [], "blankonly": ["G2-short-line"]}[mode]
        use_tms = rng.random() < 0.35
        if use_tms:
            beh.append("G12-negative-last-width" if lines and max(len(l) + 1 for l in lines) < starts[-1] else "G1-widths")
        # an interior CR or LF would end the record for the file iterator; keep them at piece level only
        lines = [l.replace("\r", "\t") if "\r" in l[:-1] else l for l in lines]
        gft_fixed(ctx, drv, tms if use_tms else base, c14, starts, None, lines, sorted(set(beh)), tms=use_tms)
        # ---- conversions: dtype / converter on one stripped text, through the real parse_lines
        if it % 2 == 0:
            conv_case(ctx, drv, base, tms, rng, c14)
        # ---- whitespace mode
        if it % 2 == 1:
            ws_case(ctx, drv, tms, rng, WS)


CONV_TEXTS = ["", "12", "-7", "+5", "007", "1.5", "-0.0", ".5", "5.", "1e3", "1E-2", "1D3", "abc", "1 2", "12abc", "--1",
              "95:123:00000", "00:000:00000", "2023:001:00000", "0000:000:00000", "12 30 15.5", "-0 30 00.0", "1 2", "A B C",
              "ABCDEFGHIJKLMNOP", "x#y", "99999999999", "1.", "-", "+", "e5", "1e", "1.5.2"]


def conv_case(ctx, drv, base, tms, rng, c14):
    from midgard.parsers._parser_sinex import SinexField

    dt, cv = rng.choice([("U3", None), ("U8", None), ("U20", "utf8"), ("i8", None), ("f8", None), ("f8", "exponent"),
                         ("f8", "dms2deg"), ("O", "epoch"), ("O", "tuple"), ("O", "yyyydddsssss")])
    t = rng.choice(CONV_TEXTS) if rng.random() < 0.7 else "".join(rng.choice("0123456789.-+eED: ") for _ in range(rng.randint(1, 14))).strip()
    if rng.random() < 0.08:
        t = ""  # the missing value
    if re.search(r"[eEdD][+-]?\d{3}", t):  # exponents beyond the doubles: the model's exact rational has thousands of digits
        t = re.sub(r"([eEdD][+-]?\d{2})\d+", r"\1", t)
    # two records so that the tested text is not the one genfromtxt sniffs the converter with; both orders
    first = rng.random() < 0.5
    texts = [t, "1"] if first else ["1", t]
    parser = tms if cv == "yyyydddsssss" else base
    fields = (SinexField("pad", 1, "U1"), SinexField("x y", 4, dt, cv))
    lines = [b"    " + x.encode().ljust(30) + b"\n" for x in texts]
    case = {"gft": "conversion", "dtype": dt, "converter": cv, "text": t, "first": first}
    ctx.case(case)
    beh = ["G6-empty-text"] if t == "" else ["G7-loose", "G9-int-float"] if dt in ("i8", "f8") and cv is None else ["G8-U-truncates"] if dt[0] == "U" else ["G7-loose"]
    for b in beh + ["G11-names"]:
        ctx.count(f"gft:{b}")
    with warnings.catch_warnings():
        warnings.simplefilter("ignore")
        try:
            arr = np.atleast_1d(parser.parse_lines(lines, fields))
            names = arr.dtype.names
            v = arr["x_y"][0 if first else 1]
            v = v.item() if isinstance(v, np.generic) and not isinstance(v, np.str_) else v
            if isinstance(v, str) and cv == "yyyydddsssss" and ISO.match(v):
                v = datetime.fromisoformat(v)
            real = c14.cell_tree(str(v) if isinstance(v, np.str_) else v)
            if names != ("pad", "x_y"):
                real = f"NAMES {names}"
        except Exception as e:  # noqa: BLE001
            real = f"RAISES {type(e).__name__}"
    a = drv.ask1(f"c14 cell {cv or 'none'} {dt} {hexs(t)}")
    try:
        model = c14.model_tree(json.loads(a)) if a != "bad-op" else a
    except OverflowError:  # the exact rational is beyond the doubles: float(text) is +-inf
        model = {"f": float("-inf" if json.loads(a)["f"].startswith("-") else "inf").hex()}
    d = c14.tree_diff(model, real, loose=(cv == "dms2deg"))
    if d:
        ctx.disagree(f"np.genfromtxt conversion of one field ({', '.join(beh)})", case, model, real)


def ws_case(ctx, drv, tms, rng, WS):
    from midgard.parsers._parser_sinex import SinexField

    fields = (SinexField("data", 1, "O", "list"),)
    n = rng.randint(1, 5)
    k = rng.randint(0, 4)
    rows, lines = [], []
    textual = [rng.random() < 0.3 for _ in range(n)]
    for i in range(k):
        # a text token must not read as a number ("09E-56" does): it begins with a letter no numeral contains
        toks = [(rnd(rng, "GHKLMPQRSTUVWYZ", 1) + rnd(rng, CODE, 2) + "-" + rnd(rng, "0123456789", 2)) if textual[j] else data_token(rng)
                for j in range(n)]
        sep = lambda: "".join(rng.choice(WS[:5]) for _ in range(rng.randint(1, 3)))
        ln = " " + (sep() if rng.random() < 0.3 else "") + toks[0] + "".join(sep() + t for t in toks[1:]) + (sep() if rng.random() < 0.4 else "")
        ln = ln.replace("\r", " ")
        rows.append(toks)
        lines.append(ln)
        if rng.random() < 0.15:
            lines.append(" " + "".join(rng.choice([" ", "\t"]) for _ in range(rng.randint(0, 4))))
    beh = ["W1-ws-split", "W4-ws-dtype-none"]
    if any(not l.strip() for l in lines):
        beh.append("W2-ws-skip")
    ragged = False
    if k >= 2 and n >= 2 and rng.random() < 0.15:
        lines[[i for i, l in enumerate(lines) if l.strip()][-1]] = " " + " ".join(rows[-1][:-1])
        ragged = True
        beh.append("W3-ws-ragged")
    for b in beh:
        ctx.count(f"gft:{b}")
    case = {"gft": beh, "lines": lines}
    ctx.case({"gft": beh, "lines": [hexs(l) for l in lines]})
    blines = [(l + "\n").encode("latin1") for l in lines]
    with warnings.catch_warnings():
        warnings.simplefilter("ignore")
        try:
            arr = np.atleast_1d(tms.parse_lines(blines, fields))
            data = np.array(arr.tolist())
            if data.ndim == 1 and len(rows):
                data = np.array([data])
            tx = lambda x: x.decode("latin1") if isinstance(x, bytes) else str(x)
            if len(rows) and data.shape != (len(rows), n):
                real = f"SHAPE {data.shape} for {len(rows)} records of {n} tokens"
            else:
                real = [[tx(x) if textual[j] else float(x) for j, x in enumerate(r)] for r in data] if len(rows) else []
        except ValueError as e:
            real = "RAISES"
        except Exception as e:  # noqa: BLE001
            real = f"ERR {type(e).__name__}"
    ans = drv.ask1("c14 ws " + " ".join(hexs(l) for l in lines))
    if ans == "RAISES":
        model = "RAISES"
    else:
        model = [[common.unhex(x) if textual[j] else float(Fraction(common.unhex(x))) for j, x in enumerate(r)] for r in json.loads(ans)]
    if model != real:
        ctx.disagree(f"np.genfromtxt whitespace mode ({', '.join(beh)})", case, model, real)
