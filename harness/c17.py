"""C17 — written files are format-conformant and read back to the same values.

translate:   translator/extract_writers.py → lean/Midgard/Generated/WriterLayouts.lean (every formatted line of the ten
             writers, DATA_TYPES, the column tables of the matching parsers)
prove:       lean/Midgard/Props/C17.lean
correspond:  the real writers (through writers.write) on generated site-information dictionaries / datasets into a
             temporary directory; the bytes of every data line against the compiled model's rendering of the same
             inputs (clock-dependent header lines are not compared); every formatted line of the other writers
             against the regenerated layout (`conforms`)
             gamit_apr_eq apr/eq lines byte for byte against the model's rendering of the regenerated rows;
             gamit_station_info / gipsyx_site_info lines against the regenerated layouts (no matching parser exists)
oracle:      the property stated on the real code: the matching parser of the library reads the written file back
             to the writer's inputs to the printed precision (Bernese STA: every equipment period has its TYPE 002 line);
             block markers are balanced; data lines keep their columns; the inputs (site information, dataset, option
             dictionaries) are deep-equal before and after; a writer is a function of its input: every call is repeated
             on the same input in the same process and must write the same file, a sample of calls is compared with the
             file a fresh interpreter writes, station codes are written again from updated site information, and every
             station of a multi-station dataset (obs.* and flat layout) is written from one dataset object.
"""
from __future__ import annotations

import contextlib
import copy
import io
import math
import pickle
import re
import shutil
import subprocess
import sys
import tempfile
import warnings
from datetime import datetime, timedelta
from fractions import Fraction
from pathlib import Path
from types import SimpleNamespace as NS
from typing import Any, Dict, List, Optional, Tuple

import numpy as np

from . import c16_canon, common
from .common import Ctx, frac, hexs, rs


@contextlib.contextmanager
def quiet():
    with warnings.catch_warnings():
        warnings.simplefilter("ignore")
        with contextlib.redirect_stdout(io.StringIO()), contextlib.redirect_stderr(io.StringIO()):
            yield


def unhex_lines(ans: str) -> Optional[List[str]]:
    if ans == "err":
        return None
    if ans == "[]":
        return []
    return [bytes.fromhex(x).decode("utf-8") if x != "." else "" for x in ans.split(",")]


def val(x) -> str:
    """a float as a protocol value"""
    if x is None:
        return "-"
    x = float(x)
    if math.isnan(x):
        return "nan"
    if x == 0.0 and math.copysign(1.0, x) < 0:
        return "nz"
    return "n:" + rs(frac(x))


def sval(s: str) -> str:
    return "s:" + hexs(s)


# -------------------------------------------------------------------------------------------------
# generators

ALNUM = "abcdefghijklmnopqrstuvwxyz0123456789"


def gen_key(rng, used, short: float = 0.0) -> str:
    while True:
        k = "".join(rng.choice(ALNUM) for _ in range(rng.randint(1, 3) if short and rng.random() < short else 4))
        if rng.random() < 0.3 and used:  # near-duplicates stress the ordering and the 2-letter abbreviations
            base = rng.choice(sorted(used))
            k = base[:3] + rng.choice(ALNUM)
        if k not in used:
            used.add(k)
            return k


def gen_coord(rng, allow_nan=True, limit=9_999_999.9999) -> float:
    r = rng.random()
    if allow_nan and r < 0.06:
        return float("nan")
    if r < 0.16:
        return rng.choice([limit, -limit, 0.0, -0.0, 0.5e-5, -0.5e-5, 1.5e-5, 999999.999995, -999999.999995, 1e-5, -1e-5])
    if r < 0.3:
        return round(rng.uniform(-limit, limit), rng.randint(0, 6))
    if r < 0.4:
        return rng.uniform(-1, 1) * 10 ** rng.randint(-6, 0)
    return rng.uniform(-6.4e6, 6.4e6)


def gen_domes(rng) -> Optional[str]:
    r = rng.random()
    if r < 0.25:
        return None
    if r < 0.3:
        return ""
    return f"{rng.randint(10000, 99999)}{rng.choice('MS')}{rng.randint(0, 999):03d}"


PLATES = ["eurasian", "Eurasian", "NORTH AMERICAN", "pacific", "african", "nazca", None, None, None, None]
ODD_PLATES = ["Somali"]


def irregular_histories(rng, t0: datetime, end: datetime):
    """equipment histories that are not one shared list of periods: every equipment type has its own change dates, and
    one of them has an interruption (the end of an entry earlier than the start of the next) inside which — most of the
    time — another equipment type changes; also a type that is installed later than the others.  Returns
    {"receiver": periods, "antenna": periods, "eccentricity": periods} (chronological, non-overlapping)"""
    kinds = ["receiver", "antenna", "eccentricity"]
    if rng.random() < 0.3:
        # the antenna (or eccentricity) is interrupted from the very date on which the receiver entry changes in firmware only
        g = rng.choice(["antenna", "eccentricity"])
        g0 = t0 + timedelta(days=rng.randint(200, 2000))
        g1 = g0 + timedelta(days=rng.randint(30, 900))
        fw = g0 + timedelta(days=rng.choice([0, 0, 0, 1, -1]))  # the firmware date: the same day, or a day off
        out = {g: [(t0, g0), (g1, end)], "receiver": [(t0, fw), (fw, end)], "_same_receiver": True}
        k = "eccentricity" if g == "antenna" else "antenna"
        out[k] = [(t0, end)]
        return out
    g = rng.choice(kinds)
    others = [k for k in kinds if k != g]
    rng.shuffle(others)
    g0 = t0 + timedelta(days=rng.randint(200, 2000))
    g1 = g0 + timedelta(days=rng.randint(30, 900))
    out = {g: [(t0, g0), (g1, end)]}
    if rng.random() < 0.3:  # a further change of the interrupted type after the interruption
        c = g1 + timedelta(days=rng.randint(30, 900))
        out[g] = [(t0, g0), (g1, c), (c, end)]
    h = others[0]
    if rng.random() < 0.8:  # a change of another type inside the interruption
        hc = g0 + timedelta(days=rng.randint(1, max(1, (g1 - g0).days - 1)))
    else:
        hc = t0 + timedelta(days=rng.randint(30, 3000))
    out[h] = [(t0, hc), (hc, end)] if hc > t0 else [(t0, end)]
    k = others[1]
    r = rng.random()
    if r < 0.4:
        out[k] = [(t0, end)]
    elif r < 0.8:
        kc = t0 + timedelta(days=rng.randint(30, 3000))
        out[k] = [(t0, kc), (kc, end)]
    else:  # installed later than the rest
        ks = t0 + timedelta(days=rng.randint(10, 400))
        out[k] = [(ks, end)]
    return out


def gen_site_info(rng, n: int, keys: Optional[List[str]] = None, irregular: float = 0.0, short_keys: float = 0.0) -> Dict[str, Any]:
    """`keys`: generate new site information for these station codes (an *update* of an earlier dictionary);
    `irregular`: share of stations whose equipment histories have interruptions / own change dates per equipment type"""
    used: set = set()
    si: Dict[str, Any] = {}
    for i in range(len(keys) if keys is not None else n):
        k = keys[i] if keys is not None else gen_key(rng, used, short_keys)
        has_coord = rng.random() > 0.08
        x = gen_coord(rng)
        coord = NS(pos=NS(trs=NS(x=x, y=gen_coord(rng, allow_nan=False), z=gen_coord(rng, allow_nan=False))),
                   vel=[rng.choice([float("nan"), rng.uniform(-0.1, 0.1)]) if rng.random() < 0.1 else rng.uniform(-0.1, 0.1),
                        rng.uniform(-0.1, 0.1), rng.uniform(-0.1, 0.1)])
        ident = NS(domes=gen_domes(rng), tectonic_plate=rng.choice(PLATES if rng.random() < 0.98 else ODD_PLATES), source="snx", source_path=Path("/x/igs.snx"),
                   name=rng.choice(["Argir, Torshavn", "Ny-Alesund", "A", "A very long station description text here"]),
                   country_code=rng.choice(["NOR", "FO", None]))
        t0 = datetime(1995 + rng.randint(0, 20), rng.randint(1, 12), rng.randint(1, 28), rng.choice([0, 12]), 0, 0)
        cuts = sorted({t0 + timedelta(days=rng.randint(30, 3000)) for _ in range(rng.randint(0, 2))})
        bounds = [t0] + cuts + [datetime(2099, 12, 31)]
        periods = list(zip(bounds[:-1], bounds[1:]))
        per = {"receiver": periods, "antenna": periods, "eccentricity": periods}
        if irregular and rng.random() < irregular:
            per = irregular_histories(rng, t0, datetime(2099, 12, 31))
        ant_hist = {p: NS(type=rng.choice(["TRM57971.00", "LEIAT504GG", "ASH701945D_M", "AOAD/M_T"]),
                          serial_number=rng.choice(["1551009151", "CR520020903", "99390", "3311A"]),
                          radome_type=rng.choice(["NONE", "TZGD", "LEIS", None]), calibration=rng.choice([None, "x"]),
                          date_from=p[0], date_to=p[1]) for p in per["antenna"]}
        rcv_hist = {p: NS(type=rng.choice(["TRIMBLE NETR9", "LEICA GRX1200GGPRO", "SEPT POLARX5", "ASHTECH UZ-12"]),
                          serial_number=rng.choice(["5548R50598", "356103", "ZR520", "3310A"]),
                          firmware=rng.choice(["5.22", "Nav 1.30", "9.20", "6.00"])) for p in per["receiver"]}
        if per.get("_same_receiver"):
            first = next(iter(rcv_hist.values()))
            for j, o in enumerate(rcv_hist.values()):
                o.type, o.serial_number, o.firmware = first.type, first.serial_number, f"{j + 1}.00"
        ecc_hist = {p: NS(north=rng.choice([0.0, round(rng.uniform(-9, 9), 4)]), east=rng.choice([0.0, round(rng.uniform(-9, 9), 4)]),
                          up=rng.choice([0.0, 0.0054, round(rng.uniform(0, 99), 4)])) for p in per["eccentricity"]}
        si[k] = {
            "site_coord": {"last": coord} if has_coord else {},
            "identifier": ident,
            "antenna": NS(date_from=[p[0] for p in per["antenna"]], date_to=[p[1] for p in per["antenna"]], history=ant_hist),
            "receiver": NS(history=rcv_hist),
            "eccentricity": NS(history=ecc_hist),
        }
    return si


def stations_arg(si, vel=False) -> str:
    out = []
    for k, d in si.items():
        c = d["site_coord"].get("last")
        idn = d["identifier"]
        if c is None:
            xyz = "-"
        elif vel:
            xyz = ";".join(val(v) for v in c.vel)
        else:
            xyz = ";".join(val(v) for v in (c.pos.trs.x, c.pos.trs.y, c.pos.trs.z))
        dom = "-" if idn.domes is None else hexs(idn.domes)
        pl = "-" if idn.tectonic_plate is None else hexs(idn.tectonic_plate)
        out.append(f"{hexs(k)}~{dom}~{xyz}~{pl}")
    return ",".join(out) if out else "[]"


# -------------------------------------------------------------------------------------------------


# lines at the top of a written file that carry the wall clock (not compared between two calls)
CLOCK_LINES = {"bernese_crd": 6, "bernese_vel": 6, "bernese_clu": 5, "bernese_abb": 5, "bernese_sta": 6, "sinex_tms": 1,
               "csv_": 0, "gamit_apr_eq": 3, "gamit_station_info": 3, "gipsyx_site_info": 0}

FRESH_SRC = """
import pickle, sys, warnings, io, contextlib
warnings.simplefilter("ignore")
sys.path.insert(0, sys.argv[1])
sys.path.insert(0, sys.argv[4])
job = pickle.load(open(sys.argv[2], "rb"))
from midgard import writers
if job.get("regen"):
    # datasets are rebuilt from the generator state (Dataset does not survive pickling)
    import random
    from harness import c17
    rng = random.Random()
    rng.setstate(job["regen"][1])
    with contextlib.redirect_stdout(io.StringIO()), contextlib.redirect_stderr(io.StringIO()):
        if job["regen"][0] == "tms":
            job["inputs"] = {"dset": c17.gen_tms_dataset(rng)[0]}
        else:
            d, fields = c17.gen_csv_inputs(rng)[:2]
            job["inputs"] = {"dset": d, "fields": fields}
with contextlib.redirect_stdout(io.StringIO()), contextlib.redirect_stderr(io.StringIO()):
    try:
        writers.write(job["writer"], **job["inputs"], **job["kw"])
    except Exception as e:
        open(sys.argv[3], "w").write("!!" + type(e).__name__)
"""


def same_output(writer: str, a: str, b: str) -> bool:
    """two files of one writer, the clock-dependent header lines (digits) aside"""
    k = CLOCK_LINES.get(writer, 0)
    la, lb = a.splitlines(), b.splitlines()
    if len(la) != len(lb):
        return False
    for i, (x, y) in enumerate(zip(la, lb)):
        if i < k:
            x, y = re.sub(r"[0-9]", "#", x), re.sub(r"[0-9]", "#", y)
        if x != y:
            return False
    return True


class Run:
    def __init__(self, ctx: Ctx, tmp: Path):
        self.ctx = ctx
        self.tmp = tmp
        self.n = 0
        self.fresh_per_writer = ctx.budget(2, 12)
        self.calls: Dict[str, int] = {}
        self.fresh_done: Dict[str, int] = {}
        self.regen = None

    def fresh(self, writer: str, inputs: Dict[str, Any], kw: Dict[str, Any], path_key: str) -> Optional[str]:
        """the same call in an interpreter that has done nothing else (writers are functions of their input)"""
        out = self.path(writer + "_fresh")
        job = self.tmp / f"job_{self.n:05d}.pkl"
        regen = self.regen if "dset" in inputs else None
        try:
            with open(job, "wb") as f:
                pickle.dump({"writer": writer, "inputs": None if regen else inputs, "kw": {**kw, path_key: out}, "regen": regen,
                             "verif": str(Path(__file__).resolve().parent.parent)}, f)
        except Exception:
            return None  # an input that cannot be shipped is not examined this way
        err = self.tmp / f"job_{self.n:05d}.err"
        subprocess.run([sys.executable, "-c", FRESH_SRC, str(common.REPO), str(job), str(err), str(Path(__file__).resolve().parent.parent)],
                       capture_output=True, timeout=120)
        if err.exists():
            return err.read_text()
        try:
            return out.read_text()
        except FileNotFoundError:
            return "!!nofile"

    def path(self, name: str) -> Path:
        self.n += 1
        return self.tmp / f"{name}_{self.n:05d}.out"

    def write(self, writer: str, inputs: Dict[str, Any], case: Dict[str, Any], path_key: str = "file_path", **kw) -> Optional[str]:
        """call the writer through the library's front door; check the inputs are untouched; returns the text.
        The call is then repeated on the same input in the same process (and, for a sample, in a fresh interpreter):
        a writer is a function of its input, so every further file must equal the first."""
        text = self.write_once(writer, inputs, case, path_key, **kw)
        if text is None or text.startswith("!!"):
            return text
        first_path = self.last_path
        self.ctx.count("repeat-call")
        # nothing touches the inputs between the two calls: the digests taken after the first are those before the second
        again = self.write_once(writer, inputs, case, path_key, _before=self.after_each, **kw)
        if again is None or not same_output(writer, text, again):
            self.ctx.violate(f"repeat-differs:{writer}", f"{writer} called twice on the same input in one process wrote two different "
                             f"files ({'raised ' + again[:80] if again and again.startswith('!!') else 'second differs'})", case)
        self.calls[writer] = self.calls.get(writer, 0) + 1
        # a sample of calls of every writer — never the first one of the process — against a fresh interpreter
        if self.fresh_done.get(writer, 0) < self.fresh_per_writer and self.calls[writer] % 11 == 3:
            self.fresh_done[writer] = self.fresh_done.get(writer, 0) + 1
            self.ctx.count(f"fresh-interpreter:{writer}")
            fr = self.fresh(writer, inputs, kw, path_key)
            if fr is not None and not same_output(writer, text, fr):
                self.ctx.violate(f"fresh-differs:{writer}", f"{writer}: the file written in this process (after other writer calls) "
                                 f"differs from the file a fresh interpreter writes from the same input", case)
        self.last_path = first_path
        return text

    def check_module_state(self, writer: str, before: Dict[str, str], case) -> None:
        """a writer keeps nothing between calls: the module-level tables are the same after the call"""
        after = module_state(writer)
        self.ctx.count("module-state-snapshot")
        changed = sorted(k for k in set(before) | set(after) if before.get(k) != after.get(k))
        if changed:
            self.ctx.violate(f"module-state-mutated:{writer}", f"{writer} changed module-level state during a call (the next call in "
                             f"this process starts from different tables): {changed[:4]}", case)

    def write_once(self, writer: str, inputs: Dict[str, Any], case: Dict[str, Any], path_key: str = "file_path", _before=None, **kw) -> Optional[str]:
        from midgard import writers

        self.before_each = dict(_before) if _before is not None else {k: c16_canon.digest(v) for k, v in inputs.items()}
        before = self.before_each
        fp = self.path(writer)
        try:
            import importlib

            importlib.import_module(f"midgard.writers.{writer}")
        except Exception:
            pass
        mod_before = module_state(writer)
        try:
            with quiet():
                writers.write(writer, **{path_key: fp}, **inputs, **kw)
        except Exception as e:
            self.check_module_state(writer, mod_before, case)
            after = self.after_each = {k: c16_canon.digest(v) for k, v in inputs.items()}
            if before != after:
                self.ctx.violate(f"input-mutated:{writer}", f"{writer} changed the objects it was given (and raised)", case)
            name = type(e).__name__
            self.ctx.count(f"{writer}:raised:{name}")
            return f"!!{name}: {e}"
        self.check_module_state(writer, mod_before, case)
        after = self.after_each = {k: c16_canon.digest(v) for k, v in inputs.items()}
        if before != after:
            changed = [k for k in inputs if after.get(k) != before.get(k)]
            self.ctx.violate(f"input-mutated:{writer}", f"{writer} changed the objects it was given: {changed}"
                             + (f"; fields is now {inputs['fields']}" if "fields" in changed else ""), case)
        try:
            return fp.read_text()
        except FileNotFoundError:
            return "!!nofile"
        finally:
            self.last_path = fp


def module_state(writer: str) -> Dict[str, str]:
    """digests of the mutable module-level objects a writer could keep state in: containers among the globals of its
    module (and of writers/_writers.py), mutable default arguments of its functions, containers among the attributes of
    its classes"""
    out: Dict[str, str] = {}
    for modname in (f"midgard.writers.{writer}", "midgard.writers._writers"):
        mod = sys.modules.get(modname)
        if mod is None:
            continue
        for name, v in list(vars(mod).items()):
            if name.startswith("__"):
                continue
            if isinstance(v, (dict, list, set)):
                out[f"{modname}.{name}"] = c16_canon.digest(v)
            elif isinstance(v, type) and getattr(v, "__module__", None) == modname:
                for an, av in list(vars(v).items()):
                    if isinstance(av, (dict, list, set)):
                        out[f"{modname}.{name}.{an}"] = c16_canon.digest(av)
                    elif callable(av) or isinstance(av, (staticmethod, classmethod)):
                        fn = getattr(av, "__func__", av)
                        for i, dv in enumerate(getattr(fn, "__defaults__", None) or ()):
                            if isinstance(dv, (dict, list, set)):
                                out[f"{modname}.{name}.{an}.default{i}"] = c16_canon.digest(dv)
            elif callable(v) and getattr(v, "__module__", None) == modname:
                for i, dv in enumerate(getattr(v, "__defaults__", None) or ()):
                    if isinstance(dv, (dict, list, set)):
                        out[f"{modname}.{name}.default{i}"] = c16_canon.digest(dv)
    return out


def digests(inputs) -> Dict[str, str]:
    return {k: c16_canon.digest(v) for k, v in inputs.items()}


def near(a: float, b: float, prec: int) -> bool:
    if math.isnan(a) or math.isnan(b):
        return math.isnan(a) and math.isnan(b)
    return abs(Fraction(a) - Fraction(b)) <= Fraction(1, 2 * 10**prec) + Fraction(abs(b)) * Fraction(1, 2**50)


# -------------------------------------------------------------------------------------------------
# whole files: the Lean renderer against the writer's bytes, the Lean parser model against the library's parser


def header_texts(writer: str, text: str, agency: str, *more: str) -> Optional[List[str]]:
    """the replacement fields of `_get_header`, in order: the `solution` text (built here from the agency; only the
    digits of the date are taken from the file — they are the wall clock), the wall-clock stamp, then `more`"""
    line1 = text.split("\n", 1)[0]
    m = re.match(r"^(.{64}) (.*)$", line1)
    if not m:
        return None
    sol = f"{agency.upper()} solution"
    if writer in ("bernese_crd", "bernese_vel"):
        d = re.match(re.escape(sol) + r" (\d{8}) *$", m.group(1))
        if not d:
            return None
        sol = f"{sol} {d.group(1)}"
    return [sol, m.group(2), *more]


def file_vs_model(ctx, writer: str, cmd: str, case, text: str) -> None:
    """the whole file, byte for byte, against the Lean renderer (header cells + data lines)"""
    ans = ctx.driver.ask1(cmd)
    model = None if ans == "err" else bytes.fromhex(ans).decode("utf-8")
    ctx.count(f"file-bytes:{writer}")
    if model != text:
        ml, tl = (model or "").splitlines(keepends=True), text.splitlines(keepends=True)
        bad = next((j for j, (a, b) in enumerate(zip(ml, tl)) if a != b), min(len(ml), len(tl)))
        ctx.disagree(f"{writer} whole file (Lean renderer vs the writer's bytes)", {**case, "first_bad_line": bad},
                     None if model is None else ml[bad : bad + 2], tl[bad : bad + 2])


def real_rows(pname: str, path: Path, names: List[str], blank_filter: bool) -> Any:
    """`self.data` of a genfromtxt parser of the library, row by row (canonical), or the exception's name"""
    from midgard import parsers

    with quiet():
        try:
            p = parsers.parse_file(pname, path)
            data = p.data
        except Exception as e:
            return f"!!{type(e).__name__}"
    if not data or names[0] not in data:
        return []
    n = len(np.atleast_1d(data[names[0]]))
    rows = []
    for i in range(n):
        if blank_filter and str(np.atleast_1d(data["station"])[i]) == "":
            continue  # what as_dict skips
        row = []
        for nm in names:
            v = np.atleast_1d(data[nm])[i]
            if isinstance(v, (float, np.floating)):
                row.append("f:nan" if math.isnan(v) else ("f", float(v)))
            else:
                row.append("u:" + hexs(str(v)))
        rows.append(row)
    return rows


def model_rows(ctx, cmd: str, text: str) -> Any:
    ans = ctx.driver.ask1(f"c17 {cmd} {text.encode('utf-8').hex() or '.'}")
    if ans == "[]":
        return []
    rows = []
    for r in ans.split("|"):
        row = []
        for v in r.split(";"):
            if v.startswith("f:") and v != "f:nan":
                row.append(("f", float(Fraction(v[2:]))))  # the correctly rounded double of the exact decimal
            else:
                row.append(v)
        rows.append(row)
    return rows


def parser_vs_model(run, pname: str, cmd: str, names: List[str], case, text: str, path: Path, blank_filter: bool, rng, label: str = "") -> None:
    """the library's parser and the Lean parser model on the same bytes: the written file and, for a sample, variants
    of it that reach the other branches of the line handling (comment lines, trailing comments, blank lines, CRLF)"""
    ctx = run.ctx
    variants = [("written", text, path)]
    if rng.random() < 0.3:
        lines = text.splitlines(keepends=True)
        k = rng.choice(["comment-line", "trailing-comment", "blank-line", "crlf", "no-final-newline", "short-line"])
        at = rng.randint(min(len(lines), 6), len(lines))
        if k == "comment-line":
            lines.insert(at, "# a remark\n")
        elif k == "blank-line":
            lines.insert(at, rng.choice(["\n", "   \n"]))
        elif k == "trailing-comment" and at < len(lines):
            cut = rng.randint(0, len(lines[at]) - 1)
            lines[at] = lines[at][:cut] + "# cut" + lines[at][cut:]
        elif k == "crlf":
            lines = [l.replace("\n", "\r\n") for l in lines]
        elif k == "no-final-newline" and lines:
            lines[-1] = lines[-1].rstrip("\n")
        elif k == "short-line" and at < len(lines):
            lines[at] = lines[at][: rng.randint(1, len(lines[at]) - 1)] + "\n"
        vt = "".join(lines)
        vp = run.path(pname + "_variant")
        with open(vp, "w", newline="") as f:
            f.write(vt)
        variants.append((k, vt, vp))
    for k, vt, vp in variants:
        ctx.count(f"parser-model:{label or pname}:{k}")
        impl = real_rows(pname, vp, names, blank_filter)
        model = model_rows(ctx, cmd, vt)
        if impl != model:
            bad = next((j for j, (a, b) in enumerate(zip(model, impl)) if a != b), None) if isinstance(impl, list) else None
            ctx.disagree(f"{pname} parser vs Lean parser model ({k})", {**case, "variant": k, "first_bad_row": bad},
                         model[bad or 0 : (bad or 0) + 1], impl if not isinstance(impl, list) else impl[bad or 0 : (bad or 0) + 1])


# -------------------------------------------------------------------------------------------------
# Bernese CRD / VEL / CLU / ABB


def case_crd(run: Run, rng, vel: bool, si=None):
    ctx = run.ctx
    drv = ctx.driver
    from midgard import parsers

    if si is None:
        n = rng.choice([1, 2, 3, 5, 8, 20, 60])
        si = gen_site_info(rng, n, short_keys=0.25)  # station codes of 1-3 characters next to the usual 4
        if rng.random() < 0.3:
            # ... and then updated site information for the same station codes, in the same process
            case_crd(run, rng, vel, si)
            ctx.count("updated-site-info")
            si = gen_site_info(rng, 0, keys=list(si))
    write_nan = rng.random() < 0.4
    writer = "bernese_vel" if vel else "bernese_crd"
    # a share of inputs *outside* the property's quantifier (and outside the range predicate of crd_file_roundtrip): they
    # reach the overflow / comment / blank-entry paths of the renderer and parser models; compared with the real code,
    # not judged by the oracle
    beyond = None
    with_coord = [k for k, d in si.items() if d["site_coord"].get("last") is not None]
    if with_coord and rng.random() < 0.12:
        beyond = rng.choice(["coord-overflow", "long-domes", "hash-domes", "long-key", "blank-key"])
        k = rng.choice(with_coord)
        c = si[k]["site_coord"]["last"]
        if beyond == "coord-overflow":
            big = rng.choice([1, -1]) * 10.0 ** rng.randint(9, 12) * rng.uniform(1, 9)
            if vel:
                c.vel[rng.randint(0, 2)] = big
            else:
                setattr(c.pos.trs, rng.choice("xyz"), big)
        elif beyond == "long-domes":
            si[k]["identifier"].domes = "12345M00123X"[: rng.randint(10, 12)]
        elif beyond == "hash-domes":
            si[k]["identifier"].domes = rng.choice(["1#337M001", "#", "10337M0#"])
        elif beyond == "long-key":
            si = {(kk + "x" if kk == k else kk): v for kk, v in si.items()}
        elif beyond == "blank-key" and "    " not in si:
            si = {("    " if kk == k else kk): v for kk, v in si.items()}
        ctx.count(f"{writer}-beyond-range:{beyond}")
    epoch = rng.choice([None, datetime(2010, 1, 1), datetime(2023, 6, 1, 12, 30, 15)])
    datum = rng.choice(["IGb14", "IGS20", "ITRF2014", "UNKNOWN"])
    ctx.count("crd-vel-short-codes", sum(1 for k in si if len(k) < 4))
    case = {"writer": writer, "stations": {k: [None if d["site_coord"].get("last") is None else
                                               ([float(v) for v in d["site_coord"]["last"].vel] if vel else
                                                [d["site_coord"]["last"].pos.trs.x, d["site_coord"]["last"].pos.trs.y, d["site_coord"]["last"].pos.trs.z]),
                                               d["identifier"].domes, d["identifier"].tectonic_plate] for k, d in si.items()},
            "write_nan": write_nan, "epoch": str(epoch), "datum": datum}
    ctx.case(case, nontrivial=True)
    ctx.count(writer)
    inputs = {"site_info": si}
    if vel:
        text = run.write(writer, inputs, case, datum=datum, agency="nma", write_nan_site_vel=write_nan)
    else:
        text = run.write(writer, inputs, case, datum=datum, epoch=epoch, agency="nma", write_nan_site_coord=write_nan)
    model = unhex_lines(drv.ask1(f"c17 {'vel' if vel else 'crd'} {int(write_nan)} {stations_arg(si, vel)}"))
    if text.startswith("!!"):
        if model is not None:
            ctx.disagree(f"{writer} data lines", case, "lines", text[:120])
        # plates outside plate_def make the velocity writer raise: the writer does not accept that input
        return
    lines = text.splitlines(keepends=True)
    body = lines[6:]
    if model is None or body != model:
        ctx.disagree(f"{writer} data lines", case, model, body)
    # ---- the whole file against the Lean renderer
    ep_txt = epoch.strftime("%Y-%m-%d %H:%M:%S") if epoch else "UNKNOWN"
    ht = header_texts(writer, text, "nma", *([datum] if vel else [datum, ep_txt]))
    if ht is None:
        ctx.disagree(f"{writer} header line", case, "'<solution:64s> <stamp>'", lines[:1])
    else:
        file_vs_model(ctx, writer, f"c17 {'velfile' if vel else 'crdfile'} {','.join(hexs(t) for t in ht)} {int(write_nan)} "
                      f"{stations_arg(si, vel)}", case, text)
    if not vel:
        parser_vs_model(run, "bernese_crd", "crdparse", CRD_NAMES, case, text, run.last_path, False, rng)
        # the range predicate of the file-level theorem (crd_file_roundtrip) on this input: inside it the theorem promises
        # the read-back the oracle below demands from the real code
        in_range = ht is not None and drv.ask1(f"c17 crdrange {','.join(hexs(t) for t in ht)} {int(write_nan)} {stations_arg(si, vel)}") == "1"
        ctx.count("crd-roundtrip-range:" + ("inside" if in_range else "outside"))
    if vel and ht is not None:
        # the library has no VEL parser; its CRD parser reads the file (vel_file_roundtrip): parser vs Lean parser model
        parser_vs_model(run, "bernese_crd", "crdparse", CRD_NAMES, case, text, run.last_path, False, rng, label="bernese_crd-on-vel")
        in_range = drv.ask1(f"c17 velrange {','.join(hexs(t) for t in ht)} {int(write_nan)} {stations_arg(si, vel)}") == "1"
        ctx.count("vel-roundtrip-range:" + ("inside" if in_range else "outside"))
    if beyond:
        return
    # ---- oracle: columns kept, read-back
    widths = {len(l) for l in body}
    expected = {k: d for k, d in si.items() if d["site_coord"].get("last") is not None
                and (write_nan or not math.isnan((d["site_coord"]["last"].vel[0] if vel else d["site_coord"]["last"].pos.trs.x)))}
    if len(body) != len(expected):
        ctx.violate(f"{writer}:row-count", f"{len(expected)} stations with coordinates, {len(body)} lines written", case)
    if vel:
        # read-back through the CRD parser of the library (it reads the first seven columns of a *.VEL file)
        with quiet():
            try:
                vback = parsers.parse_file("bernese_crd", run.last_path).as_dict()
            except Exception as e:
                vback = None
                ctx.violate("bernese_vel:readback-raises", f"the bernese_crd parser cannot read the *.VEL file: {type(e).__name__}: {e}", case)
        if vback is not None:
            for k, d in expected.items():
                want = [float(v) for v in d["site_coord"]["last"].vel]
                b = vback.get(k)
                if b is None or not all(near(b[c], w, 5) for c, w in zip(("pos_x", "pos_y", "pos_z"), want)) or \
                        str(b["domes"]) != (d["identifier"].domes or "") or str(b["flag"]) != "A":
                    ctx.violate("bernese_vel:readback-values", f"{k}: wrote velocity {want}, the CRD parser reads {b}", case)
                    break
        # no matching parser in the library: the values are read off the text (blank-separated, as Bernese does)
        for l, (k, d) in zip(body, sorted(expected.items())):
            toks = l.split()
            nums = [t for t in toks if t.replace("nan", "0").lstrip("-").replace(".", "", 1).isdigit() and "." in t or t == "nan"]
            want = [float(v) for v in d["site_coord"]["last"].vel]
            if toks[1].lower() != k or len(nums) != 3 or not all(near(float(a), b, 5) for a, b in zip(nums, want)):
                ctx.violate("bernese_vel:values", f"{k}: velocity {want} written as {l.strip()!r}", case)
                break
    if not vel:
        if len(widths) > 1:
            ctx.violate("bernese_crd:column-overflow", f"data lines of different lengths {sorted(widths)}: a value left its columns", case)
        with quiet():
            try:
                p = parsers.parse_file("bernese_crd", run.last_path)
                back = p.as_dict()
                meta = p.meta
                err = None
            except Exception as e:
                back, err = None, f"{type(e).__name__}: {e}"
        if back is None:
            key = "bernese_crd:readback-raises" + (":no-epoch" if epoch is None else "")
            ctx.violate(key, f"the bernese_crd parser cannot read the file the bernese_crd writer produced "
                             f"(epoch={epoch}): {err}", case)
            return
        if set(back) != set(expected):
            ctx.violate("bernese_crd:readback-stations", f"stations written {sorted(expected)[:5]}… read back {sorted(back)[:5]}…", case)
            return
        for k, d in expected.items():
            c = d["site_coord"]["last"].pos.trs
            b = back[k]
            dom = d["identifier"].domes or ""
            if not (near(b["pos_x"], c.x, 5) and near(b["pos_y"], c.y, 5) and near(b["pos_z"], c.z, 5)):
                ctx.violate("bernese_crd:readback-values", f"{k}: wrote {(c.x, c.y, c.z)}, read {(b['pos_x'], b['pos_y'], b['pos_z'])}", case)
                break
            if str(b["domes"]) != dom or str(b["flag"]) != "A":
                ctx.violate("bernese_crd:readback-text", f"{k}: domes/flag wrote {(dom, 'A')}, read {(b['domes'], b['flag'])}", case)
                break
        if epoch is not None and (meta.get("ref_frame") != datum or meta.get("ref_epoch") != epoch.strftime("%Y-%m-%dT%H:%M:%S")):
            ctx.violate("bernese_crd:readback-header", f"datum/epoch wrote {(datum, epoch)}, read {(meta.get('ref_frame'), meta.get('ref_epoch'))}", case)


def case_clu_abb(run: Run, rng):
    ctx = run.ctx
    drv = ctx.driver
    from midgard import parsers

    n = rng.choice([1, 2, 4, 9, 30, 60])
    si = gen_site_info(rng, n)
    if rng.random() < 0.3 and getattr(run, "last_keys", None):
        # updated site information for station codes that were written before in this process
        ctx.count("updated-site-info")
        si = gen_site_info(rng, 0, keys=run.last_keys)
    run.last_keys = list(si)
    # a share of station codes outside the property's quantifier and outside cluInRange (model vs code only, no oracle)
    beyond = None
    if rng.random() < 0.1:
        beyond = rng.choice(["long-key", "hash-key", "blank-key", "inner-blank-key"])
        k = rng.choice(sorted(si))
        nk = {"long-key": k + "x", "hash-key": k[:2] + "#" + k[3:], "blank-key": "    ", "inner-blank-key": " " + k[1:]}[beyond]
        if nk not in si:
            si = {(nk if kk == k else kk): v for kk, v in si.items()}
            ctx.count(f"bernese_clu-beyond-range:{beyond}")
        else:
            beyond = None
    case = {"writer": "bernese_clu", "stations": sorted(si)}
    ctx.case(case, nontrivial=True)
    ctx.count("bernese_clu")
    text = run.write("bernese_clu", {"site_info": si}, case, agency="nma")
    model = unhex_lines(drv.ask1("c17 clu " + (",".join(hexs(k) for k in si) or "[]")))
    body = text.splitlines(keepends=True)[5:] if not text.startswith("!!") else None
    if body != model:
        ctx.disagree("bernese_clu data lines", case, model, body)
    if body is not None:
        ht = header_texts("bernese_clu", text, "nma")
        if ht is None:
            ctx.disagree("bernese_clu header line", case, "'<solution:64s> <stamp>'", text.splitlines()[:1])
        else:
            file_vs_model(ctx, "bernese_clu", f"c17 clufile {','.join(hexs(t) for t in ht)} " + (",".join(hexs(k) for k in si) or "[]"),
                          case, text)
        parser_vs_model(run, "bernese_clu", "cluparse", CLU_NAMES, case, text, run.last_path, True, rng)
        in_range = ht is not None and drv.ask1(f"c17 clurange {','.join(hexs(t) for t in ht)} " + (",".join(hexs(k) for k in si) or "[]")) == "1"
        ctx.count("clu-roundtrip-range:" + ("inside" if in_range else "outside"))
    if beyond:
        run.last_keys = None
        return
    if body is not None:
        with quiet():
            try:
                back = parsers.parse_file("bernese_clu", run.last_path).as_dict()
            except Exception as e:
                back = None
                ctx.violate("bernese_clu:readback-raises", f"bernese_clu parser cannot read the written file: {type(e).__name__}: {e}", case)
        if back is not None and (set(back) != set(si) or any(float(v["cluster"]) != 1.0 for v in back.values())):
            ctx.violate("bernese_clu:readback", f"wrote stations {sorted(si)[:6]} cluster 1, read {dict(list(back.items())[:3])}", case)
    # abbreviation file: no parser; layout conformance + uniqueness of the abbreviations
    case2 = {"writer": "bernese_abb", "stations": sorted(si)}
    ctx.case(case2, nontrivial=True)
    ctx.count("bernese_abb")
    text = run.write("bernese_abb", {"site_info": si}, case2, agency="nma")
    if text.startswith("!!"):
        ctx.violate("bernese_abb:raises", f"bernese_abb raised on {len(si)} ordinary station names: {text[:100]}", case2)
        return
    rows = [l for l in text.splitlines()[5:] if l.strip()]
    line_no = ROWLINE.get("bernese_abb")
    bad = [l for l, a in zip(rows, drv.ask([f"c17 conforms bernese_abb {line_no} {hexs(l + chr(10))}" for l in rows])) if a != "1"]
    if bad:
        ctx.disagree("bernese_abb lines vs regenerated layout", case2, "conforms", bad[:3])
    ids = [l[34:40].strip() for l in rows]
    names = [l[0:24].strip().lower() for l in rows]
    if sorted(names) != sorted(si) or len(set(ids)) != len(ids) or any(len(i) != 2 for i in ids):
        ctx.violate("bernese_abb:abbreviations", f"station names/2-character abbreviations not one-to-one: {list(zip(names, ids))[:8]}", case2)


ROWLINE: Dict[str, int] = {}
CRD_NAMES: List[str] = []
CLU_NAMES: List[str] = []


# -------------------------------------------------------------------------------------------------
# Bernese STA


def case_sta(run: Run, rng, si=None):
    ctx = run.ctx
    drv = ctx.driver
    from midgard import parsers

    if si is None:
        si = gen_site_info(rng, rng.choice([1, 2, 5, 12]), irregular=0.35)
        if rng.random() < 0.5:
            # the same station codes once more, with updated site information (other equipment periods)
            case_sta(run, rng, si)
            ctx.count("updated-site-info")
            si = gen_site_info(rng, 0, keys=list(si), irregular=0.35)
    hist = lambda d, kind: [[str(a), str(b)] for a, b in d[kind].history]
    case = {"writer": "bernese_sta", "stations": {k: {"periods": hist(d, "antenna"), "receiver": hist(d, "receiver"),
                                                       "eccentricity": hist(d, "eccentricity"),
                                                       "domes": d["identifier"].domes} for k, d in si.items()}}
    ctx.case(case, nontrivial=True)
    ctx.count("bernese_sta")
    n_irr = sum(1 for d in si.values() if not (list(d["antenna"].history) == list(d["receiver"].history) == list(d["eccentricity"].history)))
    ctx.count("sta-stations-own-histories", n_irr)
    ctx.count("sta-stations-interrupted", sum(1 for d in si.values() for kind in ("antenna", "receiver", "eccentricity")
                                                if any(p[1] < q[0] for p, q in zip(list(d[kind].history), list(d[kind].history)[1:]))))
    skip_fw = rng.random() < 0.5
    text = run.write("bernese_sta", {"site_info": si}, case, agency="nma", skip_firmware=skip_fw)
    if text.startswith("!!"):
        ctx.violate("bernese_sta:raises", f"bernese_sta raised: {text[:160]}", case)
        return
    lines = text.splitlines()
    sect: Dict[str, List[str]] = {}
    cur = None
    for l in lines:
        if l.startswith("TYPE 00"):
            cur = l[:8]
            sect[cur] = []
        elif cur and len(l) > 5 and l[:4].strip() and l[4] == " " and not l.startswith(("STATION", "****", "----")):
            sect[cur].append(l)
    for tname, tl in (("TYPE 001", STA_LINES[0]), ("TYPE 002", STA_LINES[1]), ("TYPE 003", STA_LINES[2])):
        sl = sect.get(tname, [])
        bad = [l for l, a in zip(sl, drv.ask([f"c17 conforms bernese_sta {tl} {hexs(l + chr(10))}" for l in sl])) if a != "1"]
        ctx.count("sta-lines-checked", len(sect.get(tname, [])))
        if bad:
            ctx.disagree(f"bernese_sta {tname} lines vs regenerated layout", case, "conforms", bad[:2])
    # ---- TYPE 002 lines byte for byte: the Lean model chooses the records (event dates, equipment valid at their start),
    #      the regenerated layout renders them
    T0 = datetime(1990, 1, 1)
    sec = lambda t: int((t - T0).total_seconds())
    fmt_t = lambda t: t.strftime("%Y %m %d %H %M %S")
    want_lines: Optional[List[str]] = []
    for k in sorted(si):
        d = si[k]
        rcv_l, ant_l, ecc_l = (list(d[kind].history.items()) for kind in ("receiver", "antenna", "eccentricity"))
        cls: Dict[Any, int] = {}
        h_arg = lambda items, key=None: ",".join(f"{sec(a)}:{sec(b)}:{cls.setdefault(key(o), len(cls)) if key else 0}"
                                                  for (a, b), o in items) or "[]"
        ans = drv.ask1(f"c17 starecords {int(skip_fw)} {h_arg(rcv_l, lambda o: (o.type, o.serial_number))} {h_arg(ant_l)} {h_arg(ecc_l)}")
        ctx.count("sta-records-model", 0 if ans == "[]" else ans.count(",") + 1)
        idn = d["identifier"]
        for rec in ([] if ans == "[]" else ans.split(",")):
            a, b, ri, ai, ei = (int(x) for x in rec.split(":"))
            rcv, ant, ecc = rcv_l[ri][1], ant_l[ai][1], ecc_l[ei][1]
            env = {"station": sval(k.upper()), "domes": sval("" if idn.domes is None else idn.domes), "flag": sval("001"),
                   "date_from": sval(fmt_t(T0 + timedelta(seconds=a))), "date_to": sval(fmt_t(T0 + timedelta(seconds=b))),
                   "rcv": sval(rcv.type), "rcv_serial": sval(rcv.serial_number),
                   "rcv_serial_short": sval(re.sub("[^0-9]", "", rcv.serial_number)[-6:]),
                   "ant": sval(ant.type), "radome": sval(ant.radome_type if ant.radome_type else "NONE"),
                   "ant_serial": sval(ant.serial_number),
                   "ant_serial_short": sval(re.sub("[^0-9]", "", ant.serial_number)[-6:] if ant.calibration else "999999"),
                   "north": val(ecc.north), "east": val(ecc.east), "up": val(ecc.up),
                   "description": sval(f"{idn.name}, {idn.country_code}" if idn.country_code else idn.name),
                   "remark": sval(rcv.firmware)}
            want_lines.append(";".join(f"{n}={v}" for n, v in env.items()))
    rendered = drv.ask([f"c17 row bernese_sta {STA_LINES[1]} {e}" for e in want_lines])
    model_002 = None if "err" in rendered else [bytes.fromhex(x).decode("utf-8").rstrip("\n") for x in rendered]
    if model_002 != sect.get("TYPE 002", []):
        real = sect.get("TYPE 002", [])
        bad = next((j for j, (x, y) in enumerate(zip(model_002 or [], real)) if x != y), min(len(model_002 or []), len(real)))
        ctx.disagree("bernese_sta TYPE 002 lines (records chosen by the Lean model, rendered with the regenerated layout)",
                     {**case, "first_bad_line": bad, "lines": [len(model_002 or []), len(real)]},
                     None if model_002 is None else model_002[bad : bad + 1], real[bad : bad + 1])
    # read-back with both parsers of the library: epochs, stations and numbers
    for pname in ("bernese_sta_v52", "bernese_sta"):
        with quiet():
            try:
                back = parsers.parse_file(pname, run.last_path).as_dict()
            except Exception as e:
                ctx.violate(f"bernese_sta:readback-raises:{pname}", f"{pname} cannot read the written file: {type(e).__name__}: {e}", case)
                continue
        if set(back) - set(si):
            ctx.violate(f"bernese_sta:readback-stations:{pname}", f"read stations {sorted(set(back) - set(si))} that were not written", case)
            continue
        # every equipment change at which receiver, antenna and eccentricity are all defined has its TYPE 002 line, and
        # there is no line that starts where one of them is not installed
        for k, d in si.items():
            want = sta_expected_starts(d, skip_fw)
            got = sorted(e["date_from"] for e in back.get(k, []))
            extra = [t for t in got if t not in want]
            if extra:
                undefined = [kind for kind in ("receiver", "antenna", "eccentricity") if sta_at(d[kind].history, extra[0]) is None]
                ctx.violate(f"bernese_sta:record-without-equipment:{pname}", f"{k}: a TYPE 002 record starts {extra[0]}, where the site "
                            f"information has no {'/'.join(undefined) or 'equipment change'} (histories: receiver {hist(d, 'receiver')}, "
                            f"antenna {hist(d, 'antenna')}, eccentricity {hist(d, 'eccentricity')})", case)
                return
            if got != want:
                ctx.violate(f"bernese_sta:readback-periods:{pname}", f"{k}: equipment changes with complete equipment at {[str(t) for t in want]} "
                            f"were given, TYPE 002 lines read back start {[str(t) for t in got]}", case)
                return
        for k, entries in back.items():
            d = si[k]
            for e in entries:
                t = e["date_from"]
                # the record claims its equipment for the whole interval [date_from, date_to): the site information must have
                # a receiver, an antenna and an eccentricity installed throughout (no interruption inside the interval)
                gap = [kind for kind in ("receiver", "antenna", "eccentricity") if not sta_covered(d[kind].history, t, e["date_to"])]
                if gap:
                    ctx.violate(f"bernese_sta:record-spans-interruption:{pname}", f"{k}: the TYPE 002 record {t} - {e['date_to']} claims "
                                f"equipment for an interval in which the site information has no {'/'.join(gap)} all the time "
                                f"(histories: receiver {hist(d, 'receiver')}, antenna {hist(d, 'antenna')}, eccentricity "
                                f"{hist(d, 'eccentricity')})", case)
                    return
                def at(h):
                    for (a, b), o in sorted(h.items()):
                        if a <= t < b:
                            return o
                rcv, ant, ecc = at(d["receiver"].history), at(d["antenna"].history), at(d["eccentricity"].history)
                ok = rcv is not None and ant is not None and ecc is not None
                ok = ok and e["receiver_type"] == rcv.type[:20] and e["antenna_type"] == ant.type[:15]
                ok = ok and near(e["eccentricity_north"], ecc.north, 4) and near(e["eccentricity_east"], ecc.east, 4) \
                    and near(e["eccentricity_up"], ecc.up, 4)
                ok = ok and e["domes"] == (d["identifier"].domes or "")[:9]
                ok = ok and e["radome_type"] == (ant.radome_type or "NONE")[:4] and e["receiver_serial_number"] == rcv.serial_number
                if pname == "bernese_sta_v52":
                    desc = f"{d['identifier'].name}, {d['identifier'].country_code}" if d["identifier"].country_code else d["identifier"].name
                    ok = ok and e["description"] == desc[:22].strip() and e["remark"] == rcv.firmware
                if not ok:
                    ctx.violate(f"bernese_sta:readback-values:{pname}", f"{k} from {t}: read {dict(list(e.items())[:14])}", case)
                    return


STA_LINES = [0, 0, 0]


def sta_at(history, t):
    """the entry of an equipment history that is valid at `t` (from <= t < to), None in an interruption"""
    for (a, b), o in sorted(history.items(), key=lambda kv: kv[0]):
        if a <= t < b:
            return o
    return None


def sta_covered(history, a, b) -> bool:
    """the entries of an equipment history cover [a, b) without interruption"""
    t = a
    while t < b:
        nxt = [q for (p, q) in history if p <= t < q]
        if not nxt:
            return False
        t = max(nxt)
    return True


def sta_expected_starts(d, skip_firmware: bool):
    """start dates of the TYPE 002 records the site information asks for: every equipment change (start of an entry of
    the receiver, antenna or eccentricity history; with skip_firmware not the receiver entries that repeat type and serial
    number of the entry before) at which a receiver, an antenna and an eccentricity are all installed; the end of the
    (last) eccentricity entry closes the last record"""
    ev = set()
    former = (None, None)
    for (a, b), o in d["receiver"].history.items():
        if skip_firmware:
            if (o.type, o.serial_number) == former:
                continue
            former = (o.type, o.serial_number)
        ev.add(a)
    ev |= {a for (a, b) in d["antenna"].history} | {a for (a, b) in d["eccentricity"].history}
    ev.add(list(d["eccentricity"].history)[-1][1])
    for kind in ("receiver", "antenna", "eccentricity"):  # the end of an entry after which the history does not go on
        starts = {a for (a, b) in d[kind].history}
        ev |= {b for (a, b) in d[kind].history if b not in starts}
    evs = sorted(ev)
    return [t for t in evs[:-1] if all(sta_at(d[kind].history, t) is not None for kind in ("receiver", "antenna", "eccentricity"))]


# -------------------------------------------------------------------------------------------------
# SINEX TMS


def O(d):
    """where the observation fields live: the `obs` collection, or the dataset itself (flat layout)"""
    return d.obs if "obs" in d.fields else d


def gen_tms_dataset(rng):
    """a time-series dataset: 1-3 stations (rows interleaved), fields either in the `obs` collection (the layout the
    sinex_tms parser produces and the writer works on directly) or flat (the writer converts a deep copy)"""
    from midgard.data import dataset
    from midgard.data.position import Position

    nsta = rng.choice([1, 1, 2, 3])
    pre = rng.choice(["obs.", "obs.", ""])
    n1 = rng.choice([1, 2, 3, 7, 30, 120, 400]) if rng.random() < 0.5 else rng.randint(1, 12)
    n1 = max(1, n1 // nsta)
    stas = []
    while len(stas) < nsta:
        k = "".join(rng.choice(ALNUM[:26]) for _ in range(4))
        if k not in stas:
            stas.append(k)
    t0 = datetime(2000 + rng.randint(0, 24), rng.randint(1, 12), rng.randint(1, 28))
    rows = []
    for si in range(nsta):
        days = list(range(n1 if si == 0 else max(1, n1 - rng.randint(0, 2))))
        rng.shuffle(days)  # unsorted epochs
        if len(days) > 2 and rng.random() < 0.15:
            days[1] = days[0]  # a repeated epoch
        rows += [(si, k) for k in days]
    rng.shuffle(rows)  # stations interleaved
    n = len(rows)
    d = dataset.Dataset(num_obs=n)
    # the time field in another scale than UTC, epochs a few seconds after midnight of that scale (their UTC day is the day
    # before: GPS-UTC = 18 s, TAI-UTC = 37 s)
    scale = rng.choice(["utc", "utc", "gps", "tai", "tt"])
    tod = rng.choice([0, 0, 5, 30, 60, 43200, 86340, 86395])  # within a minute of midnight on either side, noon
    if rng.random() < 0.2:
        t0 = datetime(t0.year, 12, rng.choice([30, 31]))  # … and across the end of a year
    d.add_time("time", val=[t0 + timedelta(days=k, seconds=tod) for _, k in rows], scale=scale, fmt="datetime")
    d.add_text("station", val=[stas[si] for si, _ in rows])
    bases = [np.array([gen_coord(rng, allow_nan=False) for _ in range(3)]) for _ in range(nsta)]
    big = rng.random() < 0.15
    xyz = np.array([bases[si] + np.array([rng.uniform(-0.05, 0.05) for _ in range(3)]) for si, _ in rows])
    if big:
        xyz = np.array([[gen_coord(rng, allow_nan=False) for _ in range(3)] for _ in range(n)])
    xyz = np.clip(xyz, -9_999_999.9999, 9_999_999.9999)
    pos_system = "trs"
    if not big and rng.random() < 0.25:
        # the station positions kept as latitude / longitude / height (points near the ellipsoid)
        pos_system = "llh"
        base_llh = [np.array([rng.uniform(-1.5, 1.5), rng.uniform(-3.1, 3.1), rng.uniform(-100.0, 3000.0)]) for _ in range(nsta)]
        llh_rows = np.array([base_llh[si] + np.array([rng.uniform(-1e-9, 1e-9), rng.uniform(-1e-9, 1e-9), rng.uniform(-0.05, 0.05)])
                             for si, _ in rows])
        d.add_position(pre + "site_pos", val=llh_rows, system="llh")
    else:
        d.add_position(pre + "site_pos", val=xyz, system="trs")
    which = []
    def addf(name, gen, unit="meter"):
        if rng.random() < 0.6:
            d.add_float(f"{pre}{name}", val=np.array([gen() for _ in range(n)]), unit=unit)
            which.append(name)
    sig = lambda: rng.choice([float("nan")] + [abs(rng.gauss(0, 0.002))] * 12 + [rng.uniform(0, 9999.9999)])
    corr = lambda: rng.uniform(-1, 1)
    for nm in ("site_pos_x_sigma", "site_pos_y_sigma", "site_pos_z_sigma"):
        addf(nm, sig)
    for nm in ("site_pos_xy_correlation", "site_pos_xz_correlation", "site_pos_yz_correlation"):
        addf(nm, corr, None)
    has_east = rng.random() < 0.6
    if has_east:
        ref = Position(val=np.array([bases[si] for si, _ in rows]), system="trs")
        if rng.random() < 0.4:
            # the reference position kept as latitude / longitude / height (the numbers of the array are not metres X, Y, Z);
            # points near the ellipsoid, where the conversion to X, Y, Z is exact far below the printed 0.1 mm
            llh = [np.array([rng.uniform(-1.5, 1.5), rng.uniform(-3.1, 3.1), rng.uniform(-100.0, 3000.0)]) for _ in range(nsta)]
            ref = Position(val=np.array([llh[si] for si, _ in rows]), system="llh")
        scale = rng.choice([0.05, 0.05, 5.0, 99999.0, 999999.0])
        enu = np.array([[rng.uniform(-scale, scale) for _ in range(3)] for _ in range(n)])
        if scale <= 5.0 and rng.random() < 0.3:
            # the displacements given as geocentric differences (the writer prints their east / north / up components)
            d.add_position_delta(pre + "dsite_pos", val=enu, system="trs", ref_pos=ref)
        else:
            d.add_position_delta(pre + "dsite_pos", val=enu, system="enu", ref_pos=ref)
        for nm in ("dsite_pos_east_sigma", "dsite_pos_north_sigma", "dsite_pos_up_sigma"):
            addf(nm, sig)
        d.meta["ref_epoch"] = "2010-01-01T00:00:00"
        d.meta["ref_frame"] = rng.choice(["IGb14", "IGS20"])
    for nm in ("code_obs_num", "phase_obs_num", "code_outlier_num", "phase_outlier_num"):
        addf(nm, lambda: float(rng.randint(0, 99999)), None)
    for nm in ("code_residual_rms", "phase_residual_rms"):
        addf(nm, lambda: rng.uniform(0, 9.9999))
    for nm in ("receiver_clock", "trop_zenith_total", "trop_zenith_total_sigma"):
        addf(nm, lambda: rng.uniform(-100, 100))
    d.meta["station"] = stas[0].upper()
    if rng.random() < 0.5:
        iv = ("2004-02-19T00:00:00", "2021-12-31T00:00:00")
        comps = rng.choice([("x", "y", "z"), ("e", "n", "u")])
        d.meta["vel"] = {"trend": {c: {iv: rng.uniform(-0.05, 0.05)} for c in comps},
                         "trend_sigma": {c: {iv: (i + 1) * 1e-5} for i, c in enumerate(comps)}}
    return d, stas, has_east


# What each TIMESERIES/DATA column *means* (written from the format description, independent of the writer's
# DATA_FIELD_TYPES table): used by the read-back oracle only.
TMS_MEANING = {
    "YYYY-MM-DD": lambda d, i: d.time.utc.datetime[i].strftime("%Y-%m-%d"),
    "YEAR": lambda d, i: d.time.utc.decimalyear[i],
    "X": lambda d, i: np.atleast_2d(np.asarray(O(d).site_pos.trs))[i][0], "Y": lambda d, i: np.atleast_2d(np.asarray(O(d).site_pos.trs))[i][1],
    "Z": lambda d, i: np.atleast_2d(np.asarray(O(d).site_pos.trs))[i][2],
    "SIG_X": lambda d, i: O(d).site_pos_x_sigma[i], "SIG_Y": lambda d, i: O(d).site_pos_y_sigma[i],
    "SIG_Z": lambda d, i: O(d).site_pos_z_sigma[i],
    "CORR_XY": lambda d, i: O(d).site_pos_xy_correlation[i], "CORR_XZ": lambda d, i: O(d).site_pos_xz_correlation[i],
    "CORR_YZ": lambda d, i: O(d).site_pos_yz_correlation[i],
    "EAST": lambda d, i: np.atleast_2d(np.asarray(O(d).dsite_pos.enu))[i][0], "NORTH": lambda d, i: np.atleast_2d(np.asarray(O(d).dsite_pos.enu))[i][1],
    "UP": lambda d, i: np.atleast_2d(np.asarray(O(d).dsite_pos.enu))[i][2],
    "SIG_E": lambda d, i: O(d).dsite_pos_east_sigma[i], "SIG_N": lambda d, i: O(d).dsite_pos_north_sigma[i],
    "SIG_U": lambda d, i: O(d).dsite_pos_up_sigma[i],
    "NOBSC": lambda d, i: O(d).code_obs_num[i], "NOBSP": lambda d, i: O(d).phase_obs_num[i],
    "NOUTC": lambda d, i: O(d).code_outlier_num[i], "NOUTP": lambda d, i: O(d).phase_outlier_num[i],
    "PRES_C": lambda d, i: O(d).code_residual_rms[i], "PRES_P": lambda d, i: O(d).phase_residual_rms[i],
    "RCV_CLK": lambda d, i: O(d).receiver_clock[i], "TROTOT": lambda d, i: O(d).trop_zenith_total[i],
    "SIG_TROTOT": lambda d, i: O(d).trop_zenith_total_sigma[i],
}
TMS_PRINTED = {"YEAR": 5, "NOBSC": 0, "NOBSP": 0, "NOUTC": 0, "NOUTP": 0}  # digits the format description promises (default 4)


def tms_value(dset, field: str, i: int):
    from operator import attrgetter

    if field.startswith("obs.") and "obs" not in dset.fields:
        field = field[4:]  # flat layout: the writer moves the field into `obs` on its own copy
    return np.atleast_1d(attrgetter(field)(dset))[i]  # (a one-row delta converted to another system loses its row dimension)


def case_tms(run: Run, rng, dft: List[Tuple[str, str]]):
    ctx = run.ctx
    run.regen = ("tms", rng.getstate())
    with quiet():
        d, stas, has_east = gen_tms_dataset(rng)
    ctx.count(f"tms-stations:{len(stas)}")
    ctx.count("tms-layout:" + ("obs" if "obs" in d.fields else "flat"))
    ctx.count("tms-site-pos-system:" + str(O(d).site_pos.system))
    ctx.count("tms-time-scale:" + str(d.time.scale) + ("/utc-day-differs" if d.time.utc.datetime[0].date() != d.time.datetime[0].date() else ""))
    if has_east:
        ctx.count("tms-dsite-pos-system:" + str(O(d).dsite_pos.system) + "/ref:" + str(O(d).dsite_pos.ref_pos.system))
    order = list(stas)
    rng.shuffle(order)
    # every station of the dataset is written from the same dataset object, one after the other
    for sta in order:
        tms_one_station(run, rng, dft, d, sta, has_east, len(stas))


def tms_one_station(run: Run, rng, dft, d, sta, has_east, nsta):
    ctx = run.ctx
    drv = ctx.driver
    from midgard import parsers

    raw_fields = list(d.fields)
    if "obs" in raw_fields:
        fields = raw_fields
    else:  # what the writer's own copy looks like after it has moved the plain fields into `obs`
        keep = ("domes", "flag", "station", "time")
        fields = ["obs"] + [f"obs.{f}" for f in raw_fields if f not in keep] + [f for f in raw_fields if f in keep]
    cols = drv.ask1("c17 tmscols " + ",".join(fields)).split(",")
    case = {"writer": "sinex_tms", "num_obs": d.num_obs, "fields": raw_fields, "station": sta, "stations": nsta,
            "times": [str(t) for t in d.time.utc.datetime[:6]], "site_pos": np.asarray(O(d).site_pos)[:3].tolist(),
            "vel": repr(d.meta.get("vel"))[:300]}
    ctx.case(case, nontrivial=True)
    ctx.count("sinex_tms")
    ctx.count(f"tms-epochs<={10 ** len(str(d.num_obs))}")
    inputs = {"dset": d}
    try:
        n_sta_rows = int(np.sum(np.asarray(d.filter(station=sta))))
    except Exception:
        n_sta_rows = -1
    if n_sta_rows <= 0:
        ctx.violate("sinex_tms:station-rows-lost", f"the dataset no longer has rows of station {sta} (it had when it was built): "
                    f"num_obs is now {d.num_obs}", case)
        return
    text = run.write("sinex_tms", inputs, case, station=sta, contact="a@b.no", data_agency="NMA", file_agency="NMA",
                     input_="daily solutions", organization="Kartverket", software="verif 1.0", version="001")
    if text.startswith("!!"):
        ctx.violate("sinex_tms:raises", f"sinex_tms raised: {text[:160]}", case)
        return
    lines = text.splitlines(keepends=True)
    # ---- blocks balanced (oracle) and as the model says
    markers = [l.rstrip("\n") for l in lines if l[:1] in "+-"]
    stack = []
    ok = True
    for m in markers:
        if m[0] == "+":
            if stack:
                ok = False
            stack.append(m[1:])
        else:
            if not stack or stack.pop() != m[1:]:
                ok = False
    if stack or not ok:
        ctx.violate("sinex_tms:blocks-unbalanced", f"block markers not balanced: {markers}", case)
    est = bool(d.meta.get("vel"))
    mm = drv.ask1(f"c17 blocks {int(est)} {int('solution_description' in d.meta)} {int('EAST' in cols)}")
    mlist = [bytes.fromhex(x).decode() for x in mm.split(" ")[0].split(",")]
    if mlist != markers:
        ctx.disagree("sinex_tms block order", case, mlist, markers)
    # ---- data block: header line and data lines byte for byte
    if "+TIMESERIES/DATA\n" not in lines or "-TIMESERIES/DATA\n" not in lines or \
            lines.index("-TIMESERIES/DATA\n") < lines.index("+TIMESERIES/DATA\n") + 2:
        ctx.violate("sinex_tms:block-missing", f"the written file has no complete TIMESERIES/DATA block: markers {markers}", case)
        return
    i0 = lines.index("+TIMESERIES/DATA\n")
    i1 = lines.index("-TIMESERIES/DATA\n")
    hdr, body = lines[i0 + 1], lines[i0 + 2 : i1]
    # ---- oracle: every quantity of the dataset the format has a column for is written (meaning table above, not the
    #      writer's own tables); the reference coordinate block is there when displacements are
    written_cols = [t[1:].rstrip("_") for t in hdr[1:].split() if t.startswith("_")]
    i_first = int(np.where(np.asarray(d.filter(station=sta)))[0][0])
    have = []
    for c, get in TMS_MEANING.items():
        try:
            get(d, i_first)
            have.append(c)
        except Exception:
            pass
    ctx.count(f"tms-columns:{len(have)}")
    missing = [c for c in have if c not in written_cols]
    if missing:
        ctx.violate("sinex_tms:columns-missing", f"the dataset has the quantities of columns {missing[:8]} but the written file has only the "
                    f"columns {written_cols} (earlier files of this process: {run.calls.get('sinex_tms', 0)})", case)
        return
    if has_east and "+TIMESERIES/REF_COORDINATE\n" not in lines:
        ctx.violate("sinex_tms:ref-coordinate-missing", "the dataset has displacements with a reference position but the written file "
                    f"has no TIMESERIES/REF_COORDINATE block: markers {markers}", case)
        return
    mh = drv.ask1("c17 tmshdr " + ",".join(cols))
    if mh == "err" or bytes.fromhex(mh).decode() + "\n" != hdr:
        ctx.disagree("sinex_tms column header line", case, mh, hdr)
    fieldof = dict(dft)
    idx_sta = np.where(np.asarray(d.filter(station=sta)))[0]
    t_us = [int((t - datetime(2000, 1, 1)).total_seconds()) for t in d.time.utc.datetime]
    eps = []
    for i in idx_sta:
        env = []
        for c in cols:
            v = tms_value(d, fieldof[c], i)
            env.append(f"{c}={sval(str(v)) if isinstance(v, str) else val(v)}")
        eps.append(f"{t_us[i]}@" + ";".join(env))
    in_range = drv.ask1(f"c17 tmsrange {','.join(cols)} {'|'.join(eps) or '[]'}") == "1"
    ctx.count("tms-data-roundtrip-range:" + ("inside" if in_range else "outside"))
    model = unhex_lines(drv.ask1(f"c17 tmsdata {','.join(cols)} {'|'.join(eps) or '[]'}"))
    model = None if model is None else [l + "\n" for l in model]
    if model != body:
        bad = next((j for j, (a, b) in enumerate(zip(model or [], body)) if a != b), None)
        ctx.disagree("sinex_tms TIMESERIES/DATA lines", {**case, "first_bad_line": bad},
                     None if model is None else model[bad or 0 : (bad or 0) + 2], body[bad or 0 : (bad or 0) + 2])
    # ---- ref coordinate line against the regenerated layout
    if "EAST" in cols and "+TIMESERIES/REF_COORDINATE\n" in lines:
        j = lines.index("+TIMESERIES/REF_COORDINATE\n")
        rl = lines[j + 2]
        if drv.ask1(f"c17 conforms sinex_tms {TMS_REF_LINE} {hexs(rl)}") != "1":
            ctx.disagree("sinex_tms REF_COORDINATE line vs regenerated layout", case, "conforms", rl)
    # ---- oracle: columns kept (as many blank-separated tokens as columns), read-back through the parser
    from midgard.writers import sinex_tms as wmod

    for li, l in enumerate(body):
        if len(l.split()) != len(cols):
            # which cell is full?  (the writer's own DATA_TYPES table, formatted by Python itself)
            src = sorted(range(len(idx_sta)), key=lambda k: t_us[idx_sta[k]])[li]
            full = []
            for c in cols[1:]:
                fmt = wmod.DATA_TYPES[c].format
                w = int(fmt.split(".")[0].rstrip("sdf"))
                v = tms_value(d, fieldof[c], idx_sta[src])
                if len(f"{{:{fmt}}}".format(v).strip()) >= w:
                    full.append(f"{c}={v!r} as {fmt}")
            culprit = full[0].split("=")[0] if full else "?"
            ctx.violate(f"sinex_tms:column-overflow:{culprit}", f"TIMESERIES/DATA line has {len(l.split())} blank-separated values for "
                        f"{len(cols)} columns: the cell of {', '.join(full)[:200]} has no blank left and runs into its neighbour: "
                        f"{l.strip()[:140]}", case)
            return
    with quiet():
        try:
            p = parsers.parse_file("sinex_tms", run.last_path)
            back = p.as_dict()
        except Exception as e:
            ctx.violate("sinex_tms:readback-raises", f"sinex_tms parser cannot read the written file: {type(e).__name__}: {e}", case)
            return
    ts = back.get("timeseries_data", {})
    order = sorted(range(len(idx_sta)), key=lambda k: t_us[idx_sta[k]])
    first_of = {}
    for k in range(len(idx_sta)):
        first_of.setdefault(t_us[idx_sta[k]], idx_sta[k])
    for c in cols:
        got = ts.get(c.lower())
        if got is None or len(np.atleast_1d(got)) != len(order):
            ctx.violate("sinex_tms:readback-shape", f"column {c}: wrote {len(order)} epochs, read {None if got is None else len(np.atleast_1d(got))}", case)
            return
        prec = DT_PREC.get(c)
        for r, k in enumerate(order):
            src = first_of[t_us[idx_sta[k]]]
            if c not in TMS_MEANING:
                continue
            want = TMS_MEANING[c](d, src)
            prec = TMS_PRINTED.get(c, 4)
            g = np.atleast_1d(got)[r]
            if isinstance(want, str):
                if str(g) != want:
                    ctx.violate("sinex_tms:readback-values", f"column {c} row {r}: wrote {want!r} read {g!r}", case)
                    return
            elif not near(float(g), float(want), prec if prec is not None else 4):
                ctx.violate("sinex_tms:readback-values", f"column {c} row {r}: wrote {float(want)!r} read {float(g)!r}", case)
                return
    # ---- the same through as_dataset(): every observation field of the written dataset comes back under its own name
    #      (the parser's column -> field table has to agree with the writer's field -> column table)
    with quiet():
        try:
            ds = p.as_dataset()
        except Exception as e:
            ds = None
            ctx.violate("sinex_tms:as-dataset-raises", f"sinex_tms parser: as_dataset() of the written file raises {type(e).__name__}: {e}", case)
    if ds is not None:
        GNSS = ("code_obs_num", "phase_obs_num", "code_outlier_num", "phase_outlier_num", "code_residual_rms", "phase_residual_rms")
        names = [f.split(".")[-1] for f in raw_fields if f.split(".")[-1] not in ("obs", "time", "station", "site_pos", "dsite_pos", "domes", "flag")]
        for nm in names:
            try:
                wrote = np.asarray(getattr(O(d), nm), dtype=float)
            except Exception:
                continue
            if f"obs.{nm}" not in ds.fields:
                if nm in GNSS:
                    ctx.violate("sinex_tms:dataset-field-lost", f"the written dataset has obs.{nm}, the dataset read back has only "
                                f"{[f for f in ds.fields if f.startswith('obs.')][:12]}", case)
                    return
                continue
            got = np.asarray(ds[f"obs.{nm}"], dtype=float)
            want = [float(wrote[first_of[t_us[idx_sta[k]]]]) for k in order]
            prec = 0 if nm.endswith("_num") else 4
            ctx.count("tms-dataset-fields-compared")
            if len(got) != len(want) or not all(near(float(g), w, prec) for g, w in zip(got, want)):
                ctx.violate("sinex_tms:dataset-readback", f"obs.{nm}: wrote {want[:4]}, as_dataset() of the written file has "
                            f"{got[:4].tolist()} under that name", case)
                return
    if "EAST" in cols:
        rc = back.get("ref_coordinate", {})
        ref = np.asarray(O(d).dsite_pos.ref_pos.trs)[idx_sta][0]  # geocentric X, Y, Z whatever system it is kept in
        ctx.count("tms-ref-pos-system:" + str(O(d).dsite_pos.ref_pos.system))
        if not (near(float(rc.get("ref_x", "nan")), ref[0], 4) and near(float(rc.get("ref_y", "nan")), ref[1], 4)
                and near(float(rc.get("ref_z", "nan")), ref[2], 4) and str(rc.get("system")) == d.meta["ref_frame"]
                and str(rc.get("site_code")).lower() == sta):
            ctx.violate("sinex_tms:readback-ref-coordinate", f"reference coordinate wrote {ref.tolist()} {d.meta['ref_frame']}, read {rc}", case)
    # ---- SOLUTION/ESTIMATE: every written value/sigma is the one of its own component (no matching parser: checked
    #      on the text with the writer's own column ruler)
    if est and ("+SOLUTION/ESTIMATE\n" not in lines or "-SOLUTION/ESTIMATE\n" not in lines):
        ctx.violate("sinex_tms:block-missing", f"trend estimates were given but the file has no SOLUTION/ESTIMATE block: markers {markers}", case)
    elif est:
        j0, j1 = lines.index("+SOLUTION/ESTIMATE\n"), lines.index("-SOLUTION/ESTIMATE\n")
        for l in lines[j0 + 2 : j1]:
            toks = l.split()
            if len(toks) != 10:
                ctx.violate("sinex_tms:estimate-columns", f"SOLUTION/ESTIMATE line does not have its 10 fields: {l.strip()}", case)
                break
            typ, valtxt, sigtxt = toks[1], toks[8], toks[9]
            comp = typ.split("_")[1].lower()
            trend = d.meta["vel"]["trend"].get(comp)
            tsig = d.meta["vel"]["trend_sigma"].get(comp)
            if trend is None:
                continue
            wv, ws = list(trend.values())[0], list(tsig.values())[0]
            if abs(float(valtxt) - wv) > 1e-15 * max(1, abs(wv)) + 1e-17 or abs(float(sigtxt) - ws) > 1e-6 * abs(ws) + 1e-12:
                ctx.violate(f"sinex_tms:estimate-sigma:{typ}", f"SOLUTION/ESTIMATE {typ}: meta has value {wv} sigma {ws}, the file says {valtxt} {sigtxt}", case)


DT_PREC: Dict[str, Optional[int]] = {}
TMS_REF_LINE = 0


# -------------------------------------------------------------------------------------------------
# GAMIT apr/eq, GAMIT station.info, GipsyX site information (no matching parser in the library: the values are read
# off the written text; lines are compared with the regenerated layouts / the model's rendering)


class SiteCoordList(list):
    """`site_info[sta]["site_coord"]`: iterable of coordinate entries with a `source_path`"""

    source_path = "/x/itrf2014.snx"


class EccHistory(dict):
    """`site_info[sta]["eccentricity"]` of the GAMIT station.info writer: `.get(date)`"""


def gen_gamit_site_info(rng, n: int) -> Dict[str, Any]:
    used: set = set()
    si: Dict[str, Any] = {}
    for _ in range(n):
        k = gen_key(rng, used)
        t0 = datetime(1995 + rng.randint(0, 20), rng.randint(1, 12), rng.randint(1, 28), rng.choice([0, 12]), rng.choice([0, 30]), 0)
        cuts = sorted({t0 + timedelta(days=rng.randint(30, 3000), hours=rng.randint(0, 23)) for _ in range(rng.randint(0, 3))})
        bounds = [t0] + cuts + [datetime(2099, 12, 31)]
        periods = list(zip(bounds[:-1], bounds[1:]))
        scl = SiteCoordList()
        for (a, b) in periods:
            small = lambda s: rng.choice([0.0, round(rng.uniform(-s, s), rng.randint(3, 7)), rng.uniform(-s, s)])
            scl.append(NS(station=k, pos=[gen_coord(rng, allow_nan=False) for _ in range(3)], pos_sigma=[abs(small(0.9)) for _ in range(3)],
                          vel=[small(0.09) for _ in range(3)], vel_sigma=[abs(small(0.009)) for _ in range(3)],
                          ref_epoch=rng.choice([None, NS(decimalyear=2010.0), NS(decimalyear=rng.uniform(1995, 2025))]),
                          system=rng.choice(["ITRF2014", "IGS20"]), source="snx", date_from=a, date_to=b))
        ants = [NS(type=rng.choice(["TRM57971.00", "LEIAT504GG", "ASH701945D_M"]), serial_number=rng.choice(["1551009151", "CR520020903", "99390"]),
                   radome_type=rng.choice(["NONE", "TZGD", None]), reference_point=rng.choice(["BAM", "BCR", "BDG", "TOP", "XXX"]),
                   date_from=a, date_to=b, source="snx") for (a, b) in periods]
        rcvs = [NS(type=rng.choice(["TRIMBLE NETR9", "LEICA GRX1200GGPRO", "SEPT POLARX5"]), serial_number=rng.choice(["5548R50598", "356103", "ZR520"]),
                   firmware=rng.choice(["5.22", "Nav 1.30", "9.20", "unknown", "4.17 Sig 0.00"]), date_from=a, date_to=b) for (a, b) in periods]
        ecc = EccHistory()
        for (a, b) in periods:
            if rng.random() < 0.8:
                e = NS(up=rng.choice([0.0, 0.0054, round(rng.uniform(0, 9), 4)]), east=rng.choice([0.0, round(rng.uniform(-9, 9), 4)]),
                       north=rng.choice([0.0, round(rng.uniform(-9, 9), 4)]))
                e.dpos = (e.east, e.north, e.up)
                ecc[a] = e
        si[k] = {"site_coord": scl, "antenna": ants, "receiver": rcvs, "eccentricity": ecc}
    return si


GAMIT_LINES: Dict[str, int] = {}


def case_gamit_apr(run: Run, rng):
    ctx = run.ctx
    drv = ctx.driver
    si = gen_gamit_site_info(rng, rng.choice([1, 2, 5, 12]))
    ref_frame = rng.choice(["IGb14", "IGS20"])
    case = {"writer": "gamit_apr_eq", "stations": {k: [[sc.pos, sc.vel, str(sc.date_from)] for sc in v["site_coord"]] for k, v in si.items()}}
    ctx.case(case, nontrivial=True)
    ctx.count("gamit_apr_eq")
    eq_path = run.path("gamit_eq")
    text = run.write("gamit_apr_eq", {"site_info": si}, case, path_key="apr_path", eq_path=eq_path, ref_frame=ref_frame)
    if text.startswith("!!"):
        ctx.violate("gamit_apr_eq:raises", f"gamit_apr_eq raised: {text[:160]}", case)
        return
    apr = text.splitlines(keepends=True)[3:]
    eq = eq_path.read_text().splitlines(keepends=True)
    nz = lambda v: float("nan") if not v else v  # `x or np.nan` in the writer: a zero is written as nan
    want_apr, want_eq, truth = [], [], []
    for sta, v in si.items():
        for num, sc in enumerate(v["site_coord"], 1):
            point = "GPS" if num == 1 else f"{num}PS" if num < 10 else f"{num}S"
            ident = f"{sc.station.upper()}_{point}"
            vals = {"ident": sval(ident), "x": val(nz(sc.pos[0])), "y": val(nz(sc.pos[1])), "z": val(nz(sc.pos[2])),
                    "vx": val(nz(sc.vel[0])), "vy": val(nz(sc.vel[1])), "vz": val(nz(sc.vel[2])),
                    "epoch": val(sc.ref_epoch.decimalyear if sc.ref_epoch else 0.0),
                    "x_sig": val(nz(sc.pos_sigma[0])), "y_sig": val(nz(sc.pos_sigma[1])), "z_sig": val(nz(sc.pos_sigma[2])),
                    "vx_sig": val(nz(sc.vel_sigma[0])), "vy_sig": val(nz(sc.vel_sigma[1])), "vz_sig": val(nz(sc.vel_sigma[2])),
                    "comment": sval(f"{sc.system} from {sc.source} (itrf2014)")}
            env = ";".join(f"{k}={x}" for k, x in vals.items())
            want_apr.append((env, ident, sc))
            want_eq.append(";".join(f"{k}={x}" for k, x in {"station.upper()": sval(sta.upper()), "ident": sval(ident),
                                                               "start": sval(sc.date_from.strftime("%Y %m %d %H %M")),
                                                               "end": sval(sc.date_to.strftime("%Y %m %d %H %M"))}.items()))
    a1 = drv.ask([f"c17 row gamit_apr_eq {GAMIT_LINES['apr1']} {e}" for e, _, _ in want_apr])
    a2 = drv.ask([f"c17 row gamit_apr_eq {GAMIT_LINES['apr2']} {e}" for e, _, _ in want_apr])
    a3 = drv.ask([f"c17 row gamit_apr_eq {GAMIT_LINES['eq']} {e}" for e in want_eq])
    model_apr = [None if "err" in (x, y) else bytes.fromhex(x).decode() + bytes.fromhex(y).decode() for x, y in zip(a1, a2)]
    model_eq = [None if x == "err" else bytes.fromhex(x).decode() for x in a3]
    if model_apr != apr:
        bad = next((j for j, (a, b) in enumerate(zip(model_apr, apr)) if a != b), None)
        ctx.disagree("gamit_apr_eq apr lines", {**case, "first_bad": bad}, model_apr[bad or 0 : (bad or 0) + 1], apr[bad or 0 : (bad or 0) + 1])
    if model_eq != eq:
        bad = next((j for j, (a, b) in enumerate(zip(model_eq, eq)) if a != b), None)
        ctx.disagree("gamit_apr_eq eq lines", {**case, "first_bad": bad}, model_eq[bad or 0 : (bad or 0) + 1], eq[bad or 0 : (bad or 0) + 1])
    # ---- oracle (no parser in the library): blank-separated fields, as GLOBK reads the apr file
    if len(apr) != len(want_apr) or len(eq) != len(want_apr):
        ctx.violate("gamit_apr_eq:row-count", f"{len(want_apr)} coordinate entries, {len(apr)} apr lines, {len(eq)} eq lines", case)
        return
    for l, le, (_, ident, sc) in zip(apr, eq, want_apr):
        t = l.split()
        nums = [nz(sc.pos[0]), nz(sc.pos[1]), nz(sc.pos[2]), nz(sc.vel[0]), nz(sc.vel[1]), nz(sc.vel[2])]
        sig = [nz(x) for x in list(sc.pos_sigma) + list(sc.vel_sigma)]
        ok = len(t) >= 14 and t[0] == ident
        ok = ok and all(near(float(a), b, 5) for a, b in zip(t[1:7], nums)) and all(near(float(a), b, 5) for a, b in zip(t[8:14], sig))
        ok = ok and near(float(t[7]), sc.ref_epoch.decimalyear if sc.ref_epoch else 0.0, 1)
        te = le.split()
        ok = ok and te[:3] == ["rename", sc.station.upper(), ident] and " ".join(te[3:8]) == sc.date_from.strftime("%Y %m %d %H %M") \
            and " ".join(te[8:13]) == sc.date_to.strftime("%Y %m %d %H %M")
        if not ok:
            ctx.violate("gamit_apr_eq:values", f"{ident}: wrote pos {sc.pos} vel {sc.vel} as {l.strip()[:150]!r} / {le.strip()!r}", case)
            return


def case_gamit_sta_gipsyx(run: Run, rng):
    ctx = run.ctx
    drv = ctx.driver
    # ---- GAMIT station.info
    si = gen_gamit_site_info(rng, rng.choice([1, 2, 5]))
    case = {"writer": "gamit_station_info", "stations": {k: [str(a.date_from) for a in v["antenna"]] for k, v in si.items()}}
    ctx.case(case, nontrivial=True)
    ctx.count("gamit_station_info")
    text = run.write("gamit_station_info", {"site_info": si}, case)
    if text.startswith("!!"):
        ctx.violate("gamit_station_info:raises", f"gamit_station_info raised: {text[:160]}", case)
    else:
        rows = text.splitlines()[3:]
        bad = [l for l, a in zip(rows, drv.ask([f"c17 conforms gamit_station_info {GAMIT_LINES['sta']} {hexs(l + chr(10))}" for l in rows])) if a != "1"]
        ctx.count("gamit-sta-lines-checked", len(rows))
        if bad:
            ctx.disagree("gamit_station_info lines vs regenerated layout", case, "conforms", bad[:2])
        want = sum(len(v["antenna"]) for v in si.values())
        got_sta = [l.split()[0].lower() for l in rows]
        if len(rows) != want or sorted(set(got_sta)) != sorted(si):
            ctx.violate("gamit_station_info:row-count", f"{want} equipment periods of {sorted(si)}, {len(rows)} lines for {sorted(set(got_sta))}", case)
        else:
            it = iter(rows)
            for k, v in si.items():
                for a, r in zip(v["antenna"], v["receiver"]):
                    l = next(it)
                    e = v["eccentricity"].get(a.date_from) or v["eccentricity"].get(a.date_to)
                    h, no, ea = (e.up, e.north, e.east) if e else (0, 0, 0)
                    # fixed columns of the GAMIT format: height, north, east
                    t = l.split("  ")
                    nums = [x for x in re.findall(r"(?<![\w.])-?\d+\.\d{4}(?![\w.])", l)]
                    if a.date_from.strftime("%Y %j %H %M %S") not in l or a.type not in l or r.type not in l or len(nums) < 3 or \
                            not (near(float(nums[0]), h, 4) and near(float(nums[1]), no, 4) and near(float(nums[2]), ea, 4)):
                        ctx.violate("gamit_station_info:values", f"{k} from {a.date_from}: height/north/east {(h, no, ea)} {a.type} {r.type} written as {l.strip()[:170]!r}", case)
                        return
    # ---- GipsyX site information (on the site-information stand-ins of the Bernese writers)
    si2 = gen_site_info(rng, rng.choice([1, 2, 4]))
    for d in si2.values():
        d["identifier"].country = d["identifier"].country_code
        if "last" in d["site_coord"]:
            d["site_coord"] = NS(history={})  # STATE lines have `e` cells, which the cell model does not cover
        else:
            d["site_coord"] = NS(history={})
        for (a, b), o in d["eccentricity"].history.items():
            o.station = "xxxx"
        for (a, b), o in d["antenna"].history.items():
            o.station = "xxxx"
    case2 = {"writer": "gipsyx_site_info", "stations": sorted(si2)}
    ctx.case(case2, nontrivial=True)
    ctx.count("gipsyx_site_info")
    text = run.write("gipsyx_site_info", {"site_info": si2}, case2)
    if text.startswith("!!"):
        ctx.violate("gipsyx_site_info:raises", f"gipsyx_site_info raised: {text[:160]}", case2)
        return
    lines = text.splitlines()[1:]
    ids = [l for l in lines if l[6:10] == "ID  "]
    rxs = [l for l in lines if l[6:13] == "RX     "]
    ants = [l for l in lines if l[6:13] == "ANT    "]
    bad = [l for l, a in zip(ids, drv.ask([f"c17 conforms gipsyx_site_info {GAMIT_LINES['gx_id']} {hexs(l + chr(10))}" for l in ids])) if a != "1"]
    bad += [l for l, a in zip(rxs, drv.ask([f"c17 conforms gipsyx_site_info {GAMIT_LINES['gx_rx']} {hexs(l + chr(10))}" for l in rxs])) if a != "1"]
    ctx.count("gipsyx-lines-checked", len(ids) + len(rxs))
    if bad:
        ctx.disagree("gipsyx_site_info lines vs regenerated layout", case2, "conforms", bad[:2])
    want_rx = sum(len(d["receiver"].history) for d in si2.values())
    want_ant = sum(len(d["antenna"].history) for d in si2.values())
    if len(ids) != len(si2) or len(rxs) != want_rx or len(ants) != want_ant or len(lines) != len(ids) + len(rxs) + len(ants):
        ctx.violate("gipsyx_site_info:row-count", f"{len(si2)} stations / {want_rx} receiver / {want_ant} antenna periods, written "
                    f"{len(ids)} ID, {len(rxs)} RX, {len(ants)} ANT of {len(lines)} lines", case2)
        return
    for k in sorted(si2):
        d = si2[k]
        mine = [l for l in lines if l[:6].strip().lower() == k]
        for (a, b), rcv in d["receiver"].history.items():
            if not any(l[6:13] == "RX     " and l[13:32] == a.strftime("%Y-%m-%d %H:%M:%S") and l[34:].startswith(rcv.type) and
                       l.rstrip().endswith(f"# {rcv.serial_number} {rcv.firmware}") for l in mine):
                ctx.violate("gipsyx_site_info:values", f"{k}: receiver {rcv.type} from {a} has no RX line", case2)
                return
        for (a, b), ant in d["antenna"].history.items():
            ecc = d["eccentricity"].history[(a, b)]
            hit = [l for l in mine if l[6:13] == "ANT    " and l[13:32] == a.strftime("%Y-%m-%d %H:%M:%S")]
            ok = len(hit) == 1 and hit[0][34:].startswith(f"{ant.type} {ant.radome_type or 'NONE'}")
            if ok:
                nums = re.findall(r"-?\d\.\d{6}e[+-]\d\d", hit[0])
                ok = len(nums) == 3 and all(abs(float(x) - y) <= 5e-7 * max(1.0, abs(y)) for x, y in zip(nums, (ecc.east, ecc.north, ecc.up)))
            if not ok:
                ctx.violate("gipsyx_site_info:values", f"{k}: antenna {ant.type} from {a} with eccentricity {(ecc.east, ecc.north, ecc.up)} written as {hit[:1]}", case2)
                return



# -------------------------------------------------------------------------------------------------
# csv_: the behaviours of pandas.read_csv the parser relies on (Model/WriterCsv.lean P1-P10), probed on the real pandas
# through the library's parser, and the Lean parser model against the parser on every written file

CSV_PROBES = [
    ("P1", "a,b;c\n1,2;3\n"), ("P1", 'a\n"x,y"\n'),
    ("P2", "a\n1\n-2\n+3\n"), ("P2", "a\n007\n10\n"), ("P2", "s\n123\n456\n"),
    ("P3", "a\n1.5\n2\nnan\n"), ("P3", "a\n-0.0\n1e3\n.5\n5.\n"), ("P3", "a,b\n1,x\nnan,y\n"),
    ("P4", "a\nx\n1\nNA\n"), ("P4", "d\n2015-10-05 18:07:24\n"),
    ("P5", "a,b\n,1\nx,2\n"), ("P5", "a,b\nNaN,1\nnull,2.5\n<NA>,3\n7,4\n"),
    ("P6", "a,b\nnan,1\nnan,2\n"), ("P6", "a,b\n"),
    ("P7", "a,b\n  x , 1 \n y,2\n"), ("P7", "a\n1 \n2\n"),
    ("P8", "a,b\n\n# c\n1,2 # t\n   \n3,4\n"),
    ("P9", "a,b\n1\n2,3\n"), ("P9", "a,b\n1,2,3\n"),
    ("P10", "a\n1\n2"), ("P10", "a,b\r\n1,2\r\n"),
    ("outside", "a\nTrue\nFalse\n"),
]


def csv_real(path: Path):
    """`self.data` of the csv_ parser, canonical: {name: (kind, values)}"""
    from midgard import parsers

    with quiet():
        try:
            data = parsers.parse_file("csv_", path).data
        except Exception as e:
            return f"!!{type(e).__name__}"
    out = {}
    for k, v in data.items():
        a = np.asarray(v)
        if a.dtype.kind == "i":
            out[k] = ("i", [int(x) for x in a])
        elif a.dtype.kind == "f":
            out[k] = ("f", [None if math.isnan(x) else float(x) for x in a])
        elif a.dtype.kind == "U":
            out[k] = ("s", [str(x) for x in a])
        else:
            out[k] = ("o", [])
    return out


def csv_model(ctx, text: str):
    ans = ctx.driver.ask1(f"c17 csvparse {text.encode('utf-8').hex() or '.'}")
    out = {}
    if ans == "[]":
        return out
    for item in ans.split(";"):
        name, col = item.split("=", 1)
        name = common.unhex(name)
        kind, vals = col[0], col[2:]
        parts = vals.split("/") if vals != "" or kind == "s" else []
        if kind == "i":
            out[name] = ("i", [int(x) for x in parts])
        elif kind == "f":
            out[name] = ("f", [None if x == "nan" else float(Fraction(x.replace("d", "/"))) for x in parts])
        elif kind == "s":
            out[name] = ("s", ["" if x in (".", "") else bytes.fromhex(x).decode("utf-8") for x in parts])
        else:
            out[name] = ("o", [])
    return out


def csv_same(a, b) -> bool:
    """the model holds the exact decimal; pandas' conversion is within the known 2^-44 (P3)"""
    if isinstance(a, str) or isinstance(b, str) or list(a) != list(b):
        return a == b
    for k in a:
        (ka, va), (kb, vb) = a[k], b[k]
        if ka != kb or len(va) != len(vb):
            return False
        if ka == "f":
            for x, y in zip(va, vb):
                if (x is None) != (y is None) or (x is not None and abs(x - y) > abs(x) * 2.0 ** -44):
                    return False
        elif va != vb:
            return False
    return True


def csv_probes(run) -> None:
    ctx = run.ctx
    for tag, text in CSV_PROBES:
        fp = run.path("csv_probe")
        with open(fp, "w", newline="") as f:
            f.write(text)
        impl, model = csv_real(fp), csv_model(ctx, text)
        ctx.count(f"csv-pandas-probe:{tag}")
        if not csv_same(model, impl):
            ctx.disagree(f"pandas assumption {tag} of the csv_ parser model", {"probe": text}, model, impl)


# -------------------------------------------------------------------------------------------------
# CSV


def gen_csv_inputs(rng):
    from midgard.data import dataset

    n = rng.choice([1, 2, 5, 40, 400]) if rng.random() < 0.4 else rng.randint(1, 9)
    d = dataset.Dataset(num_obs=n)
    t0 = datetime(2015 + rng.randint(0, 8), rng.randint(1, 12), rng.randint(1, 28), rng.randint(0, 23), rng.randint(0, 59), rng.randint(0, 59))
    offs = [rng.randint(0, 5) * 3600 * rng.randint(0, 30) for _ in range(n)]  # unsorted, with repeats
    times = [t0 + timedelta(seconds=o) for o in offs]
    with quiet():
        d.add_time("time", val=times, scale="gps", fmt="datetime")
        d.add_text("satellite", val=[rng.choice(["G01", "E11", "R24"]) for _ in range(n)])
        d.add_float("amplitude", val=np.array([rng.choice([float("nan"), rng.uniform(-500, 500), 0.125, 2.675, -0.005]) for _ in range(n)]))
        d.add_float("height", val=np.array([gen_coord(rng, allow_nan=False) for _ in range(n)]), unit="meter")
        d.add_float("nobs", val=np.array([float(rng.randint(-5, 900)) for _ in range(n)]))
    fields = {}
    if rng.random() < 0.8:
        fields["date"] = rng.choice(["s", "%s" if False else "s"])
    # '' is the documented way to ask for the default; a specifier with none of s/d/f ('.3e', 'g') falls back to it too
    fields["satellite"] = rng.choice(["s", "s", ""])
    if rng.random() < 0.8:
        fields["amplitude"] = rng.choice([".2f", ".3f", ".0f", "", ".3e", "g"])
    fields["height"] = rng.choice([".4f", ".1f"])
    if rng.random() < 0.5:
        fields["nobs"] = rng.choice([".0f", "d", ""])
    return d, fields, n, times


def case_csv(run: Run, rng):
    ctx = run.ctx
    drv = ctx.driver
    from midgard import parsers

    run.regen = ("csv", rng.getstate())
    d, fields, n, times = gen_csv_inputs(rng)
    case = {"writer": "csv_", "num_obs": n, "fields": dict(fields), "times": [str(t) for t in times[:8]],
            "amplitude": np.asarray(d.amplitude)[:8].tolist(), "height": np.asarray(d.height)[:8].tolist()}
    ctx.case(case, nontrivial=True)
    ctx.count("csv_")
    want_fields = dict(fields)
    # the format the writer is documented to use: s, d, f as given; anything else (incl. '') is the default 's'
    eff = {k: ("s" if "s" in f else "d" if "d" in f else f if "f" in f else "s") for k, f in want_fields.items()}
    dates = [t.strftime("%Y-%m-%d %H:%M:%S") for t in d.time.datetime]
    cols = {k: (dates if k == "date" else np.asarray(d[k]).tolist()) for k in want_fields}
    text = run.write("csv_", {"dset": d, "fields": fields}, case)
    if text.startswith("!!"):
        if "UnknownPluginError" in text:
            ctx.violate("csv_:not-registered", f"writers.write('csv_', …) cannot reach the CSV writer: {text[:160]}", case)
            # go on with the function itself so that the rest of the property is still examined
            from midgard.writers import csv_ as mod
            before = c16_canon.digest({"dset": d, "fields": fields})
            fp = run.path("csv_direct")
            try:
                with quiet():
                    mod.csv_(d, fp, fields)
            except Exception as e:
                ctx.violate("csv_:raises", f"csv_ raised {type(e).__name__}: {e}", case)
                return
            if c16_canon.digest({"dset": d, "fields": fields}) != before:
                what = []
                if fields != want_fields:
                    what.append(f"fields dict {want_fields} -> {fields}")
                if "date" in d.fields:
                    what.append("dataset gained a 'date' field")
                ctx.violate("input-mutated:csv_", f"csv_ changed the objects it was given: {'; '.join(what)}", case)
            text = fp.read_text()
            run.last_path = fp
        else:
            ctx.violate("csv_:raises", f"csv_ raised: {text[:160]}", case)
            return
    lines = text.splitlines()
    fm = ",".join("s" if f == "s" else ("d" if f == "d" else "f" + f[1:-1]) for f in eff.values())
    rows = []
    for i in range(n):
        vs = []
        for k, f in eff.items():
            v = cols[k][i]
            vs.append(sval(str(v)) if f == "s" else (f"i:{int(v)}" if f == "d" else val(v)))
        rows.append(f"{hexs(dates[i])}@" + ";".join(vs))
    model = unhex_lines(drv.ask1(f"c17 csv {fm} {'|'.join(rows)}"))
    if model != lines[1:]:
        bad = next((j for j, (a, b) in enumerate(zip(model or [], lines[1:])) if a != b), None)
        ctx.disagree("csv_ data lines", {**case, "first_bad": bad}, None if model is None else model[bad or 0 : (bad or 0) + 2],
                     lines[1:][bad or 0 : (bad or 0) + 2])
    # the parser's separator class against the model's line cutting: every data line gives one piece per field
    cut = drv.ask([f"c17 csvsplit {hexs(l)}" for l in lines[1:]])
    for l, a in zip(lines[1:], cut):
        pieces = ["" if x in (".", "") else bytes.fromhex(x).decode("utf-8") for x in a.split(",")]
        if pieces != re.split("[;,]", l):
            ctx.disagree("csv_ line cut at the parser's separators", case, pieces, re.split("[;,]", l))
            break
        if len(pieces) != len(want_fields):
            ctx.violate("csv_:separator-in-value", f"a data line has {len(pieces)} pieces for {len(want_fields)} fields: {l!r}", case)
            break
    ctx.count("csv-lines-cut", len(cut))
    if lines[0] != ",".join(want_fields):
        ctx.violate("csv_:header", f"header {lines[0]!r} for fields {list(want_fields)}", case)
    # the csv_ parser against its Lean model (pandas behaviours P1-P10) on the written file
    impl_csv, model_csv = csv_real(run.last_path), csv_model(ctx, text)
    ctx.count("parser-model:csv_:written")
    if not csv_same(model_csv, impl_csv):
        badk = [k for k in (impl_csv if isinstance(impl_csv, dict) else {}) if not csv_same({k: model_csv.get(k)} if k in model_csv else {}, {k: impl_csv[k]})]
        ctx.disagree("csv_ parser vs Lean parser model (written file)", {**case, "columns": badk[:4]},
                     {k: (model_csv[k][0], model_csv[k][1][:4]) for k in badk[:2] if k in model_csv},
                     impl_csv if isinstance(impl_csv, str) else {k: (impl_csv[k][0], impl_csv[k][1][:4]) for k in badk[:2]})
    # read-back
    with quiet():
        try:
            back = parsers.parse_file("csv_", run.last_path).as_dict()
        except Exception as e:
            ctx.violate("csv_:readback-raises", f"csv_ parser cannot read the written file: {type(e).__name__}: {e}", case)
            return
    order = sorted(range(n), key=lambda i: dates[i])
    for k, f in eff.items():
        if f == "s" and cols[k] and isinstance(cols[k][0], float):
            # a number printed with the default format (its shortest repr): reads back to the very same double
            got = back.get(k)
            if got is None and all(math.isnan(cols[k][i]) for i in order):
                continue
            same = lambda g, w: float(g) == w or (math.isnan(float(g)) and math.isnan(w))
            # pandas' python engine converts decimal text with its own routine, which is not correctly rounded: 1 ulp is
            # usual, 14 ulp were observed for 0.036287949387485696 (17 significant digits after leading zeros).  Everything
            # up to 2^-44 relative (256 ulp, eight orders of magnitude below a wrong printed digit) is the known finding
            # `csv_:readback-last-digit`; anything beyond is a wrong value.
            close = lambda g, w: same(g, w) or abs(float(g) - w) <= abs(w) * 2.0 ** -44
            if got is None or any(not close(g, cols[k][i]) for g, i in zip(got, order)):
                ctx.violate("csv_:readback-values", f"column {k} (default format): wrote {[cols[k][i] for i in order][:4]} read "
                            f"{None if got is None else list(got)[:4]}", case)
                return
            off = [(cols[k][i], float(g)) for g, i in zip(got, order) if not same(g, cols[k][i])]
            if off:
                worst = max(off, key=lambda p: abs(p[1] - p[0]) / math.ulp(p[0]))
                ctx.violate("csv_:readback-last-digit", f"column {k} (default format prints the shortest repr of the double): wrote "
                            f"{worst[0]!r}, the csv_ parser returns the neighbouring double {worst[1]!r} "
                            f"({abs(worst[1] - worst[0]) / math.ulp(worst[0]):.0f} ulp off)", case)
                return
        elif f == "s":
            got = [str(x) for x in back.get(k, [])]
            if got != [str(cols[k][i]) for i in order]:
                ctx.violate("csv_:readback-values", f"text column {k}: wrote {[cols[k][i] for i in order][:4]} read {got[:4]}", case)
                return
        else:
            prec = 0 if f == "d" else int(f[1:-1])
            got = back.get(k)
            if got is None:
                if all(math.isnan(cols[k][i]) for i in order):
                    continue  # an all-NaN column is dropped by the parser by design
                ctx.violate("csv_:readback-values", f"column {k} missing after read-back", case)
                return
            for r, i in enumerate(order):
                if not near(float(got[r]), float(cols[k][i]), prec):
                    ctx.violate("csv_:readback-values", f"column {k} row {r}: wrote {cols[k][i]!r} read {float(got[r])!r}", case)
                    return


# -------------------------------------------------------------------------------------------------


def run(ctx: Ctx, prove: bool = True):
    from translator import extract_writers, extract_writer_effects

    info = extract_writers.main()
    eff = extract_writer_effects.main()
    ctx.extra["writer_effect_sites"] = [list(r) for r in eff["effects"]]
    ctx.extra["writer_effect_roots"] = len(eff["roots"])
    ctx.extra["writer_effect_reach"] = [list(r) for r in eff["reach"]]
    if prove:
        ctx.proof = common.prove("C17")
    rng = ctx.rng
    for r in info["rows"]:
        ROWLINE.setdefault(r["writer"], r["line"])
    CRD_NAMES[:] = info["crd"]["names"]
    CLU_NAMES[:] = info["clu"]["names"]
    sta = [r["line"] for r in info["rows"] if r["writer"] == "bernese_sta"]
    STA_LINES[:] = sta[:3] if len(sta) >= 3 else [0, 0, 0]
    global TMS_REF_LINE
    tms_ref = [r["line"] for r in info["rows"] if r["writer"] == "sinex_tms" and any(c.get("name") == "ref_pos.trs.x" for c in r["cells"])]
    TMS_REF_LINE = tms_ref[0] if tms_ref else 0
    def line_with(writer, cell):
        ls = [r["line"] for r in info["rows"] if r["writer"] == writer and any(c.get("name") == cell for c in r["cells"])]
        return ls[0] if ls else 0
    GAMIT_LINES.update({"apr1": line_with("gamit_apr_eq", "vx"), "apr2": line_with("gamit_apr_eq", "x_sig"),
                        "eq": line_with("gamit_apr_eq", "start"), "sta": line_with("gamit_station_info", "height_code"),
                        "gx_id": line_with("gipsyx_site_info", "domes"), "gx_rx": line_with("gipsyx_site_info", "type_")})
    for k, sp in info["data_types"]:
        DT_PREC[k] = sp["prec"] if sp["prec"] >= 0 else None
    ctx.extra["rows_extracted"] = len(info["rows"])
    ctx.extra["duplicate_estimate_keys"] = info["estimate_duplicates"]
    ctx.trusted += ["np.savetxt (csv_), np.genfromtxt / pandas.read_csv (matching parsers) as used on the read-back side",
                    "floating-point: the model formats the exact value of the double the writer was given (ties to even); "
                    "read-back values are compared to half a unit of the printed precision",
                    "site-information inputs are duck-typed stand-ins (SimpleNamespace) with the attributes the writers read",
                    "gamit_apr_eq, gamit_station_info, gipsyx_site_info have no matching parser in the library: their files are "
                    "compared with the model (apr/eq lines byte for byte) or the regenerated layouts and read off the text"]
    ctx.assumptions += ["identifiers are ASCII; station keys have 4 characters (the width of the formats)",
                        "clock-dependent header lines are not compared"]
    ctx.rule = ("per case one writer on generated inputs, called twice (same input) and for a sample a third time in a fresh "
                "interpreter: 1-60 stations (CRD/VEL/CLU/ABB/STA/GAMIT/GipsyX: random 4-character keys incl. near-duplicates, "
                "coordinates typical/extreme (+-9 999 999.9999)/tiny/rounding ties/NaN, missing coordinates, missing/empty/"
                "9-character DOMES, 1-4 equipment periods; the same station codes again with updated site information) or 1-400 "
                "epochs (SINEX TMS/CSV: 1-3 stations interleaved in one dataset, obs.* or flat layout, every station written from "
                "the same object; unsorted and repeated epochs, optional sigma/correlation/ENU/GNSS columns, NaN, large "
                "displacements, optional trend estimates); a case is distinct by its canonical inputs")
    tmp = Path(tempfile.mkdtemp(prefix="c17-"))
    try:
        r = Run(ctx, tmp)
        r.last_path = None
        csv_probes(r)
        n = ctx.budget(640, 6800)
        dft = info["data_field_types"]
        for i in range(n):
            k = i % 6
            if i % 12 == 10:
                case_gamit_apr(r, rng)
            elif i % 12 == 11:
                case_gamit_sta_gipsyx(r, rng)
            elif k == 0:
                case_crd(r, rng, vel=False)
            elif k == 1:
                case_crd(r, rng, vel=True)
            elif k == 2:
                case_clu_abb(r, rng)
            elif k == 3:
                case_sta(r, rng)
            elif k == 4:
                case_tms(r, rng, dft)
            else:
                case_csv(r, rng)
            if i % 50 == 49:  # keep the temporary directory small
                for f in tmp.iterdir():
                    f.unlink()
        ctx.traces = ctx.evaluations
    finally:
        shutil.rmtree(tmp, ignore_errors=True)


def replay(payload):
    """re-run the generator with the recorded seed and tier (the inputs are a deterministic function of them) and
    report whether the recorded oracle failure occurs again on the tree under test"""
    import json

    c = payload.get("replay", payload)
    key = payload.get("key")
    print("key:", key)
    print("what:", payload.get("what"))
    print("recorded input:", json.dumps(c, indent=1, default=str)[:1500])
    ctx = Ctx("C17", payload.get("tier", "quick"), int(payload.get("seed", 0)))
    run(ctx, prove=False)
    if ctx._driver:
        ctx._driver.close()
    hit = [v for v in ctx.violations if v.key == key]
    if hit:
        print("VIOLATION reproduced:", hit[0].what[:400])
        return 1
    print("not reproduced with seed", payload.get("seed", 0), "tier", payload.get("tier", "quick"))
    return 0
